(* C05  Tokens partition the source and carry exact start positions.
   Statements only.  `lex_items` is the model of GoldLexer::lex that also keeps the skipped
   whitespace and the chunk of text each item consumed; `lex` (what the code returns) is its
   projection to tokens and errors. *)
From GoldV Require Import Base Tokens Keywords Lexer LexerProofs Unlex UnlexProofs UnlexImage.

(* what the implementation returns is the projection of the item list *)
Theorem C05_lex_is_projection :
  forall text, lex text = (tokens_of (lex_items text), errors_of (lex_items text)).
Proof. reflexivity. Qed.

(* Tokens come out in source order without overlap and nothing is lost: the chunks consumed by
   tokens, skipped whitespace and error characters, in output order, concatenate to the text. *)
Theorem C05_partition : forall text, concat (map chunk_of (lex_items text)) = text.
Proof. exact lex_partition. Qed.

(* Each token: its recorded offset is the length of the text before its chunk (so it points at
   its lexeme), the lexeme at that offset is the token's value (words, numbers, operators, #n),
   the opening quote (literals) or `;` followed by the value (comments); its start line and
   column are the true line and column of that offset -- for LF and CRLF texts, also after
   literals that span lines. *)
Theorem C05_token :
  forall text a t ch b, lex_items text = a ++ ITok t ch :: b ->
    let pre := concat (map chunk_of a) in
    text = pre ++ ch ++ concat (map chunk_of b) /\
    ch <> [] /\
    traw t = lenN pre /\
    rstart (trange t) = pos_of (line_col pre) /\
    lexeme_ok t ch.
Proof.
  intros text a t ch b H pre.
  split; [exact (lex_item_prefix text a _ b H)|].
  pose proof (lex_item_ok text a _ b H) as (H1 & H2 & H3 & H4 & _). auto.
Qed.

(* Every character not covered by a token is whitespace ... *)
Theorem C05_skipped_is_whitespace :
  forall text a ch b, lex_items text = a ++ IWs ch :: b -> forallb is_ws ch = true.
Proof. intros text a ch b H. exact (proj2 (lex_item_ok text a _ b H)). Qed.

(* ... or is reported as a lexical error located at that character. *)
Theorem C05_error_located :
  forall text a e ch b, lex_items text = a ++ IErr e ch :: b ->
    let pre := concat (map chunk_of a) in
    text = pre ++ [echar e] ++ concat (map chunk_of b) /\
    is_ws (echar e) = false /\
    rstart (erange e) = pos_of (line_col pre).
Proof.
  intros text a e ch b H pre.
  pose proof (lex_item_ok text a _ b H) as (H1 & H2 & H3).
  pose proof (lex_item_prefix text a _ b H) as Hp. simpl in Hp. rewrite H1 in Hp.
  split; [exact Hp|]. split; assumption.
Qed.

(* Word tokens are classified by the keyword table, and only by the upper-cased word. *)
Theorem C05_word_token_classified :
  forall text a t ch b, lex_items text = a ++ ITok t ch :: b ->
    is_word_start (hd 0 ch) = true -> tty t = classify ch /\ forallb is_word_char ch = true.
Proof.
  intros text a t ch b H.
  pose proof (lex_item_ok text a _ b H) as (_ & _ & _ & _ & _ & _ & H7). exact H7.
Qed.

Theorem C05_keyword_any_case : forall w w', upper w = upper w' -> classify w = classify w'.
Proof. exact classify_ci. Qed.

Theorem C05_keyword_spelling_recognised :
  forall k ty w, In (k, ty) kw_table -> upper w = k -> classify w = ty.
Proof. exact classify_spelling. Qed.

Theorem C05_identifier_never_keyword :
  forall w, classify w = kw_default <-> (forall ty, ~ In (upper w, ty) kw_table).
Proof. exact classify_identifier. Qed.

Theorem C05_keyword_only_for_spelling :
  forall w, classify w <> kw_default -> In (upper w, classify w) kw_table.
Proof. exact classify_keyword_only. Qed.

(* obligations on the table regenerated from create_word_token: keys are upper-case words, no arm
   yields the default (Identifier) type, no arm is shadowed by an earlier one *)
Theorem C05_kw_table_ok :
  kw_keys_upper = true /\ kw_no_default = true /\ kw_keys_words = true /\ kw_reachable = true.
Proof. exact kw_table_ok. Qed.

(* non-vacuity: a text with a keyword in mixed case, a multi-line literal, CRLF and a stray char *)
Example C05_nonvacuous :
  let text := [67;108;65;115;115; 32; 39;120;10;121;39; 13;10; 36; 102;111;111] in
  map (fun t => (tt_idx (tty t), traw t, pline (rstart (trange t)), pcol (rstart (trange t))))
      (fst (lex text))
  = [(tt_idx TClass, 0, 0, 0); (tt_idx TStringLiteral, 6, 0, 6); (tt_idx TIdentifier, 14, 2, 1)]
  /\ map (fun e => (echar e, pline (rstart (erange e)), pcol (rstart (erange e)))) (snd (lex text))
  = [(36, 2, 0)].
Proof. vm_compute. split; reflexivity. Qed.

(* ---------- the lexer is a left inverse of the printer (Model/Unlex.v) ----------
   For EVERY list of printable lexemes -- words classified as the lexer classifies them (keywords in any
   letter case, identifiers), numbers, every one- and two-character operator, `#`, string literals with ANY
   content (quotes and line breaks included; written single-quoted with doubled quotes) and comments --
   lexing the printed text gives exactly these lexemes back, in order, each at the offset where the printer
   put it, and reports no lexical error.  This is what makes the token-level theorems of C06 / C09 / C12
   statements about texts. *)
Theorem C05_lex_unlex : forall ts, forallb printable ts = true ->
  map lx_obs (fst (lex (unlex ts))) = ts /\ snd (lex (unlex ts)) = [] /\
  map traw (fst (lex (unlex ts))) = lx_offsets 0 ts.
Proof. exact lex_unlex. Qed.

(* one printed lexeme is lexed the same way in any context: any offset, any line state, any text after its
   separator *)
Theorem C05_lexeme_context_free : forall t off st rest, printable t = true ->
  exists st', step_of off st (spell t ++ lx_sep t :: rest) =
              Some (ITok (create_token st off (fst t) (snd t)) (spell t), st', lx_sep t :: rest).
Proof. exact lex_step_lexeme. Qed.

(* ... and conversely `printable` is exactly the image of the lexer: every token reported for ANY text is a
   printable lexeme, so printing the tokens of a text and lexing the print gives the same tokens (type and value)
   again, without a lexical error: a normal form of the text as far as the lexer can see *)
Theorem C05_lexemes_printable : forall text, forallb printable (map lx_obs (fst (lex text))) = true.
Proof. exact lexemes_printable. Qed.

Theorem C05_relex_normal_form : forall text,
  let lx := map lx_obs (fst (lex text)) in
  map lx_obs (fst (lex (unlex lx))) = lx /\ snd (lex (unlex lx)) = [].
Proof. exact relex_normal_form. Qed.

(*  class aX 'it''s<LF>x' ; note<LF> x := y1 << 2 <= 3.5 # foo ( )  *)
Example C05_unlex_nonvacuous :
  let ts := [(TClass, [67;108;65;115;115]); (TIdentifier, [97;88]); (TStringLiteral, [105;116;39;115;10;120]);
             (TComment, [32;110;111;116;101]); (TIdentifier, [120]); (TDeepAssign, [58;61]);
             (TIdentifier, [121;49]); (TLeftShift, [60;60]); (TNumericLiteral, [50]); (TLessThanOrEqual, [60;61]);
             (TNumericLiteral, [51;46;53]); (TPound, [35]); (TIdentifier, [102;111;111]); (TOBracket, [40]); (TCBracket, [41]);
             (TMinus, [45]); (TColon, [58])] in
  forallb printable ts = true /\
  unlex ts = [67;108;65;115;115;32; 97;88;32; 39;105;116;39;39;115;10;120;39;32; 59;32;110;111;116;101;10;
              120;32; 58;61;32; 121;49;32; 60;60;32; 50;32; 60;61;32; 51;46;53;32; 35;32; 102;111;111;32; 40;32; 41;32; 45;32; 58;32] /\
  printable (TIdentifier, [99;108;97;115;115]) = false /\      (* `class` is not an identifier *)
  printable (TPlus, [43;43]) = false /\                         (* `++` is not a plus *)
  printable (TComment, [97;10;98]) = false.                     (* a comment ends at the line end *)
Proof. vm_compute. repeat split; reflexivity. Qed.

Print Assumptions C05_lex_is_projection.
Print Assumptions C05_partition.
Print Assumptions C05_token.
Print Assumptions C05_skipped_is_whitespace.
Print Assumptions C05_error_located.
Print Assumptions C05_word_token_classified.
Print Assumptions C05_keyword_any_case.
Print Assumptions C05_keyword_spelling_recognised.
Print Assumptions C05_identifier_never_keyword.
Print Assumptions C05_keyword_only_for_spelling.
Print Assumptions C05_kw_table_ok.
Print Assumptions C05_nonvacuous.
Print Assumptions C05_lex_unlex.
Print Assumptions C05_lexeme_context_free.
Print Assumptions C05_unlex_nonvacuous.
Print Assumptions C05_lexemes_printable.
Print Assumptions C05_relex_normal_form.
