(* C17  Letter case of keywords and references never changes the analysis.
   "Re-casing any keyword, and any reference to a declared name (parent class, type, member, variable, used
    entity), leaves the tree shape, the outline, name resolution, completion, the type hierarchy and all
    diagnostics other than naming-convention ones unchanged."  (declarations left as written)

   Statements only; proofs in Proofs/Recase*.v.  Layers, each for ALL inputs:
     lexer     Proofs/RecaseLex.v      text_recased text text' : text' is text with the case of letters changed inside
                                       word tokens only (not in literals, comments, numbers)
     parser    Proofs/RecaseComb.v, RecaseGrammar.v, RecaseTop.v     binary logical relation SimP over every combinator
                                       and every grammar function, knot by induction on fuel (kind-parametricity)
     consumers Proofs/RecaseOutline.v, RecaseUnusedVar.v, RecaseLints.v   on node_sim trees
     semantic  Proofs/RecaseSummary.v  corollaries of the C18 / C10 / C11 / C13 / C19 developments
   Relations (Proofs/RecaseBase.v): ci_eq a b := upper a = upper b;  tok_sim: same kind, range, offset, values
   ci_eq and EQUAL unless the token is a word (identifier / keyword);  node_sim: same kind, offset, range, children
   shape, identifiers ci_eq, attributes tok_sim;  decl_exact: every declaring node spells its name identically
   ("declarations left as written");  dot_ok: no later operand of a `.` starts where the left one starts (true of
   every parsed tree: checked on every tree of the correspondence run; it was needed by the unused-variable rule
   before the repair of tools/c15_proposed_fix.diff only: C17_old_unused_var_guard_needed). *)
From GoldV Require Import Base Tokens Keywords Lexer LexerProofs AstKinds Tree Strings PComb Grammar.
From GoldV Require Import Outline UnusedVar Lints Recase RecaseBase RecaseLex RecaseComb RecaseGrammar RecaseTop.
From GoldV Require Import RecaseOutline RecaseUnusedVar RecaseLints RecaseSummary.
From GoldV Require Import SymTab SymTabProofs Scoping ScopingProofs ScopingWitness Forest ParentGraph ForestProofs Index IndexProofs.
From Coq Require String.

(* split conjunctions only (never tries eq_refl on a goal that would need computing a parse) *)
Ltac conj_split := repeat match goal with |- _ /\ _ => split end.

(* ===================================== LEXER ===================================== *)

(* a re-cased word has the same token KIND: keywords stay keywords of the same kind, identifiers stay
   identifiers; the value is the spelling as written; offsets and ranges are equal *)
Theorem C17_keyword :
  forall st off w w', forallb is_word_char w = true -> ci_eq w w' ->
    classify w' = classify w /\
    tok_sim (create_token st off (classify w) w) (create_token st off (classify w') w') /\
    tval (create_token st off (classify w') w') = w'.
Proof.
  intros st off w w' Hw E. split; [symmetry; apply classify_ci; exact E|].
  split; [apply word_token_recase; assumption|]. apply (word_token_kind st off w w' E).
Qed.

(* whole texts: the token lists are pairwise similar (same kind, range, offset; values equal ignoring case and
   EXACTLY equal for every token that is not a word), and the lexical errors are the same *)
Theorem C17_lexer :
  forall text text', text_recased text text' ->
    Forall2 tok_sim (fst (lex text)) (fst (lex text')) /\ snd (lex text') = snd (lex text).
Proof. exact lex_recased. Qed.

(* the relation on texts, stated with a mask: same length, and wherever the two texts differ the position
   lies inside a word token of the original text and the two characters are the two cases of one letter *)
Theorem C17_lexer_mask :
  forall text text', length text' = length text ->
    (forall k, nth k text' 0 <> nth k text 0 ->
       nth k (word_mask text) false = true /\ upc (nth k text' 0) = upc (nth k text 0)) ->
    text_recased text text'.
Proof. exact mask_recased. Qed.

(* words are ASCII: a non-ASCII character (U+017F long s, U+FB01 fi, U+212A Kelvin sign ...) is a lexical error,
   never part of a word; so create_word_token's Unicode to_uppercase only ever sees ASCII words, on which it
   coincides with the model's `upper`, and no look-alike can become a keyword or match a declared name *)
Theorem C17_non_ascii_never_in_a_word :
  (forall c, is_word_char c = true -> c < 128) /\
  (forall off st c r, 128 <= c -> exists e, lex_step off st c r = (IErr e [c], st, r)).
Proof. split; [exact word_char_ascii|exact non_ascii_is_error]. Qed.

Example C17_lexer_nonvacuous :
  text_recased ex_text ex_text' /\
  map tval (fst (lex ex_text)) = [[67;108;97;115;115]; [97;70;111;111]; [99;109;116]; [120]; [61]; [97;66]] /\
  map tval (fst (lex ex_text')) = [[99;76;65;83;83]; [65;70;79;79]; [99;109;116]; [88]; [61]; [97;66]] /\
  forall2b tok_simb (fst (lex ex_text)) (fst (lex ex_text')) = true /\
  map echar (snd (lex ex_text)) = [383] /\
  ~ text_recased ex_text ex_text_lit /\ ~ text_recased ex_text ex_text_cmt.
Proof.
  destruct lex_recased_example as (H1 & _ & H3 & H4 & _ & H6 & H7 & _ & _ & H10 & H11).
  conj_split; assumption.
Qed.

(* ===================================== TREE SHAPE ===================================== *)

(* kind-parametricity of the grammar: every recursive entry point, at every fuel level, maps similar inputs and
   contexts to similar results and contexts (the knot of the binary logical relation) *)
Theorem C17_grammar_kind_parametric :
  forall f, SimP node_sim (g_type (gram f)) (g_type (gram f)) /\ SimP node_sim (g_expr (gram f)) (g_expr (gram f)) /\
            SimP node_sim (g_primary (gram f)) (g_primary (gram f)) /\ SimP node_sim (g_stmt (gram f)) (g_stmt (gram f)).
Proof. exact gram_sim. Qed.

(* token level, any fuel, memoisation on or off: similar roots (or the same failure), identical diagnostics *)
Theorem C17_tree_shape_tokens :
  forall memo fuel ts ts', Forall2 tok_sim ts ts' ->
    res_sim node_sim (fst (parse_gold_with memo fuel ts)) (fst (parse_gold_with memo fuel ts')) /\
    cdiags (snd (parse_gold_with memo fuel ts)) = cdiags (snd (parse_gold_with memo fuel ts')).
Proof. exact parse_gold_sim. Qed.

(* text level, the document the manager builds (lex, parse_gold, lexer errors kept): both texts give a document;
   the trees have the same shape (kinds, offsets, ranges, children), identifiers and token values equal ignoring
   case; parser diagnostics and lexical errors are identical *)
Theorem C17_tree_shape :
  forall text text', text_recased text text' ->
    exists d d', document_of text = Some d /\ document_of text' = Some d' /\
      node_sim (pd_root d) (pd_root d') /\ pd_diags d = pd_diags d' /\ pd_lexerrs d' = pd_lexerrs d.
Proof. exact document_recased. Qed.

Example C17_tree_shape_nonvacuous :
  text_recased (s2l ow_text) (s2l ow_text') /\ ow <> ow' /\ node_simb ow ow' = true /\ decl_exactb ow ow' = true /\
  dot_ok ow = true /\ (length (nchildren ow) = 5)%nat.
Proof.
  split; [apply text_recasedb_iff; vm_compute; reflexivity|].
  split; [exact ow_differ|]. conj_split; vm_compute; reflexivity.
Qed.

(* ===================================== OUTLINE ===================================== *)

(* declarations as written: names, kinds, ranges, selection ranges and nesting are identical; the detail strings
   are equal ignoring case; and the whole outline is identical when the references it echoes are spelled alike *)
Theorem C17_outline :
  forall r r', node_sim r r' -> decl_exact r r' ->
    map norm_detail (outline r) = map norm_detail (outline r') /\
    Forall2 dsym_sim (outline r) (outline r') /\
    (detail_refs_exact r r' -> outline_run r = outline_run r').
Proof.
  intros r r' Hs Hd. split; [apply outline_decl_exact; assumption|].
  split; [apply outline_sim_list; assumption|]. intro He. apply outline_identical; assumption.
Qed.

(* ... but the literal clause "the outline is unchanged" is FALSE: a class's detail is its parent class as
   written, a field's detail its type, a function's detail its return type -- references, echoed as spelled *)
Theorem C17_outline_refuted :
  exists r r', node_sim r r' /\ decl_exact r r' /\ outline r <> outline r'.
Proof. exact outline_identical_refuted. Qed.

Example C17_outline_nonvacuous :
  node_sim ow ow' /\ decl_exact ow ow' /\ ow <> ow' /\ length (outline ow) = 1%nat /\
  map norm_detail (outline ow) = map norm_detail (outline ow') /\ outline ow <> outline ow' /\
  node_sim ow3 ow3' /\ decl_exact ow3 ow3' /\ detail_refs_exact ow3 ow3' /\ ow3 <> ow3' /\
  outline_run ow3 = outline_run ow3' /\ outline ow3 <> [].
Proof.
  destruct outline_sim_nonvacuous as (A1 & A2 & A3 & A4 & _ & A6).
  destruct outline_identical_refuted_fields as (_ & _ & B3).
  destruct outline_identical_nonvacuous as (C1 & C2 & C3 & C4 & C5 & _ & C7).
  conj_split; assumption.
Qed.

(* ===================================== DIAGNOSTICS ===================================== *)

(* the full report of a file: parser diagnostics and lexical errors (identical, no hypothesis), and -- declarations
   as written -- the unused-variable rule and ALL lint rules, the naming rules included (they read declarations
   only), as one request returns them *)
Theorem C17_diagnostics :
  forall text text', text_recased text text' ->
    exists d d', document_of text = Some d /\ document_of text' = Some d' /\
      pd_diags d = pd_diags d' /\ pd_lexerrs d' = pd_lexerrs d /\
      (decl_exact (pd_root d) (pd_root d') ->
         analyze_today (pd_root d) = analyze_today (pd_root d') /\
         lints (pd_root d) = lints (pd_root d') /\
         fst (request (fresh_doc (pd_root d))) = fst (request (fresh_doc (pd_root d')))).
Proof.
  intros text text' H. destruct (document_recased text text' H) as (d & d' & E & E' & Hs & Hp & Hl).
  exists d, d'. repeat (split; [assumption|]). intros Hd.
  destruct (report_exact _ _ Hs Hd) as (A & B & C & _). auto.
Qed.

(* on trees: every consumer at once *)
Theorem C17_diagnostics_tree :
  forall r r', node_sim r r' -> decl_exact r r' ->
    analyze_today r = analyze_today r' /\ lints r = lints r' /\
    fst (request (fresh_doc r)) = fst (request (fresh_doc r')) /\
    map norm_detail (outline r) = map norm_detail (outline r').
Proof. exact report_exact. Qed.

(* even when DECLARATIONS are re-cased too, the rules other than the naming rules give the same diagnostics, up to
   the letter case of the name they quote (return-type rule: identical) *)
Theorem C17_diagnostics_non_naming :
  forall r r', node_sim r r' ->
    Forall2 diag_sim (analyze_today r) (analyze_today r') /\
    ret_type_lint r = ret_type_lint r' /\
    Forall2 ldiag_sim (unpurged_lint r) (unpurged_lint r') /\
    Forall2 ldiag_sim (inherited_lint r) (inherited_lint r') /\
    Forall2 dsym_sim (outline r) (outline r').
Proof. exact report_sim. Qed.

(* the naming rules depend on declarations only (so they do not change either), and DO change when a declaration is
   re-cased: the reason the property exempts them *)
Theorem C17_naming_reads_declarations_only :
  forall a a', node_sim a a' -> decl_exact a a' -> naming_lint a = naming_lint a'.
Proof. exact naming_lint_decl_exact. Qed.

Theorem C17_naming_recased_declaration_refuted :
  exists a a', node_sim a a' /\ naming_lint a <> naming_lint a'.
Proof. exact naming_lint_recase_refuted. Qed.

(* the unused-variable rule as it was before the repair of tools/c15_proposed_fix.diff needed the guard dot_ok for
   arbitrary trees (is_left_node compared identifier AND start position); the rule as it is agrees on those trees *)
Theorem C17_old_unused_var_guard_needed :
  exists f f', node_sim f f' /\ decl_exact f f' /\
               analyze_old key_today f <> analyze_old key_today f' /\ analyze_today f = analyze_today f'.
Proof. exact unusedvar_old_dot_guard_needed. Qed.

(* the two rules as they were before /repo e5fd419 (unused variables) and ef936ba (purge) falsify the clause *)
Theorem C17_old_unused_var_rule_refuted :
  exists f f', node_sim f f' /\ decl_exact f f' /\ dot_ok f = true /\
               analyze_old (fun s => s) f <> analyze_old (fun s => s) f'.
Proof. exact unusedvar_exact_key_refuted. Qed.

Theorem C17_old_purge_rule_refuted :
  exists a a', node_sim a a' /\ decl_exact a a' /\ unpurged_lint_k key_exact a <> unpurged_lint_k key_exact a'.
Proof. exact unpurged_exact_key_refuted. Qed.

Example C17_diagnostics_nonvacuous :
  node_sim lw lw' /\ decl_exact lw lw' /\ lw <> lw' /\ lints lw = lints lw' /\
  ret_type_lint lw <> [] /\ unpurged_lint lw <> [] /\ inherited_lint lw <> [] /\ naming_lint lw <> [] /\
  node_sim uw uw' /\ decl_exact uw uw' /\ dot_ok uw = true /\ uw <> uw' /\
  analyze_today uw = analyze_today uw' /\ length (analyze_today uw) = 1%nat.
Proof.
  destruct lints_nonvacuous as (A1 & A2 & A3 & A4 & A5 & A6 & A7 & A8).
  destruct unusedvar_nonvacuous as (B1 & B2 & B3 & B4 & B5 & B6).
  conj_split; assumption.
Qed.

(* ===================================== NAME RESOLUTION ===================================== *)

(* the symbol tables (C18): every look-up ignores the case of the queried name *)
Theorem C17_symbol_table :
  forall c a b, upper a = upper b ->
    (reachable c -> get c a = get c b) /\
    search_wparent c a = search_wparent c b /\ search_all c a = search_all c b.
Proof.
  intros c a b E. split; [intro H; apply lookup_ci; [apply reachable_Inv; exact H|exact E]|].
  split; [apply search_wparent_ci; exact E|apply search_all_ci; exact E].
Qed.

(* go-to-definition (C10 model): the identifier, the class the request is made in and the class a member is looked
   up in may each be spelled in any letter case; `uses` entities too; the class -> entity look-up and the parent
   chain ignore case *)
Theorem C17_resolution :
  forall ws c c' m d d' a b, upper c = upper c' -> upper d = upper d' -> upper a = upper b ->
    resolve_plain ws c m a = resolve_plain ws c' m b /\
    resolve_member ws d a = resolve_member ws d' b /\
    definition_member_name ws d a = definition_member_name ws d' b /\
    find_entity ws d = find_entity ws d' /\ lineage ws d = lineage ws d'.
Proof.
  intros ws c c' m d d' a b Ec Ed Ea.
  destruct (resolution_ci ws c c' m d d' a b Ec Ed Ea) as (A & B & C).
  destruct (class_of_reference_ci ws d d' Ed) as (D & E & _). auto.
Qed.

Theorem C17_resolution_uses :
  forall ws us us' a b, Forall2 (fun u u' => upper u = upper u') us us' -> upper a = upper b ->
    search_uses ws us a = search_uses ws us' b.
Proof.
  intros ws us us' a b Hu Ea. rewrite (search_uses_entities_ci ws us us' a Hu). apply search_uses_ci. exact Ea.
Qed.

(* the class index (C19): a class name in any letter case finds the file whose stem it is *)
Theorem C17_class_index :
  forall w st st' q s s',
    index_files w st = Ok st' -> stems_unique w -> In q (god_under w) ->
    file_stem (last q []) = Some s -> upper s' = upper s -> lookup_class st' s' = Some q.
Proof. exact class_lookup_ci. Qed.

Example C17_resolution_nonvacuous :
  resolve_plain ws3 s_aLeaf leaf_run s_fa = Some (s_aLeaf, 3) /\
  resolve_plain ws3 (upper s_aLeaf) leaf_run (upper s_fa) = Some (s_aLeaf, 3) /\
  resolve_member ws3 (upper s_aLeaf) s_FA = [(s_aMid, 1); (s_aBase, 2)] /\
  resolve_member ws3 s_aLeaf s_fa = [(s_aMid, 1); (s_aBase, 2)] /\ s_fa <> s_FA.
Proof. conj_split; try (vm_compute; reflexivity). vm_compute. discriminate. Qed.

(* ===================================== COMPLETION ===================================== *)

(* after `x.`: the labels depend only on the class of x (its chain of tables), not on how that class, the class of
   the request or the operand are spelled; elsewhere: the enclosing class in any letter case *)
Theorem C17_completion :
  forall ws c c' m m' d d', upper d = upper d' ->
    completion_member ws c m d = completion_member ws c' m' d' /\
    complete_after_dot ws d = complete_after_dot ws d' /\
    (upper c = upper c' -> complete_plain ws c m = complete_plain ws c' m).
Proof.
  intros ws c c' m m' d d' E. destruct (completion_member_ci ws c c' m m' d d' E) as (A & B).
  split; [exact A|]. split; [exact B|]. apply complete_plain_ci.
Qed.

(* two spellings of a dotted operand whose static classes are one class: same proposals, same definition links *)
Theorem C17_completion_dotted :
  forall ws c m p p' id id',
    match static_class ws c m p, static_class ws c m p' with
    | Some t, Some t' => upper (sty_name t) = upper (sty_name t')
    | None, None => True
    | _, _ => False
    end ->
    upper id = upper id' ->
    completion_dotted ws c m p = completion_dotted ws c m p' /\
    definition_dotted ws c m p id = definition_dotted ws c m p' id'.
Proof. exact dotted_ci. Qed.

(* the operand itself in any letter case (inside one workspace): the same static class, hence the same proposals
   and links; in particular the comparison "left type spelled exactly as the class being annotated"
   (for_class_or_module) is harmless, both branches reach the same table *)
Theorem C17_operand_spelling :
  forall ws c m p p' id id', Forall2 item_ci p p' -> upper id = upper id' ->
    static_class ws c m p = static_class ws c m p' /\
    completion_dotted ws c m p = completion_dotted ws c m p' /\
    definition_dotted ws c m p id = definition_dotted ws c m p' id'.
Proof.
  intros ws c m p p' id id' Hp Ei. split; [apply static_class_ci; exact Hp|].
  apply dotted_spelling_ci; assumption.
Qed.

Example C17_completion_nonvacuous :
  complete_after_dot ws3 s_aLeaf = [s_Fb; s_Run; s_FA; s_cA; s_Ga; s_Link] /\
  completion_member ws3 (upper s_aMid) (Some s_Ga) (upper s_aLeaf) = [s_Fb; s_Run; s_FA; s_cA; s_Ga; s_Link] /\
  completion_dotted ws3 s_aLeaf leaf_run [IId s_self; IId s_Link] =
  completion_dotted ws3 s_aLeaf leaf_run [IId (upper s_self); IId s_link] /\
  completion_dotted ws3 s_aLeaf leaf_run [IId (upper s_self); IId s_link] <> [].
Proof. conj_split; try (vm_compute; reflexivity). vm_compute. discriminate. Qed.

(* ===================================== TYPE HIERARCHY ===================================== *)

(* class names and parent references in another letter case: the class tree has the same relation *)
Theorem C17_hierarchy :
  forall fs fs', Forest fs -> (length fs <= 5000)%nat -> recased fs fs' -> same_rel (build fs) (build fs').
Proof. exact hierarchy_recased. Qed.

Import String.StringSyntax.
Local Open Scope string_scope.
Definition hfs : list file :=
  [ (s2l "aBase", None); (s2l "aSub", Some (s2l "aBase")); (s2l "aLeaf", Some (s2l "aSub")) ].
Definition hfs' : list file :=
  [ (s2l "aBase", None); (s2l "aSub", Some (s2l "ABASE")); (s2l "aLeaf", Some (s2l "asub")) ].
Definition hrank (k : str) : nat :=
  if str_eqb k (s2l "ABASE") then 0 else if str_eqb k (s2l "ASUB") then 1 else 2.

Example C17_hierarchy_nonvacuous :
  Forest hfs /\ (length hfs <= 5000)%nat /\ recased hfs hfs' /\ hfs <> hfs' /\
  supertypes (build hfs') (s2l "aLeaf") = [s2l "ASUB"] /\
  subtypes (build hfs') (s2l "abase") = [s2l "ASUB"] /\
  subtypes (build hfs) (s2l "abase") = [s2l "ASUB"].
Proof.
  split.
  { apply rank_forest' with hrank.
    - vm_compute. repeat constructor; simpl; intuition discriminate.
    - intros a b [c [pn [Hin [<- <-]]]]. simpl in Hin.
      repeat (destruct Hin as [Hin|Hin]; [inversion Hin; subst; vm_compute; lia|]). contradiction. }
  split; [simpl; lia|]. split; [repeat constructor|]. split; [discriminate|].
  conj_split; vm_compute; reflexivity.
Qed.

(* ===================================== TREE LEVEL ===================================== *)
(* C17 carried through the models that tie the abstract layer to REAL syntax trees (Model/Annot.v, DefTree.v,
   WsTree.v, HierTree.v, Report.v).  Proofs/RecaseTree.v, RecaseWsTree.v, RecaseHierTree.v; witnesses (real-parser
   dumps, every keyword and reference re-cased by hand) in RecaseTreeWitness.v / RecaseTreeExamples.v.
     t ~ref t'   (RecaseTree.ref_sim)  the trees are equal except for the letter case of keywords and REFERENCES:
                 same kinds, offsets, ranges, shape; identifiers and word tokens equal ignoring case; every declaring
                 node carries the same identifier / name token / name node.
     ws_ref      same file stems, trees pairwise ~ref. *)
From GoldV Require Import Encase Annot AnnotProofs DefTree WsTree HierTree.
From GoldV Require Report.
From GoldV Require Import RecaseTree RecaseWsTree RecaseHierTree RecaseTreeWitness RecaseTreeExamples.
From GoldV Require WsTreeWitness DefTreeWitness ReportWitness HierTreeWitness.

(* ~ref IS the conclusion of C17_tree_shape (node_sim) restricted to "declarations left as written" (decl_exact) *)
Theorem C17_tree_ref_sim_is_parser_similarity :
  forall t t', ref_sim t t' <-> node_sim t t' /\ decl_exact t t'.
Proof. exact ref_sim_iff. Qed.

(* ... so the chain composes: a re-cased text gives a document whose tree is ~ref the original one as soon as the
   declared names were left as written; parser diagnostics and lexical errors are identical *)
Theorem C17_tree_text_to_ref_sim :
  forall text text', text_recased text text' ->
    exists d d', document_of text = Some d /\ document_of text' = Some d' /\
      pd_diags d = pd_diags d' /\ pd_lexerrs d' = pd_lexerrs d /\
      (decl_exact (pd_root d) (pd_root d') -> ref_sim (pd_root d) (pd_root d')).
Proof. exact recased_text_ref_sim. Qed.

(* the annotator's tables (both modes), one by one: same for_class_or_module, same symbols_list (declared names,
   kinds, selection ranges, ranges); uses_entities pairwise equal IGNORING CASE *)
Theorem C17_tree_annot :
  forall d t t', ref_sim t t' ->
    Forall2 (fun T T' => t_cls T = t_cls T' /\ t_syms T = t_syms T' /\ Forall2 ci_eq (t_uses T) (t_uses T'))
            (tables_of d t) (tables_of d t').
Proof. exact annot_recase. Qed.

(* "the tables are equal" is false: uses_entities keeps the reference as written *)
Theorem C17_tree_annot_uses_refuted :
  exists t t', ref_sim t t' /\ tables_of false t <> tables_of false t'.
Proof. exact annot_uses_refuted. Qed.

(* the assembled diagnostics response: IDENTICAL, item by item and in order, naming rules included *)
Theorem C17_tree_report :
  forall t t' pd, ref_sim t t' -> Report.report t pd = Report.report t' pd.
Proof. exact report_recase. Qed.

(* one document: go-to-definition and completion at every position, for every file stem *)
Theorem C17_tree_deftree :
  forall t t' stem p, ref_sim t t' ->
    definition t stem p = definition t' stem p /\ completion t stem p = completion t' stem p.
Proof. exact deftree_recase. Qed.

(* workspaces: same links (file stem, selection range, range), same labels, same classification Outside / answer,
   for every document and every position: class index, parent walk, `uses` loop, typed operands *)
Theorem C17_tree_wstree :
  forall ws ws' a p, ws_ref ws ws' ->
    wdefinition ws a p = wdefinition ws' a p /\ wcompletion ws a p = wcompletion ws' a p.
Proof. exact wstree_recase. Qed.

(* the class tree of two file lists equal up to the letter case of class names and parent references, in any order,
   forest or not, any size: the same heap and map, node ids equal ignoring case *)
Theorem C17_tree_forest :
  forall fs fs', Forall2 (fun f f' => ci_eq (fst f) (fst f') /\ opt_rel ci_eq (snd f) (snd f')) fs fs' ->
    Forall2 (fun n n' => ci_eq (Forest.nid n) (Forest.nid n') /\ Forest.npar n = Forest.npar n' /\ Forest.nkids n = Forest.nkids n')
            (Forest.heap (Forest.build fs)) (Forest.heap (Forest.build fs')) /\
    Forest.emap (Forest.build fs) = Forest.emap (Forest.build fs').
Proof. exact forest_recase. Qed.

(* the type hierarchy: prepare at every position of every document, supertypes and subtypes of every item are
   IDENTICAL, names included (an item is made from the declaring file's symbol, never from the reference) *)
Theorem C17_tree_hiertree :
  forall ws ws', ws_ref ws ws' ->
    (forall a d d' p, nth_error ws a = Some d -> nth_error ws' a = Some d' -> prepare ws d p = prepare ws' d' p) /\
    (forall it, supertypes_of ws (class_tree ws) it = supertypes_of ws' (class_tree ws') it) /\
    (forall it, subtypes_of ws (class_tree ws) it = subtypes_of ws' (class_tree ws') it).
Proof. exact hiertree_recase. Qed.

Theorem C17_tree_class_tree :
  forall ws ws', ws_ref ws ws' ->
    forall k, Forest.kparent (class_tree ws) k = Forest.kparent (class_tree ws') k /\
              Forest.kchildren (class_tree ws) k = Forest.kchildren (class_tree ws') k /\
              Forest.keys (class_tree ws) = Forest.keys (class_tree ws').
Proof. exact hiertree_class_tree_recase. Qed.

(* the item name before /repo 3e4a84d (the node id = the spelling seen first) DID change under re-casing *)
Theorem C17_tree_old_item_name_refuted :
  exists ws ws' k, ws_ref ws ws' /\
    Forest.old_item_name (class_tree ws) k <> Forest.old_item_name (class_tree ws') k /\
    Forest.key_of (class_tree ws) 1 = Forest.key_of (class_tree ws') 1.
Proof. exact hiertree_old_item_name_refuted. Qed.

(* non-vacuity, on real-parser trees: the four-document workspace of WsTreeWitness.v with every keyword and every
   reference re-cased (`CLASS aChild (APARENT)`, `USES alib`, `L = P + FC + Fp + CLIB`, `Self.BASE`, `q : ACHILD`,
   `Q.FC`, `ALIB.clib`) *)
Example C17_tree_wstree_nonvacuous :
  ws_ref WsTreeWitness.wsx2 rc_wsx2 /\ WsTreeWitness.wsx2 <> rc_wsx2 /\ distinct_stems rc_wsx2 = true /\
  wdefinition rc_wsx2 0 (mkPos 5 14) = Ans [(WsTreeWitness.wx_aParent, WsTreeWitness.wrg 2 0 2 2, WsTreeWitness.wrg 2 0 2 9)] /\
  wdefinition rc_wsx2 0 (mkPos 5 19) = Ans [(WsTreeWitness.wx_aLib, WsTreeWitness.wrg 1 6 1 10, WsTreeWitness.wrg 1 0 1 14)] /\
  wdefinition rc_wsx2 3 (mkPos 2 3) = Ans [(WsTreeWitness.wx_aChild, WsTreeWitness.wrg 2 0 2 2, WsTreeWitness.wrg 2 0 2 9)] /\
  wdefinition rc_wsx2 3 (mkPos 3 6) = Ans [(WsTreeWitness.wx_aLib, WsTreeWitness.wrg 1 6 1 10, WsTreeWitness.wrg 1 0 1 14)] /\
  wcompletion rc_wsx2 3 (mkPos 2 3) = Ans [[102;99]; WsTreeWitness.wx_Run; WsTreeWitness.wx_Base; WsTreeWitness.wx_fp].
Proof.
  destruct wstree_recase_nonvacuous as (A1 & A2 & A3 & A4 & A5 & _ & _ & A8 & A9 & _ & A11 & _).
  conj_split; assumption.
Qed.

Example C17_tree_annot_nonvacuous :
  ref_sim WsTreeWitness.wsx_child rc_child /\ WsTreeWitness.wsx_child <> rc_child /\
  map t_uses (tables_of false WsTreeWitness.wsx_child) = [[s2l "aLib"]; [s2l "aLib"]; [s2l "aLib"]] /\
  map t_uses (tables_of false rc_child) = [[s2l "alib"]; [s2l "alib"]; [s2l "alib"]] /\
  map t_syms (tables_of false WsTreeWitness.wsx_child) = map t_syms (tables_of false rc_child).
Proof.
  destruct annot_recase_nonvacuous as (A1 & A2 & A3 & A4 & _ & A6). conj_split; assumption.
Qed.

Example C17_tree_report_nonvacuous :
  ref_sim ReportWitness.w_resp rc_resp /\ ReportWitness.w_resp <> rc_resp /\
  Report.report ReportWitness.w_resp ReportWitness.w_resp_pd = Report.report rc_resp ReportWitness.w_resp_pd /\
  length (Report.report rc_resp ReportWitness.w_resp_pd) = 15%nat.
Proof. exact report_recase_nonvacuous. Qed.

Example C17_tree_deftree_nonvacuous :
  ref_sim DefTreeWitness.deftree_ex rc_deftree /\ DefTreeWitness.deftree_ex <> rc_deftree /\
  definition rc_deftree DefTreeWitness.dx_aFoo (mkPos 5 10) = Ans [(DefTreeWitness.rg 3 19 3 21, DefTreeWitness.rg 3 19 3 28)] /\
  definition rc_deftree DefTreeWitness.dx_aFoo (mkPos 6 7) = Ans [(DefTreeWitness.rg 2 0 2 2, DefTreeWitness.rg 2 0 2 9)] /\
  completion rc_deftree DefTreeWitness.dx_aFoo (mkPos 6 7) <> Ans [] /\
  completion rc_deftree DefTreeWitness.dx_aFoo (mkPos 6 7) <> Outside.
Proof.
  destruct deftree_recase_nonvacuous as (A1 & A2 & _ & A4 & A5 & _ & A7 & A8). conj_split; assumption.
Qed.

Example C17_tree_hiertree_nonvacuous :
  ws_ref HierTreeWitness.ht_ws rc_ht_ws /\ HierTreeWitness.ht_ws <> rc_ht_ws /\
  files_of_ws rc_ht_ws = [ (s2l "aKa", None); (s2l "aKb", Some (s2l "aka")); (s2l "aKc", Some (s2l "AKB")) ] /\
  match supertypes_of rc_ht_ws (class_tree rc_ht_ws) rc_item_foo_kc with
  | Ans (ROk [it]) => i_name it = s2l "Foo" /\ i_uri it = s2l "aKb"
  | _ => False
  end /\
  match subtypes_of rc_ht_ws (class_tree rc_ht_ws) rc_item_ka with
  | Ans (ROk [it]) => i_name it = s2l "aKb" /\ i_uri it = s2l "aKb"
  | _ => False
  end /\
  match prepare rc_ht_ws (s2l "aKb", rc_kb) (mkPos 5 4) with
  | Ans (ROk [it]) => i_name it = s2l "fld"
  | _ => False
  end.
Proof.
  destruct hiertree_recase_nonvacuous as (A1 & A2 & A3 & _ & A5 & A6 & _ & A8). conj_split; assumption.
Qed.

(* the finding hier-after-dot-own-class-spelling (checks/c17.py tree_recase stage): for the right operand of a dot,
   prepareTypeHierarchy compares the left operand's class with the class being annotated by EXACT spelling and then
   looks the member up from the nearest table (same spelling) resp. the class's table by the index (other spelling);
   the two branches do not reach the same symbol when a local of the method has the member's name.  The model
   classifies that position Outside for both spellings (so C17_tree_hiertree says nothing about it) *)
Theorem C17_tree_hier_after_dot_branches_refuted :
  ref_sim hd_own hd_other /\ hd_own <> hd_other /\
  match chain_for hd_own (descend (mkPos 4 9) hd_own) with
  | Some ch =>
      option_map (fun h => a_kind (snd h)) (lookup ch (s2l "GetLink")) = Some KVariable /\
      option_map (fun h => a_kind (snd h)) (lookup (class_level_t ch) (s2l "GetLink")) = Some KFunc
  | None => False
  end /\
  prepare [(s2l "aBeta", hd_own)] (s2l "aBeta", hd_own) (mkPos 4 9) = Outside /\
  prepare [(s2l "aBeta", hd_other)] (s2l "aBeta", hd_other) (mkPos 4 9) = Outside.
Proof. exact hier_after_dot_branches_refuted. Qed.

Print Assumptions C17_keyword.
Print Assumptions C17_lexer.
Print Assumptions C17_lexer_mask.
Print Assumptions C17_non_ascii_never_in_a_word.
Print Assumptions C17_lexer_nonvacuous.
Print Assumptions C17_grammar_kind_parametric.
Print Assumptions C17_tree_shape_tokens.
Print Assumptions C17_tree_shape.
Print Assumptions C17_tree_shape_nonvacuous.
Print Assumptions C17_outline.
Print Assumptions C17_outline_refuted.
Print Assumptions C17_outline_nonvacuous.
Print Assumptions C17_diagnostics.
Print Assumptions C17_diagnostics_tree.
Print Assumptions C17_diagnostics_non_naming.
Print Assumptions C17_naming_reads_declarations_only.
Print Assumptions C17_naming_recased_declaration_refuted.
Print Assumptions C17_old_unused_var_guard_needed.
Print Assumptions C17_old_unused_var_rule_refuted.
Print Assumptions C17_old_purge_rule_refuted.
Print Assumptions C17_diagnostics_nonvacuous.
Print Assumptions C17_symbol_table.
Print Assumptions C17_resolution.
Print Assumptions C17_resolution_uses.
Print Assumptions C17_class_index.
Print Assumptions C17_resolution_nonvacuous.
Print Assumptions C17_completion.
Print Assumptions C17_completion_dotted.
Print Assumptions C17_operand_spelling.
Print Assumptions C17_completion_nonvacuous.
Print Assumptions C17_hierarchy.
Print Assumptions C17_hierarchy_nonvacuous.
Print Assumptions C17_tree_ref_sim_is_parser_similarity.
Print Assumptions C17_tree_text_to_ref_sim.
Print Assumptions C17_tree_annot.
Print Assumptions C17_tree_annot_uses_refuted.
Print Assumptions C17_tree_report.
Print Assumptions C17_tree_deftree.
Print Assumptions C17_tree_wstree.
Print Assumptions C17_tree_forest.
Print Assumptions C17_tree_hiertree.
Print Assumptions C17_tree_class_tree.
Print Assumptions C17_tree_old_item_name_refuted.
Print Assumptions C17_tree_wstree_nonvacuous.
Print Assumptions C17_tree_annot_nonvacuous.
Print Assumptions C17_tree_report_nonvacuous.
Print Assumptions C17_tree_deftree_nonvacuous.
Print Assumptions C17_tree_hiertree_nonvacuous.
Print Assumptions C17_tree_hier_after_dot_branches_refuted.
