(* C06  Well-formed programs parse to the intended tree without diagnostics.

   What is PROVED (for all token lists of unbounded size and nesting, memoisation switched off --
   that the caches are invisible is C07):
   * the operator ladder regenerated from body_parser.rs is the model's ladder and is well formed;
   * a generic precedence-climbing theorem for [binops] towers over ANY operand parser, and its
     instance for the real grammar: every expression derivable in the declarative expression grammar
     ([GExpr]: identifiers, literals, parenthesised expressions, prefix and postfix operators, dot
     chains, method calls with argument lists, array accesses, set literals, and every binary
     operator level) is parsed by g_expr (gram fuel) into exactly the derived tree: precedence by
     level, left associativity, no diagnostics, exactly the derived tokens consumed;
   * every node of such a tree encloses its children, siblings are strictly ordered, and the
     position lookup of manager/utils.rs returns the terminal at any position of its token;
   * statements (C06_stmt_roundtrip), OQL select / fetch (C06_oql_roundtrip; the select node encloses every
     clause present: C06_oql_select_encloses) and whole files (C06_file_roundtrip) for the grammar listed at
     C06_file_roundtrip_partial, including annotations in front of fields, classes, modules, type declarations
     and -- as the empty node the code leaves -- in front of anything else, and composed types T + (a, b).
   Everything else of the property's grammar is covered by the correspondence check only
   (checks/c06.py: a test, labelled as such in the manifest). *)
From GoldV Require Import Base Tokens Keywords Lexer AstKinds Tree Strings PComb Grammar Ladder
                          RTComb LadderProofs LadderNames ExprRT Encase RangeEnc TypeRT OqlRT StmtRT DeclRT FuelIndep FileRT EnclRT
                          Unlex UnlexProofs.
From Coq Require Import Lia.

(* ---------- 1. the generated ladder ---------- *)

Theorem C06_ladder_matches_model : forall prim,
  parse_logical_or prim = model_level 0 prim /\
  parse_logical_and prim = model_level 1 prim /\
  parse_compare prim = model_level 2 prim /\
  parse_shifts prim = model_level 3 prim /\
  parse_bit_ops_2 prim = model_level 4 prim /\
  parse_bit_ops_1 prim = model_level 5 prim /\
  parse_terms prim = model_level 6 prim /\
  parse_factors prim = model_level 7 prim /\
  prim = model_level 8 prim /\
  length ladder = 8%nat /\
  parse_expr_body prim = memo CACHE_EXPR (alt [model_level 0 prim]).
Proof. exact ladder_matches_model. Qed.

(* level k of the model is binops over the k-th generated operator set and level k+1 *)
Theorem C06_ladder_level_step : forall k prim ops,
  nth_error ladder k = Some ops -> model_level k prim = binops (tok_alt ops) (model_level (S k) prim).
Proof. exact model_level_step. Qed.

Theorem C06_ladder_dot_matches_model : forall re,
  ladder_dot = [TDot] /\ parse_dot_ops re = climb [exp_token TDot] (parse_dot_op re).
Proof. exact ladder_dot_matches_model. Qed.

(* parse_primary tries its alternatives in the regenerated order *)
Theorem C06_primary_alternatives_match : forall re rp,
  parse_primary_body re rp = memo CACHE_PRIMARY (alt (map (prim_alt re rp) primary_alternatives)).
Proof. exact primary_alternatives_match. Qed.

(* the chain of ladder functions followed from parse_expr has the model's names, in the model's order *)
Theorem C06_ladder_names_match : ladder_names = model_ladder_names.
Proof. exact ladder_names_match. Qed.

(* no empty level, levels pairwise disjoint, no operator can start a primary expression except
   TMinus (which is both a binary operator and a prefix operator), no operator continues an
   identifier, none is a comment / closing bracket / comma *)
Theorem C06_ladder_ok :
  ladder_ok_b ladder = true /\ mem_ty TMinus (concat ladder) = true /\ mem_ty TMinus primary_first = true.
Proof. exact ladder_ok. Qed.

Theorem C06_ladder_disjoint : forall j j' ty, In ty (nth j ladder []) -> In ty (nth j' ladder []) -> j = j'.
Proof. exact ladder_disjoint. Qed.

(* ---------- 2. precedence climbing, generically ---------- *)

(* for ANY ladder [lad] with operator parsers [opps] that accept exactly the operator sets, any
   operand parser [ep] that accepts the atoms [AtomR] when followed by [afollow]: the level-k parser
   of the tower parses every expression derivable at level k into the derived tree *)
Theorem C06_binops_roundtrip_generic :
  forall (lad : list (list ttype)) (opps : list (P tok)),
    Forall2 op_spec lad opps ->
    (forall j j' ty, In ty (nth j lad []) -> In ty (nth j' lad []) -> j = j') ->
    (forall j, ~ In TComment (nth j lad [])) ->
  forall (ep : P node) (AtomR : list tok -> node -> Prop) (afollow : input -> Prop),
    (forall ts n rest, AtomR ts n -> afollow rest -> Parses ep (ts ++ rest) rest n) ->
    (forall t r j, In (tty t) (nth j lad []) -> afollow (t :: r)) ->
  forall k ts nd rest, Exp lad AtomR k ts nd -> follow lad k rest -> afollow rest ->
    Parses (lev opps ep k) (ts ++ rest) rest nd.
Proof. exact climb_roundtrip. Qed.

(* the same for an abstract syntax: bexp with render / tree_of, [fits k e] = no parentheses needed *)
Theorem C06_binops_roundtrip :
  forall (lad : list (list ttype)) (opps : list (P tok)),
    Forall2 op_spec lad opps ->
    (forall j j' ty, In ty (nth j lad []) -> In ty (nth j' lad []) -> j = j') ->
    (forall j, ~ In TComment (nth j lad [])) ->
  forall (ep : P node) (AtomR : list tok -> node -> Prop) (afollow : input -> Prop),
    (forall ts n rest, AtomR ts n -> afollow rest -> Parses ep (ts ++ rest) rest n) ->
    (forall t r j, In (tty t) (nth j lad []) -> afollow (t :: r)) ->
  forall (A : Type) (ra : A -> list tok) (na : A -> node) (aok : A -> Prop),
    (forall a, aok a -> AtomR (ra a) (na a)) ->
  forall k (e : bexp A) rest, fits lad A aok k e -> follow lad k rest -> afollow rest ->
    Parses (lev opps ep k) (render A ra e ++ rest) rest (tree_of A na e).
Proof. exact binops_roundtrip. Qed.

(* ... and any expression, with parentheses inserted exactly where needed, parses to its own tree *)
Theorem C06_paren_roundtrip :
  forall (lad : list (list ttype)) (opps : list (P tok)),
    Forall2 op_spec lad opps ->
    (forall j j' ty, In ty (nth j lad []) -> In ty (nth j' lad []) -> j = j') ->
    (forall j, ~ In TComment (nth j lad [])) ->
  forall (ep : P node) (AtomR : list tok -> node -> Prop) (afollow : input -> Prop),
    (forall ts n rest, AtomR ts n -> afollow rest -> Parses ep (ts ++ rest) rest n) ->
    (forall t r j, In (tty t) (nth j lad []) -> afollow (t :: r)) ->
  forall (A : Type) (ra : A -> list tok) (na : A -> node) (aok : A -> Prop),
    (forall a, aok a -> AtomR (ra a) (na a)) ->
  forall (wrap : bexp A -> A),
    (forall e, na (wrap e) = tree_of A na e) -> (forall e, fits lad A aok 0 e -> aok (wrap e)) ->
  forall k (e : bexp A) rest, ops_ok lad A aok e -> follow lad k rest -> afollow rest ->
    Parses (lev opps ep k) (render A ra (paren lad A wrap k e) ++ rest) rest (tree_of A na e).
Proof. exact paren_roundtrip. Qed.

(* ---------- 3. the real expression grammar ---------- *)

(* every expression derivable at level f is parsed by g_expr (gram fuel), fuel >= f, into its tree *)
Theorem C06_expr_roundtrip : forall f fuel ts n rest,
  GExpr f ts n -> (f <= fuel)%nat -> efollow rest ->
  Parses (g_expr (gram fuel)) (ts ++ rest) rest n.
Proof. exact expr_roundtrip. Qed.

Theorem C06_primary_roundtrip : forall f ts n rest,
  GPrim f ts n -> afollow rest -> Parses (g_primary (gram f)) (ts ++ rest) rest n.
Proof. intros f. apply (gram_expr_rt f). Qed.

(* precedence: for identifiers a b c and operators o1 of a LOWER level than o2 (any two operators of
   the generated ladder):  a o1 b o2 c = a o1 (b o2 c)   and   a o2 b o1 c = (a o2 b) o1 c *)
Theorem C06_precedence : forall fuel a b c o1 o2 j1 j2 rest,
  In (tty a) ident_types -> In (tty b) ident_types -> In (tty c) ident_types ->
  In (tty o1) (nth j1 ladder []) -> In (tty o2) (nth j2 ladder []) -> (j1 < j2)%nat -> efollow rest ->
  Parses (g_expr (gram (S fuel))) ([a; o1; b; o2; c] ++ rest) rest
         (mk_binop o1 (mk_terminal a) (mk_binop o2 (mk_terminal b) (mk_terminal c))) /\
  Parses (g_expr (gram (S fuel))) ([a; o2; b; o1; c] ++ rest) rest
         (mk_binop o1 (mk_binop o2 (mk_terminal a) (mk_terminal b)) (mk_terminal c)).
Proof. exact precedence_pairs. Qed.

(* left associativity: for operators of the SAME level:  a o1 b o2 c = (a o1 b) o2 c *)
Theorem C06_left_assoc : forall fuel a b c o1 o2 j rest,
  In (tty a) ident_types -> In (tty b) ident_types -> In (tty c) ident_types ->
  In (tty o1) (nth j ladder []) -> In (tty o2) (nth j ladder []) -> efollow rest ->
  Parses (g_expr (gram (S fuel))) ([a; o1; b; o2; c] ++ rest) rest
         (mk_binop o2 (mk_binop o1 (mk_terminal a) (mk_terminal b)) (mk_terminal c)).
Proof. exact left_assoc_pairs. Qed.

(* parentheses override: (a o1 b) o2 c keeps the bracketed grouping, whatever the levels *)
Theorem C06_parentheses : forall fuel a b c o1 o2 j1 j2 op cl rest,
  In (tty a) ident_types -> In (tty b) ident_types -> In (tty c) ident_types ->
  In (tty o1) (nth j1 ladder []) -> In (tty o2) (nth j2 ladder []) -> tty op = TOBracket -> tty cl = TCBracket ->
  efollow rest ->
  Parses (g_expr (gram (S (S fuel)))) ([op; a; o1; b; cl; o2; c] ++ rest) rest
         (mk_binop o2 (mk_binop o1 (mk_terminal a) (mk_terminal b)) (mk_terminal c)).
Proof. exact parentheses_override. Qed.

(* all 23 x 23 ordered pairs of ladder operators, by computation, on the model WITH memoisation:
   a t1 b t2 c parses to the tree the precedence rule prescribes (pair_parsed / pair_expected in ExprRT.v) *)
Theorem C06_all_operator_pairs_computed :
  forallb (fun t1 => forallb (fun t2 => ln_eqb (pair_parsed t1 t2) (ser (pair_expected t1 t2))) (concat ladder))
          (concat ladder) = true /\ length (concat ladder) = 23%nat.
Proof. exact all_operator_pairs_computed. Qed.

(* ---------- 4. ranges ---------- *)

(* under the token-order hypothesis [tord] (lexer output: ranges well formed, consecutive tokens do not
   overlap, non-literal tokens non-empty) every node of a derived expression tree encloses its children *)
Theorem C06_range_encloses : forall f ts n, GExpr f ts n -> tord ts ->
  forall m c, subnode m n -> In c (nchildren m) -> encloses (nrange m) (nrange c).
Proof. exact range_encloses. Qed.

(* mk_binop's range is (start of the left operand, end of the right operand) *)
Theorem C06_binop_range : forall op l r,
  nrange (mk_binop op l r) = mkRange (rstart (nrange l)) (rend (nrange r)).
Proof. reflexivity. Qed.

(* search_encasing_node at any position of a terminal's token returns that terminal *)
Theorem C06_innermost_is_ident : forall f ts n, GExpr f ts n -> tord ts ->
  forall t, subnode (mk_terminal t) n -> forall p, contains (trange t) p = true ->
  search p n = mk_terminal t.
Proof. exact innermost_is_ident. Qed.

Theorem C06_expr_within_span : forall f ts n, GExpr f ts n -> tord ts -> range_wf (nrange n) /\ within ts n.
Proof. exact expr_within_span. Qed.

(* range enclosure beyond expressions.  [Ord lo ts hi]: the tokens ts are lexer-ordered (tord) and lie between the
   positions lo and hi; [IE lo hi n]: the node n lies in [lo, hi], its range is well formed, and every node of the tree
   n encloses its children ([enc_tree]) *)
Theorem C06_type_encloses : forall f ts n lo hi, GType f ts n -> Ord lo ts hi -> IE lo hi n.
Proof. exact type_enc. Qed.

Theorem C06_stmt_encloses : forall f ts n lo hi, GStmt f ts n -> Ord lo ts hi -> IE lo hi n.
Proof. exact stmt_enc. Qed.

Theorem C06_decl_encloses : forall fuel ts n lo hi, Decl fuel ts n -> Ord lo ts hi -> IE lo hi n.
Proof. exact Decl_enc. Qed.

(* whole files: for lexer-ordered tokens, every node of every declaration of a derivable file (types, parameters,
   statements nested to any depth, expressions) encloses its children *)
Theorem C06_file_encloses : forall fuel ts ns, Decls fuel ts ns -> tord ts -> Forall enc_tree ns.
Proof. exact file_encloses. Qed.

(* ---------- 5. types, statements, declarations, files ---------- *)

(* every type form (basic, sized, enum, refto / listof with options and inverse, literal range, set,
   pointer, instanceof, array / sequence with one or two indexes, record with optional parent and nested
   field types, procedure and function types) derivable at level f is parsed by g_type (gram f) *)
Theorem C06_type_roundtrip : forall f ts n more,
  GType f ts n -> tfollow more -> Parses (g_type (gram f)) (ts ++ more) more n.
Proof. exact gram_type_rt. Qed.

(* parameter lists: absent, empty, typed / untyped parameters with const / var / inout modes *)
Theorem C06_params_roundtrip : forall f ts n more,
  GParams f ts n -> nostart [TOBracket] more ->
  Parses (parse_parameter_declaration_list (g_type (gram f))) (ts ++ more) more n.
Proof. exact gram_params_rt. Qed.

(* every statement derivable at level f: assignment, expression statement, return, exit/break/continue,
   comment, var (any type, optional absolute), const / uses / type inside a body, while, loop, repeat-until,
   for (to/downto, optional step), foreach (optional downto / using), switch with when-blocks (value lists,
   ranges) and else, if-elseif-else, OQL select / fetch; bodies: any sequences of such statements, nested to any depth.
   [jfollow more]: what follows does not start with an identifier spelled like an OQL join word (outerjoinon,
   leftouterjoinon, ...): the from-clause of a select would take it for a join; for the same reason a derivable
   statement that starts with an identifier does not start with such a word *)
Theorem C06_stmt_roundtrip : forall f ts n more,
  GStmt f ts n -> follow_ok ts (hd_ty more) -> jfollow more -> Parses (g_stmt (gram f)) (ts ++ more) more n.
Proof. exact gram_stmt_rt. Qed.

(* ---------- 5b. OQL ---------- *)

(* select [top n] [distinct] items from sources [joins] [where e] [order by fields [descending]] [using x]  and
   fetch into targets [using x]  ([OqlStmt], over the expressions / dot chains / comparisons of level S f):
   parse_oql_expr returns exactly the derived node, nothing else consumed, no diagnostics *)
Theorem C06_oql_roundtrip : forall f ts n more,
  OqlStmt (GExpr (S f)) (GDots (S f)) (GExprK (S f) 2) ts n -> oql_follow more ->
  Parses (parse_oql_expr (g_expr (gram (S f))) (parse_dot_ops (g_expr (gram f))) (parse_compare (g_primary (gram (S f)))))
         (ts ++ more) more n.
Proof.
  intros f ts n more H Hf.
  apply (oql_parses _ _ _ (GExpr (S f)) (GDots (S f)) (GExprK (S f) 2)); [| | |exact H|exact Hf].
  - intros ts' n' r' H' Hf'. destruct (gram_expr_rt (S f)) as (IHe & _). apply IHe; assumption.
  - intros ts' n' r' H' Hf'. apply gram_dots_rt; assumption.
  - intros ts' n' r' H' Hf'. apply (gram_exprk_rt f 2); assumption.
Qed.

(* the same as a statement of a body *)
Theorem C06_oql_stmt_roundtrip : forall f ts n more,
  OqlStmt (GExpr (S f)) (GDots (S f)) (GExprK (S f) 2) ts n -> follow_ok ts (hd_ty more) -> jfollow more ->
  Parses (g_stmt (gram (S f))) (ts ++ more) more n.
Proof. intros f ts n more H. apply gram_stmt_rt. cbn [GStmt]. apply S_oql. exact H. Qed.

(* the code picks the end of a select node by an or-else chain over  using / order by / where / from / items: that chain
   is the end of the last clause present ... *)
Theorem C06_oql_select_end : forall st sel frm wh ob us,
  (match us with Some n => nrange n
   | None => match ob with
             | Some l => last_range l (match wh with Some n => nrange n | None => last_range frm (last_range sel (trange st)) end)
             | None => match wh with Some n => nrange n | None => last_range frm (last_range sel (trange st)) end
             end
   end) = select_end st sel frm wh ob us.
Proof. exact select_end_chain. Qed.

(* ... and for lexer-ordered tokens the select node lies inside its tokens and encloses EVERY clause present: the limit,
   each selected item, each source (with its joins), the where condition, each order-by field, the using clause *)
Theorem C06_oql_select_encloses : forall f ot st lim dist sel frm wh ob us ts lo hi,
  OqlStmt (GExpr (S f)) (GDots (S f)) (GExprK (S f) 2) ts (mk_oql_select ot st lim dist sel frm wh ob us) -> Ord lo ts hi ->
  Inside lo (mk_oql_select ot st lim dist sel frm wh ob us) hi /\
  forall c, In c (opt_list lim ++ sel ++ frm ++ opt_list wh ++ olist ob ++ opt_list us) ->
    encloses (nrange (mk_oql_select ot st lim dist sel frm wh ob us)) (nrange c) /\ enc_tree c.
Proof.
  intros f ot st lim dist sel frm wh ob us ts lo hi H Ho.
  destruct (OqlStmt_enc _ _ _ (expr_enc (S f)) (dots_enc (S f)) (exprk_enc (S f) 2) _ _ _ _ H Ho) as [Hin He].
  split; [exact Hin|]. apply enc_tree_unfold in He. cbn [mk_oql_select nchildren] in He. rewrite Forall_forall in He.
  intros c Hc. destruct (He c Hc) as [A B]. split; assumption.
Qed.

(* every node of an OQL statement (select or fetch) encloses its children *)
Theorem C06_oql_encloses : forall f ts n lo hi,
  OqlStmt (GExpr (S f)) (GDots (S f)) (GExprK (S f) 2) ts n -> Ord lo ts hi -> IE lo hi n.
Proof. intros f ts n lo hi H Ho. exact (OqlStmt_enc _ _ _ (expr_enc (S f)) (dots_enc (S f)) (exprk_enc (S f) 2) _ _ _ _ H Ho). Qed.

(* one top-level declaration *)
Theorem C06_decl_roundtrip : forall fuel ts n more,
  Decl fuel ts n -> dfollow_ok ts (hd_ty more) -> TopStep fuel (ts ++ more) more n.
Proof. exact decl_parses. Qed.

(* whole files of the proved grammar ([Decls]):
     class header (with / without parent), module header, uses list, constants (optional multilang),
     type declarations with every type form, fields (optional annotation, memory, any type, member
     modifiers, absolute), comments, procedures and functions with plain or method#event names,
     parameter lists (typed / untyped parameters, const / var / inout), method modifiers (private,
     protected, final, override, forward, external '..'; forward / external methods have no body), whose
     bodies are sequences of the statements of C06_stmt_roundtrip (nested to any depth); expressions: all
     operator levels, parentheses, prefix / postfix operators, dot chains, calls, array accesses, set
     literals, literals.
     Since the third round also: OQL select / fetch statements in bodies, composed types (T + (a, b) + U), an
     annotation in front of a class / module / type declaration (no node), and an annotation in front of anything
     else (a method, a constant, a uses list, another annotation, the end of the file): the code ignores it and
     leaves an empty node among the root's children ([Ds_annot]).
   NOT proved, covered by the correspondence check only: annotations in front of record fields and enum variants,
   OQL select items that start with a call (name(args).x; the proved items are the asterisk, name( * ), name(), dot chains that
   start with a plain identifier), an OQL select as the collection of a foreach (foreach x in OQL select ...),
   erroneous programs (C05 / C15).
   The un-memoised parser at any fuel above the derivation level: *)
Theorem C06_file_roundtrip_partial : forall f fuel ts ns,
  Decls f ts ns -> (f < fuel)%nat ->
  exists c, parse_gold_with false fuel ts = (Ok [] (mk_root ns), c) /\ cdiags c = [].
Proof. exact file_roundtrip. Qed.

Theorem C06_file_roundtrip_default_fuel : forall f ts ns,
  Decls f ts ns -> (f <= S (length ts))%nat ->
  exists c, parse_gold_with false (default_fuel ts) ts = (Ok [] (mk_root ns), c) /\ cdiags c = [].
Proof. intros f ts ns H Hle. apply (file_roundtrip f); [exact H|]. unfold default_fuel. lia. Qed.

(* the outcome of parse_gold_with does not depend on the fuel (above the number of tokens) nor on the
   memoisation switch: same result, same set of diagnostics (C07's simulation at two fuel levels) *)
Theorem C06_parse_gold_fuel_independent : forall m m' F F' ts, (length ts < F)%nat -> (length ts < F')%nat ->
  fst (parse_gold_with m F ts) = fst (parse_gold_with m' F' ts) /\
  forall d, In d (cdiags (snd (parse_gold_with m F ts))) <-> In d (cdiags (snd (parse_gold_with m' F' ts))).
Proof. exact parse_gold_fuel_indep. Qed.

(* hence, with NO hypothesis on the derivation level: memoisation on or off, any fuel above the number of
   tokens -- and in particular the entry point the code runs -- a derivable file parses to exactly its
   declarations, every token consumed, zero diagnostics *)
Theorem C06_file_roundtrip_any : forall f ts ns, Decls f ts ns ->
  forall memo fuel, (length ts < fuel)%nat ->
    fst (parse_gold_with memo fuel ts) = Ok [] (mk_root ns) /\ cdiags (snd (parse_gold_with memo fuel ts)) = [].
Proof. exact file_roundtrip_any. Qed.

Theorem C06_file_roundtrip : forall f ts ns, Decls f ts ns ->
  fst (parse_gold ts) = Ok [] (mk_root ns) /\ cdiags (snd (parse_gold ts)) = [].
Proof. exact file_roundtrip_parse_gold. Qed.

(* ---------- non-vacuity ---------- *)

(* a + b * (c - d) is derivable for ANY tokens of these types *)
Example C06_expr_derivable : forall a b c d plus star minus op cl,
  tty a = TIdentifier -> tty b = TIdentifier -> tty c = TIdentifier -> tty d = TIdentifier ->
  tty plus = TPlus -> tty star = TAsterisk -> tty minus = TMinus -> tty op = TOBracket -> tty cl = TCBracket ->
  GExpr 2 [a; plus; b; star; op; c; minus; d; cl]
        (mk_binop plus (mk_terminal a)
           (mk_binop star (mk_terminal b) (mk_binop minus (mk_terminal c) (mk_terminal d)))).
Proof.
  intros a b c d plus star minus op cl Ha Hb Hc Hd Hp Hs Hm Ho Hcl.
  assert (forall f k t, tty t = TIdentifier -> GExprK (S f) k [t] (mk_terminal t)) as At.
  { intros f k t H. apply GExprK_atom. apply GPrim_ident. rewrite H. left. reflexivity. }
  apply GExprK_0.
  apply (GExprK_bin 2 0 6 plus [a] _ [b; star; op; c; minus; d; cl] _); [rewrite Hp; simpl; tauto|lia|apply At; exact Ha|].
  apply (GExprK_bin 2 7 7 star [b] _ [op; c; minus; d; cl] _); [rewrite Hs; simpl; tauto|lia|apply At; exact Hb|].
  apply GExprK_atom. apply (GPrim_par 1 op [c; minus; d] _ cl Ho); [|exact Hcl]. apply GExprK_0.
  apply (GExprK_bin 1 0 6 minus [c] _ [d] _); [rewrite Hm; simpl; tauto|lia|apply At; exact Hc|apply At; exact Hd].
Qed.

(* a statement and a file of the proved sub-grammar, for ANY tokens of these types:
     class X / proc P / while c / x = y / endwhile / endproc *)
Example C06_file_derivable : forall ct cn pt pn wt c x eq y ew ep,
  tty ct = TClass -> tty cn = TIdentifier -> tty pt = TProc -> tty pn = TIdentifier -> tty wt = TWhile ->
  tty c = TIdentifier -> tty x = TIdentifier -> tty eq = TEquals -> tty y = TIdentifier ->
  tty ew = TEndWhile -> tty ep = TEndProc -> is_join_word x = false ->
  exists ns, Decls 2 [ct; cn; pt; pn; wt; c; x; eq; y; ew; ep] ns /\
             ns = [mk_class ct cn None;
                   mk_proc pt pn [wt; c; x; eq; y; ew]
                     [mk_while wt (mk_terminal c) [mk_binop eq (mk_terminal x) (mk_terminal y)] ew] ep].
Proof.
  intros ct cn pt pn wt c x eq y ew ep Hct Hcn Hpt Hpn Hwt Hc Hx Heq Hy Hew Hep Hjx.
  eexists. split; [|reflexivity].
  assert (forall f t, tty t = TIdentifier -> GExpr (S f) [t] (mk_terminal t)) as Ae.
  { intros f t H. apply GExprK_0. apply GExprK_atom. apply GPrim_ident. rewrite H. left. reflexivity. }
  assert (forall f t, tty t = TIdentifier -> GDots (S f) [t] (mk_terminal t)) as Ad.
  { intros f t H. apply X_atom. apply D_id. rewrite H. left. reflexivity. }
  assert (GStmt 2 [x; eq; y] (mk_binop eq (mk_terminal x) (mk_terminal y))) as Sassign.
  { apply (S_assign 1 (GStmt 1) [x] _ eq [y] _); [apply Ad; exact Hx|exists x, []; split; [reflexivity|left; auto]
      |apply jfollow_cons; [rewrite Hx; discriminate|exact Hjx]
      |rewrite Heq; left; reflexivity|apply Ae; exact Hy]. }
  assert (GStmt 3 [wt; c; x; eq; y; ew] (mk_while wt (mk_terminal c) [mk_binop eq (mk_terminal x) (mk_terminal y)] ew)) as Swhile.
  { apply (S_while 2 (GStmt 2) wt [c] _ [x; eq; y] _ ew Hwt); [apply Ae; exact Hc| |rewrite Hew; left; reflexivity].
    apply (Seq_cons _ _ [x; eq; y] _ [] []); [exact Sassign|apply Seq_nil|].
    split; [simpl; rewrite Hew; simpl; tauto|]. intro X. simpl in X. unfold is_comment in X. rewrite Hx in X. discriminate. }
  apply (Ds_cons 2 [ct; cn] _ [pt; pn; wt; c; x; eq; y; ew; ep] _); [apply D_class; assumption| |].
  - apply (Ds_cons 2 [pt; pn; wt; c; x; eq; y; ew; ep] _ [] []); [|apply Ds_nil|split; [exact I|intros _; exact I]].
    apply (D_proc 2 pt pn [wt; c; x; eq; y; ew] _ ep Hpt); [rewrite Hpn; left; reflexivity| | |rewrite Hep; left; reflexivity].
    + apply (Seq_cons _ _ [wt; c; x; eq; y; ew] _ [] []); [exact Swhile|apply Seq_nil|].
      split; [exact I|]. intro X. simpl in X. unfold is_comment in X. rewrite Hwt in X. discriminate.
    + repeat constructor; rewrite ?Hwt, ?Hc, ?Hx, ?Heq, ?Hy, ?Hew; simpl; intuition discriminate.
  - split; [simpl; unfold is_comment; rewrite Hpt; simpl; tauto|].
    intro X. simpl in X. unfold is_comment in X. rewrite Hct in X. discriminate.
Qed.

(* the newly covered constructs are derivable, for ANY tokens of these types:
     type tRec : record (tBase) f : refto [A] tOther inverse Back endrecord *)
Example C06_record_type_derivable : forall rk o p c f col rt ob a cb t ik iv er,
  tty rk = TRecord -> tty o = TOBracket -> tty p = TIdentifier -> tty c = TCBracket -> tty f = TIdentifier ->
  tty col = TColon -> tty rt = TRefTo -> tty ob = TOSqrBracket -> tty a = TIdentifier -> tty cb = TCSqrBracket ->
  tty t = TIdentifier -> tty ik = TInverse -> tty iv = TIdentifier -> tty er = TEndRecord ->
  GType 2 [rk; o; p; c; f; col; rt; ob; a; cb; t; ik; iv; er]
        (mk_type_record rk (Some p) [mk_record_field f (mk_type_ref rt [a] t (Some iv))] er).
Proof.
  intros. apply (TF_record (GType 1) rk [o; p; c] (Some p) [f; col; rt; ob; a; cb; t; ik; iv] _ er); auto.
  - apply RP_some; auto.
  - apply (F_cons (GType 1) f col [rt; ob; a; cb; t; ik; iv] _ [] []); auto; [|apply F_nil].
    apply (TF_ref (GType 0) rt [ob; a; cb] [a] t [ik; iv] (Some iv)); auto.
    + rewrite H5. left. reflexivity.
    + apply (RO_some ob [a] [a] cb); auto. apply TL_one. assumption.
    + apply IV_some; auto.
Qed.

(*   proc Init#Clicked(var a : int4, b) private forward      (no body) *)
Example C06_method_header_derivable : forall fuel pt nm pd ev ob vk a col ty cm b cb pr fw,
  tty pt = TProc -> tty nm = TIdentifier -> tty pd = TPound -> tty ev = TIdentifier -> tty ob = TOBracket ->
  tty vk = TVar -> tty a = TIdentifier -> tty col = TColon -> tty ty = TIdentifier -> tty cm = TComma ->
  tty b = TIdentifier -> tty cb = TCBracket -> tty pr = TPrivate -> tty fw = TForward ->
  Decl fuel [pt; nm; pd; ev; ob; vk; a; col; ty; cm; b; cb; pr; fw]
       (mk_proc_node pt (mk_event_name nm ev)
          (Some (mk_param_list ob [mk_param (Some vk) a (Some (mk_type_basic ty)); mk_param None b None] cb))
          (method_mods_info [pr; fw]) None).
Proof.
  intros fuel pt nm pd ev ob vk a col ty cm b cb pr fw Hpt Hnm Hpd Hev Hob Hvk Ha Hcol Hty Hcm Hb Hcb Hpr Hfw.
  assert (forall t, tty t = TIdentifier -> In (tty t) ident_types) as Hid by (intros t H; rewrite H; left; reflexivity).
  apply (D_proc_nobody fuel pt [nm; pd; ev] _ [ob; vk; a; col; ty; cm; b; cb] _ [pr; fw] [pr; fw]); auto.
  - apply MN_event; auto.
  - apply (PL_some (GType (S fuel)) ob [vk; a; col; ty; cm; b] _ cb Hob); [|exact Hcb].
    apply (Args_cons TComma _ [vk; a; col; ty] _ cm [b] _); [| exact Hcm |].
    + apply (Pm_typed (GType (S fuel)) (Some vk) a col [ty]); auto; [simpl; rewrite Hvk; simpl; tauto|].
      apply TF_basic. exact Hty.
    + apply Args_one. apply (Pm_untyped (GType (S fuel)) None b); [exact I|auto].
  - apply Md_mod; [rewrite Hpr; simpl; tauto|]. apply Md_fwd; [exact Hfw|apply Md_nil].
  - unfold method_mods_info, has_method_body, member_flags. cbn [existsb]. rewrite Hpr, Hfw. vm_compute. reflexivity.
Qed.

(* third round.  A composed type   T + (a, b)   *)
Example C06_composed_type_derivable : forall t p ob a cm b cb,
  tty t = TIdentifier -> tty p = TPlus -> tty ob = TOBracket -> tty a = TIdentifier -> tty cm = TComma ->
  tty b = TIdentifier -> tty cb = TCBracket ->
  GType 1 [t; p; ob; a; cm; b; cb]
        (mk_binop p (mk_type_basic t) (mk_type_enum ob [mk_enum_variant a None; mk_enum_variant b None] cb)).
Proof.
  intros t p ob a cm b cb Ht Hp Hob Ha Hcm Hb Hcb.
  apply (TF_composed (GType 0) [t] (mk_type_basic t) [p; ob; a; cm; b; cb] _ (CA_basic t Ht)); [|discriminate].
  eapply (CT_cons p [ob; a; cm; b; cb] _ [] _ _ Hp); [|apply CT_nil].
  apply (CA_enum ob [a; cm; b] _ cb Hob); [|exact Hcb].
  apply (Args_cons TComma _ [a] _ cm [b] _); [apply EV_plain; exact Ha|exact Hcm|apply Args_one; apply EV_plain; exact Hb].
Qed.

(*   [ a1 ] class X   [ a2 ] proc P endproc  : the first annotation leaves no node, the second one an empty node *)
Example C06_annotations_derivable : forall fuel o1 a1 c1 ct cn o2 a2 c2 pt pn ep,
  tty o1 = TOSqrBracket -> tty a1 = TIdentifier -> tty c1 = TCSqrBracket -> tty ct = TClass -> tty cn = TIdentifier ->
  tty o2 = TOSqrBracket -> tty a2 = TIdentifier -> tty c2 = TCSqrBracket -> tty pt = TProc -> tty pn = TIdentifier ->
  tty ep = TEndProc ->
  Decls fuel [o1; a1; c1; ct; cn; o2; a2; c2; pt; pn; ep] [mk_class ct cn None; mk_empty_default; mk_proc pt pn [] [] ep].
Proof.
  intros fuel o1 a1 c1 ct cn o2 a2 c2 pt pn ep Ho1 Ha1 Hc1 Hct Hcn Ho2 Ha2 Hc2 Hpt Hpn Hep.
  assert (forall a, tty a = TIdentifier -> annot_inner [a]) as Hin
    by (intros a Ha; constructor; [rewrite Ha; reflexivity|constructor]).
  apply (Ds_cons fuel [o1; a1; c1; ct; cn] _ [o2; a2; c2; pt; pn; ep] _).
  - apply (D_annotated fuel o1 [a1] c1 [ct; cn] _ Ho1 (Hin a1 Ha1) Hc1). apply H_class; assumption.
  - apply (Ds_annot fuel o2 [a2] c2 [pt; pn; ep] _ Ho2 (Hin a2 Ha2) Hc2); [eapply nostart_ty; [exact Hpt|reflexivity]|].
    apply (Ds_cons fuel [pt; pn; ep] _ [] []); [|apply Ds_nil|split; [exact I|intros _; exact I]].
    apply (D_proc fuel pt pn [] [] ep Hpt); [rewrite Hpn; left; reflexivity|apply Seq_nil|constructor|rewrite Hep; left; reflexivity].
  - split; [simpl; unfold is_comment; rewrite Ho2; simpl; tauto|].
    intro X. simpl in X. unfold is_comment in X. rewrite Ho1 in X. discriminate.
Qed.

(*   OQL select * from a in B where c order by o using u   *)
Example C06_oql_derivable : forall ot st star fk al ik src wk c ok bk o uk u,
  tty ot = TOQL -> tty st = TSelect -> tty star = TAsterisk -> tty fk = TFrom -> tty al = TIdentifier -> tty ik = TIn ->
  tty src = TIdentifier -> tty wk = TWhere -> tty c = TIdentifier -> tty ok = TOrder -> tty bk = TBy -> tty o = TIdentifier ->
  tty uk = TUsing -> tty u = TIdentifier ->
  OqlStmt (GExpr 1) (GDots 1) (GExprK 1 2) [ot; st; star; fk; al; ik; src; wk; c; ok; bk; o; uk; u]
    (mk_oql_select ot st None None [mk_terminal star] [mk_from None None None al src None []] (Some (mk_terminal c))
                   (Some [mk_order_by (mk_terminal o) None]) (Some (mk_terminal u))).
Proof.
  intros ot st star fk al ik src wk c ok bk o uk u Hot Hst Hstar Hfk Hal Hik Hsrc Hwk Hc Hok Hbk Ho Huk Hu.
  apply (O_select _ _ _ ot st [] None None [star] _ fk [al; ik; src] _ [wk; c] _ [ok; bk; o] _ [uk; u] _ Hot Hst);
    [apply Top_none|exact I| |exact Hfk| | | |].
  - apply Args_one. apply SI_star. exact Hstar.
  - apply Args_one. apply (FI _ None None None al ik src None [] []); try exact I; try assumption. apply J_nil.
  - apply Wh_some; [exact Hwk|]. apply GExprK_0. apply GExprK_atom. apply GPrim_ident. rewrite Hc. left. reflexivity.
  - apply Ob_some; [exact Hok|exact Hbk|]. apply Args_one.
    apply (OI _ [o] _ None); [|exact I]. apply X_atom. apply D_id. rewrite Ho. left. reflexivity.
  - apply Us_some; [exact Huk|rewrite Hu; left; reflexivity].
Qed.

Definition txt (s : list N) : list tok := fst (lex s).

(* the lexer's tokens for a real text satisfy the token-order hypothesis, and the whole pipeline
   (lexer, parse_gold WITH memoisation) gives the tree of the theorems:
   "proc P\n x = a + b * (c - d)\nendproc\n" *)
Definition ex_text : list N :=
  [112;114;111;99;32;80;10;32;120;32;61;32;97;32;43;32;98;32;42;32;40;99;32;45;32;100;41;10;101;110;100;112;114;111;99;10].

Example C06_lexed_tokens_ordered : tord (txt ex_text).
Proof. vm_compute. intuition (try discriminate; try lia). Qed.

Example C06_lexed_example :
  match fst (parse_gold (txt ex_text)), txt ex_text with
  | Ok [] (Node KAstRoot _ _ _ _ [Node KAstProcedure _ _ _ _ [_; Node KAstMethodBody _ _ _ _ [stmt]]]),
    [_; _; x; eq; a; plus; b; star; op; c; minus; d; cl; _] =>
      stmt = mk_binop eq (mk_terminal x)
               (mk_binop plus (mk_terminal a)
                  (mk_binop star (mk_terminal b) (mk_binop minus (mk_terminal c) (mk_terminal d)))) /\
      search (mkPos 1 15) stmt = mk_terminal c /\ cdiags (snd (parse_gold (txt ex_text))) = []
  | _, _ => False
  end.
Proof. vm_compute. auto. Qed.

(* ---------- from token lists to TEXTS ----------
   The file theorem composed with the lexer round trip (C05_lex_unlex): print ANY list of printable lexemes
   (Model/Unlex.v: one blank between lexemes, a line feed after a comment); if the lexed tokens are derivable
   as a file of the grammar, then the text lexes without error to exactly those lexemes and parses, with
   memoisation on, to the prescribed tree with zero diagnostics. *)
Theorem C06_text_roundtrip : forall lx f ns, forallb printable lx = true ->
  Decls f (fst (lex (unlex lx))) ns ->
  map lx_obs (fst (lex (unlex lx))) = lx /\ snd (lex (unlex lx)) = [] /\
  fst (parse_gold (fst (lex (unlex lx)))) = Ok [] (mk_root ns) /\
  cdiags (snd (parse_gold (fst (lex (unlex lx))))) = [].
Proof.
  intros lx f ns Hp Hd. destruct (lex_unlex lx Hp) as (A & B & _).
  destruct (file_roundtrip_parse_gold f _ ns Hd) as (C & D). auto.
Qed.

(*  class aX proc P while c x = y endwhile endproc   -- as a text *)
Example C06_text_example :
  let lx := [(TClass, [99;108;97;115;115]); (TIdentifier, [97;88]); (TProc, [112;114;111;99]); (TIdentifier, [80]);
             (TWhile, [119;104;105;108;101]); (TIdentifier, [99]); (TIdentifier, [120]); (TEquals, [61]);
             (TIdentifier, [121]); (TEndWhile, [101;110;100;119;104;105;108;101]); (TEndProc, [101;110;100;112;114;111;99])] in
  forallb printable lx = true /\
  exists ns, Decls 2 (fst (lex (unlex lx))) ns /\ length ns = 2%nat /\
             fst (parse_gold (fst (lex (unlex lx)))) = Ok [] (mk_root ns).
Proof.
  cbv zeta. split; [vm_compute; reflexivity|].
  match goal with |- context [fst (lex (unlex ?l))] => remember (fst (lex (unlex l))) as ts eqn:E end.
  vm_compute in E. subst ts.
  match goal with |- exists ns, Decls 2 [?ct; ?cn; ?pt; ?pn; ?wt; ?c; ?x; ?eq; ?y; ?ew; ?ep] ns /\ _ =>
    destruct (C06_file_derivable ct cn pt pn wt c x eq y ew ep eq_refl eq_refl eq_refl eq_refl eq_refl eq_refl
                eq_refl eq_refl eq_refl eq_refl eq_refl eq_refl) as (ns & Hd & Hns)
  end.
  exists ns. split; [exact Hd|]. split; [rewrite Hns; reflexivity|].
  exact (proj1 (C06_file_roundtrip 2 _ ns Hd)).
Qed.

(* ---------- a documented fact about comments (not a refutation of the property) ----------
   Comments between statements are layout for C06: the property speaks of constructs, and the
   correspondence check compares trees modulo comment nodes.  The declarative statement grammar of the
   proofs derives a comment node only where the parser keeps one; the two examples record where it
   does and where it does not. *)

(* a comment directly in front of a block statement is swallowed by the block parser's first
   exp_token (which skips comments): the tree has NO comment node
   "proc P\n;c\nloop\nendloop\nendproc\n" *)
Definition quirk_text : list N :=
  [112;114;111;99;32;80;10;59;99;10;108;111;111;112;10;101;110;100;108;111;111;112;10;101;110;100;112;114;111;99;10].
Example C06_comment_node_dropped_before_block :
  match fst (parse_gold (txt quirk_text)) with
  | Ok [] (Node KAstRoot _ _ _ _ [Node KAstProcedure _ _ _ _ [_; Node KAstMethodBody _ _ _ _ [Node KAstLoopBlock _ _ _ _ []]]]) => True
  | _ => False
  end.
Proof. vm_compute. exact I. Qed.

(* ... while in front of a simple statement it is kept: "proc P\n;c\nx = 1\nendproc\n" *)
Definition quirk_text2 : list N :=
  [112;114;111;99;32;80;10;59;99;10;120;32;61;32;49;10;101;110;100;112;114;111;99;10].
Example C06_comment_kept_before_simple :
  match fst (parse_gold (txt quirk_text2)) with
  | Ok [] (Node KAstRoot _ _ _ _ [Node KAstProcedure _ _ _ _
       [_; Node KAstMethodBody _ _ _ _ [Node KAstComment _ _ _ _ []; Node KAstBinaryOp _ _ _ _ _]]]) => True
  | _ => False
  end.
Proof. vm_compute. exact I. Qed.

(* ---------- a documented fact about the position lookup at token boundaries ----------
   Range::contains_pos is inclusive at both ends and the lookup descends into the FIRST child that contains the
   position.  Where two tokens touch, the shared position belongs to the earlier sibling: in
   "proc P\n a++b++\nendproc\n" the position 1:4 is the end of the first `++` and the start of `b`; the lookup
   answers the first statement, not the terminal b (one column further it answers b).  So "at ANY position of a
   node's token the innermost node is that node" holds for the terminals of one expression tree
   (C06_innermost_is_ident: siblings there are separated by an operator or bracket token) but not across touching
   statements; the generator of the correspondence check separates statements by line breaks. *)
Definition touch_text : list N := [112;114;111;99;32;80;10;32;97;43;43;98;43;43;10;101;110;100;112;114;111;99;10].
Example C06_lookup_at_touching_tokens :
  match fst (parse_gold (txt touch_text)) with
  | Ok [] (Node KAstRoot _ _ _ _ [Node KAstProcedure _ _ _ _ [_; Node KAstMethodBody _ _ _ _ [s1; s2] as body]]) =>
      nkind s1 = KAstUnaryOp /\ nkind s2 = KAstUnaryOp /\
      search (mkPos 1 4) body = s1 /\ nkind (search (mkPos 1 5) body) = KAstTerminal /\
      cdiags (snd (parse_gold (txt touch_text))) = []
  | _ => False
  end.
Proof. vm_compute. auto. Qed.

Print Assumptions C06_ladder_matches_model.
Print Assumptions C06_ladder_level_step.
Print Assumptions C06_ladder_dot_matches_model.
Print Assumptions C06_primary_alternatives_match.
Print Assumptions C06_ladder_names_match.
Print Assumptions C06_ladder_ok.
Print Assumptions C06_ladder_disjoint.
Print Assumptions C06_binops_roundtrip_generic.
Print Assumptions C06_binops_roundtrip.
Print Assumptions C06_paren_roundtrip.
Print Assumptions C06_expr_roundtrip.
Print Assumptions C06_primary_roundtrip.
Print Assumptions C06_precedence.
Print Assumptions C06_left_assoc.
Print Assumptions C06_parentheses.
Print Assumptions C06_all_operator_pairs_computed.
Print Assumptions C06_range_encloses.
Print Assumptions C06_binop_range.
Print Assumptions C06_innermost_is_ident.
Print Assumptions C06_expr_within_span.
Print Assumptions C06_type_encloses.
Print Assumptions C06_stmt_encloses.
Print Assumptions C06_decl_encloses.
Print Assumptions C06_file_encloses.
Print Assumptions C06_type_roundtrip.
Print Assumptions C06_params_roundtrip.
Print Assumptions C06_stmt_roundtrip.
Print Assumptions C06_decl_roundtrip.
Print Assumptions C06_oql_roundtrip.
Print Assumptions C06_oql_stmt_roundtrip.
Print Assumptions C06_oql_select_end.
Print Assumptions C06_oql_select_encloses.
Print Assumptions C06_oql_encloses.
Print Assumptions C06_composed_type_derivable.
Print Assumptions C06_annotations_derivable.
Print Assumptions C06_oql_derivable.
Print Assumptions C06_file_roundtrip_partial.
Print Assumptions C06_file_roundtrip_default_fuel.
Print Assumptions C06_parse_gold_fuel_independent.
Print Assumptions C06_file_roundtrip_any.
Print Assumptions C06_file_roundtrip.
Print Assumptions C06_expr_derivable.
Print Assumptions C06_record_type_derivable.
Print Assumptions C06_method_header_derivable.
Print Assumptions C06_file_derivable.
Print Assumptions C06_lexed_tokens_ordered.
Print Assumptions C06_lexed_example.
Print Assumptions C06_comment_node_dropped_before_block.
Print Assumptions C06_comment_kept_before_simple.
Print Assumptions C06_lookup_at_touching_tokens.
Print Assumptions C06_text_roundtrip.
Print Assumptions C06_text_example.

(* ---------- 6. the token-order hypothesis [tord], discharged for the lexer's output (Proofs/LexTord.v) ----------
   A token's range is start .. start + number of characters of its VALUE, on the start line.  The value is never
   longer than the chunk of text the token consumed, and a chunk that holds a line feed (multi-line literal) puts
   every later token on a later line: each token ends at or before the next one starts, for EVERY text.
   [twf] also wants a non-empty range of every non-literal token; the one token class without it is the EMPTY
   COMMENT (a ';' directly followed by the end of the line: a comment's range covers the text after the ';'),
   so [tord] holds exactly for the texts without one (C06_lexed_tokens_ordered_iff; C06_empty_comment_refuted).
   A zero-width range on a ';' is not an identifier position (C06's clause is about the lookup at identifiers), so the
   empty comment is a limit of the HYPOTHESIS [twf] as stated in RangeEnc.v, not a defect of the code. *)
From GoldV Require Import LexTord.

Theorem C06_lexed_tokens_ordered_all : forall text,
  nonempty_comments (fst (lex text)) = true -> tord (fst (lex text)).
Proof. exact lex_tord. Qed.

Theorem C06_lexed_tokens_ordered_iff : forall text,
  tord (fst (lex text)) <-> nonempty_comments (fst (lex text)) = true.
Proof. exact lex_tord_iff. Qed.

(* without any side condition: start <= end for every token of every text *)
Theorem C06_lexed_ranges_wf : forall text, Forall (fun t => pos_le (tstart t) (tend t)) (fst (lex text)).
Proof. exact lex_ranges_wf. Qed.

(* "a ;" LF "b" : the comment's range is 0:2-0:2 *)
Theorem C06_empty_comment_refuted : exists text, ~ tord (fst (lex text)).
Proof. exact empty_comment_refuted. Qed.

(* the rule before /repo f444e80 (range length = UTF-8 byte length of the value, [old_tokens]) breaks the order on
   Foo('éééééé', xv): the literal's end, column 16, is past the comma (12) and the identifier xv (14), which is why
   go-to-definition on xv answered nothing; with the rule the code has now the same text is ordered *)
Theorem C06_old_token_end_in_bytes_refuted : exists text, ~ tord (old_tokens text) /\ tord (fst (lex text)).
Proof. exact old_token_end_in_bytes_refuted. Qed.

(* the enclosure theorems of section 4 for the tokens of a TEXT: whole files ... *)
Theorem C06_text_encloses : forall text fuel ns,
  nonempty_comments (fst (lex text)) = true -> Decls fuel (fst (lex text)) ns -> Forall enc_tree ns.
Proof. exact text_encloses. Qed.

(* ... and an expression anywhere in a text (ts: a contiguous part of the text's token list) *)
Theorem C06_range_encloses_text : forall text a ts b f n,
  nonempty_comments (fst (lex text)) = true -> fst (lex text) = a ++ ts ++ b -> GExpr f ts n ->
  forall m c, subnode m n -> In c (nchildren m) -> encloses (nrange m) (nrange c).
Proof. exact text_range_encloses. Qed.

Theorem C06_innermost_is_ident_text : forall text a ts b f n,
  nonempty_comments (fst (lex text)) = true -> fst (lex text) = a ++ ts ++ b -> GExpr f ts n ->
  forall t, subnode (mk_terminal t) n -> forall p, contains (trange t) p = true -> search p n = mk_terminal t.
Proof. exact text_innermost_is_ident. Qed.

(* printed lexemes (C06_text_roundtrip): the side condition is one on the lexemes *)
Theorem C06_unlex_tokens_ordered : forall lx,
  forallb printable lx = true -> lx_nonempty_comments lx = true -> tord (fst (lex (unlex lx))).
Proof. exact unlex_tord. Qed.

(* non-vacuity: the hypotheses of C06_text_encloses hold of the text of C06_text_example, and of a text with a
   comment, a two-line literal, a doubled quote, a non-ASCII literal and #digits *)
Example C06_text_encloses_example :
  let lx := [(TClass, [99;108;97;115;115]); (TIdentifier, [97;88]); (TProc, [112;114;111;99]); (TIdentifier, [80]);
             (TWhile, [119;104;105;108;101]); (TIdentifier, [99]); (TIdentifier, [120]); (TEquals, [61]);
             (TIdentifier, [121]); (TEndWhile, [101;110;100;119;104;105;108;101]); (TEndProc, [101;110;100;112;114;111;99])] in
  nonempty_comments (fst (lex (unlex lx))) = true /\
  exists ns, Decls 2 (fst (lex (unlex lx))) ns /\ length ns = 2%nat /\ Forall enc_tree ns.
Proof.
  cbv zeta. destruct C06_text_example as (_ & ns & Hd & Hl & _).
  assert (nonempty_comments (fst (lex (unlex
    [(TClass, [99;108;97;115;115]); (TIdentifier, [97;88]); (TProc, [112;114;111;99]); (TIdentifier, [80]);
     (TWhile, [119;104;105;108;101]); (TIdentifier, [99]); (TIdentifier, [120]); (TEquals, [61]);
     (TIdentifier, [121]); (TEndWhile, [101;110;100;119;104;105;108;101]); (TEndProc, [101;110;100;112;114;111;99])]))) = true) as Hc
    by (vm_compute; reflexivity).
  split; [exact Hc|]. exists ns. split; [exact Hd|]. split; [exact Hl|].
  exact (C06_text_encloses _ 2 ns Hc Hd).
Qed.

(*  x = 'a LF b' + "c''d" + 'éé' ;k LF #12 y  *)
Definition tord_text : list N :=
  [120;32;61;32;39;97;10;98;39;32;43;32;34;99;39;39;100;34;32;43;32;39;233;233;39;32;59;107;10;35;49;50;32;121].
Example C06_lexed_tokens_ordered_example :
  nonempty_comments (txt tord_text) = true /\ length (txt tord_text) = 10%nat /\ tord (txt tord_text).
Proof.
  assert (nonempty_comments (txt tord_text) = true) as Hc by (vm_compute; reflexivity).
  split; [exact Hc|]. split; [vm_compute; reflexivity|]. exact (C06_lexed_tokens_ordered_all tord_text Hc).
Qed.

Print Assumptions C06_lexed_tokens_ordered_all.
Print Assumptions C06_lexed_tokens_ordered_iff.
Print Assumptions C06_lexed_ranges_wf.
Print Assumptions C06_empty_comment_refuted.
Print Assumptions C06_old_token_end_in_bytes_refuted.
Print Assumptions C06_text_encloses.
Print Assumptions C06_range_encloses_text.
Print Assumptions C06_innermost_is_ident_text.
Print Assumptions C06_unlex_tokens_ordered.
Print Assumptions C06_text_encloses_example.
Print Assumptions C06_lexed_tokens_ordered_example.

(* ---------- the names' token types, regenerated from the source (translator T6) ----------
   Gen/IdentTokens.v is rewritten on every run from parse_ident_token of body_parser.rs.  The model's parser of a name
   IS the ordered choice over the regenerated list, and the set `ident_types` the derivability relation (GPrim_ident,
   D_id, method names, parameter names ...) is stated with is the same list: dropping or adding a token type in the
   source breaks this obligation (and the correspondence then looks for a program on which the property fails). *)
From GoldV Require Import IdentTokens.

Theorem C06_ident_tokens_match :
  parse_ident_token = tok_alt gen_ident_tokens /\ ident_types = gen_ident_tokens /\ length gen_ident_tokens = 16%nat.
Proof. repeat split; reflexivity. Qed.

Print Assumptions C06_ident_tokens_match.
