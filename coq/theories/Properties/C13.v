(* C13  The type hierarchy equals the declared inheritance relation.
   Statements only (tiny glue); proofs in Proofs/ForestProofs.v over Model/Forest.v.

   fs : list file      the (class name, optional parent name) of every class file, as spelled
   Forest fs           one file per class name ignoring case, no cycle in the declared parents
   R fs child parent   the declared relation on upper-cased names
   build fs            the sequential builder (build_tree)
   run true true sched (init cs)
                       the parallel builder (build_tree_parallel): cs = the chunks, one thread per
                       chunk, sched = ANY interleaving of their atomic steps (look-up / insert if
                       still absent / look-up / insert if still absent / check-and-link)
   The bound `length fs <= 5000` keeps is_self_or_ancestor's 10 000-step cut-off out of reach
   (at most two nodes per file); beyond it a chain of more than 10 000 ancestors is refused. *)
From GoldV Require Import Base Forest ParentGraph ForestProofs.
From Coq Require Import Permutation Relations Ascii.
From Coq Require String.
Import String.StringSyntax.
Local Open Scope nat_scope.

(* ---- the sequential builder, any enumeration order of the files ---- *)
Theorem C13_seq_forest :
  forall fs fs', Forest fs -> length fs <= 5000 -> Permutation fs fs' ->
    TreeSpec fs (build fs').
Proof.
  intros fs fs' HF Hb Hp.
  assert (S' : TreeSpec fs' (build fs')).
  { apply seq_spec; [eapply Forest_perm; eauto | apply isa_bound_5000; rewrite <- (Permutation_length Hp); exact Hb]. }
  assert (H1 : forall f, In f fs -> In f fs') by (intros f; apply Permutation_in; exact Hp).
  assert (H2 : forall f, In f fs' -> In f fs) by (intros f; apply Permutation_in; symmetry; exact Hp).
  destruct S'. constructor; auto.
  - intro k. rewrite sKeys. split; apply names_incl; assumption.
  - intros k q. rewrite sParent. split; apply R_incl; assumption.
  - intros k c. rewrite sKids. split; apply R_incl; assumption.
Qed.

(* what TreeSpec says, spelled out: one node per declared or referenced name, none besides;
   parent and children are the declared relation (children as a duplicate-free list) *)
Theorem C13_seq_forest_unfolded :
  forall fs fs', Forest fs -> length fs <= 5000 -> Permutation fs fs' ->
    let t := build fs' in
    (forall k, In k (keys t) <-> In k (names fs)) /\
    (forall p, p < length (heap t) -> lookup t (key_of t p) = Some p) /\
    (forall k q, kparent t k = Some q <-> R fs k q) /\
    (forall k c, In c (kchildren t k) <-> R fs c k) /\
    (forall k, NoDup (kchildren t k)).
Proof.
  intros fs fs' HF Hb Hp t. destruct (C13_seq_forest fs fs' HF Hb Hp). repeat split; auto; apply sParent || apply sKids || apply sKeys.
Qed.

Theorem C13_order_independent :
  forall fs fs', Forest fs -> length fs <= 5000 -> Permutation fs fs' ->
    same_rel (build fs) (build fs').
Proof.
  intros fs fs' HF Hb Hp.
  apply same_rel_of_spec with fs fs.
  - apply C13_seq_forest; auto.
  - apply C13_seq_forest; auto.
  - tauto.
  - tauto.
Qed.

(* the letter case of class names and parent references does not matter *)
Theorem C13_case_independent :
  forall fs fs', Forest fs -> length fs <= 5000 -> recased fs fs' ->
    same_rel (build fs) (build fs').
Proof.
  intros fs fs' HF Hb Hr.
  apply same_rel_of_spec with fs fs'.
  - apply C13_seq_forest; auto.
  - apply seq_spec; [eapply recased_Forest; eauto | apply isa_bound_5000; rewrite <- (recased_length _ _ Hr); exact Hb].
  - intros a b. split; apply recased_R; [exact Hr | apply recased_sym; exact Hr].
  - intro k. rewrite (recased_names _ _ Hr). tauto.
Qed.

(* ---- class items ---- *)
Theorem C13_class_super :
  forall fs c q, Forest fs -> length fs <= 5000 ->
    (In q (supertypes (build fs) c) <-> R fs (upper c) q) /\ length (supertypes (build fs) c) <= 1.
Proof.
  intros fs c q HF Hb. pose proof (C13_seq_forest fs fs HF Hb (Permutation_refl _)) as S.
  unfold supertypes. destruct (kparent (build fs) (upper c)) as [x|] eqn:E; simpl.
  - split; [|lia]. split.
    + intros [<-|[]]. apply (sParent _ _ S). exact E.
    + intro H. apply (sParent _ _ S) in H. left. congruence.
  - split; [|lia]. split; [intros [] | intro H; apply (sParent _ _ S) in H; congruence].
Qed.

Theorem C13_class_sub :
  forall fs c x, Forest fs -> length fs <= 5000 ->
    (In x (subtypes (build fs) c) <-> R fs x (upper c)) /\ NoDup (subtypes (build fs) c).
Proof.
  intros fs c x HF Hb. pose proof (C13_seq_forest fs fs HF Hb (Permutation_refl _)) as S.
  unfold subtypes. split; [apply (sKids _ _ S) | apply (sKidsND _ _ S)].
Qed.

(* ---- members: nearest declaration up, frontier of declarations down ----
   d k = Some ms : the file of class k declares the members ms (upper-cased); every class file of
   the workspace is known to d (`consistent`) *)
Theorem C13_member_up :
  forall fs d c nm, Forest fs -> length fs <= 5000 -> consistent fs d ->
    exists r, member_supertypes (build fs) d c nm = Ok r /\
      forall ka, option_map (key_of (build fs)) r = Some ka <-> nearest_up fs d (upper nm) (upper c) ka.
Proof.
  intros fs d c nm HF Hb Hc.
  apply member_up_correct; auto. apply C13_seq_forest; auto.
Qed.

Theorem C13_member_down :
  forall fs d c nm, Forest fs -> length fs <= 5000 -> consistent fs d ->
    exists r, member_subtypes (build fs) d c nm = Ok r /\
      forall kx, In kx (map (key_of (build fs)) r) <-> frontier fs d (upper nm) (upper c) kx.
Proof.
  intros fs d c nm HF Hb Hc.
  apply member_down_correct; auto. apply C13_seq_forest; auto.
Qed.

(* ---- the parallel builder: ALL chunkings, ALL schedules ---- *)
Theorem C13_par_equals_seq :
  forall fs cs sched, Forest fs -> length fs <= 5000 -> Permutation (concat cs) fs ->
    all_done (run true true sched (init cs)) = true ->
    TreeSpec fs (st (run true true sched (init cs))) /\
    same_rel (st (run true true sched (init cs))) (build fs).
Proof.
  intros fs cs sched HF Hb Hp Hd.
  assert (S1 : TreeSpec fs (st (run true true sched (init cs)))).
  { apply par_spec; auto. apply isa_bound_5000. exact Hb. }
  split; [exact S1|].
  apply same_rel_of_spec with fs fs; [exact S1 | apply C13_seq_forest; auto | tauto | tauto].
Qed.

(* files_to_process.chunks(n) for every chunk size *)
Theorem C13_chunking_irrelevant :
  forall fs n sched, Forest fs -> length fs <= 5000 -> 0 < n ->
    all_done (par_build n sched fs) = true ->
    same_rel (st (par_build n sched fs)) (build fs).
Proof.
  intros fs n sched HF Hb Hn Hd. unfold par_build in *.
  apply C13_par_equals_seq; auto. rewrite chunks_concat by exact Hn. apply Permutation_refl.
Qed.

(* the invariant behind it, in EVERY reachable state of every interleaving (one file per class is
   enough): every node ever allocated is the map's node for its own name -- no second node for a
   name, no orphan -- and the children lists are duplicate-free inverses of the parent links *)
Theorem C13_par_one_node_per_name :
  forall fs cs sched, NoDup (map ckey fs) -> Permutation (concat cs) fs ->
    let t := st (run true true sched (init cs)) in
    (forall p, p < length (heap t) -> lookup t (key_of t p) = Some p) /\
    (forall k p, lookup t k = Some p -> p < length (heap t) /\ key_of t p = k) /\
    (forall q e, In e (kids_of t q) <-> parent_of t e = Some q) /\
    (forall q, NoDup (kids_of t q)).
Proof.
  intros fs cs sched Hnd Hp t.
  destruct (run_SInv fs sched _ (init_SInv fs cs Hnd Hp)) as [I _].
  split; [apply (iA1 _ _ _ I)|]. split; [apply (iA2 _ _ _ I)|]. split; [apply (iC1 _ _ _ I) | apply (iC2 _ _ _ I)].
Qed.

(* on forests is_self_or_ancestor never refuses a link: with and without the check the builders
   compute the same tree, step by step *)
Theorem C13_cycle_guard_inert_on_forests :
  forall fs, Forest fs -> length fs <= 5000 ->
    build_old fs = build fs /\
    forall cs sched, Permutation (concat cs) fs ->
      run true false sched (init cs) = run true true sched (init cs).
Proof.
  intros fs HF Hb. pose proof (isa_bound_5000 _ Hb) as Hb'. split.
  - apply guard_inert_seq; auto.
  - intros cs sched Hp. apply guard_inert_run with fs; auto.
Qed.

(* ---- witnesses ---- *)
Fixpoint s2l (s : String.string) : str :=
  match s with
  | String.EmptyString => []
  | String.String a r => N.of_nat (nat_of_ascii a) :: s2l r
  end.
Arguments s2l _%string_scope.
Local Notation "# s" := (s2l s) (at level 1, format "# s").

Definition ws1 : list file :=
  [ (#"aP", None); (#"aC1", Some #"AP"); (#"aC2", Some #"ap"); (#"aG", Some #"aC2"); (#"aR", Some #"aMissing") ].

Lemma rank_forest fs (rank : str -> nat) :
  NoDup (map ckey fs) -> (forall a b, R fs a b -> rank b < rank a) -> Forest fs.
Proof.
  intros Hnd Hr. split; [exact Hnd|].
  assert (H : forall a b, clos_trans str (R fs) a b -> rank b < rank a).
  { intros a b Hc. induction Hc; [auto | lia]. }
  intros k Hk. specialize (H k k Hk). lia.
Qed.

Definition rank1 (k : str) : nat :=
  if str_eqb k #"AG" then 2 else if str_eqb k #"AP" then 0 else if str_eqb k #"AMISSING" then 0 else 1.

Example C13_ws1_is_forest : Forest ws1 /\ length ws1 <= 5000.
Proof.
  split; [|simpl; lia]. apply rank_forest with rank1.
  - vm_compute. repeat constructor; simpl; intuition discriminate.
  - intros a b [c [pn [Hin [<- <-]]]]. simpl in Hin.
    repeat (destruct Hin as [Hin|Hin]; [inversion Hin; subst; vm_compute; lia|]). contradiction.
Qed.

(* the hypotheses of the theorems above are satisfiable, and the result is not trivial *)
Example C13_ws1_answers :
  supertypes (build ws1) #"ac1" = [#"AP"] /\
  subtypes (build ws1) #"Ap" = [#"AC1"; #"AC2"] /\
  supertypes (build (rev ws1)) #"aG" = [#"AC2"] /\
  Permutation (subtypes (build (rev ws1)) #"AP") [#"AC1"; #"AC2"].
Proof.
  split; [vm_compute; reflexivity|]. split; [vm_compute; reflexivity|]. split; [vm_compute; reflexivity|].
  assert (E : subtypes (build (rev ws1)) #"AP" = [#"AC2"; #"AC1"]) by (vm_compute; reflexivity).
  rewrite E. apply perm_swap.
Qed.

Definition chunks1 : list (list file) := chunks 2 ws1.
Definition sched1 : list nat := rr_sched 3 12.

Example C13_ws1_parallel_run_completes :
  Permutation (concat chunks1) ws1 /\ all_done (run true true sched1 (init chunks1)) = true /\
  (* the children arrive in another order than in the sequential build: compared as sets *)
  subtypes (st (run true true sched1 (init chunks1))) #"aP" = [#"AC2"; #"AC1"] /\
  subtypes (build ws1) #"aP" = [#"AC1"; #"AC2"].
Proof.
  split; [assert (E : concat chunks1 = ws1) by (vm_compute; reflexivity); rewrite E; apply Permutation_refl|].
  split; [vm_compute; reflexivity|]. split; vm_compute; reflexivity.
Qed.

(* the code BEFORE e20acc7 (insert unconditionally after the missed look-up): two workers meeting
   on the shared parent create two nodes; the child linked to the first one is lost *)
Definition ws2 : list file := [ (#"aC1", Some #"aP"); (#"aC2", Some #"aP") ].
Definition sched2 : list nat := [0; 0; 1; 1; 0; 1; 0; 1; 0; 1].

Theorem C13_old_par_refuted :
  exists fs cs sched,
    Forest fs /\ concat cs = fs /\ all_done (run false true sched (init cs)) = true /\
    (* the repaired code, same chunks, same schedule: *)
    subtypes (st (run true true sched (init cs))) #"aP" = [#"AC1"; #"AC2"] /\
    (* the old code: aC1 is not a subtype of aP, although it declares aP as parent, and the heap
       holds a node (the first aP) that the map does not know *)
    R fs #"AC1" #"AP" /\ subtypes (st (run false true sched (init cs))) #"aP" = [#"AC2"] /\
    exists p, p < length (heap (st (run false true sched (init cs)))) /\
              lookup (st (run false true sched (init cs))) (key_of (st (run false true sched (init cs))) p) <> Some p.
Proof.
  exists ws2, [[(#"aC1", Some #"aP")]; [(#"aC2", Some #"aP")]], sched2.
  split.
  { apply rank_forest with (fun k => if str_eqb k #"AP" then 0 else 1).
    - vm_compute. repeat constructor; simpl; intuition discriminate.
    - intros a b [c [pn [Hin [<- <-]]]]. simpl in Hin.
      repeat (destruct Hin as [Hin|Hin]; [inversion Hin; subst; vm_compute; lia|]). contradiction. }
  split; [reflexivity|]. split; [vm_compute; reflexivity|]. split; [vm_compute; reflexivity|].
  split; [exists #"aC1", #"aP"; vm_compute; auto|]. split; [vm_compute; reflexivity|].
  exists 2. split; [vm_compute; lia | vm_compute; discriminate].
Qed.

(* the code BEFORE 3e4a84d named a hierarchy item after the node id, i.e. after the first spelling
   the builder met: the answer depended on the enumeration order of the files *)
Theorem C13_old_name_refuted :
  exists fs fs', Permutation fs fs' /\ Forest fs /\
    old_item_name (build fs) #"AP" <> old_item_name (build fs') #"AP" /\
    same_rel (build fs) (build fs').
Proof.
  exists [ (#"aP", None); (#"aC1", Some #"AP") ], [ (#"aC1", Some #"AP"); (#"aP", None) ].
  assert (HF : Forest [ (#"aP", None); (#"aC1", Some #"AP") ]).
  { apply rank_forest with (fun k => if str_eqb k #"AP" then 0 else 1).
    - vm_compute. repeat constructor; simpl; intuition discriminate.
    - intros a b [c [pn [Hin [<- <-]]]]. simpl in Hin.
      repeat (destruct Hin as [Hin|Hin]; [inversion Hin; subst; vm_compute; lia|]). contradiction. }
  split; [apply perm_swap|]. split; [exact HF|]. split; [vm_compute; discriminate|].
  apply C13_order_independent; [exact HF | simpl; lia | apply perm_swap].
Qed.

Print Assumptions C13_seq_forest.
Print Assumptions C13_seq_forest_unfolded.
Print Assumptions C13_order_independent.
Print Assumptions C13_case_independent.
Print Assumptions C13_class_super.
Print Assumptions C13_class_sub.
Print Assumptions C13_member_up.
Print Assumptions C13_member_down.
Print Assumptions C13_par_equals_seq.
Print Assumptions C13_chunking_irrelevant.
Print Assumptions C13_par_one_node_per_name.
Print Assumptions C13_cycle_guard_inert_on_forests.
Print Assumptions C13_ws1_is_forest.
Print Assumptions C13_ws1_answers.
Print Assumptions C13_ws1_parallel_run_completes.
Print Assumptions C13_old_par_refuted.
Print Assumptions C13_old_name_refuted.

(* ==========================================================================================
   C13 at TREE level (appended): the abstract input above is what the code derives from the REAL
   syntax trees.  Model/HierTree.v (workspace = list of (file stem, dumped tree)), proofs in
   Proofs/HierTreeProofs.v, witnesses from real dumps in Proofs/HierTreeWitness.v.
     HierTree.forest_input_of_ws ws   (class name, parent reference, names of the root table) per document
     HierTree.files_of_ws ws          its (name, parent) part = the files the builders see
     HierTree.class_tree ws           = build (files_of_ws ws)
     HierTreeProofs.declares_parent ws a b
                                      some document's header (first class / module child of the root) is
                                      called a and names b as its parent, both ignoring case
   ========================================================================================== *)
From GoldV Require Tokens Lexer AstKinds Tree Encase SymTab Scoping Annot DefTree RangeBase RangeTop AnnotProofs
                   DefTreeProofs HierTree HierTreeProofs HierTreeWitness.

Theorem C13_tree_input_refines :
  forall ws, Forall (fun d => AnnotProofs.regular (snd d)) ws ->
    HierTree.forest_input_of_ws ws =
    map (fun d => HierTreeProofs.hier_of_entity (AnnotProofs.entity_of_tree (snd d))) ws.
Proof. exact HierTreeProofs.hier_input_refines. Qed.

Theorem C13_tree_relation :
  forall ws a b, R (HierTree.files_of_ws ws) a b <-> HierTreeProofs.declares_parent ws a b.
Proof. exact HierTreeProofs.R_tree. Qed.

(* supertypes of class c = the class named by the parent reference of c's header, ignoring case *)
Theorem C13_tree_class_super :
  forall ws c q, HierTreeProofs.ws_forest ws -> length ws <= 5000 ->
    (In q (supertypes (HierTree.class_tree ws) c) <-> HierTreeProofs.declares_parent ws (upper c) q) /\
    length (supertypes (HierTree.class_tree ws) c) <= 1.
Proof. exact HierTreeProofs.C13_class_super_tree. Qed.

(* subtypes of class c = exactly the classes whose header names c *)
Theorem C13_tree_class_sub :
  forall ws c x, HierTreeProofs.ws_forest ws -> length ws <= 5000 ->
    (In x (subtypes (HierTree.class_tree ws) c) <-> HierTreeProofs.declares_parent ws x (upper c)) /\
    NoDup (subtypes (HierTree.class_tree ws) c).
Proof. exact HierTreeProofs.C13_class_sub_tree. Qed.

(* "the class with key k declares nm" on the trees: the root table AstAnnotator builds for the document
   whose stem is k knows the name (any symbol type, ignoring case, the latest declaration) *)
Theorem C13_tree_member_declares :
  forall ws nm k,
    declares (HierTree.decls_of_ws ws) (upper nm) k <->
    exists d, HierTree.doc_of ws k = Some d /\ DefTree.find_in (HierTree.root_of d) nm <> None.
Proof. exact HierTreeProofs.declares_tree. Qed.

Theorem C13_tree_member_up :
  forall ws c nm, HierTreeProofs.ws_forest ws -> length ws <= 5000 -> HierTreeProofs.named_by_stem ws ->
    exists r, member_supertypes (HierTree.class_tree ws) (HierTree.decls_of_ws ws) c nm = Ok r /\
      forall ka, option_map (key_of (HierTree.class_tree ws)) r = Some ka <->
                 nearest_up (HierTree.files_of_ws ws) (HierTree.decls_of_ws ws) (upper nm) (upper c) ka.
Proof. exact HierTreeProofs.C13_member_up_tree. Qed.

Theorem C13_tree_member_down :
  forall ws c nm, HierTreeProofs.ws_forest ws -> length ws <= 5000 -> HierTreeProofs.named_by_stem ws ->
    exists r, member_subtypes (HierTree.class_tree ws) (HierTree.decls_of_ws ws) c nm = Ok r /\
      forall kx, In kx (map (key_of (HierTree.class_tree ws)) r) <->
                 frontier (HierTree.files_of_ws ws) (HierTree.decls_of_ws ws) (upper nm) (upper c) kx.
Proof. exact HierTreeProofs.C13_member_down_tree. Qed.

Theorem C13_tree_order_independent :
  forall ws ws', HierTreeProofs.ws_forest ws -> length ws <= 5000 -> Permutation ws ws' ->
    same_rel (HierTree.class_tree ws) (HierTree.class_tree ws').
Proof. exact HierTreeProofs.C13_order_independent_tree. Qed.

Theorem C13_tree_case_independent :
  forall ws ws', HierTreeProofs.ws_forest ws -> length ws <= 5000 -> HierTreeProofs.recased_ws ws ws' ->
    same_rel (HierTree.class_tree ws) (HierTree.class_tree ws').
Proof. exact HierTreeProofs.C13_case_independent_tree. Qed.

(* a prepared item: selection range = range of the declared name of a visited declaration node of the
   document, range = that node's range; inside one another for trees with well-formed ranges (C08) *)
Theorem C13_tree_item_ranges :
  forall ws d p it, HierTree.prepare ws d p = DefTree.Ans (HierTree.ROk [it]) ->
    exists n, In n (Annot.visit_seq false (snd d)) /\
      HierTree.i_sel it = Annot.name_range (snd n) /\ HierTree.i_range it = Tree.nrange (snd n) /\
      (HierTree.i_name it = Tree.nident (snd n) \/
       (HierTree.i_name it = Scoping.s_self /\ Annot.dkind_at n = Some Annot.DClass)) /\
      forall L, RangeTop.Forall_nodes (RangeTop.NodeWf L) (snd d) -> RangeBase.inside (HierTree.i_sel it) (HierTree.i_range it).
Proof. exact HierTreeProofs.hier_item_ranges. Qed.

(* where an item is prepared, regular trees: on the class header / a field declaration / a method's name *)
Theorem C13_tree_prepare_class :
  forall ws stem t p i h,
    AnnotProofs.regular t -> DefTree.flat_methods t = true -> DefTree.is_dot t = false ->
    find AnnotProofs.is_header (Tree.nchildren t) = Some h -> Tree.is_kind AstKinds.KAstClass h = true ->
    HierTreeProofs.at_top_child t p i h ->
    DefTree.find_in (Annot.root_table_of false t) (Tree.nident h) = Some (AnnotProofs.decl_sym h) ->
    HierTree.prepare ws (stem, t) p =
    DefTree.Ans (HierTree.ROk [HierTree.item_of_node HierTree.IClass (HierTree.class_uri ws stem (Tree.nident h)) h]).
Proof. exact HierTreeProofs.hier_prepare_char_class. Qed.

Theorem C13_tree_prepare_field :
  forall ws stem t p i c h d',
    AnnotProofs.regular t -> DefTree.flat_methods t = true -> DefTree.is_dot t = false ->
    find AnnotProofs.is_header (Tree.nchildren t) = Some h ->
    Tree.is_kind AstKinds.KAstGlobalVariableDeclaration c = true ->
    HierTreeProofs.at_top_child t p i c ->
    DefTree.find_in (Annot.root_table_of false t) (Tree.nident c) = Some (AnnotProofs.decl_sym c) ->
    HierTree.doc_of ws (upper (Tree.nident h)) = Some d' ->
    HierTree.prepare ws (stem, t) p = DefTree.Ans (HierTree.ROk [HierTree.item_of_node HierTree.IField (fst d') c]).
Proof. exact HierTreeProofs.hier_prepare_char_field. Qed.

Theorem C13_tree_prepare_method :
  forall ws stem t p i m j nm h mt d',
    AnnotProofs.regular t -> DefTree.flat_methods t = true ->
    find AnnotProofs.is_header (Tree.nchildren t) = Some h ->
    DefTree.descend p t = [(i, m); (j, nm)] -> DefTree.is_method_node m = true -> DefTree.is_dot m = false ->
    nth_error (Annot.method_tables_of false t)
              (length (filter DefTree.is_method_node (firstn i (Tree.nchildren t)))) = Some mt ->
    DefTree.find_in mt (Tree.nident nm) = None ->
    DefTree.find_in (Annot.root_table_of false t) (Tree.nident nm) = Some (AnnotProofs.decl_sym m) ->
    HierTree.doc_of ws (upper (Tree.nident h)) = Some d' ->
    HierTree.prepare ws (stem, t) p = DefTree.Ans (HierTree.ROk [HierTree.item_of_node HierTree.IFunc (fst d') m]).
Proof. exact HierTreeProofs.hier_prepare_char_method. Qed.

(* ---- non-vacuity: a 3-class workspace of REAL dumps (aKa; aKb (AKA); aKc (aKb)) ---- *)
Example C13_tree_ws_regular : Forall (fun d => AnnotProofs.regular (snd d)) HierTreeWitness.ht_ws.
Proof. exact HierTreeWitness.ht_ws_regular. Qed.

Example C13_tree_ws_hypotheses :
  HierTreeProofs.ws_forest HierTreeWitness.ht_ws /\ length HierTreeWitness.ht_ws <= 5000 /\
  HierTreeProofs.named_by_stem HierTreeWitness.ht_ws.
Proof. exact HierTreeWitness.ht_ws_hypotheses. Qed.

Example C13_tree_ws_input :
  HierTree.forest_input_of_ws HierTreeWitness.ht_ws =
  [ (#"aKa", None, [#"aKa"; #"self"; #"Fld"; #"Foo"]);
    (#"aKb", Some #"AKA", [#"aKb"; #"self"; #"fld"; #"Foo"]);
    (#"aKc", Some #"aKb", [#"aKc"; #"self"; #"Calc"; #"foo"]) ].
Proof. exact HierTreeWitness.ht_ws_input. Qed.

Example C13_tree_ws_answers :
  supertypes (HierTree.class_tree HierTreeWitness.ht_ws) #"akb" = [#"AKA"] /\
  subtypes (HierTree.class_tree HierTreeWitness.ht_ws) #"AKA" = [#"AKB"] /\
  HierTreeWitness.names_stems (HierTree.supertypes_of HierTreeWitness.ht_ws (HierTree.class_tree HierTreeWitness.ht_ws)
     (HierTree.mkItem #"foo" HierTree.IFunc #"aKc" HierTreeWitness.r0 HierTreeWitness.r0)) = [(#"Foo", #"aKb")] /\
  HierTreeWitness.names_stems (HierTree.subtypes_of HierTreeWitness.ht_ws (HierTree.class_tree HierTreeWitness.ht_ws)
     (HierTree.mkItem #"FLD" HierTree.IField #"aKa" HierTreeWitness.r0 HierTreeWitness.r0)) = [(#"fld", #"aKb")].
Proof.
  destruct HierTreeWitness.ht_ws_answers as (H1 & H2 & _ & _ & H5 & _ & H7 & _). repeat split; assumption.
Qed.

Example C13_tree_ws_prepare :
  HierTree.prepare HierTreeWitness.ht_ws (#"aKb", HierTreeWitness.ht_kb) (Lexer.mkPos 0 7) =
    DefTree.Ans (HierTree.ROk [HierTree.mkItem #"aKb" HierTree.IClass #"aKb"
       (Lexer.mkRange (Lexer.mkPos 0 6) (Lexer.mkPos 0 9)) (Lexer.mkRange (Lexer.mkPos 0 0) (Lexer.mkPos 0 15))]) /\
  HierTree.prepare HierTreeWitness.ht_ws (#"aKc", HierTreeWitness.ht_kc) (Lexer.mkPos 6 6) =
    DefTree.Ans (HierTree.ROk [HierTree.mkItem #"foo" HierTree.IFunc #"aKc"
       (Lexer.mkRange (Lexer.mkPos 6 5) (Lexer.mkPos 6 8)) (Lexer.mkRange (Lexer.mkPos 6 0) (Lexer.mkPos 7 7))]).
Proof. destruct HierTreeWitness.ht_ws_prepare as (H1 & _ & H3). split; assumption. Qed.

(* ---- the uri of a prepared item (C08 for hierarchy items: the ranges lie in the document the item names) ---- *)
(* ALL trees: the item is made from a symbol of a table T of the requested document; its uri is the document
   get_uri_for_class finds for T's class, else (class items only) the requested document *)
Theorem C13_tree_item_uri_any :
  forall ws d p it, HierTree.prepare ws d p = DefTree.Ans (HierTree.ROk [it]) ->
    exists T a, In T (AnnotProofs.tables_of false (snd d)) /\ In a (Annot.t_syms T) /\
      HierTree.item_for ws (fst d) (Annot.cls_str T) a = HierTree.ROk [it] /\
      HierTree.i_name it = Annot.a_name a /\
      (HierTree.i_uri it = fst d \/
       exists d', HierTree.doc_of ws (upper (Annot.cls_str T)) = Some d' /\ HierTree.i_uri it = fst d').
Proof. exact HierTreeProofs.hier_item_uri. Qed.

(* documents named after their classes, distinct stems, a regular document d: the item names d itself, is made
   from a symbol of d's ROOT table, and its ranges are the declared-name range / the range of a declaration node
   of d's own tree *)
Theorem C13_tree_item_uri :
  forall ws d p it,
    In d ws -> HierTreeProofs.distinct_stems ws -> HierTreeProofs.named_by_stem ws -> AnnotProofs.regular (snd d) ->
    HierTree.prepare ws d p = DefTree.Ans (HierTree.ROk [it]) ->
    HierTree.i_uri it = fst d /\ HierTree.doc_of ws (upper (HierTree.i_uri it)) = Some d /\
    (exists a, In a (Annot.t_syms (HierTree.root_of d)) /\ Annot.a_name a = HierTree.i_name it /\
               Annot.a_sel a = HierTree.i_sel it /\ Annot.a_range a = HierTree.i_range it) /\
    exists n, In n (Annot.visit_seq false (snd d)) /\
      HierTree.i_sel it = Annot.name_range (snd n) /\ HierTree.i_range it = Tree.nrange (snd n) /\
      forall L, RangeTop.Forall_nodes (RangeTop.NodeWf L) (snd d) -> RangeBase.inside (HierTree.i_sel it) (HierTree.i_range it).
Proof. exact HierTreeProofs.C13_item_uri_tree. Qed.

(* the rule before 6242e0e (a class item always names the REQUESTED document), on two real dumps: aKa.god =
   two comment lines, `class aKa` on line 2; aKb.god = `class aKb (aKa)` / `Ref : aKa`.  The class symbol aKa is
   found in aKa.god's table; the old item names aKb.god, whose tree ends above line 2, with a selection range on
   line 2; the repaired item names aKa.god and carries the ranges of the header node of aKa.god's tree *)
Theorem C13_old_class_item_uri_refuted :
  exists ws dA dB a,
    In dA ws /\ In dB ws /\ HierTreeProofs.distinct_stems ws /\ HierTreeProofs.named_by_stem ws /\
    Forall (fun d => AnnotProofs.regular (snd d)) ws /\
    DefTree.find_in (HierTree.root_of dA) #"aKa" = Some a /\ Annot.a_kind a = Scoping.KClass /\
    (let it := HierTreeProofs.class_item_with true ws (fst dB) (HierTree.root_of dA) a in
     HierTree.i_uri it = fst dB /\
     HierTreeProofs.below_line (snd dB) (Lexer.pline (Lexer.rstart (HierTree.i_sel it))) = true) /\
    (let it := HierTreeProofs.class_item_with false ws (fst dB) (HierTree.root_of dA) a in
     HierTree.i_uri it = fst dA /\
     exists n, In n (Annot.visit_seq false (snd dA)) /\ HierTree.i_sel it = Annot.name_range (snd n) /\
               HierTree.i_range it = Tree.nrange (snd n)).
Proof. exact HierTreeWitness.old_class_item_uri_refuted. Qed.

Example C13_tree_item_uri_hypotheses :
  In (#"aKb", HierTreeWitness.ht_kb) HierTreeWitness.ht_ws /\ HierTreeProofs.distinct_stems HierTreeWitness.ht_ws /\
  HierTreeProofs.named_by_stem HierTreeWitness.ht_ws /\ AnnotProofs.regular HierTreeWitness.ht_kb /\
  exists it, HierTree.prepare HierTreeWitness.ht_ws (#"aKb", HierTreeWitness.ht_kb) (Lexer.mkPos 0 7) =
             DefTree.Ans (HierTree.ROk [it]) /\ HierTree.i_uri it = #"aKb".
Proof. exact HierTreeWitness.ht_item_uri_hypotheses. Qed.

(* the well-formed-ranges premise (C08's NodeWf) holds on the real dumps, and through C13_tree_item_ranges every item
   prepared anywhere in aKb.god has its selection range inside its range *)
Example C13_tree_ws_nodewf :
  Forall (fun d => RangeTop.Forall_nodes (RangeTop.NodeWf 10%N) (snd d)) HierTreeWitness.ht_ws.
Proof. exact HierTreeWitness.ht_ws_nodewf. Qed.

Example C13_tree_ws_item_ranges_inside :
  forall p it, HierTree.prepare HierTreeWitness.ht_ws (#"aKb", HierTreeWitness.ht_kb) p = DefTree.Ans (HierTree.ROk [it]) ->
    RangeBase.inside (HierTree.i_sel it) (HierTree.i_range it).
Proof. exact HierTreeWitness.ht_item_ranges_via_nodewf. Qed.

Print Assumptions C13_tree_input_refines.
Print Assumptions C13_tree_relation.
Print Assumptions C13_tree_class_super.
Print Assumptions C13_tree_class_sub.
Print Assumptions C13_tree_member_declares.
Print Assumptions C13_tree_member_up.
Print Assumptions C13_tree_member_down.
Print Assumptions C13_tree_order_independent.
Print Assumptions C13_tree_case_independent.
Print Assumptions C13_tree_item_ranges.
Print Assumptions C13_tree_prepare_class.
Print Assumptions C13_tree_prepare_field.
Print Assumptions C13_tree_prepare_method.
Print Assumptions C13_tree_ws_regular.
Print Assumptions C13_tree_ws_hypotheses.
Print Assumptions C13_tree_ws_input.
Print Assumptions C13_tree_ws_answers.
Print Assumptions C13_tree_ws_prepare.
Print Assumptions C13_tree_item_uri_any.
Print Assumptions C13_tree_item_uri.
Print Assumptions C13_old_class_item_uri_refuted.
Print Assumptions C13_tree_item_uri_hypotheses.
Print Assumptions C13_tree_ws_nodewf.
Print Assumptions C13_tree_ws_item_ranges_inside.
