(* C03  Concurrent requests and changes never corrupt each other's answers.
   Model (Model/Sched.v): one document's cache under a RwLock; the main thread runs the change /
   save / close handlers as sequences of critical sections, any number of request threads read the
   document as get_parsed_document does; a schedule is any interleaving.  The theorem is about which
   VERSION of the document a request is answered from; that an answer computed from a given version
   equals the answer a lone request gets on that version is the business of the sequential
   properties (C04-C16) plus the serialisation of annotations (one annotator per document, readers
   wait for a published tree to be filled), which the forced-schedule engine checks on the code. *)
From GoldV Require Import Base Sched SchedProofs.

(* For every initial cache state, every sequence of change / save / close notifications (handlers as
   repaired), every number of concurrent requests and EVERY interleaving: each request reads the
   logical version of the document when no notification is in progress, and the version before or
   the version after the notification that is in progress otherwise -- never a stale on-disk copy. *)
Theorem C03_linearizable :
  forall op sv dk ns sched,
    Forall fixed_notif ns -> (match sv with Some v => v = dk | None => True end) ->
    Forall ans_ok (answers (run sched (init op sv dk ns))).
Proof. exact linearizable. Qed.

(* the four obligations on the handler programs that the proof rests on *)
Theorem C03_handler_positions :
  (forall n s, fixed_notif n -> Quiescent s -> Pos n (logical s) (logical (run_acts (program n) s)) 0 s) /\
  (forall n b a i s x, nth_error (program n) i = Some x -> Pos n b a i s -> Pos n b a (S i) (apply_act x s)) /\
  (forall n b a i s v d, (i <= length (program n))%nat -> Pos n b a i s -> read_doc s = Some (v, d) ->
                         (v = b \/ v = a) /\ Pos n b a i d) /\
  (forall n b a s, Pos n b a (length (program n)) s -> Quiescent s /\ logical s = a).
Proof. exact (conj pos_start (conj pos_step (conj pos_read pos_end))). Qed.

(* The handler before the repair (reset and install in two critical sections): a request scheduled
   between them is answered from the stale on-disk copy (version 0), which is neither the text
   before (1) nor after (2) the change. *)
Theorem C03_old_change_refuted :
  exists sched, ~ Forall ans_ok (answers (run sched (init (Some 1) None 0 [NChangeOld 2]))).
Proof.
  exists [EMain; EMain; EMain; EMain; ERead]. rewrite old_change_refuted.
  intro H. inversion H; subst. unfold ans_ok in H2. cbn in H2. destruct H2 as [E|[E|[]]]; discriminate.
Qed.

(* non-vacuity: three readers interleaved with a change, a save and a close *)
Example C03_nonvacuous :
  map fst (answers (run [EMain; ERead; EMain; EMain; ERead; EMain; EMain; ERead; EMain; EMain; EMain; EMain; EMain; ERead;
                         EMain; EMain; EMain; EMain; EMain; EMain; EMain; ERead]
                        (init (Some 1) None 0 [NChange 2; NSave; NClose]))) = [2; 2; 2; 1].
Proof. vm_compute. reflexivity. Qed.

Print Assumptions C03_linearizable.
Print Assumptions C03_handler_positions.
Print Assumptions C03_old_change_refuted.
Print Assumptions C03_nonvacuous.
