(* C12  The outline lists every top-level declaration once, in source order.
   Statements only (every proof is a lemma of Proofs/OutlineProofs.v); all theorems are about the
   model of DocumentSymbolGeneratorFromAst::generate_symbols on ANY tree (not only parser outputs). *)
From Coq Require Import Permutation.
From GoldV Require Import Base Tokens Lexer AstKinds Tree Outline OutlineProofs.
From GoldV Require Import PComb Grammar RTComb ExprRT StmtRT DeclRT FileRT Unlex TextLevel.

(* the loop's `children.as_mut().unwrap()` never panics *)
Theorem C12_outline_no_panic : forall root, outline_run root = Some (outline root).
Proof. exact outline_no_panic. Qed.

(* the outline = the entries of the root's children, in order, wrapped in the first class/module
   header when there is one *)
Theorem C12_outline_char :
  forall root, outline root = wrap (header (nchildren root)) (filter_map entry (nchildren root)).
Proof. exact outline_char. Qed.

(* an entry exists exactly for constants, types, fields, procedures and functions ... *)
Theorem C12_entry_defined_iff :
  forall n, entry n <> None <->
    In (nkind n) [KAstConstantDeclaration; KAstTypeDeclaration; KAstGlobalVariableDeclaration;
                  KAstProcedure; KAstFunction].
Proof. intro n. rewrite entry_defined_iff. apply is_decl_kind_iff. Qed.

(* ... with the kind of the construct (the five kinds are pairwise distinct), as a leaf *)
Theorem C12_entry_kind :
  (forall n e, entry n = Some e ->
     ds_kind e = sk_of_kind (nkind n) /\ ds_children e = None /\ is_container e = false) /\
  (forall k1 k2, is_decl_kind k1 = true -> is_decl_kind k2 = true ->
     sk_of_kind k1 = sk_of_kind k2 -> k1 = k2).
Proof.
  split.
  - intros n e H. split; [apply (entry_kind n e H)|apply (entry_leaf n e H)].
  - exact sk_of_kind_inj.
Qed.

(* named as declared; range = the node's, selection range = the identifier's; detail *)
Theorem C12_entry_ranges :
  forall n e, entry n = Some e ->
    ds_range e = nrange n /\ ds_sel e = name_range n /\ ds_name e = name_of n.
Proof. exact entry_ranges. Qed.

Theorem C12_entry_detail :
  forall n e, entry n = Some e ->
    ds_detail e = match nkind n with
                  | KAstConstantDeclaration => Some (tok_value (attr_tok K_value n))
                  | KAstGlobalVariableDeclaration => Some (child_ident 0 n)
                  | KAstFunction => Some (child_ident 1 n)
                  | _ => None
                  end.
Proof. exact entry_detail. Qed.

(* exactly one entry per top-level declaration node, in source order, and nothing else *)
Theorem C12_one_entry_per_declaration :
  forall l,
    map Some (filter_map entry l) = filter is_some (map entry l) /\
    Forall2 (fun n e => entry n = Some e) (filter is_decl l) (filter_map entry l) /\
    filter_map entry l = map decl_sym (filter is_decl l) /\
    (forall e, In e (filter_map entry l) -> exists n, In n l /\ is_decl n = true /\ entry n = Some e) /\
    (forall n, In n l -> is_decl n = false -> entry n = None).
Proof. exact one_entry_per_declaration. Qed.

Theorem C12_nothing_else :
  forall n, In (nkind n) [KAstComment; KAstUses; KAstClass; KAstModule; KAstEmpty; KAstRoot] -> entry n = None.
Proof. exact entry_none_kinds. Qed.

(* at most one class/module entry; it is the FIRST class/module header of the file and it holds
   all entries; without a header the outline is the flat entry list *)
Theorem C12_single_container :
  forall root,
    (length (filter is_container (outline root)) <= 1)%nat /\
    match find is_header_node (nchildren root) with
    | Some h => outline root = [set_children (header_sym h) (Some (entries root))]
    | None => outline root = entries root /\ filter is_container (outline root) = []
    end.
Proof. exact single_container. Qed.

Theorem C12_outline_shape :
  forall root d, In d (outline root) ->
    (header (nchildren root) = None /\ ds_children d = None /\ is_container d = false) \/
    (exists c, header (nchildren root) = Some c /\ d = set_children c (Some (entries root)) /\
               is_container d = true /\ outline root = [d]).
Proof. exact outline_shape. Qed.

(* adding a declaration (any non-header node d) changes the outline in exactly that way:
   same container, entry of d inserted at the position given by the declarations before it *)
Theorem C12_outline_insert :
  forall root l1 l2 d, nchildren root = l1 ++ l2 -> is_header_node d = false ->
    outline root = wrap (header (l1 ++ l2)) (filter_map entry l1 ++ filter_map entry l2) /\
    outline (with_children root (l1 ++ d :: l2)) =
      wrap (header (l1 ++ l2)) (filter_map entry l1 ++ olist (entry d) ++ filter_map entry l2) /\
    length (filter_map entry l1) = length (filter is_decl l1).
Proof. exact outline_insert. Qed.

Theorem C12_outline_remove :
  forall root l1 l2 d, nchildren root = l1 ++ d :: l2 -> is_header_node d = false ->
    outline root = wrap (header (l1 ++ l2)) (filter_map entry l1 ++ olist (entry d) ++ filter_map entry l2) /\
    outline (with_children root (l1 ++ l2)) =
      wrap (header (l1 ++ l2)) (filter_map entry l1 ++ filter_map entry l2).
Proof. exact outline_remove. Qed.

(* adding a class/module header: entries unchanged, it becomes the container iff none precedes it *)
Theorem C12_outline_insert_header :
  forall root l1 l2 d, nchildren root = l1 ++ l2 -> is_header_node d = true ->
    outline (with_children root (l1 ++ d :: l2)) =
      wrap (match header l1 with Some c => Some c | None => Some (header_sym d) end)
           (filter_map entry l1 ++ filter_map entry l2).
Proof. exact outline_insert_header. Qed.

Theorem C12_outline_swap :
  forall root l1 a m b l2,
    nchildren root = l1 ++ a :: m ++ b :: l2 -> is_header_node a = false -> is_header_node b = false ->
    outline root = wrap (header (l1 ++ m ++ l2))
      (filter_map entry l1 ++ olist (entry a) ++ filter_map entry m ++ olist (entry b) ++ filter_map entry l2) /\
    outline (with_children root (l1 ++ b :: m ++ a :: l2)) = wrap (header (l1 ++ m ++ l2))
      (filter_map entry l1 ++ olist (entry b) ++ filter_map entry m ++ olist (entry a) ++ filter_map entry l2).
Proof. exact outline_swap. Qed.

(* reordering: any permutation of the children that keeps the headers in their relative order
   keeps the container and permutes the entries; the entries are rearranged exactly as the
   declaration nodes are *)
Theorem C12_outline_permute :
  forall root l', Permutation (nchildren root) l' ->
    filter is_header_node (nchildren root) = filter is_header_node l' ->
    exists es', Permutation (entries root) es' /\
                outline root = wrap (header (nchildren root)) (entries root) /\
                outline (with_children root l') = wrap (header (nchildren root)) es' /\
                es' = map decl_sym (filter is_decl l').
Proof. exact outline_permute. Qed.

Theorem C12_outline_permute_same_way :
  forall root l' p, filter is_decl l' = reorder p (filter is_decl (nchildren root)) ->
    entries (with_children root l') = reorder p (entries root).
Proof. exact outline_permute_same_way. Qed.

(* ------------------------------------------------------------------------------------------ *)
(* Non-vacuity: a concrete tree built by hand                                                  *)
(*    class aFoo (aBar) / ; note / const cMax = 10 / fld : int4 / proc doIt / func calc return int4 *)
(* ------------------------------------------------------------------------------------------ *)

Definition rg (a b c d : N) : range := mkRange (mkPos a b) (mkPos c d).
Definition idt (raw l c : N) (v : str) : tok := mkTok raw (rg l c l (c + lenN v)) TIdentifier v.
Definition term (t : tok) : node := Node KAstTerminal (tval t) (traw t) (trange t) [(K_token, AT t)] [].

Definition s_aFoo : str := [97; 70; 111; 111].
Definition s_aBar : str := [97; 66; 97; 114].
Definition s_cMax : str := [99; 77; 97; 120].
Definition s_10 : str := [49; 48].
Definition s_fld : str := [102; 108; 100].
Definition s_int4 : str := [105; 110; 116; 52].
Definition s_doIt : str := [100; 111; 73; 116].
Definition s_calc : str := [99; 97; 108; 99].

Definition x_class : node :=
  Node KAstClass s_aFoo 0 (rg 0 0 0 17) [(K_ident, AT (idt 6 0 6 s_aFoo)); (K_parent, AL [idt 12 0 12 s_aBar])] [].
Definition x_module : node :=
  Node KAstModule s_aBar 0 (rg 9 0 9 11) [(K_ident, AT (idt 7 9 7 s_aBar))] [].
Definition x_comment : node := Node KAstComment [] 18 (rg 1 0 1 6) [(K_str, AS [32; 110; 111; 116; 101])] [].
Definition x_uses : node := Node KAstUses [117; 115; 101; 115] 18 (rg 1 0 1 9) [(K_uses, AL [idt 23 1 5 s_aBar])] [].
Definition x_const : node :=
  Node KAstConstantDeclaration s_cMax 25 (rg 2 0 2 15)
       [(K_ident, AT (idt 31 2 6 s_cMax)); (K_flags, AN 0);
        (K_value, AL [mkTok 38 (rg 2 13 2 15) TNumericLiteral s_10])] [].
Definition x_tbasic : node := Node KAstTypeBasic s_int4 47 (rg 3 6 3 10) [(K_token, AT (idt 47 3 6 s_int4))] [].
Definition x_field : node :=
  Node KAstGlobalVariableDeclaration s_fld 41 (rg 3 0 3 10) [(K_ident, AT (idt 41 3 0 s_fld)); (K_flags, AN 0)] [x_tbasic].
Definition x_body : node := Node KAstMethodBody [] 57 (rg 4 5 4 9) [] [].
Definition x_proc : node :=
  Node KAstProcedure s_doIt 52 (rg 4 0 5 7) [(K_end, AL []); (K_flags, AN 0)] [term (idt 57 4 5 s_doIt); x_body].
Definition x_func : node :=
  Node KAstFunction s_calc 70 (rg 6 0 7 7) [(K_end, AL []); (K_flags, AN 0)]
       [term (idt 75 6 5 s_calc); Node KAstTypeBasic s_int4 87 (rg 6 17 6 21) [(K_token, AT (idt 87 6 17 s_int4))] []; x_body].
Definition x_root (l : list node) : node := Node KAstRoot [] 0 range0 [] l.

Definition e_const := mkDsym s_cMax (Some s_10) 14 (rg 2 0 2 15) (rg 2 6 2 10) None.
Definition e_field := mkDsym s_fld (Some s_int4) 8 (rg 3 0 3 10) (rg 3 0 3 3) None.
Definition e_proc := mkDsym s_doIt None 6 (rg 4 0 5 7) (rg 4 5 4 9) None.
Definition e_func := mkDsym s_calc (Some s_int4) 12 (rg 6 0 7 7) (rg 6 5 6 9) None.

(* class header, comment, const, field, proc, func: one CLASS entry holding the four entries in order *)
Example C12_example_class :
  outline (x_root [x_class; x_comment; x_const; x_field; x_proc; x_func]) =
  [mkDsym s_aFoo (Some s_aBar) 5 (rg 0 0 0 17) (rg 0 0 0 17) (Some [e_const; e_field; e_proc; e_func])].
Proof. vm_compute. reflexivity. Qed.

(* no header: flat list; `uses` and comments produce nothing *)
Example C12_example_flat :
  outline (x_root [x_uses; x_const; x_comment; x_func; x_field]) = [e_const; e_func; e_field].
Proof. vm_compute. reflexivity. Qed.

(* several headers: the FIRST one is the container (here the module, which precedes the class),
   the other produces nothing; a header with no declaration has `children: Some []`, not None *)
Example C12_example_two_headers :
  outline (x_root [x_const; x_module; x_proc; x_class]) =
    [mkDsym s_aBar None 2 (rg 9 0 9 11) (rg 9 0 9 11) (Some [e_const; e_proc])] /\
  outline (x_root [x_class]) = [mkDsym s_aFoo (Some s_aBar) 5 (rg 0 0 0 17) (rg 0 0 0 17) (Some [])] /\
  outline (x_root []) = [].
Proof. vm_compute. repeat split; reflexivity. Qed.

(* the hypotheses of the edit theorems are satisfiable, and the edits are visible *)
Example C12_example_edits :
  let root := x_root [x_class; x_const; x_proc] in
  nchildren root = [x_class; x_const] ++ [x_proc] /\ is_header_node x_field = false /\
  outline (with_children root ([x_class; x_const] ++ x_field :: [x_proc])) =
    [mkDsym s_aFoo (Some s_aBar) 5 (rg 0 0 0 17) (rg 0 0 0 17) (Some [e_const; e_field; e_proc])] /\
  outline root = [mkDsym s_aFoo (Some s_aBar) 5 (rg 0 0 0 17) (rg 0 0 0 17) (Some [e_const; e_proc])] /\
  outline (with_children root [x_class; x_proc; x_const]) =
    [mkDsym s_aFoo (Some s_aBar) 5 (rg 0 0 0 17) (rg 0 0 0 17) (Some [e_proc; e_const])] /\
  Permutation (nchildren root) [x_class; x_proc; x_const] /\
  filter is_decl [x_class; x_proc; x_const] = reorder [1%nat; 0%nat] (filter is_decl (nchildren root)).
Proof.
  vm_compute. repeat split; try reflexivity.
  apply perm_skip. apply perm_swap.
Qed.

(* ---------- from the TEXT to the outline ----------
   For every text that is the print of printable lexemes (Model/Unlex.v) whose tokens form a file of the grammar
   with top-level declarations ns: the text lexes without error to those lexemes, parses (memoisation on) with
   zero diagnostics to the root over ns, and its outline is the entries of ns in order under the first header:
   exactly one entry per top-level constant, type, field, procedure and function, at most one container.  The
   lexer round trip (C05_lex_unlex), the file theorem (C06_file_roundtrip) and C12_outline_char on one object. *)
Theorem C12_outline_of_text : forall lx f ns, forallb printable lx = true -> Decls f (fst (lex (unlex lx))) ns ->
  map lx_obs (fst (lex (unlex lx))) = lx /\ snd (lex (unlex lx)) = [] /\
  exists root, fst (parse_gold (fst (lex (unlex lx)))) = Ok [] root /\
               cdiags (snd (parse_gold (fst (lex (unlex lx))))) = [] /\
               nchildren root = ns /\
               outline root = wrap (header ns) (filter_map entry ns) /\
               filter_map entry ns = map decl_sym (filter is_decl ns) /\
               (length (filter is_container (outline root)) <= 1)%nat.
Proof. exact outline_of_text. Qed.

Print Assumptions C12_outline_no_panic.
Print Assumptions C12_outline_char.
Print Assumptions C12_entry_defined_iff.
Print Assumptions C12_entry_kind.
Print Assumptions C12_entry_ranges.
Print Assumptions C12_entry_detail.
Print Assumptions C12_one_entry_per_declaration.
Print Assumptions C12_nothing_else.
Print Assumptions C12_single_container.
Print Assumptions C12_outline_shape.
Print Assumptions C12_outline_insert.
Print Assumptions C12_outline_remove.
Print Assumptions C12_outline_insert_header.
Print Assumptions C12_outline_swap.
Print Assumptions C12_outline_permute.
Print Assumptions C12_outline_permute_same_way.
Print Assumptions C12_example_class.
Print Assumptions C12_example_flat.
Print Assumptions C12_example_two_headers.
Print Assumptions C12_example_edits.
Print Assumptions C12_outline_of_text.
