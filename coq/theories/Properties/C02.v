(* C02  Answers reflect the latest text the client supplied for the document.
   "Once the server has processed a full-text change for a document, every request about that document
    received afterwards is answered exactly as a freshly started server would answer it if the file on
    disk had that text; after a save or a close the answers are those for the file as it is on disk.
    This holds after any history of open/change/save/close notifications and of earlier or repeated
    requests: nothing from earlier versions or earlier answers leaks into later ones (compared as
    multisets where the protocol imposes no order)."

   Model: Model/Cache.v (versions and provenance).  The reference is the model itself started afresh on
   the logical workspace: fresh_answer st k p = the answer of `init (logical_ws st)`.
   The full statement is  forall ws h, fresh_run (init ws) h = true ; it is REFUTED (two classes,
   shortest witnesses below; a third one, the symbol table surviving didClose, was repaired by /repo
   9bf8fa8 and is kept as a regression theorem) and proved outside them for histories whose logical inheritance relation
   stays acyclic (C02_holds_outside_partial). *)
From GoldV Require Import Base Cache CacheProofs.

(* ---- answers computed from the current document object only: fresh after EVERY history ---- *)

(* documentSymbol, and the parser / v1-analyzer / v2 parts of diagnostic (the analyzer_diagnostics cache
   lives on the Document, which a change replaces: it cannot leak) *)
Theorem C02_local_fresh :
  forall ws h k p, (k = KSym \/ k = KDiag) ->
    snd (request (after ws h) k p) = fresh_answer (after ws h) k p.
Proof. intros ws h k p Hk. apply local_fresh; [apply after_wf|exact Hk]. Qed.

(* after a processed change the document is answered for from the new text, with nothing cached about it *)
Theorem C02_change_resets :
  forall ws h p v i k, get (after ws h) p = Some i -> (k = KSym \/ k = KDiag) ->
    (exists i', get (after ws (h ++ [Change p v])) p = Some i' /\ logical i' = v /\
                visible i' = Some (new_doc v) /\ stab i' = None /\ cached_tables i' = []) /\
    snd (request (after ws (h ++ [Change p v])) k p) =
      match k with KSym => ALocal p v | _ => ADiag p v v (Some v) end.
Proof.
  intros ws h p v i k G Hk.
  assert (E : after ws (h ++ [Change p v]) = fst (step (after ws h) (Change p v))) by apply after_last.
  destruct (change_resets (after ws h) p v i G) as (i' & G' & L & V & S & C & _).
  rewrite E. split.
  - exists i'. repeat split; assumption.
  - rewrite (local_answer _ k p i' (step_wf _ _ (after_wf ws h)) G' Hk), L. reflexivity.
Qed.

(* after a save the answers are those for the file, which now holds the text last supplied *)
Theorem C02_save_resets :
  forall ws h p i k, get (after ws h) p = Some i -> (k = KSym \/ k = KDiag) ->
    (exists i', get (after ws (h ++ [Save p])) p = Some i' /\ disk i' = logical i /\ logical i' = logical i /\
                saved i' = None /\ opened i' = None /\ stab i' = None) /\
    snd (request (after ws (h ++ [Save p])) k p) =
      match k with KSym => ALocal p (logical i) | _ => ADiag p (logical i) (logical i) (Some (logical i)) end.
Proof.
  intros ws h p i k G Hk.
  assert (E : after ws (h ++ [Save p]) = fst (step (after ws h) (Save p))) by apply after_last.
  destruct (save_resets (after ws h) p i G) as (i' & G' & D & L & S & O & T).
  rewrite E. split.
  - exists i'. repeat split; assumption.
  - rewrite (local_answer _ k p i' (step_wf _ _ (after_wf ws h)) G' Hk), L. reflexivity.
Qed.

(* after a close the answers about the document itself are those for the file as it is on disk *)
Theorem C02_close_reads_disk :
  forall ws h p i k, get (after ws h) p = Some i -> (k = KSym \/ k = KDiag) ->
    (exists i', get (after ws (h ++ [Close p])) p = Some i' /\ logical i' = disk i /\
                saved i' = None /\ opened i' = None /\ stab i' = None) /\
    snd (request (after ws (h ++ [Close p])) k p) =
      match k with KSym => ALocal p (disk i) | _ => ADiag p (disk i) (disk i) (Some (disk i)) end.
Proof.
  intros ws h p i k G Hk.
  assert (E : after ws (h ++ [Close p]) = fst (step (after ws h) (Close p))) by apply after_last.
  destruct (close_resets (after ws h) p i G) as (i' & G' & L & S & O & T).
  rewrite E. split.
  - exists i'. repeat split; assumption.
  - rewrite (local_answer _ k p i' (step_wf _ _ (after_wf ws h)) G' Hk), L. reflexivity.
Qed.

(* ---- cross-file answers: AllFresh = every cached table is the fresh chain of its document ---- *)

(* no request (of any kind, repeated or not) makes a cached table stale *)
Theorem C02_requests_preserve_allfresh :
  forall st k p, WF st -> Acyc st -> AllFresh st -> AllFresh (fst (request st k p)).
Proof. intros st k p W A F. apply request_fresh; assumption. Qed.

(* definition, completion, prepareTypeHierarchy (and diagnostic, documentSymbol) are fresh under AllFresh *)
Theorem C02_chain_fresh :
  forall st k p, WF st -> Acyc st -> AllFresh st -> (k = KSym \/ k = KDiag \/ k = KChain) ->
    snd (request st k p) = fresh_answer st k p.
Proof.
  intros st k p W A F Hk. apply answer_fresh; auto. destruct Hk as [->|[->| ->]]; exact I.
Qed.

(* the hierarchy requests are fresh under AllFresh when the start-up class tree still is the logical one *)
Theorem C02_tree_fresh :
  forall st (sub m : bool) p, WF st -> Acyc st -> AllFresh st -> tree_fresh st = true ->
    snd (request st (if sub then KSub m else KSuper m) p) = fresh_answer st (if sub then KSub m else KSuper m) p.
Proof. intros st sub m p W A F T. apply answer_fresh; auto. destruct sub; exact T. Qed.

(* the exact conditions under which the notifications keep every cached table fresh *)
Theorem C02_change_preserves_iff :
  forall st p v, AllFresh st ->
    (AllFresh (fst (step st (Change p v))) <-> trigger_dep st (Change p v) = false).
Proof. exact change_iff. Qed.

Theorem C02_save_preserves :
  forall st p, AllFresh st -> AllFresh (fst (step st (Save p))).
Proof. exact save_preserves. Qed.

Theorem C02_close_preserves_iff :
  forall st p, AllFresh st ->
    (AllFresh (fst (step st (Close p))) <-> trigger_dep st (Close p) = false).
Proof. exact close_iff. Qed.

(* ---- the property outside the known classes ---- *)

(* KnownClass_C02 ws h: somewhere in h (R-dep) a change/close alters the text of a document another
   document's cached table is linked to, or (R-tree) a hierarchy request is made when a header change has made the
   start-up class tree obsolete.  Partial: histories whose logical inheritance relation stays acyclic. *)
Theorem C02_holds_outside_partial :
  forall ws h, acyc_run (init ws) h = true -> KnownClass_C02 ws h = false -> fresh_run (init ws) h = true.
Proof. intros ws h A K. apply (holds_outside ws h A K). Qed.

(* a single request or notification on a freshly started server is never in a known class *)
Theorem C02_single_event_outside :
  forall ws e, KnownClass_C02 ws [e] = false.
Proof. exact single_event_not_known. Qed.

(* ---- refutations of the full statement: shortest histories, one per class ---- *)

Definition v0 (par : option nat) : version := mkV 0 par.

(* R-dep: parent aC0, child aC1 (aC0).  completion in the child; the parent's text changes; completion in
   the child again still lists the members of the parent's OLD text *)
Theorem C02_refuted_dependent_keeps_prechange_table :
  exists ws h,
    acyc_run (init ws) h = true /\
    known_by trigger_dep (init ws) h = true /\ known_by trigger_tree (init ws) h = false /\
    fresh_run (init ws) h = false /\
    run_server ws h = [Some (AChain [(1%nat, v0 (Some 0%nat)); (0%nat, v0 None)]); None;
                       Some (AChain [(1%nat, v0 (Some 0%nat)); (0%nat, v0 None)])].
Proof.
  exists [v0 None; v0 (Some 0%nat)], [Req KChain 1; Change 0 (mkV 1 None); Req KChain 1].
  vm_compute. repeat split; reflexivity.
Qed.

(* regression (repaired by /repo 9bf8fa8): the parent is edited (not saved), analysed, closed; with the OLD
   close handler, which kept DocumentInfo::symbol_table, the child's look-ups still went through the table
   of the closed text although the parent was back to the file; with the current handler they are fresh *)
Theorem C02_old_close_refuted :
  exists ws h1 p k q,
    let st := after ws h1 in
    AllFresh st /\ has_dependents st p = false /\
    ~ AllFresh (old_close st p) /\
    answer_eqb (snd (request (old_close st p) k q)) (fresh_answer (old_close st p) k q) = false /\
    snd (request (old_close st p) k q) = AChain [(1%nat, v0 (Some 0%nat)); (0%nat, mkV 1 None)] /\
    fresh_run (init ws) (h1 ++ [Close p; Req k q]) = true /\
    KnownClass_C02 ws (h1 ++ [Close p; Req k q]) = false.
Proof.
  exists [v0 None; v0 (Some 0%nat)], [Change 0 (mkV 1 None); Req KChain 0], 0%nat, KChain, 1%nat.
  intro st.
  destruct (holds_outside [v0 None; v0 (Some 0%nat)] [Change 0 (mkV 1 None); Req KChain 0]) as (_ & W & F & A);
    [reflexivity|reflexivity|].
  fold st in F. split; [exact F|]. split; [reflexivity|]. split.
  - intro H. apply (old_close_iff st 0 F) in H. destruct H as [_ H]. vm_compute in H. discriminate.
  - vm_compute. repeat split; reflexivity.
Qed.

(* R-tree: aC2's header is changed to name aC1 as parent; supertypes of aC2 still is the start-up answer *)
Theorem C02_refuted_class_tree_never_rebuilt :
  exists ws h,
    acyc_run (init ws) h = true /\
    known_by trigger_dep (init ws) h = false /\ known_by trigger_tree (init ws) h = true /\
    fresh_run (init ws) h = false /\
    run_server ws h = [None; Some (ATree [(0%nat, v0 None)])] /\
    fresh_answer (after ws [Change 2 (mkV 1 (Some 1%nat))]) (KSuper false) 2 = ATree [(1%nat, v0 None)].
Proof.
  exists [v0 None; v0 None; v0 (Some 0%nat)], [Change 2 (mkV 1 (Some 1%nat)); Req (KSuper false) 2].
  vm_compute. repeat split; reflexivity.
Qed.

(* ---- non-vacuity ---- *)

(* a history with changes, a save, a close, repeated cross-file and hierarchy requests over a three-level
   chain that is outside the known classes: the hypotheses of C02_holds_outside_partial hold, and the
   answers show the versions supplied last *)
Example C02_outside_nonvacuous :
  let ws := [v0 None; v0 (Some 0%nat); v0 (Some 1%nat)] in
  let h := [Change 0 (mkV 1 None); Req KChain 2; Req (KSub false) 0; Save 0; Req KChain 0; Req KDiag 1;
            Close 0; Change 2 (mkV 1 (Some 1%nat)); Req KChain 2; Req (KSuper true) 2; Req KChain 2] in
  acyc_run (init ws) h = true /\ KnownClass_C02 ws h = false /\
  nth 8 (run_server ws h) None =
    Some (AChain [(2%nat, mkV 1 (Some 1%nat)); (1%nat, v0 (Some 0%nat)); (0%nat, mkV 1 None)]) /\
  nth 9 (run_server ws h) None = Some (ATree [(1%nat, v0 (Some 0%nat))]).
Proof. vm_compute. repeat split; reflexivity. Qed.

(* the hypotheses of the preservation theorems are met by a reachable state that has dependents: every
   cached table is fresh there, and the change of the parent's text is exactly what breaks it *)
Example C02_allfresh_nonvacuous :
  let ws := [v0 None; v0 (Some 0%nat)] in
  let st := after ws [Req KChain 1] in
  WF st /\ Acyc st /\ AllFresh st /\ has_dependents st 0 = true /\
  ~ AllFresh (fst (step st (Change 0 (mkV 1 None)))) /\
  AllFresh (fst (step st (Change 1 (mkV 1 (Some 0%nat))))) /\
  AllFresh (fst (step st (Save 0))).
Proof.
  intros ws st.
  destruct (holds_outside ws [Req KChain 1]) as (_ & W & F & A); [reflexivity|reflexivity|].
  fold st in W, F, A.
  split; [exact W|]. split; [exact A|]. split; [exact F|]. split; [reflexivity|].
  split; [|split].
  - intro H. apply (C02_change_preserves_iff st 0 (mkV 1 None) F) in H. vm_compute in H. discriminate.
  - apply (C02_change_preserves_iff st 1 (mkV 1 (Some 0%nat)) F). reflexivity.
  - apply C02_save_preserves; exact F.
Qed.

(* a close that breaks freshness: the closed document was edited and another document depends on it *)
Example C02_close_nonvacuous :
  let ws := [v0 None; v0 (Some 0%nat)] in
  let st := after ws [Change 0 (mkV 1 None); Req KChain 1] in
  AllFresh st /\ has_dependents st 0 = true /\ ~ AllFresh (fst (step st (Close 0))) /\
  AllFresh (fst (step st (Close 1))).
Proof.
  intros ws st.
  destruct (holds_outside ws [Change 0 (mkV 1 None); Req KChain 1]) as (_ & W & F & A); [reflexivity|reflexivity|].
  fold st in F. split; [exact F|]. split; [reflexivity|]. split.
  - intro H. apply (C02_close_preserves_iff st 0 F) in H. vm_compute in H. discriminate.
  - apply (C02_close_preserves_iff st 1 F). reflexivity.
Qed.

Print Assumptions C02_local_fresh.
Print Assumptions C02_change_resets.
Print Assumptions C02_save_resets.
Print Assumptions C02_close_reads_disk.
Print Assumptions C02_requests_preserve_allfresh.
Print Assumptions C02_chain_fresh.
Print Assumptions C02_tree_fresh.
Print Assumptions C02_change_preserves_iff.
Print Assumptions C02_save_preserves.
Print Assumptions C02_close_preserves_iff.
Print Assumptions C02_holds_outside_partial.
Print Assumptions C02_single_event_outside.
Print Assumptions C02_refuted_dependent_keeps_prechange_table.
Print Assumptions C02_old_close_refuted.
Print Assumptions C02_refuted_class_tree_never_rebuilt.
Print Assumptions C02_outside_nonvacuous.
Print Assumptions C02_allfresh_nonvacuous.
Print Assumptions C02_close_nonvacuous.
