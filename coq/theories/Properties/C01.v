(* C01  Every request is answered exactly once and the server stays alive.
   The theorems are about the message-loop model (Model/Server.v) over the dispatch tables that
   translator T4 regenerates from main_loop on every run; handler totality is C04 (parsing),
   C14 (analysis) and C20 (pool: every submitted job runs exactly once and drop drains). *)
From GoldV Require Import Base Dispatch Server ServerProofs.
From Coq Require Import Permutation.

(* obligation on the regenerated table: a request that matches no handler arm is answered *)
Theorem C01_fallthrough_replies : fallthrough_reply = true.
Proof. reflexivity. Qed.

(* obligation on the regenerated table: the dispatch chain has no duplicate / shadowed method *)
Theorem C01_methods_distinct :
  forallb (fun p => match lookup_method (fst p) req_table with Some b => Bool.eqb b (snd p) | None => false end) req_table = true.
Proof. vm_compute. reflexivity. Qed.

(* For every script and every schedule of the pool: the responses sent by the time the process
   has exited are, as a multiset, exactly the ids of the requests received before the shutdown
   plus the shutdown's own id -- each once, nothing else -- and no job is left unfinished. *)
Theorem C01_exactly_once :
  forall script sched,
    Permutation (sent (fst (run_server script sched))) (expected_ids script) /\
    pending (fst (run_server script sched)) = [].
Proof.
  intros script sched. unfold run_server.
  destruct (serve_exactly_once C01_fallthrough_replies script sched s0) as [H1 H2].
  split; [|exact H2]. unfold accounted in H1. simpl in H1. rewrite app_nil_r in H1. exact H1.
Qed.

(* the answer set does not depend on how the pool schedules the jobs *)
Theorem C01_schedule_independent :
  forall script sched1 sched2,
    Permutation (sent (fst (run_server script sched1))) (sent (fst (run_server script sched2))).
Proof.
  intros script s1 s2.
  eapply Permutation_trans; [apply C01_exactly_once|]. apply Permutation_sym. apply C01_exactly_once.
Qed.

(* distinct request ids are answered without duplicates *)
Theorem C01_no_duplicate_response :
  forall script sched, NoDup (expected_ids script) -> NoDup (sent (fst (run_server script sched))).
Proof.
  intros script sched H. eapply Permutation_NoDup; [apply Permutation_sym; apply C01_exactly_once|exact H].
Qed.

(* exit status 0 exactly after shutdown followed by exit *)
Theorem C01_exit_status :
  forall script sched, snd (run_server script sched) = if ends_cleanly script then 0 else 1.
Proof. intros. apply serve_status. Qed.

(* non-vacuity: pipelined requests of every kind, an unsupported one, work in flight at shutdown *)
Example C01_nonvacuous :
  let doc := [116;101;120;116;68;111;99;117;109;101;110;116;47;100;111;99;117;109;101;110;116;83;121;109;98;111;108] in
  let def := [116;101;120;116;68;111;99;117;109;101;110;116;47;100;101;102;105;110;105;116;105;111;110] in
  let script := [MReq 1 def; MReq 2 doc; MNotif [120]; MReq 3 [104;111;118;101;114]; MReq 4 def; MShutdown 9; MExit] in
  sent (fst (run_server script [[]; [0%nat]; []; []; []; []])) = [4; 9; 3; 2; 1]
  /\ snd (run_server script []) = 0.
Proof. vm_compute. split; reflexivity. Qed.

Print Assumptions C01_fallthrough_replies.
Print Assumptions C01_methods_distinct.
Print Assumptions C01_exactly_once.
Print Assumptions C01_schedule_independent.
Print Assumptions C01_no_duplicate_response.
Print Assumptions C01_exit_status.
Print Assumptions C01_nonvacuous.
