(* C10  Go-to-definition lands on the declaration the scoping rules select.
   Statements about Model/Scoping.v (the resolution the services perform on the symbol tables the
   annotator builds) against the declarative scoping rules of Proofs/ScopingProofs.v
   (`visible`, `members_all`).  Proved for ALL abstract workspaces; `special ws id` = the name is
   `self` or the name of a class / module (those are not declarations in the property's list).
   PARTIAL: the parser, the annotated tree, the position -> node step and the rendering of a
   workspace to files are tied to this model by the differential run only (checks/c10.py). *)
From GoldV Require Import Base SymTab SymTabProofs Scoping ScopingProofs ScopingWitness.

(* a plain identifier: local variable or parameter (latest declaration), else member of the class,
   else of the nearest ancestor declaring it, else constant / type of a used entity in `uses` order.
   Guard on `uses`: see C10_plain_refuted_uses. *)
Theorem C10_plain :
  forall ws c m id, special ws id = false -> uses_clean ws c id ->
    resolve_plain ws c m id = visible ws c m id.
Proof. exact resolve_plain_spec. Qed.

(* whatever the method or the class chain declares is selected, with no condition on `uses` *)
Theorem C10_plain_in_chain :
  forall ws c m id t, special ws id = false -> in_chain ws c m id = Some t ->
    resolve_plain ws c m id = Some t /\ visible ws c m id = Some t.
Proof. exact resolve_plain_in_chain. Qed.

(* a name after a dot, in the table of the left operand's class: one link per declaring ancestor,
   nearest first *)
Theorem C10_member :
  forall ws d id, special ws id = false -> resolve_member ws d id = members_all ws d id.
Proof. exact resolve_member_spec. Qed.

(* ... as the service performs it from inside method m of class c.  Guard: the left operand's
   class is not the enclosing class, or the method declares no variable of that name
   (see C10_member_refuted_local) *)
Theorem C10_member_in_context :
  forall ws c m d id, special ws id = false ->
    ci_eqb d c = false \/ find_last v_name id (vars_of ws c m) = None ->
    definition_member ws c m d id = members_all ws d id.
Proof. exact definition_member_spec. Qed.

(* the exact answer for the enclosing class: the variable of that name, then the members *)
Theorem C10_member_own_class :
  forall ws c m id, special ws id = false ->
    definition_member ws c m c id =
    match find_entity ws c with
    | None => []
    | Some _ =>
        (match find_last v_name id (vars_of ws c m) with Some v => [(owner_name ws c, v_tag v)] | None => [] end)
        ++ members_all ws c id
    end.
Proof. exact definition_member_own. Qed.

(* the declared name of a field *)
Theorem C10_field_declared_name :
  forall ws c id, special ws id = false -> definition_member_name ws c MField id = members_all ws c id.
Proof. exact definition_field_name_spec. Qed.

(* the declared name of a method (and whatever else sits directly under the method node) *)
Theorem C10_method_declared_name :
  forall ws c mn id, special ws id = false ->
    definition_method_header ws c mn id =
    (match find_last v_name id (vars_of ws c (Some mn)) with Some v => [(owner_name ws c, v_tag v)] | None => [] end)
    ++ members_all ws c id.
Proof. exact definition_method_header_spec. Qed.

(* every target is a declaration of that very name in the entity whose file is linked *)
Theorem C10_target_members :
  forall ws d id k t, In (k, t) (members_all ws d id) ->
    exists e mem, In e (lineage ws d) /\ e_name e = k /\ In mem (e_members e) /\ m_tag mem = t /\
                  ci_eqb (m_name mem) id = true.
Proof. exact members_all_declared. Qed.

Theorem C10_target_plain :
  forall ws c m id k t, visible ws c m id = Some (k, t) ->
    (exists v, In v (vars_of ws c m) /\ k = owner_name ws c /\ v_tag v = t /\ ci_eqb (v_name v) id = true) \/
    (exists e mem, In e ws /\ e_name e = k /\ In mem (e_members e) /\ m_tag mem = t /\ ci_eqb (m_name mem) id = true).
Proof. exact visible_declared. Qed.

(* references in any letter case: of the identifier and of the class it is resolved in *)
Theorem C10_case_insensitive :
  forall ws c m d a b, upper a = upper b ->
    resolve_plain ws c m a = resolve_plain ws c m b /\
    resolve_member ws d a = resolve_member ws d b /\
    definition_member ws c m d a = definition_member ws c m d b.
Proof. exact resolve_ci. Qed.

Theorem C10_case_insensitive_class :
  forall ws c c' m id, upper c = upper c' ->
    resolve_plain ws c m id = resolve_plain ws c' m id /\ resolve_member ws c id = resolve_member ws c' id.
Proof. exact resolve_class_name_ci. Qed.

(* an identifier the scoping rules do not resolve yields the empty result *)
Theorem C10_unresolved_empty :
  forall ws c m d id, special ws id = false ->
    (uses_clean ws c id -> visible ws c m id = None -> resolve_plain ws c m id = None) /\
    (members_all ws d id = [] -> resolve_member ws d id = []) /\
    (find_entity ws d = None -> definition_member ws c m d id = []).
Proof.
  intros ws c m d id Hs. split; [|split].
  - intros Hu Hv. rewrite (resolve_plain_spec ws c m id Hs Hu). exact Hv.
  - intro H. rewrite (resolve_member_spec ws d id Hs). exact H.
  - intro H. apply (unindexed_type_empty ws c m d H).
Qed.

(* the fuel of the lineage walk (number of entities) is enough in a forest *)
Theorem C10_lineage_fuel :
  forall ws k c, acyclic ws -> ancestors (length ws + k) ws c = lineage ws c.
Proof. exact lineage_fuel_sufficient. Qed.

(* ---- non-vacuity: three classes, overriding (other letter case) and shadowing ---- *)
Example C10_plain_nonvacuous :
  special ws3 s_fa = false /\ uses_clean ws3 s_aLeaf s_fa /\
  resolve_plain ws3 s_aLeaf leaf_run s_fa = Some (s_aLeaf, 3) /\        (* the parameter, not the inherited field *)
  resolve_plain ws3 s_aLeaf leaf_run s_FB = Some (s_aLeaf, 4) /\        (* the local, not the class's own field *)
  resolve_plain ws3 s_aLeaf leaf_run s_link = Some (s_aBase, 3) /\      (* two levels up *)
  resolve_plain ws3 s_aLeaf leaf_run s_CA = Some (s_aMid, 2) /\         (* nearest ancestor: aMid's field hides aBase's constant *)
  resolve_plain ws3 s_aLeaf leaf_run s_Zz = None.
Proof.
  destruct ws3_plain as (H1 & H2 & H3 & H4 & H5). destruct ws3_guards as (G1 & _ & _ & _ & _ & G6).
  split; [exact G1|]. split; [intros u Hu; rewrite G6 in Hu; destruct Hu|]. auto.
Qed.

Example C10_plain_uses_nonvacuous :
  special w_uses s_cLib = false /\ uses_clean w_uses s_aUser s_cLib /\
  resolve_plain w_uses s_aUser (Some s_Run) s_cLib = Some (s_aLib, 1).
Proof. destruct w_uses_facts as (H1 & _ & _ & _ & _ & H6). repeat split; auto. apply w_uses_clean_cLib. Qed.

Example C10_member_nonvacuous :
  special ws3 s_fa = false /\
  resolve_member ws3 s_aLeaf s_fa = [(s_aMid, 1); (s_aBase, 2)] /\      (* `FA` in aMid and `Fa` in aBase, nearest first *)
  definition_member ws3 s_aLeaf leaf_run s_aMid s_Fa = [(s_aMid, 1); (s_aBase, 2)] /\
  ci_eqb s_aMid s_aLeaf = false.
Proof.
  destruct ws3_members as (H1 & _ & _). destruct ws3_guards as (G1 & _).
  split; [exact G1|]. split; [exact H1|]. split; [apply ws3_other_member|reflexivity].
Qed.

Example C10_fuel_nonvacuous : length (lineage ws3 s_aLeaf) = 3%nat.
Proof. apply ws3_acyclic_depth. Qed.

(* ---- where the code differs from the wording ---- *)

(* `uses X` exposes every symbol of X and of X's ancestors, not only X's constants and types:
   a plain `LibField` in aUser (uses aLib) lands on aLib's FIELD *)
Theorem C10_plain_refuted_uses :
  exists ws c m id, special ws id = false /\ resolve_plain ws c m id <> visible ws c m id.
Proof.
  exists w_uses, s_aUser, (Some s_Run), s_LibField.
  destruct w_uses_facts as (_ & _ & H3 & H4 & H5 & _). split; [exact H5|]. rewrite H3, H4. discriminate.
Qed.

(* a class name (and `self`) is found as the symbol the annotator inserts for the class itself *)
Theorem C10_plain_refuted_entity_name :
  exists ws c m id, special ws id = true /\ uses_clean ws c id /\ resolve_plain ws c m id <> visible ws c m id.
Proof.
  exists ws3, s_aLeaf, leaf_run, s_aBase.
  destruct ws3_entity_name as (H1 & H2 & H3 & _). destruct ws3_guards as (_ & _ & _ & _ & _ & G6).
  split; [exact H1|]. split; [intros u Hu; rewrite G6 in Hu; destruct Hu|]. rewrite H2, H3. discriminate.
Qed.

(* a member of the ENCLOSING class after a dot is searched from the method's table:
   `self.Fa` inside aLeaf.Run(Fa : int4) answers the parameter first *)
Theorem C10_member_refuted_local :
  exists ws c m id, special ws id = false /\ definition_member ws c m c id <> members_all ws c id.
Proof.
  exists ws3, s_aLeaf, leaf_run, s_Fa. destruct ws3_own_member as (H1 & H2 & H3).
  split; [exact H3|]. rewrite H1, H2. discriminate.
Qed.

(* a function's return type is looked up like the method's declared name: all ancestors, no `uses` *)
Theorem C10_return_type_refuted :
  exists ws c mn id, special ws id = false /\
    definition_method_header ws c mn id <> match visible ws c (Some mn) id with Some t => [t] | None => [] end.
Proof.
  exists w_ret, s_aUser, s_Make, s_tLib. destruct w_ret_facts as (H1 & H2 & _ & H4).
  split; [exact H4|]. rewrite H1, H2. discriminate.
Qed.

(* the declared name of a constant / type yields no link *)
Theorem C10_declared_name_refuted_const :
  exists ws c id, definition_member_name ws c MConst id <> members_all ws c id /\
                  definition_member_name ws c MType s_tA <> members_all ws c s_tA.
Proof.
  exists w_declname, s_aDecl, s_cA. destruct w_declname_facts as (H1 & H2 & H3 & H4 & _).
  rewrite H1, H2, H3, H4. split; discriminate.
Qed.

(* the static class of a dotted prefix depends on WHERE in the class the prefix is written:
   `self.Later` has no type in a method declared before `Later` *)
Theorem C10_chain_refuted_forward :
  exists ws c m1 m2 p, static_class ws c (Some m1) p = None /\ static_class ws c (Some m2) p <> None.
Proof.
  exists w_fwd, s_aNode, s_First, s_Last, [IId s_self; IId s_Later].
  destruct w_fwd_facts as (H1 & H2 & _). rewrite H1, H2. split; [reflexivity|discriminate].
Qed.

(* `aModUtil.Make` has the type of Make, `aModUtil.Make()` has none *)
Theorem C10_chain_refuted_module_call :
  exists ws c m q f, static_class ws c m [IId q; IId f] <> None /\ static_class ws c m [IId q; ICall f] = None.
Proof.
  exists w_modcall, s_aUser, (Some s_Run), s_aModUtil, s_Make.
  destruct w_modcall_facts as (H1 & H2). rewrite H1, H2. split; [discriminate|reflexivity].
Qed.

Print Assumptions C10_plain.
Print Assumptions C10_plain_in_chain.
Print Assumptions C10_member.
Print Assumptions C10_member_in_context.
Print Assumptions C10_member_own_class.
Print Assumptions C10_field_declared_name.
Print Assumptions C10_method_declared_name.
Print Assumptions C10_target_members.
Print Assumptions C10_target_plain.
Print Assumptions C10_case_insensitive.
Print Assumptions C10_case_insensitive_class.
Print Assumptions C10_unresolved_empty.
Print Assumptions C10_lineage_fuel.
Print Assumptions C10_plain_nonvacuous.
Print Assumptions C10_plain_uses_nonvacuous.
Print Assumptions C10_member_nonvacuous.
Print Assumptions C10_fuel_nonvacuous.
Print Assumptions C10_plain_refuted_uses.
Print Assumptions C10_plain_refuted_entity_name.
Print Assumptions C10_member_refuted_local.
Print Assumptions C10_return_type_refuted.
Print Assumptions C10_declared_name_refuted_const.
Print Assumptions C10_chain_refuted_forward.
Print Assumptions C10_chain_refuted_module_call.
