(* C10  Go-to-definition lands on the declaration the scoping rules select.
   Statements about Model/Scoping.v (the resolution the services perform on the symbol tables the
   annotator builds) against the declarative scoping rules of Proofs/ScopingProofs.v
   (`visible`, `members_all`).  Proved for ALL abstract workspaces; `special ws id` = the name is
   `self` or the name of a class / module (those are not declarations in the property's list).
   PARTIAL: the parser, the annotated tree, the position -> node step and the rendering of a
   workspace to files are tied to this model by the differential run only (checks/c10.py). *)
From GoldV Require Import Base SymTab SymTabProofs Scoping ScopingProofs ScopingWitness ScopingRecase ScopingRecaseWitness.

(* a plain identifier: local variable or parameter (latest declaration), else member of the class,
   else of the nearest ancestor declaring it, else constant / type of a used entity in `uses` order.
   Guard on `uses`: see C10_plain_refuted_uses. *)
Theorem C10_plain :
  forall ws c m id, special ws id = false -> uses_clean ws c id ->
    resolve_plain ws c m id = visible ws c m id.
Proof. exact resolve_plain_spec. Qed.

(* whatever the method or the class chain declares is selected, with no condition on `uses` *)
Theorem C10_plain_in_chain :
  forall ws c m id t, special ws id = false -> in_chain ws c m id = Some t ->
    resolve_plain ws c m id = Some t /\ visible ws c m id = Some t.
Proof. exact resolve_plain_in_chain. Qed.

(* a name after a dot, in the table of the left operand's class: one link per declaring ancestor,
   nearest first *)
Theorem C10_member :
  forall ws d id, special ws id = false -> resolve_member ws d id = members_all ws d id.
Proof. exact resolve_member_spec. Qed.

(* ... as the service performs it from inside method m of ANY class c, the enclosing class
   included (fix 945552f: the class-level table above the cursor's nearest table) *)
Theorem C10_member_in_context :
  forall ws c m d id, special ws id = false -> definition_member ws c m d id = members_all ws d id.
Proof. exact definition_member_spec. Qed.

(* a member's own declared name: field, constant, type (fix efb255c) ... *)
Theorem C10_member_declared_name :
  forall ws c id, special ws id = false -> definition_member_name ws c id = members_all ws c id.
Proof. exact definition_member_name_spec. Qed.

(* ... and method (fix 7983abd + 945552f: the name child only, class-level table).  A function's
   return type is a plain type reference and falls under C10_plain. *)
Theorem C10_method_declared_name :
  forall ws c mn, special ws mn = false -> definition_method_name ws c mn = members_all ws c mn.
Proof. exact definition_method_name_spec. Qed.

(* every target is a declaration of that very name in the entity whose file is linked *)
Theorem C10_target_members :
  forall ws d id k t, In (k, t) (members_all ws d id) ->
    exists e mem, In e (lineage ws d) /\ e_name e = k /\ In mem (e_members e) /\ m_tag mem = t /\
                  ci_eqb (m_name mem) id = true.
Proof. exact members_all_declared. Qed.

Theorem C10_target_plain :
  forall ws c m id k t, visible ws c m id = Some (k, t) ->
    (exists v, In v (vars_of ws c m) /\ k = owner_name ws c /\ v_tag v = t /\ ci_eqb (v_name v) id = true) \/
    (exists e mem, In e ws /\ e_name e = k /\ In mem (e_members e) /\ m_tag mem = t /\ ci_eqb (m_name mem) id = true).
Proof. exact visible_declared. Qed.

(* references in any letter case: of the identifier and of the class it is resolved in *)
Theorem C10_case_insensitive :
  forall ws c m d a b, upper a = upper b ->
    resolve_plain ws c m a = resolve_plain ws c m b /\
    resolve_member ws d a = resolve_member ws d b /\
    definition_member ws c m d a = definition_member ws c m d b.
Proof. exact resolve_ci. Qed.

Theorem C10_case_insensitive_class :
  forall ws c c' m id, upper c = upper c' ->
    resolve_plain ws c m id = resolve_plain ws c' m id /\ resolve_member ws c id = resolve_member ws c' id.
Proof. exact resolve_class_name_ci. Qed.

(* an identifier the scoping rules do not resolve yields the empty result *)
Theorem C10_unresolved_empty :
  forall ws c m d id, special ws id = false ->
    (uses_clean ws c id -> visible ws c m id = None -> resolve_plain ws c m id = None) /\
    (members_all ws d id = [] -> resolve_member ws d id = []) /\
    (find_entity ws d = None -> definition_member ws c m d id = []).
Proof.
  intros ws c m d id Hs. split; [|split].
  - intros Hu Hv. rewrite (resolve_plain_spec ws c m id Hs Hu). exact Hv.
  - intro H. rewrite (resolve_member_spec ws d id Hs). exact H.
  - intro H. apply (unindexed_type_empty ws c m d H).
Qed.

(* the fuel of the lineage walk (number of entities) is enough in a forest *)
Theorem C10_lineage_fuel :
  forall ws k c, acyclic ws -> ancestors (length ws + k) ws c = lineage ws c.
Proof. exact lineage_fuel_sufficient. Qed.

(* ---- non-vacuity: three classes, overriding (other letter case) and shadowing ---- *)
Example C10_plain_nonvacuous :
  special ws3 s_fa = false /\ uses_clean ws3 s_aLeaf s_fa /\
  resolve_plain ws3 s_aLeaf leaf_run s_fa = Some (s_aLeaf, 3) /\        (* the parameter, not the inherited field *)
  resolve_plain ws3 s_aLeaf leaf_run s_FB = Some (s_aLeaf, 4) /\        (* the local, not the class's own field *)
  resolve_plain ws3 s_aLeaf leaf_run s_link = Some (s_aBase, 3) /\      (* two levels up *)
  resolve_plain ws3 s_aLeaf leaf_run s_CA = Some (s_aMid, 2) /\         (* nearest ancestor: aMid's field hides aBase's constant *)
  resolve_plain ws3 s_aLeaf leaf_run s_Zz = None.
Proof.
  destruct ws3_plain as (H1 & H2 & H3 & H4 & H5). destruct ws3_guards as (G1 & _ & _ & _ & _ & G6).
  split; [exact G1|]. split; [intros u Hu; rewrite G6 in Hu; destruct Hu|]. auto.
Qed.

Example C10_plain_uses_nonvacuous :
  special w_uses s_cLib = false /\ uses_clean w_uses s_aUser s_cLib /\
  resolve_plain w_uses s_aUser (Some s_Run) s_cLib = Some (s_aLib, 1).
Proof. destruct w_uses_facts as (H1 & _ & _ & _ & _ & H6). repeat split; auto. apply w_uses_clean_cLib. Qed.

Example C10_member_nonvacuous :
  special ws3 s_fa = false /\
  resolve_member ws3 s_aLeaf s_fa = [(s_aMid, 1); (s_aBase, 2)] /\      (* `FA` in aMid and `Fa` in aBase, nearest first *)
  definition_member ws3 s_aLeaf leaf_run s_aMid s_Fa = [(s_aMid, 1); (s_aBase, 2)] /\
  (* the enclosing class, from a method that has a parameter Fa: the members, not the parameter *)
  definition_member ws3 s_aLeaf leaf_run s_aLeaf s_Fa = [(s_aMid, 1); (s_aBase, 2)] /\
  definition_method_name ws3 s_aLeaf s_Run = [(s_aLeaf, 2); (s_aBase, 4)].
Proof.
  destruct ws3_members as (H1 & _ & _). destruct ws3_guards as (G1 & _).
  destruct ws3_own_member as (O1 & _ & _ & O4 & _).
  split; [exact G1|]. split; [exact H1|]. split; [apply ws3_other_member|]. split; [exact O1|exact O4].
Qed.

(* regression cases of the four repaired steps *)
Example C10_declared_names_nonvacuous :
  special w_declname s_cA = false /\
  definition_member_name w_declname s_aDecl s_cA = [(s_aDecl, 1)] /\      (* constant *)
  definition_member_name w_declname s_aDecl s_tA = [(s_aDecl, 2)] /\      (* type *)
  definition_member_name w_declname s_aDecl s_Fa = [(s_aDecl, 3)].        (* field *)
Proof. destruct w_declname_facts as (H1 & H2 & H3 & H4). auto. Qed.

Example C10_return_type_nonvacuous :
  special w_ret s_tLib = false /\ resolve_plain w_ret s_aUser (Some s_Make) s_tLib = Some (s_aLib, 1).
Proof. destruct w_ret_facts as (_ & H2 & H3). auto. Qed.

Example C10_module_call_nonvacuous :
  static_class w_modcall s_aUser (Some s_Run) [IId s_aModUtil; ICall s_Make] = Some (SClass s_aUser) /\
  definition_dotted w_modcall s_aUser (Some s_Run) [IId s_aModUtil; ICall s_Make] s_Run = [(s_aUser, 1)].
Proof. destruct w_modcall_facts as (_ & H2 & H3). auto. Qed.

Example C10_fuel_nonvacuous : length (lineage ws3 s_aLeaf) = 3%nat.
Proof. apply ws3_acyclic_depth. Qed.

(* ---- where the code differs from the wording ---- *)

(* `uses X` exposes every symbol of X and of X's ancestors, not only X's constants and types:
   a plain `LibField` in aUser (uses aLib) lands on aLib's FIELD *)
Theorem C10_plain_refuted_uses :
  exists ws c m id, special ws id = false /\ resolve_plain ws c m id <> visible ws c m id.
Proof.
  exists w_uses, s_aUser, (Some s_Run), s_LibField.
  destruct w_uses_facts as (_ & _ & H3 & H4 & H5 & _). split; [exact H5|]. rewrite H3, H4. discriminate.
Qed.

(* a class name (and `self`) is found as the symbol the annotator inserts for the class itself *)
Theorem C10_plain_refuted_entity_name :
  exists ws c m id, special ws id = true /\ uses_clean ws c id /\ resolve_plain ws c m id <> visible ws c m id.
Proof.
  exists ws3, s_aLeaf, leaf_run, s_aBase.
  destruct ws3_entity_name as (H1 & H2 & H3 & _). destruct ws3_guards as (_ & _ & _ & _ & _ & G6).
  split; [exact H1|]. split; [intros u Hu; rewrite G6 in Hu; destruct Hu|]. rewrite H2, H3. discriminate.
Qed.

(* the step before fix 945552f (member_chain_old: the nearest table itself): `self.Fa` inside
   aLeaf.Run(Fa : int4) answered the parameter first *)
Theorem C10_old_member_refuted_local :
  exists ws c m id, special ws id = false /\
    map to_target (search_all (member_chain_old ws c m c) id) <> members_all ws c id.
Proof.
  exists ws3, s_aLeaf, leaf_run, s_Fa. destruct ws3_own_member as (_ & H2 & H3 & _ & H5).
  split; [exact H5|]. rewrite H2, H3. discriminate.
Qed.

(* the static class of a dotted prefix depends on WHERE in the class the prefix is written:
   `self.Later` has no type in a method declared before `Later` *)
Theorem C10_chain_refuted_forward :
  exists ws c m1 m2 p, static_class ws c (Some m1) p = None /\ static_class ws c (Some m2) p <> None.
Proof.
  exists w_fwd, s_aNode, s_First, s_Last, [IId s_self; IId s_Later].
  destruct w_fwd_facts as (H1 & H2 & _). rewrite H1, H2. split; [reflexivity|discriminate].
Qed.

(* ---- re-casing the REFERENCES stored in the workspace (Proofs/ScopingRecase.v) ----
   ws_sim ws ws': same entities in the same order, every declared name / kind / tag exactly equal;
   parent classes, `uses` lists and the declared type names of members, parameters and locals
   equal ignoring ASCII letter case.  No well-formedness hypothesis. *)

(* the symbol tables the annotator builds are the same tables *)
Theorem C10_workspace_recase_chains :
  forall ws ws' c d d' m, ws_sim ws ws' -> ci d d' ->
    class_chain ws d = class_chain ws' d' /\ scope_chain ws c m = scope_chain ws' c m.
Proof.
  intros ws ws' c d d' m H Hd. split; [apply class_chain_sim; assumption|].
  apply scope_chain_sim; [exact H|reflexivity].
Qed.

(* every definition request resolves to the same targets (entity, tag) *)
Theorem C10_workspace_recase :
  forall ws ws', ws_sim ws ws' -> forall c m d d' p mn id, ci d d' ->
    resolve_plain ws c m id = resolve_plain ws' c m id /\
    resolve_member ws d id = resolve_member ws' d' id /\
    definition_member ws c m d id = definition_member ws' c m d' id /\
    definition_dotted ws c m p id = definition_dotted ws' c m p id /\
    definition_method_name ws c mn = definition_method_name ws' c mn /\
    definition_member_name ws c id = definition_member_name ws' c id.
Proof.
  intros ws ws' H c m d d' p mn id Hd.
  split; [apply resolve_plain_sim; exact H|].
  split; [apply resolve_member_sim; assumption|].
  split; [apply definition_member_sim; assumption|].
  split; [apply (dotted_sim ws ws' c m p id H)|].
  apply (definition_names_sim ws ws' c mn id H).
Qed.

(* the static class of a dotted operand -- through aliases, refto, listof, fields, functions,
   calls -- is the same class, spelled as the reference that introduced it *)
Theorem C10_workspace_recase_static_class :
  forall ws ws' c m p, ws_sim ws ws' -> osty_sim (static_class ws c m p) (static_class ws' c m p).
Proof. intros ws ws' c m p H. apply static_class_sim. exact H. Qed.

(* the one exact-spelling comparison of the code on this path (`left type == for_class_or_module`
   in eval_right_hand_of_entity / resolve_method_call) is immaterial since fix 945552f *)
Theorem C10_spelling_test_immaterial :
  forall ws c m left i,
    next_etype ws c m left i =
    match find_entity ws (sty_name left) with
    | Some _ => sym_etype etype_fuel ws None (search_wparent (class_chain_during ws c m (sty_name left)) (item_name i))
    | None => None
    end.
Proof. exact next_etype_normal. Qed.

(* the declarative rule and every answer of the correspondence engine *)
Theorem C10_workspace_recase_spec :
  forall ws ws' d d' id, ws_sim ws ws' -> ci d d' -> members_all ws d id = members_all ws' d' id.
Proof. exact members_all_sim. Qed.

Theorem C10_workspace_recase_answers :
  forall ws ws' q, ws_sim ws ws' -> answer_query ws q = answer_query ws' q.
Proof. exact answer_query_sim. Qed.

Example C10_workspace_recase_nonvacuous :
  ws_sim w_alias w_alias_recased /\ w_alias <> w_alias_recased /\
  (* x : tRef, tRef : refto aLeaf (alias), Link : tRef inherited: `x.Link.fb` in both spellings *)
  definition_dotted w_alias r_aLeaf in_go [IId r_x; IId r_Link] r_fb = [(r_aLeaf, 1)] /\
  definition_dotted w_alias_recased r_aLeaf in_go [IId r_x; IId r_Link] r_fb = [(r_aLeaf, 1)] /\
  static_class w_alias r_aLeaf in_go [IId r_x; IId r_Link] = Some (SClass r_aLeaf) /\
  static_class w_alias_recased r_aLeaf in_go [IId r_x; IId r_Link] = Some (SClass r_AlEAF) /\
  (* the type of a used entity, `uses ALIB` *)
  resolve_plain w_alias_recased r_aLeaf in_go r_tLib = Some (r_aLib, 1).
Proof.
  destruct w_alias_answers as (H1 & H2 & H3 & H4 & _ & _ & _ & H8 & _).
  split; [exact w_alias_sim|]. split; [exact w_alias_differ|]. auto.
Qed.

Print Assumptions C10_plain.
Print Assumptions C10_plain_in_chain.
Print Assumptions C10_member.
Print Assumptions C10_member_in_context.
Print Assumptions C10_member_declared_name.
Print Assumptions C10_method_declared_name.
Print Assumptions C10_target_members.
Print Assumptions C10_target_plain.
Print Assumptions C10_case_insensitive.
Print Assumptions C10_case_insensitive_class.
Print Assumptions C10_unresolved_empty.
Print Assumptions C10_lineage_fuel.
Print Assumptions C10_plain_nonvacuous.
Print Assumptions C10_plain_uses_nonvacuous.
Print Assumptions C10_member_nonvacuous.
Print Assumptions C10_fuel_nonvacuous.
Print Assumptions C10_declared_names_nonvacuous.
Print Assumptions C10_return_type_nonvacuous.
Print Assumptions C10_module_call_nonvacuous.
Print Assumptions C10_plain_refuted_uses.
Print Assumptions C10_plain_refuted_entity_name.
Print Assumptions C10_old_member_refuted_local.
Print Assumptions C10_chain_refuted_forward.
Print Assumptions C10_workspace_recase_chains.
Print Assumptions C10_workspace_recase.
Print Assumptions C10_workspace_recase_static_class.
Print Assumptions C10_spelling_test_immaterial.
Print Assumptions C10_workspace_recase_spec.
Print Assumptions C10_workspace_recase_answers.
Print Assumptions C10_workspace_recase_nonvacuous.

(* ---- the tables of the abstract model ARE the tables built from the real syntax tree ----
   Model/Annot.v: AstAnnotator's table construction (walk_tree / visit / handle_*_decl /
   notify_new_scope / notify_end_method) over the tree the real parser delivers (Model/Tree.v),
   tied to the code by the differential stage `annot` of checks/c10.py.
   A visited node is a pair (its grandparent is a method node, the node): since the repair c14b1c2
   a parameter declaration inserts a symbol only under a method's parameter list.
   regular t: the root inserts nothing; its children are: nodes that insert nothing, a class or
   module header, then uses / constants / types / fields, then procedures / functions (nodes that
   insert nothing anywhere in between); no INSERTING node below a header / uses / constant / type /
   field, and only the method's parameters and local variables below a method -- the parameters of
   procedure / function TYPES insert nothing and may occur anywhere (before the repair they had to
   be excluded: C10_old_type_param_leak_refuted).  (Outside this shape the annotator itself departs
   from the abstract model: C10_tables_from_tree_shape_needed.) *)
From GoldV Require Import Tree Annot AnnotProofs AnnotWitness RangeBase RangeTop.

(* root table and every method's table: the same symbols (name, symbol type) in the same
   insertion order, the same for_class_or_module, the same `uses` *)
Theorem C10_tables_from_tree :
  forall t, regular t ->
    let e := entity_of_tree t in
    same_table (root_table_of false t) (root_table e) /\
    t_uses (root_table_of false t) = e_uses e /\
    Forall2 (fun T me => same_table T (method_table e me) /\ t_uses T = e_uses e)
            (method_tables_of false t) (e_methods e).
Proof. exact tables_from_tree. Qed.

(* the shape is decidable *)
Theorem C10_tables_from_tree_regular_decidable : forall t, regularb t = true -> regular t.
Proof. exact regularb_ok. Qed.

(* every symbol of every table (either mode, ANY tree) is the symbol of a visited declaration
   node: its selection range is the range of that node's name token (name node for a method), its
   range the node's range, its name the node's identifier (or `self` for a class header); in a
   tree with well-formed ranges (C08: NodeWf) the selection range lies inside the range *)
Theorem C10_tables_from_tree_selection_is_declared_name :
  forall d t T s, In T (tables_of d t) -> In s (t_syms T) ->
    exists p, In p (visit_seq d t) /\
      (In s (decl_syms p) /\ a_sel s = name_range (snd p) /\ a_range s = nrange (snd p) /\
       (a_name s = nident (snd p) \/ (a_name s = s_self /\ dkind_at p = Some DClass))) /\
      forall L, Forall_nodes (NodeWf L) t -> inside (a_sel s) (a_range s).
Proof. exact annot_selection_is_declared_name. Qed.

(* nothing dropped, nothing invented, ANY tree, either mode: the symbols of all tables together
   are exactly one symbol per visited declaration node (two for a class header) *)
Theorem C10_tables_from_tree_one_symbol_per_declaration_all :
  forall d t, Permutation.Permutation (flat_map t_syms (tables_of d t)) (flat_map decl_syms (visit_seq d t)).
Proof. exact annot_one_symbol_per_declaration_all. Qed.

(* regular documents: each table holds exactly its own declarations, in source order *)
Theorem C10_tables_from_tree_one_symbol_per_declaration :
  forall t, regular t ->
    exists h, find is_header (nchildren t) = Some h /\
      t_syms (root_table_of false t) = decl_syms (top h) ++ map decl_sym (filter is_member (nchildren t)) /\
      map t_syms (method_tables_of false t) =
        map (fun m => map vsym (filter var_like (below t m))) (filter is_method (nchildren t)).
Proof. exact annot_one_symbol_per_declaration. Qed.

(* non-vacuity on the tree the real parser builds for
   class aFoo (aBar) / uses aLib, aLib2 / const cA = 1 / type tRef : refTo aFoo / fa : int4 /
   proc Run(p : int4, Fa : cstring) var l .. if .. var inner .. endif endproc / func G#Ev(q : int4) return tRef forward *)
Example C10_tables_from_tree_nonvacuous :
  regular annot_ex /\
  e_name (entity_of_tree annot_ex) = s_aFoo /\ e_parent (entity_of_tree annot_ex) = Some s_aBar /\
  length (e_members (entity_of_tree annot_ex)) = 5%nat /\ length (e_methods (entity_of_tree annot_ex)) = 2%nat /\
  map aview (t_syms (root_table_of false annot_ex)) =
    [(s_aFoo, KClass); (s_self, KClass); ([99;65], KConstant); ([116;82;101;102], KType); ([102;97], KField);
     ([82;117;110], KProc); ([71;35;69;118], KFunc)] /\
  map (fun T => map aview (t_syms T)) (method_tables_of false annot_ex) =
    [ [([112], KVariable); ([70;97], KVariable); ([108], KVariable); ([105;110;110;101;114], KVariable)];
      [([113], KVariable)] ].
Proof.
  destruct annot_ex_tables as (H1 & H2 & _). split; [exact annot_ex_regular|].
  rewrite annot_ex_entity. repeat split; assumption.
Qed.

(* the shape hypothesis is needed: `class aFoo / proc Run / endproc / fb : int4` (real parser's tree):
   the field after the method is in the method's table, not in the root table as in the abstract model *)
Theorem C10_tables_from_tree_shape_needed :
  exists t, find is_header (nchildren t) <> None /\
    map aview (t_syms (root_table_of false t)) <> map sview (syms (root_table (entity_of_tree t))) /\
    map (fun T => map aview (t_syms T)) (method_tables_of false t) = [[([102;98], KField)]].
Proof.
  exists annot_irr. destruct annot_irr_facts as (_ & H1 & H2 & H4). rewrite H1, H2, H4.
  split; [vm_compute; discriminate|]. split; [discriminate|reflexivity].
Qed.

(* regression pair of the repair c14b1c2, on the real parser's tree of
   class aFoo / type tCb : procedure(x : int4) / proc Run(p : int4) / var cb : procedure(y : int4) / endproc
   the rule before the repair (annotate_old: every parameter declaration inserts): the type's
   parameter x is a VARIABLE OF THE CLASS in the full mode -- and not in the definitions-only mode,
   so the class had two different root tables --, and y a variable of Run *)
Theorem C10_old_type_param_leak_refuted :
  exists t, In ([120], KVariable) (map aview (t_syms (st_root (annotate_old false t)))) /\
    map aview (t_syms (st_root (annotate_old false t))) <> map aview (t_syms (st_root (annotate_old true t))) /\
    map aview (t_syms (st_root (annotate_old false t))) <> map sview (syms (root_table (entity_of_tree t))) /\
    In ([121], KVariable) (flat_map (fun T => map aview (t_syms T)) (st_done (annotate_old false t))).
Proof.
  exists annot_leak. destruct annot_leak_facts as (H1 & H2 & H3 & _). rewrite H1, H2.
  split; [cbn; tauto|]. split; [discriminate|]. split; [vm_compute; discriminate|].
  vm_compute. tauto.
Qed.

(* the repaired code: the same tree is regular, x and y are in no table, both modes build the same
   root table, and the tables are those of the abstract model *)
Theorem C10_fixed_type_param_leak :
  regular annot_leak /\
  map aview (t_syms (root_table_of false annot_leak)) =
    [(s_aFoo, KClass); (s_self, KClass); ([116;67;98], KType); ([82;117;110], KProc)] /\
  root_table_of false annot_leak = root_table_of true annot_leak /\
  map (fun T => map aview (t_syms T)) (method_tables_of false annot_leak) = [[([112], KVariable); ([99;98], KVariable)]] /\
  same_table (root_table_of false annot_leak) (root_table (entity_of_tree annot_leak)).
Proof.
  destruct annot_leak_facts as (_ & _ & _ & H4 & H5 & _ & H7).
  pose proof (regularb_ok annot_leak H4) as Hr.
  split; [exact Hr|]. split; [exact H5|]. split; [vm_compute; reflexivity|]. split; [exact H7|].
  apply (tables_from_tree annot_leak Hr).
Qed.

Print Assumptions C10_tables_from_tree.
Print Assumptions C10_tables_from_tree_regular_decidable.
Print Assumptions C10_tables_from_tree_selection_is_declared_name.
Print Assumptions C10_tables_from_tree_one_symbol_per_declaration_all.
Print Assumptions C10_tables_from_tree_one_symbol_per_declaration.
Print Assumptions C10_tables_from_tree_nonvacuous.
Print Assumptions C10_tables_from_tree_shape_needed.
Print Assumptions C10_old_type_param_leak_refuted.
Print Assumptions C10_fixed_type_param_leak.

(* ---- from the tables to the ANSWERS, at tree level, one document (Model/DefTree.v) ----
   DefTree.definition t stem p: get_definition on the real tree t of a document stored alone as
   <stem>.god, at position p (search_encasing_node, get_nearest_symbol_table, handle_generic),
   over the tables of Model/Annot.v; outcome Outside where another document would be needed.
   Tied to the code by the differential stage `deftree` of checks/c10.py (every identifier position). *)
From GoldV Require Import Lexer DefTree DefTreeProofs DefTreeWitness.

(* where get_definition takes the plain branch (the encasing node is not under a dot, not the name
   of a method, not a member declaration): the look-up on the chain of the encasing method *)
Theorem C10_tree_plain_case :
  forall t stem p idx enc pi q up ch,
    flat_methods t = true -> chain_for t (descend p t) = Some ch ->
    path_up p t = (idx, enc) :: (pi, q) :: up ->
    is_dot q = false -> (is_method_node q && Nat.eqb idx 0) = false -> is_member_decl enc = false ->
    definition t stem p =
    match get_id enc p with
    | None => Ans []
    | Some id =>
        match lookup ch id with
        | Some (T, a) => if indexed1 stem (cls_str T) then Ans [(a_sel a, a_range a)] else Ans []
        | None => if foreign t then Outside else Ans []
        end
    end.
Proof. exact definition_plain_case. Qed.

(* the property itself for this fragment, ANY tree: a plain identifier resolves in the nearest table
   of its chain (the method's table, then the class's) that declares the name ignoring case, to the
   most recent declaration there; that symbol is the symbol of a visited declaration node and the
   link's selection range is the range of that node's name token; unresolved -> no table of the
   chain declares the name *)
Theorem C10_tree_plain :
  forall t ch id, (forall U, In U ch -> In U (tables_of false t)) ->
    match lookup ch id with
    | Some (T, a) =>
        (exists pre post, ch = pre ++ T :: post /\ Forall (fun U => Forall (fun b => named id b = false) (t_syms U)) pre) /\
        named id a = true /\
        (exists A1 A2, t_syms T = A1 ++ a :: A2 /\ Forall (fun b => named id b = false) A2) /\
        (exists p, In p (visit_seq false t) /\
           In a (decl_syms p) /\ a_sel a = name_range (snd p) /\ a_range a = nrange (snd p) /\
           (a_name a = nident (snd p) \/ (a_name a = s_self /\ dkind_at p = Some DClass)))
    | None => Forall (fun U => Forall (fun b => named id b = false) (t_syms U)) ch
    end.
Proof. exact lookup_direct. Qed.

Theorem C10_tree_chain_is_of_the_document :
  forall t steps ch, chain_for t steps = Some ch -> forall U, In U ch -> In U (tables_of false t).
Proof. exact chain_for_tables. Qed.

(* refinement: in the k-th method of a regular document the tree-level look-up and the look-up of
   the abstract model on entity_of_tree t select the SAME declaration -- same table, same position
   in it (same_decl), same name and symbol type -- or both nothing *)
Theorem C10_tree_plain_refines :
  forall t k mt id, regular t ->
    nth_error (method_tables_of false t) k = Some mt ->
    let e := entity_of_tree t in
    exists me, nth_error (e_methods e) k = Some me /\
      match search_wparent (abs_chain e me) id with
      | Some (c, y) =>
          exists T a, lookup [mt; root_table_of false t] id = Some (T, a) /\ cls_str T = c /\ aview a = sview y /\
            ((T = mt /\ same_decl mt (method_table e me) a y) \/
             (T = root_table_of false t /\ find_in mt id = None /\ same_decl T (root_table e) a y))
      | None => lookup [mt; root_table_of false t] id = None
      end.
Proof. exact deftree_plain_refines. Qed.

(* abs_chain IS the chain of Scoping's entry points (resolve_plain = search_w_class on scope_chain)
   for a parent-less entity whose method names are distinct *)
Theorem C10_tree_abs_chain_is_scope_chain :
  forall e me, e_parent e = None -> find_method e (me_name me) = Some me ->
    scope_chain [e] (e_name e) (Some (me_name me)) = abs_chain e me.
Proof. exact scope_chain_single. Qed.

(* non-vacuity, on the real parser's tree of
   class aFoo / const cA = 1 / fa : int4 / proc Run(p : int4, Fa : int4) / var l : int4 /
   l = p + fa + cA / self.fa = l / zz = 1 / endproc                        (stored as aFoo.god) *)
Example C10_tree_nonvacuous :
  regular deftree_ex /\ foreign deftree_ex = false /\
  definition deftree_ex dx_aFoo (mkPos 5 9) = Ans [(rg 3 19 3 21, rg 3 19 3 28)] /\     (* fa -> the parameter Fa *)
  definition deftree_ex dx_aFoo (mkPos 5 14) = Ans [(rg 1 6 1 8, rg 1 0 1 12)] /\       (* cA -> the constant *)
  definition deftree_ex dx_aFoo (mkPos 6 6) = Ans [(rg 2 0 2 2, rg 2 0 2 9)] /\         (* self.fa -> the field *)
  definition deftree_ex dx_aFoo (mkPos 7 1) = Ans [] /\                                 (* zz -> nothing *)
  definition deftree_ex dx_aFoo (mkPos 3 5) = Ans [(rg 3 5 3 8, rg 3 0 8 7)] /\         (* declared name of Run *)
  resolve_plain [entity_of_tree deftree_ex] dx_aFoo (Some [82;117;110]) [102;97] = Some (dx_aFoo, 5).
Proof.
  destruct deftree_ex_facts as (H1 & H2 & _ & _ & H5 & H6 & _ & H8 & H9 & H10 & _ & _ & _ & H14 & _).
  split; [apply regularb_ok; exact H1|]. repeat split; assumption.
Qed.

Print Assumptions C10_tree_plain_case.
Print Assumptions C10_tree_plain.
Print Assumptions C10_tree_chain_is_of_the_document.
Print Assumptions C10_tree_plain_refines.
Print Assumptions C10_tree_abs_chain_is_scope_chain.
Print Assumptions C10_tree_nonvacuous.

(* ---- the remaining branches of get_definition, the corollary with Scoping's entry point, and
   the two passes of the annotator ---- *)
From GoldV Require Import AnnotModes.

(* `self.<name>` (or `<own class / module>.<name>`) inside a method, the left operand being the
   terminal whose eval type is the document's own entity (own_entity): every declaration of the
   name along the class-level chain above the cursor's nearest table *)
Theorem C10_tree_self_member_case :
  forall t stem p i enc pi q up ch lft ent,
    flat_methods t = true -> chain_for t (descend p t) = Some ch ->
    path_up p t = (S i, enc) :: (pi, q) :: up -> is_dot q = true ->
    first_child q = Some lft -> own_entity t lft = Some ent -> in_method (descend p t) = true ->
    indexed1 stem ent = true ->
    definition t stem p =
    match get_id enc p with
    | None => Ans []
    | Some id =>
        if foreign_parent t then Outside
        else if forallb (fun h => indexed1 stem (cls_str (fst h))) (lookup_all (class_level_t ch) id)
             then Ans (map (fun h => (a_sel (snd h), a_range (snd h))) (lookup_all (class_level_t ch) id))
             else Ans []
    end.
Proof. exact definition_self_member_case. Qed.

(* the declared name of a method: class-level chain; of a field / constant / type: the chain of the
   nearest table (def_all = generate_loc_link_all, written out in C10_tree_def_all) *)
Theorem C10_tree_declared_name_case :
  forall t stem p idx enc pi q up ch,
    flat_methods t = true -> chain_for t (descend p t) = Some ch ->
    path_up p t = (idx, enc) :: (pi, q) :: up -> is_dot q = false ->
    (is_method_node q = true -> idx = O ->
       definition t stem p = def_all t stem (class_level_t ch) (get_id enc p)) /\
    ((is_method_node q && Nat.eqb idx 0) = false -> is_member_decl enc = true ->
       definition t stem p = def_all t stem ch (get_id enc p)).
Proof. exact definition_declared_name_case. Qed.

Theorem C10_tree_def_all :
  forall t stem ch oid,
    def_all t stem ch oid =
    match oid with
    | None => Ans []
    | Some id =>
        if foreign_parent t then Outside
        else if forallb (fun h => indexed1 stem (cls_str (fst h))) (lookup_all ch id)
             then Ans (map (fun h => (a_sel (snd h), a_range (snd h))) (lookup_all ch id))
             else Ans []
    end.
Proof. exact def_all_eq. Qed.

(* in a regular document the class-level chain above a method's table is the root table alone ... *)
Theorem C10_tree_class_level :
  forall t mt, regular t -> In mt (method_tables_of false t) ->
    class_level_t [mt; root_table_of false t] = [root_table_of false t].
Proof. exact class_level_regular. Qed.

(* ... and the all-declarations look-up on it selects the declaration Scoping's search_all selects
   on [root_table e] (= class_chain [e] (e_name e) of a parent-less entity: the chain of
   definition_member / definition_member_name / definition_method_name), same position, or nothing *)
Theorem C10_tree_member_refines :
  forall t id, regular t ->
    let e := entity_of_tree t in
    let rt := root_table_of false t in
    match search_all [root_table e] id with
    | [] => lookup_all [rt] id = []
    | [(c, y)] => exists a, lookup_all [rt] id = [(rt, a)] /\ cls_str rt = c /\ aview a = sview y /\
                            same_decl rt (root_table e) a y
    | _ => False
    end.
Proof. exact deftree_member_refines. Qed.

Theorem C10_tree_class_chain_single :
  forall e, e_parent e = None -> class_chain [e] (e_name e) = [root_table e].
Proof. exact class_chain_single. Qed.

(* the corollary with Scoping's own entry point: for a regular, parent-less, uses-less document and
   a method whose name denotes it, resolve_plain on the one-entity workspace answers (entity, tag)
   of the declaration y at the position where the tree-level look-up finds its declaration a *)
Theorem C10_tree_plain_resolve :
  forall t k mt id, regular t ->
    nth_error (method_tables_of false t) k = Some mt ->
    let e := entity_of_tree t in
    e_parent e = None -> e_uses e = [] ->
    exists me, nth_error (e_methods e) k = Some me /\
      (find_method e (me_name me) = Some me ->
       match resolve_plain [e] (e_name e) (Some (me_name me)) id with
       | Some (c, tag) =>
           exists T a y, lookup [mt; root_table_of false t] id = Some (T, a) /\ cls_str T = c /\ dtag y = tag /\
             aview a = sview y /\
             ((T = mt /\ same_decl mt (method_table e me) a y) \/
              (T = root_table_of false t /\ find_in mt id = None /\ same_decl T (root_table e) a y))
       | None => lookup [mt; root_table_of false t] id = None
       end).
Proof. exact deftree_plain_resolve. Qed.

(* the definitions-only pass (the table OTHER documents get through
   get_symbol_table_for_class_def_only) builds the full pass's root table, for every regular tree:
   the same record -- for_class_or_module, every symbol with name, symbol type, selection range and
   range in the same order, uses --; its method tables are empty copies.  No stronger shape needed. *)
Theorem C10_tables_from_tree_modes_agree :
  forall t, regular t ->
    root_table_of true t = root_table_of false t /\
    length (method_tables_of true t) = length (method_tables_of false t) /\
    Forall (fun T => t_syms T = [] /\ t_cls T = t_cls (root_table_of false t) /\ t_uses T = t_uses (root_table_of false t))
           (method_tables_of true t).
Proof. exact modes_agree. Qed.

Print Assumptions C10_tree_self_member_case.
Print Assumptions C10_tree_declared_name_case.
Print Assumptions C10_tree_def_all.
Print Assumptions C10_tree_class_level.
Print Assumptions C10_tree_member_refines.
Print Assumptions C10_tree_class_chain_single.
Print Assumptions C10_tree_plain_resolve.
Print Assumptions C10_tables_from_tree_modes_agree.

(* ---- from one document to a WORKSPACE of documents, at tree level (Model/WsTree.v) ----
   A workspace is a list of (file stem, real syntax tree).  WsTree.wdefinition ws a p: get_definition
   on document number a at position p by a fresh ProjectManager -- the tables of Model/Annot.v built
   from every tree (document a in the full mode, the others definitions-only), linked as handle_class
   links them (class_uri_map look-up by upper-cased stem, missing parent, `Parent class cannot be
   itself`, the cycle guard is_own_table_reachable_from), then the `uses` loop.  Tied to the code by
   the differential stage `wstree` of checks/c10.py (every identifier position of every file).
   absws ws = map entity_of_tree over the documents: an abstract Scoping.workspace, to which
   C10_plain, C10_member ... above apply.
   Hypotheses: ws_ok (every tree regular, every file called like its header ignoring case, only class
   nodes carry a parent token -- true of every dumped tree), ws_acyclic (no lineage walk of the
   annotators comes back to a document already on it; with the cycle guard the code's chain is then
   CUT, Scoping.lineage instead walks round until its fuel ends: C10_ws_cycle_guard), distinct_stems.
   All three are decidable (C10_ws_hypotheses_decidable). *)
From GoldV Require Import WsTree WsTreeProofs WsTreeWitness.

(* the class index of the documents is Scoping.find_entity of the abstract workspace *)
Theorem C10_ws_class_index :
  forall ws name, ws_ok ws ->
    match find_doc ws name with
    | Some (j, d) => find_entity (absws ws) name = Some (ent d) /\ nth_error ws j = Some d
    | None => find_entity (absws ws) name = None
    end.
Proof. exact find_doc_corr. Qed.

(* the documents the annotators' walk visits from class c are the entities of Scoping.lineage, in
   order: neither walk runs out of fuel (the visited documents are pairwise different) *)
Theorem C10_ws_lineage_refines :
  forall ws c i d path, ws_ok ws ->
    find_doc ws c = Some (i, d) -> lineage_t ws i = Ans (false, path) ->
    exists ds, Forall2 (fun j x => nth_error ws j = Some x) path ds /\ lineage (absws ws) c = map ent ds.
Proof. exact lineage_refines. Qed.

(* the chain of root tables linked for class c (as the session of document a holds them) IS
   Scoping.class_chain, table by table: same symbols (name, symbol type) in the same order, same
   for_class_or_module *)
Theorem C10_ws_class_chain_refines :
  forall ws a c i d path, ws_ok ws ->
    find_doc ws c = Some (i, d) -> lineage_t ws i = Ans (false, path) ->
    Forall2 (fun T S => (map aview (t_syms T) = map sview (syms S) /\ cls_str T = cls S) /\ t_cls T <> None /\
                        exists c0 l, S = build c0 l)
            (tables_along ws a path) (class_chain (absws ws) c).
Proof. exact ws_class_chain_refines. Qed.

(* the chain a position in the k-th method of document a sees -- [method table; root table;
   ancestors' root tables ...] -- is Scoping.scope_chain *)
Theorem C10_ws_scope_chain_refines :
  forall ws a d k mt, ws_ok ws -> ws_acyclic ws -> distinct_stems ws = true ->
    nth_error ws a = Some d -> nth_error (method_tables_of false (snd d)) k = Some mt ->
    exists me path, nth_error (e_methods (ent d)) k = Some me /\ lineage_t ws a = Ans (false, path) /\
      own_chain ws a = Ans (tables_along ws a path) /\
      (exists rest, tables_along ws a path = root_table_of false (snd d) :: rest) /\
      t_uses mt = e_uses (ent d) /\
      find_entity (absws ws) (fst d) = Some (ent d) /\
      Forall2 same_tableB (tree_chain ws a mt path) (abs_chain_ws ws d me) /\
      (find_method (ent d) (me_name me) = Some me ->
       scope_chain (absws ws) (fst d) (Some (me_name me)) = abs_chain_ws ws d me).
Proof. exact ws_scope_chain_refines. Qed.

(* a plain identifier: the tree-level look-up (chain, then the `uses` loop: first used entity whose
   table or its ancestors' know the name, unknown entities skipped) and Scoping.search_w_class select
   the same declaration -- the same table of the chain (hit_at) or of the used entity's chain
   (uses_hit), the same position in it -- or both nothing *)
Theorem C10_ws_plain_refines :
  forall ws a d k mt id, ws_ok ws -> ws_acyclic ws -> distinct_stems ws = true ->
    nth_error ws a = Some d -> nth_error (method_tables_of false (snd d)) k = Some mt ->
    exists me path, nth_error (e_methods (ent d)) k = Some me /\ lineage_t ws a = Ans (false, path) /\
      (find_method (ent d) (me_name me) = Some me ->
       match search_w_class (absws ws) (fst d) (Some (me_name me)) true id with
       | Some p =>
           exists h, wsearch ws a (tree_chain ws a mt path) id = Ans (Some h) /\
             (hit_at (tree_chain ws a mt path) (scope_chain (absws ws) (fst d) (Some (me_name me))) h p \/
              uses_hit ws a (e_uses (ent d)) h p)
       | None => wsearch ws a (tree_chain ws a mt path) id = Ans None
       end).
Proof. exact ws_plain_refines. Qed.

(* C10_plain on real trees: the declaration the scoping rules make visible is the one found, the link
   goes to the file of the declaring entity with that declaration's selection range; nothing visible:
   no link.  The guards are those of C10_plain (listed finding sem-uses-exposes-all). *)
Theorem C10_ws_plain :
  forall ws a d k mt id, ws_ok ws -> ws_acyclic ws -> distinct_stems ws = true ->
    nth_error ws a = Some d -> nth_error (method_tables_of false (snd d)) k = Some mt ->
    exists me path, nth_error (e_methods (ent d)) k = Some me /\ lineage_t ws a = Ans (false, path) /\
      (find_method (ent d) (me_name me) = Some me ->
       special (absws ws) id = false -> uses_clean (absws ws) (fst d) id ->
       let chT := tree_chain ws a mt path in
       match visible (absws ws) (fst d) (Some (me_name me)) id with
       | Some (kc, tag) =>
           exists h y, wsearch ws a chT id = Ans (Some h) /\ dtag y = tag /\
             (hit_at chT (scope_chain (absws ws) (fst d) (Some (me_name me))) h (kc, y) \/
              uses_hit ws a (e_uses (ent d)) h (kc, y)) /\
             wdef_single ws a chT (Some id) =
               Ans (match find_doc ws kc with
                    | Some (_, dt) => [(fst dt, a_sel (snd h), a_range (snd h))]
                    | None => []
                    end)
       | None => wsearch ws a chT id = Ans None /\ wdef_single ws a chT (Some id) = Ans []
       end).
Proof. exact ws_plain_visible. Qed.

(* the chain generate_right_hand_of_entity searches after `<entity>.` is Scoping.member_chain *)
Theorem C10_ws_entity_chain_refines :
  forall ws a d k mt en, ws_ok ws -> ws_acyclic ws -> distinct_stems ws = true ->
    nth_error ws a = Some d -> nth_error (method_tables_of false (snd d)) k = Some mt ->
    exists me path, nth_error (e_methods (ent d)) k = Some me /\ lineage_t ws a = Ans (false, path) /\
      (find_method (ent d) (me_name me) = Some me ->
       let chM := member_chain (absws ws) (fst d) (Some (me_name me)) en in
       match find_doc ws en with
       | None => entity_chain ws a (tree_chain ws a mt path) en = Ans None /\ chM = []
       | Some _ => exists chE, entity_chain ws a (tree_chain ws a mt path) en = Ans (Some chE) /\ Forall2 same_tableB chE chM
       end).
Proof. exact ws_entity_chain_refines. Qed.

(* generate_loc_link_all on corresponding chains: one hit per declaring table, the same declarations *)
Theorem C10_ws_member_refines :
  forall chT chS id, Forall2 same_tableB chT chS ->
    Forall2 (hit_at chT chS) (lookup_all chT id) (search_all chS id).
Proof. exact ws_member_refines. Qed.

(* C10_member / C10_member_in_context on real trees *)
Theorem C10_ws_member :
  forall ws a d k mt en id, ws_ok ws -> ws_acyclic ws -> distinct_stems ws = true ->
    nth_error ws a = Some d -> nth_error (method_tables_of false (snd d)) k = Some mt ->
    exists me path, nth_error (e_methods (ent d)) k = Some me /\ lineage_t ws a = Ans (false, path) /\
      (find_method (ent d) (me_name me) = Some me -> special (absws ws) id = false ->
       match entity_chain ws a (tree_chain ws a mt path) en with
       | Ans (Some chE) =>
           Forall2 (fun h t => exists y, dtag y = snd t /\
                      hit_at chE (member_chain (absws ws) (fst d) (Some (me_name me)) en) h (fst t, y))
                   (lookup_all chE id) (members_all (absws ws) en id)
       | Ans None => members_all (absws ws) en id = []
       | Outside => False
       end).
Proof. exact ws_member_all. Qed.

(* where wdefinition takes which branch *)
Theorem C10_ws_plain_case :
  forall ws a stem t p idx enc pi q up full,
    distinct_stems ws = true -> nth_error ws a = Some (stem, t) -> flat_methods t = true ->
    full_chain ws a t (descend p t) = Ans full -> path_up p t = (idx, enc) :: (pi, q) :: up ->
    is_dot q = false -> (is_method_node q && Nat.eqb idx 0) = false -> is_member_decl enc = false ->
    wdefinition ws a p = wdef_single ws a full (get_id enc p).
Proof. exact wdefinition_plain_case. Qed.

Theorem C10_ws_member_case :
  forall ws a stem t p i enc pi q up full lft en,
    distinct_stems ws = true -> nth_error ws a = Some (stem, t) -> flat_methods t = true ->
    full_chain ws a t (descend p t) = Ans full -> path_up p t = (S i, enc) :: (pi, q) :: up ->
    is_dot q = true -> first_child q = Some lft -> own_entity t lft = Some en -> in_method (descend p t) = true ->
    wdefinition ws a p =
    match entity_chain ws a full en with
    | Outside => Outside
    | Ans None => Ans []
    | Ans (Some ch) => Ans (wdef_all ws ch (get_id enc p))
    end.
Proof. exact wdefinition_member_case. Qed.

Theorem C10_ws_declared_name_case :
  forall ws a stem t p idx enc pi q up full,
    distinct_stems ws = true -> nth_error ws a = Some (stem, t) -> flat_methods t = true ->
    full_chain ws a t (descend p t) = Ans full -> path_up p t = (idx, enc) :: (pi, q) :: up -> is_dot q = false ->
    (is_method_node q = true -> idx = O -> wdefinition ws a p = Ans (wdef_all ws (class_level_t full) (get_id enc p))) /\
    ((is_method_node q && Nat.eqb idx 0) = false -> is_member_decl enc = true ->
       wdefinition ws a p = Ans (wdef_all ws full (get_id enc p))).
Proof. exact wdefinition_declared_name_case. Qed.

Theorem C10_ws_full_chain :
  forall ws a d steps mt path,
    nth_error ws a = Some d -> chain_for (snd d) steps = Some [mt; root_table_of false (snd d)] ->
    own_chain ws a = Ans (tables_along ws a path) ->
    (exists rest, tables_along ws a path = root_table_of false (snd d) :: rest) ->
    full_chain ws a (snd d) steps = Ans (tree_chain ws a mt path).
Proof. exact full_chain_method. Qed.

Theorem C10_ws_hypotheses_decidable :
  forall ws, (ws_okb ws = true -> ws_ok ws) /\ (ws_acyclicb ws = true -> ws_acyclic ws).
Proof. intro ws. split; [apply ws_okb_ok|apply ws_acyclicb_ok]. Qed.

(* non-vacuity, on the real parser's trees of
   aChild.god  class aChild (aParent) / uses aLib / fc : int4 / proc Run(p : int4) / var l : int4 /
               l = p + fc + fp + cLib / self.fp = l / self.Base / endproc / proc Base / endproc
   aParent.god class aParent / const cP = 2 / fp : int4 / proc Base / fp = 1 / endproc
   aLib.god    module aLib / const cLib = 1 *)
Example C10_ws_nonvacuous :
  ws_ok wsx /\ ws_acyclic wsx /\ distinct_stems wsx = true /\ lineage_t wsx 0 = Ans (false, [0; 1]%nat) /\
  wdefinition wsx 0 (mkPos 5 14) = Ans [(wx_aParent, wrg 2 0 2 2, wrg 2 0 2 9)] /\      (* fp -> the PARENT's field *)
  wdefinition wsx 0 (mkPos 5 19) = Ans [(wx_aLib, wrg 1 6 1 10, wrg 1 0 1 14)] /\       (* cLib -> the USED module's constant *)
  wdefinition wsx 0 (mkPos 6 6) = Ans [(wx_aParent, wrg 2 0 2 2, wrg 2 0 2 9)] /\       (* self.fp *)
  wdefinition wsx 0 (mkPos 7 6) = Ans [(wx_aChild, wrg 9 5 9 9, wrg 9 0 10 7); (wx_aParent, wrg 3 5 3 9, wrg 3 0 5 7)] /\  (* self.Base: own, then inherited *)
  wdefinition wsx 0 (mkPos 0 14) = Ans [(wx_aParent, wrg 0 6 0 13, wrg 0 0 0 13)] /\    (* the parent class in the header *)
  resolve_plain (absws wsx) wx_aChild (Some wx_Run) wx_fp = Some (wx_aParent, 2) /\
  resolve_plain (absws wsx) wx_aChild (Some wx_Run) wx_cLib = Some (wx_aLib, 1) /\
  definition_member (absws wsx) wx_aChild (Some wx_Run) wx_aChild wx_Base = [(wx_aChild, 3); (wx_aParent, 3)].
Proof.
  destruct wsx_facts as (H1 & H2 & H3 & H4 & H5 & H6 & H7 & H8 & H9 & _ & _ & H12 & H13 & H14 & _).
  split; [apply ws_okb_ok; exact H1|]. split; [apply ws_acyclicb_ok; exact H2|]. repeat split; assumption.
Qed.

(* the cycle guard (aChild (aParent), aParent (aChild)): the requested document stays parent-less, its
   parent's field is not visible; Scoping.lineage walks round the cycle until its fuel ends -- the
   hypothesis ws_acyclic is needed, and fails here *)
Theorem C10_ws_cycle_guard :
  ws_ok wsx_cyc /\ ws_acyclicb wsx_cyc = false /\
  lineage_t wsx_cyc 0 = Ans (true, [0]%nat) /\ lineage_t wsx_cyc 1 = Ans (true, [1]%nat) /\
  wdefinition wsx_cyc 0 (mkPos 5 14) = Ans [] /\
  wdefinition wsx_cyc 0 (mkPos 5 9) = Ans [(wx_aChild, wrg 2 0 2 2, wrg 2 0 2 9)] /\
  length (lineage (absws wsx_cyc) wx_aChild) = 3%nat.
Proof.
  destruct wsx_cyc_facts as (H1 & H2 & H3 & H4 & H5 & H6 & H7).
  split; [apply ws_okb_ok; exact H1|]. repeat split; assumption.
Qed.

Print Assumptions C10_ws_class_index.
Print Assumptions C10_ws_lineage_refines.
Print Assumptions C10_ws_class_chain_refines.
Print Assumptions C10_ws_scope_chain_refines.
Print Assumptions C10_ws_plain_refines.
Print Assumptions C10_ws_plain.
Print Assumptions C10_ws_entity_chain_refines.
Print Assumptions C10_ws_member_refines.
Print Assumptions C10_ws_member.
Print Assumptions C10_ws_plain_case.
Print Assumptions C10_ws_member_case.
Print Assumptions C10_ws_declared_name_case.
Print Assumptions C10_ws_full_chain.
Print Assumptions C10_ws_hypotheses_decidable.
Print Assumptions C10_ws_nonvacuous.
Print Assumptions C10_ws_cycle_guard.

(* a typed operand before the dot (WsTree.typed_entity: the name of another indexed class / module; a
   variable, parameter or own / inherited field whose declared type is native, an indexed class, `refto`
   one, or `listof`): the answer is the all-declarations look-up on the chain of the operand's class,
   to which C10_ws_entity_chain_refines / C10_ws_member apply.  PARTIAL: that typed_entity is
   Scoping.static_class of the one-element prefix (head_etype) is tied to the code by the differential run only.
   What a proof needs beyond WsTreeProofs: (1) the declaration found at position i of a tree table is the
   member / variable with tag i of the entity (member_by_tag / var_by_tag against decl_node's search by
   range, name and kind), and its decl_tyref is what declared_entity reads; (2) Scoping's tables DURING the
   annotation of method m (scope_chain_during: members_upto) against the final tables plus typed_entity's
   side condition `every own declaration of the name ends before the operand` -- this relates source
   positions to declaration order and needs the sibling-order facts of C08 (RangeTop) as a hypothesis;
   (3) a class-kind symbol other than `self` in a regular root table is the header symbol (a_name = cls). *)
Theorem C10_ws_typed_member_case :
  forall ws a stem t p i enc pi q up full lft,
    distinct_stems ws = true -> nth_error ws a = Some (stem, t) -> flat_methods t = true ->
    full_chain ws a t (descend p t) = Ans full -> path_up p t = (S i, enc) :: (pi, q) :: up ->
    is_dot q = true -> first_child q = Some lft -> own_entity t lft = None ->
    wdefinition ws a p =
    match typed_entity ws a t (descend p t) lft with
    | Outside => Outside
    | Ans None => Ans []
    | Ans (Some en) =>
        match entity_chain ws a full en with
        | Outside => Outside
        | Ans None => Ans []
        | Ans (Some ch) => Ans (wdef_all ws ch (get_id enc p))
        end
    end.
Proof. exact wdefinition_typed_member_case. Qed.

(* non-vacuity: a fourth file  aUser.god  class aUser / proc Go(q : aChild) / q.fc = 1 / aLib.cLib / endproc *)
Example C10_ws_typed_nonvacuous :
  ws_ok wsx2 /\ ws_acyclic wsx2 /\ distinct_stems wsx2 = true /\
  wdefinition wsx2 3 (mkPos 2 3) = Ans [(wx_aChild, wrg 2 0 2 2, wrg 2 0 2 9)] /\       (* q.fc, q : aChild *)
  wdefinition wsx2 3 (mkPos 3 6) = Ans [(wx_aLib, wrg 1 6 1 10, wrg 1 0 1 14)] /\       (* aLib.cLib *)
  definition_member (absws wsx2) wx_aUser (Some [71;111]) wx_aChild [102;99] = [(wx_aChild, 1)].
Proof.
  destruct wsx2_facts as (H1 & H2 & H3 & H4 & _ & H6 & H7 & _).
  split; [apply ws_okb_ok; exact H1|]. split; [apply ws_acyclicb_ok; exact H2|]. repeat split; assumption.
Qed.

Print Assumptions C10_ws_typed_member_case.
Print Assumptions C10_ws_typed_nonvacuous.

(* ---- parent cycles: the cut chain, characterised (Proofs/WsTreeCut.v) ----
   cut_ws ws c: the workspace in which document c's class header has lost its parent clause (the
   attribute K_parent of its top-level class node; nothing else changes). *)
From GoldV Require Import WsTreeTerm WsTreeCut.

(* when the walk from the requested document a comes back (the cycle guard refuses a link), the chain
   it returns ends with the document c that closes the cycle, and it IS the chain of a in cut_ws ws c:
   there the walk does not come back and visits the same documents; every table along it, hence every
   look-up along the chain (generate_loc_link_all) and every link target, is the same *)
Theorem C10_ws_cycle_chain :
  forall ws a path, lineage_t ws a = Ans (true, path) ->
    exists c pre, path = pre ++ [c] /\
      lineage_t (cut_ws ws c) a = Ans (false, path) /\
      own_chain (cut_ws ws c) a = own_chain ws a /\
      (forall b, tables_along (cut_ws ws c) b path = tables_along ws b path) /\
      (forall ch oid, wdef_all (cut_ws ws c) ch oid = wdef_all ws ch oid) /\
      (forall h, target_of (cut_ws ws c) h = target_of ws h).
Proof. exact ws_cycle_chain. Qed.

(* a plain identifier that the chain itself declares gets the same link in both workspaces *)
Theorem C10_ws_cycle_plain_in_chain :
  forall ws c a ch id h, lookup ch id = Some h ->
    wdef_single (cut_ws ws c) a ch (Some id) = wdef_single ws a ch (Some id).
Proof. exact wdef_single_chain_cut. Qed.

(* the cut keeps the hypotheses of the refinement theorems ... *)
Theorem C10_ws_cut_keeps_hypotheses :
  forall ws c, (ws_ok ws -> ws_ok (cut_ws ws c)) /\ distinct_stems (cut_ws ws c) = distinct_stems ws /\
               (forall d t, annotate d (cut_tree t) = annotate d t).
Proof. intros ws c. split; [apply ws_ok_cut|]. split; [apply distinct_stems_cut|intros; apply annotate_cut]. Qed.

(* ... so on a cycle the chain of the requested document refines Scoping.scope_chain of the abstract
   workspace of cut_ws ws c, table by table (and with it the look-up and label theorems above),
   whenever the cut workspace has no further cycle *)
Theorem C10_ws_cycle_refines :
  forall ws a d k mt path, ws_ok ws -> distinct_stems ws = true ->
    nth_error ws a = Some d -> lineage_t ws a = Ans (true, path) ->
    nth_error (method_tables_of false (snd d)) k = Some mt ->
    exists c pre, path = pre ++ [c] /\ ws_ok (cut_ws ws c) /\ distinct_stems (cut_ws ws c) = true /\
      (ws_acyclic (cut_ws ws c) ->
       exists d' me, nth_error (cut_ws ws c) a = Some d' /\ fst d' = fst d /\
         nth_error (e_methods (ent d')) k = Some me /\
         Forall2 same_tableB (tree_chain ws a mt path) (abs_chain_ws (cut_ws ws c) d' me) /\
         (find_method (ent d') (me_name me) = Some me ->
          scope_chain (absws (cut_ws ws c)) (fst d) (Some (me_name me)) = abs_chain_ws (cut_ws ws c) d' me)).
Proof. exact ws_cycle_refines. Qed.

(* non-vacuity: aChild (aParent), aParent (aChild), request in aChild: aChild closes the cycle; after
   the cut the workspace is acyclic, aParent's chain is [aParent; aChild] *)
Example C10_ws_cycle_nonvacuous :
  ws_ok wsx_cyc /\ lineage_t wsx_cyc 0 = Ans (true, [0]%nat) /\
  ws_acyclic (cut_ws wsx_cyc 0) /\
  lineage_t (cut_ws wsx_cyc 0) 0 = Ans (false, [0]%nat) /\
  lineage_t (cut_ws wsx_cyc 0) 1 = Ans (false, [1; 0]%nat) /\
  wdefinition wsx_cyc 0 (mkPos 5 9) = wdefinition (cut_ws wsx_cyc 0) 0 (mkPos 5 9) /\
  wdefinition wsx_cyc 0 (mkPos 5 14) = wdefinition (cut_ws wsx_cyc 0) 0 (mkPos 5 14).
Proof.
  destruct wsx_cyc_cut_facts as (H1 & H2 & H3 & H4 & _ & H6 & H7). destruct wsx_cyc_facts as (H0 & _).
  split; [apply ws_okb_ok; exact H0|]. split; [exact H1|]. split; [apply ws_acyclicb_ok; exact H2|]. repeat split; assumption.
Qed.

Print Assumptions C10_ws_cycle_chain.
Print Assumptions C10_ws_cycle_plain_in_chain.
Print Assumptions C10_ws_cut_keeps_hypotheses.
Print Assumptions C10_ws_cycle_refines.
Print Assumptions C10_ws_cycle_nonvacuous.
