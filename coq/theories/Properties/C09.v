(* C09  A syntax error stays inside the method that contains it.
   Statements are about the parser model (Model/PComb.v, Model/Grammar.v) for ALL token lists.
   Vocabulary (Proofs/LocalitySpan.v, HeaderShape.v, LocalityProofs.v):
     is_header hp hdr h dh   the header parser hp succeeds on hdr ++ x for every x that does not extend
                             the header, consumes exactly hdr, returns h, pushes the diagnostics dh;
     extends_header x        the first NON-COMMENT token of x is `(`, `#` or a method modifier keyword
                             (exp_token skips comments, so a comment does not shield a modifier);
     no_term terms body      no token of body is a method terminator (EndProc/End resp. EndFunc/End);
     iso g mm body           parse_method_body on the slice `body` alone, from the empty context:
                             iso_node = its node, iso_diags = its diagnostics;
     closed_unit / unit_ok   a token block the top-level loop turns into one node whatever follows;
     span_node / open_node   the AstProcedure/AstFunction node of a complete method / of a method whose
                             end keyword is missing. *)
From GoldV Require Import Base Tokens Keywords Lexer AstKinds Tree Strings PComb Grammar ParserWF GrammarWF
                          GrammarRel LocalitySpan FrameRel FrameTop DiagRel MemoRel HeaderShape HeaderParams LocalityProofs.
From Coq Require Import Lia.

(* ---------- 1. method_span ---------- *)

(* For EVERY grammar record g (any fuel level, even a broken statement parser): a header, a
   terminator-free body that does not extend the header, the end token, anything after it.  The
   method parser returns exactly at `rest`; its body node is the one parse_method_body returns for
   the slice `body`, and the context it leaves is the one that parse leaves: no diagnostic for the
   end token, nothing that depends on `rest`. *)
Theorem C09_method_span_proc :
  forall g hdr h dh body endtok rest c b c2,
    is_header (proc_header g) hdr h dh -> has_method_body (h_mods h) = true ->
    no_term proc_terms body = true -> is_term proc_terms endtok = true ->
    extends_header body = false ->
    parse_method_body g body [] (push_diags dh c) = (Ok [] b, c2) ->
    parse_procedure_declaration g (hdr ++ body ++ endtok :: rest) c = (Ok rest (span_node h b endtok), c2).
Proof. exact method_span_proc. Qed.

Theorem C09_method_span_func :
  forall g hdr h dh body endtok rest c b c2,
    is_header (func_header g) hdr h dh -> has_method_body (h_mods h) = true ->
    no_term func_terms body = true -> is_term func_terms endtok = true ->
    extends_header body = false ->
    parse_method_body g body [] (push_diags dh c) = (Ok [] b, c2) ->
    parse_function_declaration g (hdr ++ body ++ endtok :: rest) c = (Ok rest (span_node h b endtok), c2).
Proof. exact method_span_func. Qed.

(* with the real grammar the body parse always succeeds, and its node and NEW diagnostics are those
   of the body parsed in isolation (from the empty context), whatever the context holds *)
Theorem C09_body_in_isolation :
  forall fuel memo body c, (length body < fuel)%nat -> cmemo c = memo ->
    exists c2, parse_method_body (gram fuel) body [] c = (Ok [] (iso_node (gram fuel) memo body), c2) /\
               cdiags c2 = iso_diags (gram fuel) memo body ++ cdiags c.
Proof.
  intros fuel memo body c Hl Hc.
  assert (length body <= fuel - 1)%nat as Hl' by lia.
  destruct (body_frame (gram fuel) (fuel - 1) (gram_good fuel (fuel - 1) ltac:(lia)) memo body Hl' c Hc) as (E & D & _).
  eexists. split; [exact E|exact D].
Qed.

(* a syntactic class of headers:
     proc|func  Name[#Event]  [ "(" [ [const|var|inout] Name [":" TypeName] {"," ...} ] ")" ]  [return TypeName]
                {private|protected|final|override}
   PARTIAL: headers with other parameter types (sized, refto/listof, arrays, records, proc types ...),
   with comments inside, or with keyword-like names satisfy is_header too (the check generates
   them) but proving it needs a look-ahead analysis of the whole type grammar, which is not done *)
Definition param_list_class (pl : list tok) (pn : option node) : Prop :=
  pl_shape pl pn \/
  exists ob cb q more, pl = ob :: plist_toks q more ++ [cb] /\ pn = Some (params_node ob cb q more) /\
                       tty ob = TOBracket /\ tty cb = TCBracket /\ sp_ok q /\ more_ok more.

Lemma param_list_class_good fuel pl pn : param_list_class pl pn -> pl_good (g_type (gram (S fuel))) pl pn.
Proof.
  intros [H|(ob & cb & q & more & -> & -> & Ho & Hc & Hq & Hm)]; [apply pl_shape_good; exact H|].
  apply params_good; auto. apply gram_type_basic_ok.
Qed.

Theorem C09_proc_header_class_partial :
  forall fuel p nm nd pl pn mods,
    tty p = TProc -> name_shape nm nd -> param_list_class pl pn -> forallb is_member_mod mods = true ->
    is_header (proc_header (gram (S fuel))) (p :: nm ++ pl ++ mods) (mkH p nd pn None (mods_info mods)) [] /\
    has_method_body (mods_info mods) = true.
Proof.
  intros. split; [apply gen_proc_header; auto; apply param_list_class_good; assumption|apply has_body_mods; assumption].
Qed.

Theorem C09_func_header_class_partial :
  forall fuel f nm nd pl pn rt ty mods,
    tty f = TFunc -> name_shape nm nd -> param_list_class pl pn -> tty rt = TReturn -> tty ty = TIdentifier ->
    forallb is_member_mod mods = true ->
    is_header (func_header (gram (S fuel))) (f :: nm ++ pl ++ rt :: ty :: mods)
              (mkH f nd pn (Some (basic_type_node ty)) (mods_info mods)) [] /\
    has_method_body (mods_info mods) = true.
Proof.
  intros. split; [apply gen_func_header; auto; apply param_list_class_good; assumption|apply has_body_mods; assumption].
Qed.

(* `proc Foo(a : int4, var b) private` is in the class *)
Definition w_hdr : list N := [112;114;111;99;32;70;111;111;40;97;32;58;32;105;110;116;52;44;32;118;97;114;32;98;41;32;112;114;105;118;97;116;101].
Example C09_header_with_params :
  exists h, is_header (proc_header (gram 5)) (fst (lex w_hdr)) h [] /\ has_method_body (h_mods h) = true /\
            match h_params h with Some (Node KAstParameterDeclarationList _ _ _ _ [_; _]) => True | _ => False end.
Proof.
  set (ts := fst (lex w_hdr)). vm_compute in ts.
  match eval unfold ts in ts with
  | [?p; ?nm; ?ob; ?a; ?col; ?ty; ?cm; ?vr; ?b; ?cb; ?pv] =>
      destruct (C09_proc_header_class_partial 4 p [nm] (mk_terminal nm)
                  (ob :: plist_toks (mkSP None a (Some (col, ty))) [(cm, mkSP (Some vr) b None)] ++ [cb])
                  (Some (params_node ob cb (mkSP None a (Some (col, ty))) [(cm, mkSP (Some vr) b None)])) [pv]) as [H1 H2]
  end.
  - reflexivity.
  - apply ns_plain. reflexivity.
  - right. do 4 eexists. repeat split; try reflexivity.
    constructor; [split; [reflexivity|repeat split; reflexivity]|constructor].
  - reflexivity.
  - eexists. split; [exact H1|]. split; [exact H2|exact I].
Qed.

(* ---------- 2. toplevel_concat ---------- *)

Definition diags_in_order (c : ctx) : list pdiag := rev (cdiags c).

Lemma parse_gold_of_loop memo fuel ts stmts c :
  top_loop (gram fuel) (S (length ts)) ts [] ts (ctx0 memo) = (Ok [] stmts, c) ->
  parse_gold_with memo fuel ts = (Ok [] (mk_root stmts), c).
Proof. intro H. unfold parse_gold_with. rewrite H. reflexivity. Qed.

(* a complete method (header as above, body, end token) is a closed unit of the top-level loop:
   it becomes one node and has one context effect whatever follows it *)
Theorem C09_span_is_unit :
  forall fuel memo isf hdr h dh body endtok,
    span_ok (gram fuel) (fuel - 1) isf hdr h dh body -> (0 < fuel)%nat -> is_term (terms_of isf) endtok = true ->
    unit_ok (gram fuel) memo (span_unit (gram fuel) memo hdr h dh body endtok).
Proof.
  intros fuel memo isf hdr h dh body endtok Hs Hf He.
  apply (span_unit_ok (gram fuel) (fuel - 1) (gram_good fuel (fuel - 1) ltac:(lia)) memo isf); assumption.
Qed.

(* pre = a concatenation of closed units (e.g. complete methods), post = ANY tokens:
   nodes (pre ++ post) = nodes pre ++ nodes of the loop run on post from the context pre ends in,
   the diagnostics of pre are an initial segment of those of pre ++ post, and both are what
   parsing pre alone gives.  The last declaration of pre must not look ahead: true for a method
   span (it ends with its end token), false e.g. for `class X` (peeks for `(`), a constant (peeks
   for multilang), a field (peeks for modifiers / absolute). *)
Theorem C09_toplevel_concat :
  forall memo fuel us post,
    let g := gram fuel in
    Forall (unit_ok g memo) us -> (length (units_toks us ++ post) < fuel)%nat ->
    exists Npost cf f0 Dpost,
      parse_gold_with memo fuel (units_toks us ++ post) = (Ok [] (mk_root (units_nodes us ++ Npost)), cf) /\
      parse_gold_with memo fuel (units_toks us) = (Ok [] (mk_root (units_nodes us)), units_fx us (ctx0 memo)) /\
      (forall k, top_loop g (f0 + k) (units_toks us ++ post) [] post (units_fx us (ctx0 memo)) = (Ok [] Npost, cf)) /\
      diags_in_order cf = diags_in_order (units_fx us (ctx0 memo)) ++ Dpost.
Proof.
  intros memo fuel us post g Hu Hl.
  destruct (toplevel_concat g (fuel - 1) (gram_good fuel (fuel - 1) ltac:(lia)) memo us post Hu ltac:(lia))
    as (Npost & cf & f0 & E1 & E2 & E3 & (Dpost & E4)).
  exists Npost, cf, f0, (rev Dpost). repeat split.
  - apply parse_gold_of_loop. exact E1.
  - apply parse_gold_of_loop. exact E2.
  - exact E3.
  - unfold diags_in_order. rewrite E4, rev_app_distr. reflexivity.
Qed.

(* ---------- 3. C09_local ---------- *)

(* file  = pre ++ hdr ++ body  ++ [endtok] ++ post
   file' = pre ++ hdr ++ body' ++ [endtok] ++ post      (same header, same end token, same post)
   pre a concatenation of closed units, both bodies terminator-free and not header-extending.
   Then: the nodes of pre and of post are IDENTICAL in the two parses (so are their outline
   entries: the outline is a function of the node, C12), the diagnostics are
       diagnostics of pre ; header diagnostics ; diagnostics of the body in isolation ; Dpost
   with the SAME first, second and last part: the only diagnostics that differ are those of the two
   bodies parsed in isolation. *)
Theorem C09_local :
  forall memo fuel us isf hdr h dh body body' endtok post,
    let g := gram fuel in
    Forall (unit_ok g memo) us ->
    method_header g isf hdr h dh -> has_method_body (h_mods h) = true ->
    no_term (terms_of isf) body = true -> extends_header body = false ->
    no_term (terms_of isf) body' = true -> extends_header body' = false ->
    is_term (terms_of isf) endtok = true ->
    let file := units_toks us ++ (hdr ++ body ++ [endtok]) ++ post in
    let file' := units_toks us ++ (hdr ++ body' ++ [endtok]) ++ post in
    (length file < fuel)%nat -> (length file' < fuel)%nat ->
    exists Npost Dpost cf cf',
      parse_gold_with memo fuel file =
        (Ok [] (mk_root (units_nodes us ++ span_node h (iso_node g memo body) endtok :: Npost)), cf) /\
      parse_gold_with memo fuel file' =
        (Ok [] (mk_root (units_nodes us ++ span_node h (iso_node g memo body') endtok :: Npost)), cf') /\
      diags_in_order cf = diags_in_order (units_fx us (ctx0 memo)) ++ rev dh ++ rev (iso_diags g memo body) ++ Dpost /\
      diags_in_order cf' = diags_in_order (units_fx us (ctx0 memo)) ++ rev dh ++ rev (iso_diags g memo body') ++ Dpost /\
      Forall (diag_ok (fun t => In t body)) (iso_diags g memo body) /\
      Forall (diag_ok (fun t => In t body')) (iso_diags g memo body').
Proof.
  intros memo fuel us isf hdr h dh body body' endtok post g Hu Hh Hb Hn Hx Hn' Hx' He file file' Hl Hl'.
  assert (good g (fuel - 1)) as Hg by (apply gram_good; lia).
  assert (length body <= fuel - 1)%nat as Lb by (unfold file in Hl; rewrite !app_length in Hl; lia).
  assert (length body' <= fuel - 1)%nat as Lb' by (unfold file' in Hl'; rewrite !app_length in Hl'; lia).
  destruct (local_edit g (fuel - 1) Hg memo us isf hdr h dh body body' endtok post Hu
              (mkSpanOk g (fuel - 1) isf hdr h dh body Hh Hb Hn Hx Lb)
              (mkSpanOk g (fuel - 1) isf hdr h dh body' Hh Hb Hn' Hx' Lb') He ltac:(fold file; lia) ltac:(fold file'; lia))
    as (Npost & Dpost & cf & cf' & E1 & E2 & D1 & D2).
  exists Npost, (rev Dpost), cf, cf'. repeat split.
  - apply parse_gold_of_loop. exact E1.
  - apply parse_gold_of_loop. exact E2.
  - unfold diags_in_order. rewrite D1, !rev_app_distr, <- !app_assoc. reflexivity.
  - unfold diags_in_order. rewrite D2, !rev_app_distr, <- !app_assoc. reflexivity.
  - apply (iso_diags_ok g (fuel - 1) Hg).
  - apply (iso_diags_ok g (fuel - 1) Hg).
Qed.

(* the line claim, WITHOUT exception (the guard "a diagnostic that does not carry the default range 0:0" the
   faithful model needed before the repair of finding eof-diagnostic-at-origin is gone): EVERY diagnostic of
   a body parsed on its own slice starts where a token of the body starts and ends where a token of the body
   ends.  An error at the very end of the slice is reported at the last token the failing statement parser was
   given, a list item missing at the very end at the separator in front of it.  Nothing remains excluded: an
   empty body has no diagnostics at all, and the only other reporter, the top-level loop, is not part of a
   body (its diagnostics are Dpost / those of pre in C09_local, identical in both parses, and it reports at
   range_of_toks of two tokens of the file, never with the default range). *)
Theorem C09_new_diags_at_body_tokens :
  forall fuel memo body d, In d (iso_diags (gram fuel) memo body) ->
    (exists t, In t body /\ rstart (drange d) = rstart (trange t)) /\
    (exists t, In t body /\ rend (drange d) = rend (trange t)).
Proof.
  intros fuel memo body d Hd.
  destruct (body_diags_from_body (gram fuel) body (proj2 (proj2 (proj2 (gram_Dg (fun t => In t body) fuel)))) [] (ctx0 memo))
    as (new & E & Hall).
  unfold iso_diags, iso in Hd. rewrite E in Hd. simpl in Hd. rewrite app_nil_r in Hd.
  rewrite Forall_forall in Hall. exact (Hall d Hd).
Qed.

Theorem C09_new_diags_in_method_lines :
  forall fuel memo body lo hi,
    (forall t, In t body -> lo <= pline (rstart (trange t)) <= hi) ->
    forall d, In d (iso_diags (gram fuel) memo body) ->
      lo <= pline (rstart (drange d)) <= hi.
Proof.
  intros fuel memo body lo hi Hlines d Hd.
  destruct (C09_new_diags_at_body_tokens fuel memo body d Hd) as [(t & Ht & Hr) _].
  rewrite Hr. apply Hlines. exact Ht.
Qed.

(* ... and it ends on a line on which a token of the body ends *)
Theorem C09_new_diags_end_in_method_lines :
  forall fuel memo body lo hi,
    (forall t, In t body -> lo <= pline (rend (trange t)) <= hi) ->
    forall d, In d (iso_diags (gram fuel) memo body) ->
      lo <= pline (rend (drange d)) <= hi.
Proof.
  intros fuel memo body lo hi Hlines d Hd.
  destruct (C09_new_diags_at_body_tokens fuel memo body d Hd) as [_ (t & Ht & Hr)].
  rewrite Hr. apply Hlines. exact Ht.
Qed.

(* the class the finding had excluded (some diagnostic of the body in isolation starts at 0:0) is now EMPTY
   for every body that does not itself start at the origin of the file *)
Definition at_origin (d : pdiag) : bool :=
  (pline (rstart (drange d)) =? 0) && (pcol (rstart (drange d)) =? 0).

Theorem C09_no_diag_at_origin :
  forall fuel memo body,
    (forall t, In t body -> rstart (trange t) <> rstart range_default) ->
    existsb at_origin (iso_diags (gram fuel) memo body) = false.
Proof.
  intros fuel memo body Hb.
  destruct (existsb at_origin (iso_diags (gram fuel) memo body)) eqn:E; [|reflexivity]. exfalso.
  apply existsb_exists in E. destruct E as (d & Hd & Ho).
  destruct (C09_new_diags_at_body_tokens fuel memo body d Hd) as [(t & Ht & Hr) _].
  apply (Hb t Ht). rewrite <- Hr. unfold at_origin in Ho. apply andb_prop in Ho. destruct Ho as [H1 H2].
  apply N.eqb_eq in H1, H2. destruct (rstart (drange d)) as [l c]. cbn [pline pcol] in H1, H2. subst. reflexivity.
Qed.

(* REGRESSION (finding eof-diagnostic-at-origin, repaired by tools/c09_proposed_fix.diff): the witnesses that
   refuted the line clause now satisfy it *)
Definition w_ok : list N := [112;114;111;99;32;65;10;32;120;32;61;32;49;10;101;110;100;112;114;111;99;10;112;114;111;99;32;80;10;32;102;111;111;40;121;41;10;101;110;100;112;114;111;99;10].
Definition w_bad : list N := [112;114;111;99;32;65;10;32;120;32;61;32;49;10;101;110;100;112;114;111;99;10;112;114;111;99;32;80;10;32;102;111;111;40;121;10;101;110;100;112;114;111;99;10].
Definition w_sep : list N := [112;114;111;99;32;65;10;32;120;32;61;32;49;10;101;110;100;112;114;111;99;10;112;114;111;99;32;80;10;32;102;111;111;40;121;44;10;101;110;100;112;114;111;99;10].

(* "proc A / x = 1 / endproc / proc P / foo(y) / endproc" parses without diagnostics; replacing the
   body of P (lines 3..5) by `foo(y` yields exactly one diagnostic, on the last token `y` of the body (4:5-4:6) *)
Theorem C09_eof_diag_regression :
  let t1 := fst (lex w_ok) in let t2 := fst (lex w_bad) in
  cdiags (snd (parse_gold t1)) = [] /\
  firstn 8 t1 = firstn 8 t2 /\
  Forall (fun t => 3 <= pline (rstart (trange t))) (skipn 6 t2) /\
  no_term proc_terms (firstn 3 (skipn 8 t2)) = true /\ extends_header (firstn 3 (skipn 8 t2)) = false /\
  exists d y, cdiags (snd (parse_gold t2)) = [d] /\ nth_error t2 10 = Some y /\ drange d = trange y /\
              pline (rstart (drange d)) = 4 /\ pline (rend (drange d)) = 4.
Proof.
  cbv zeta. split; [vm_compute; reflexivity|]. split; [vm_compute; reflexivity|].
  split; [vm_compute; repeat constructor; discriminate|].
  split; [vm_compute; reflexivity|]. split; [vm_compute; reflexivity|].
  eexists. eexists. split; [vm_compute; reflexivity|]. split; [vm_compute; reflexivity|]. repeat split; vm_compute; reflexivity.
Qed.

(* the same in the vocabulary of C09_local: every diagnostic of the body `foo(y` in isolation is on line 4,
   the line of all its tokens, and there is one *)
Theorem C09_eof_diag_regression_iso :
  let body := firstn 3 (skipn 8 (fst (lex w_bad))) in
  Forall (fun t => pline (rstart (trange t)) = 4) body /\
  iso_diags (gram 20) true body <> [] /\
  Forall (fun d => pline (rstart (drange d)) = 4 /\ pline (rend (drange d)) = 4) (iso_diags (gram 20) true body) /\
  existsb at_origin (iso_diags (gram 20) true body) = false.
Proof.
  cbv zeta. split; [vm_compute; repeat constructor|]. split; [vm_compute; discriminate|].
  split; [vm_compute; repeat constructor|vm_compute; reflexivity].
Qed.

(* the recovery of a separated list: `foo(y,` -> the missing argument is reported at the comma (4:6-4:7), nothing on line 0 *)
Theorem C09_eof_diag_regression_seplist :
  let ds := cdiags (snd (parse_gold (fst (lex w_sep)))) in
  ds <> [] /\ forallb (fun d => (pline (rstart (drange d)) =? 4) && (pline (rend (drange d)) =? 4)) ds = true /\
  existsb (fun d => (pcol (rstart (drange d)) =? 6) && (pcol (rend (drange d)) =? 7)) ds = true.
Proof. cbv zeta. split; [vm_compute; discriminate|]. split; vm_compute; reflexivity. Qed.

(* ... while the recovery as it WAS (PComb.repeat_w_ctx_old / until_w_ctx_old / sep_list_old: `None => Default::default()`)
   reports the same errors with the default range 0:0-0:0, on line 0 = method A: the clause "every new diagnostic
   lies within the lines of that method" was false of the old code *)
Theorem C09_eof_diag_old_refuted :
  let body := firstn 3 (skipn 8 (fst (lex w_bad))) in
  Forall (fun t => pline (rstart (trange t)) = 4) body /\
  map drange (cdiags (snd (repeat_w_ctx_old (g_stmt (gram 20)) body (ctx0 true)))) = [range_default] /\
  map drange (cdiags (snd (until_w_ctx_old (exp_token TEndWhile) (g_stmt (gram 20)) body (ctx0 true)))) = [range_default] /\
  map (fun d => pline (rstart (drange d))) (cdiags (snd (repeat_w_ctx (g_stmt (gram 20)) body (ctx0 true)))) = [4] /\
  map (fun d => pline (rstart (drange d))) (cdiags (snd (until_w_ctx (exp_token TEndWhile) (g_stmt (gram 20)) body (ctx0 true)))) = [4].
Proof. cbv zeta. split; [vm_compute; repeat constructor|]. repeat split; vm_compute; reflexivity. Qed.

Theorem C09_eof_diag_old_refuted_seplist :
  let args := firstn 2 (skipn 10 (fst (lex w_sep))) in        (* `y ,` *)
  Forall (fun t => pline (rstart (trange t)) = 4) args /\
  map drange (cdiags (snd (sep_list_old (g_expr (gram 20)) TComma args (ctx0 true)))) = [range_default] /\
  map (fun d => pline (rstart (drange d))) (cdiags (snd (sep_list (g_expr (gram 20)) TComma args (ctx0 true)))) = [4].
Proof. cbv zeta. split; [vm_compute; repeat constructor|]. split; vm_compute; reflexivity. Qed.

(* ---------- 4. C09_missing_end ---------- *)

(* the LAST method has no end token: file = pre ++ hdr ++ body, body terminator-free.
   The method node is the open node whose statements are parse_method_body of ALL of body (after the
   take_until repair; before it the last token was dropped), the diagnostic "proc/func end token not
   found" is reported on the header's first token and is the last one added, and the nodes and
   diagnostics of pre are those of pre parsed alone. *)
Theorem C09_missing_end :
  forall memo fuel us isf hdr h dh body,
    let g := gram fuel in
    Forall (unit_ok g memo) us ->
    method_header g isf hdr h dh -> has_method_body (h_mods h) = true ->
    no_term (terms_of isf) body = true -> extends_header body = false ->
    let file := units_toks us ++ hdr ++ body in
    (length file < fuel)%nat ->
    exists cf,
      parse_gold_with memo fuel file = (Ok [] (mk_root (units_nodes us ++ [open_node h (iso_node g memo body)])), cf) /\
      diags_in_order cf = diags_in_order (units_fx us (ctx0 memo)) ++ rev dh ++ rev (iso_diags g memo body)
                          ++ [mkDiag (trange (h_first h)) (missing_msg isf)] /\
      parse_gold_with memo fuel (units_toks us) = (Ok [] (mk_root (units_nodes us)), units_fx us (ctx0 memo)).
Proof.
  intros memo fuel us isf hdr h dh body g Hu Hh Hb Hn Hx file Hl.
  assert (good g (fuel - 1)) as Hg by (apply gram_good; lia).
  assert (length body <= fuel - 1)%nat as Lb by (unfold file in Hl; rewrite !app_length in Hl; lia).
  destruct (missing_end g (fuel - 1) Hg memo us isf hdr h dh body Hu
              (mkSpanOk g (fuel - 1) isf hdr h dh body Hh Hb Hn Hx Lb) ltac:(fold file; lia)) as (cb & D & E).
  eexists. split; [apply parse_gold_of_loop; exact E|]. split.
  - unfold diags_in_order, add_diag. cbn [cdiags rev]. rewrite D, !rev_app_distr, <- !app_assoc. reflexivity.
  - destruct (toplevel_concat g (fuel - 1) Hg memo us [] Hu) as (Np & cf & f0 & _ & E2 & _).
    + rewrite app_nil_r. unfold file in Hl. rewrite app_length in Hl. lia.
    + apply parse_gold_of_loop. exact E2.
Qed.

(* ---------- non-vacuity ---------- *)

(* the guard is satisfiable, and it is a guard: a body starting with `(`, or with a comment followed
   by a modifier, extends the header *)
Definition g1 : list N := [32;120;32;61;32;49].
Definition g2 : list N := [40;97;41].
Definition g3 : list N := [59;99;10;32;112;114;105;118;97;116;101].
Example C09_guard_satisfiable :
  extends_header (fst (lex g1)) = false /\ extends_header (fst (lex g2)) = true /\
  extends_header (fst (lex g3)) = true /\ extends_header [] = false.
Proof. vm_compute. repeat split. Qed.

(* without the guard the header itself changes: `proc P ;c / private / endproc` is a private P *)
Definition w_modif : list N := [112;114;111;99;32;80;32;59;99;10;32;112;114;105;118;97;116;101;10;101;110;100;112;114;111;99;10].
Example C09_guard_needed :
  match fst (parse_gold (fst (lex w_modif))) with
  | Ok [] (Node KAstRoot _ _ _ _ [Node KAstProcedure _ _ _ attrs _]) => attr K_flags attrs = Some (AN 1)
  | _ => False
  end.
Proof. vm_compute. reflexivity. Qed.

(* the hypotheses of C09_local / C09_missing_end hold of a concrete method: `proc P / ) ) + / endproc` *)
Definition w_span : list N := [112;114;111;99;32;80;10;32;41;32;41;32;43;10;101;110;100;112;114;111;99].
Example C09_span_hypotheses_satisfiable :
  let ts := fst (lex w_span) in
  let hdr := firstn 2 ts in let body := firstn 3 (skipn 2 ts) in
  exists p nm endtok h,
    ts = hdr ++ body ++ [endtok] /\ hdr = [p; nm] /\
    method_header (gram 30) false hdr h [] /\ has_method_body (h_mods h) = true /\
    no_term (terms_of false) body = true /\ extends_header body = false /\
    is_term (terms_of false) endtok = true /\
    unit_ok (gram 30) true (span_unit (gram 30) true hdr h [] body endtok) /\
    iso_diags (gram 30) true body <> [].
Proof.
  cbv zeta.
  set (ts := fst (lex w_span)). vm_compute in ts.
  match eval unfold ts in ts with
  | [?p; ?nm; ?b1; ?b2; ?b3; ?e] =>
      exists p, nm, e, (mkH p (mk_terminal nm) None None (mods_info []))
  end.
  assert (method_header (gram 30) false (firstn 2 ts) (mkH (nth 0 ts (mkTok 0 range_default TEnd [])) (mk_terminal (nth 1 ts (mkTok 0 range_default TEnd []))) None None (mods_info [])) []) as Hh.
  { split; [|discriminate].
    apply (simple_proc_header (gram 30) _ [_] _ [] None []); [reflexivity|apply ns_plain; reflexivity|apply pls_none|reflexivity]. }
  split; [reflexivity|]. split; [reflexivity|]. split; [exact Hh|].
  split; [reflexivity|]. split; [vm_compute; reflexivity|]. split; [vm_compute; reflexivity|].
  split; [vm_compute; reflexivity|]. split.
  - apply (C09_span_is_unit 30 true false); [|lia|vm_compute; reflexivity].
    constructor; [exact Hh|reflexivity|vm_compute; reflexivity|vm_compute; reflexivity|vm_compute; lia].
  - vm_compute. discriminate.
Qed.

(* a concrete file with two methods, the first body garbage: both methods are there, B's subtree is
   what it is in the intact file up to positions, and all three diagnostics are on line 1 (the body of A) *)
Definition w_two : list N := [112;114;111;99;32;65;10;32;41;32;41;32;43;10;101;110;100;112;114;111;99;10;112;114;111;99;32;66;10;32;120;32;61;32;49;10;101;110;100;112;114;111;99;10].
Definition w_two_ok : list N := [112;114;111;99;32;65;10;32;121;32;61;32;50;10;101;110;100;112;114;111;99;10;112;114;111;99;32;66;10;32;120;32;61;32;49;10;101;110;100;112;114;111;99;10].
Example C09_two_methods_first_garbage :
  match parse_gold (fst (lex w_two)), parse_gold (fst (lex w_two_ok)) with
  | (Ok [] (Node KAstRoot _ _ _ _ [Node KAstProcedure _ _ _ _ _; b]), c), (Ok [] (Node KAstRoot _ _ _ _ [_; b']), c') =>
      b = b' /\ cdiags c' = [] /\ length (cdiags c) = 3%nat /\
      forallb (fun d => N.eqb (pline (rstart (drange d))) 1) (cdiags c) = true
  | _, _ => False
  end.
Proof. vm_compute. repeat split. Qed.

(* a truncated file: the function keeps both statements and is reported on the `func` token (3:0) *)
Definition w_trunc : list N := [112;114;111;99;32;65;10;32;120;32;61;32;49;10;101;110;100;112;114;111;99;10;102;117;110;99;32;70;32;114;101;116;117;114;110;32;105;110;116;52;10;32;120;32;61;32;49;10;32;102;111;111;40;121;41;10].
Example C09_missing_end_example :
  match parse_gold (fst (lex w_trunc)) with
  | (Ok [] (Node KAstRoot _ _ _ _ [Node KAstProcedure _ _ _ _ _; Node KAstFunction _ _ _ attrs [_; _; Node KAstMethodBody _ _ _ _ stmts]]), c) =>
      length stmts = 2%nat /\ attr K_end attrs = Some (AL []) /\
      map (fun d => (pline (rstart (drange d)), pcol (rstart (drange d)), dmsg d)) (cdiags c) = [(3, 0, S_func_end_token_not_found)]
  | _ => False
  end.
Proof. vm_compute. repeat split. Qed.

Print Assumptions C09_method_span_proc.
Print Assumptions C09_method_span_func.
Print Assumptions C09_body_in_isolation.
Print Assumptions C09_proc_header_class_partial.
Print Assumptions C09_func_header_class_partial.
Print Assumptions C09_header_with_params.
Print Assumptions C09_span_is_unit.
Print Assumptions C09_toplevel_concat.
Print Assumptions C09_local.
Print Assumptions C09_new_diags_at_body_tokens.
Print Assumptions C09_new_diags_in_method_lines.
Print Assumptions C09_new_diags_end_in_method_lines.
Print Assumptions C09_no_diag_at_origin.
Print Assumptions C09_eof_diag_regression.
Print Assumptions C09_eof_diag_regression_iso.
Print Assumptions C09_eof_diag_regression_seplist.
Print Assumptions C09_eof_diag_old_refuted.
Print Assumptions C09_eof_diag_old_refuted_seplist.
Print Assumptions C09_missing_end.
Print Assumptions C09_guard_satisfiable.
Print Assumptions C09_guard_needed.
Print Assumptions C09_span_hypotheses_satisfiable.
Print Assumptions C09_two_methods_first_garbage.
Print Assumptions C09_missing_end_example.

(* ---------- the other declarations' DIAGNOSTICS in the response (C16_response_local composed with C09_local) ----------
   Replace the body of one method: both files parse, the two trees differ in that one method node only, and the assembled
   diagnostics response (Model/Report.v) of either tree is, up to the order of items, the response of the file WITHOUT the
   method plus `contrib` of the method node -- a function of that node alone.  So the analysers' items about every other
   declaration are the same multiset before and after, whatever the two bodies are. *)
From GoldV Require Import Report ReportProofs.
From Coq Require Import Permutation.

Theorem C09_response_local :
  forall memo fuel us isf hdr h dh body body' endtok post,
    let g := gram fuel in
    Forall (unit_ok g memo) us ->
    method_header g isf hdr h dh -> has_method_body (h_mods h) = true ->
    no_term (terms_of isf) body = true -> extends_header body = false ->
    no_term (terms_of isf) body' = true -> extends_header body' = false ->
    is_term (terms_of isf) endtok = true ->
    let file := units_toks us ++ (hdr ++ body ++ [endtok]) ++ post in
    let file' := units_toks us ++ (hdr ++ body' ++ [endtok]) ++ post in
    (length file < fuel)%nat -> (length file' < fuel)%nat ->
    exists Npost m m',
      fst (parse_gold_with memo fuel file) = Ok [] (mk_root (units_nodes us ++ m :: Npost)) /\
      fst (parse_gold_with memo fuel file') = Ok [] (mk_root (units_nodes us ++ m' :: Npost)) /\
      forall pd pd',
        Permutation (report (mk_root (units_nodes us ++ m :: Npost)) pd)
                    (report (mk_root (units_nodes us ++ Npost)) pd ++ contrib m) /\
        Permutation (report (mk_root (units_nodes us ++ m' :: Npost)) pd')
                    (report (mk_root (units_nodes us ++ Npost)) pd' ++ contrib m').
Proof.
  intros memo fuel us isf hdr h dh body body' endtok post g Hu Hh Hb Hn Hx Hn' Hx' He file file' Hl Hl'.
  destruct (C09_local memo fuel us isf hdr h dh body body' endtok post Hu Hh Hb Hn Hx Hn' Hx' He Hl Hl')
    as (Npost & Dpost & cf & cf' & E1 & E2 & _).
  exists Npost, (span_node h (iso_node g memo body) endtok), (span_node h (iso_node g memo body') endtok).
  fold file in E1. fold file' in E2. rewrite E1, E2. split; [reflexivity|]. split; [reflexivity|].
  intros pd pd'. unfold mk_root. split; apply report_local.
Qed.

Print Assumptions C09_response_local.

(* ---------- the other declarations' OUTLINE entries (C12 composed with C09_local) ----------
   the outline of either file is the entries of the declarations before the method, the method's own entry, the entries of
   the declarations after it -- under the first header of the OTHER declarations; only the method's own entry can differ *)
From GoldV Require Import Outline OutlineProofs.

Lemma span_node_not_header h b e : is_header_node (span_node h b e) = false.
Proof. unfold span_node, method_node. destruct (h_ret h); reflexivity. Qed.

Theorem C09_outline_local :
  forall memo fuel us isf hdr h dh body body' endtok post,
    let g := gram fuel in
    Forall (unit_ok g memo) us ->
    method_header g isf hdr h dh -> has_method_body (h_mods h) = true ->
    no_term (terms_of isf) body = true -> extends_header body = false ->
    no_term (terms_of isf) body' = true -> extends_header body' = false ->
    is_term (terms_of isf) endtok = true ->
    let file := units_toks us ++ (hdr ++ body ++ [endtok]) ++ post in
    let file' := units_toks us ++ (hdr ++ body' ++ [endtok]) ++ post in
    (length file < fuel)%nat -> (length file' < fuel)%nat ->
    exists Npost m m',
      fst (parse_gold_with memo fuel file) = Ok [] (mk_root (units_nodes us ++ m :: Npost)) /\
      fst (parse_gold_with memo fuel file') = Ok [] (mk_root (units_nodes us ++ m' :: Npost)) /\
      outline (mk_root (units_nodes us ++ m :: Npost)) =
        wrap (header (units_nodes us ++ Npost))
             (filter_map entry (units_nodes us) ++ olist (entry m) ++ filter_map entry Npost) /\
      outline (mk_root (units_nodes us ++ m' :: Npost)) =
        wrap (header (units_nodes us ++ Npost))
             (filter_map entry (units_nodes us) ++ olist (entry m') ++ filter_map entry Npost).
Proof.
  intros memo fuel us isf hdr h dh body body' endtok post g Hu Hh Hb Hn Hx Hn' Hx' He file file' Hl Hl'.
  destruct (C09_local memo fuel us isf hdr h dh body body' endtok post Hu Hh Hb Hn Hx Hn' Hx' He Hl Hl')
    as (Npost & Dpost & cf & cf' & E1 & E2 & _).
  exists Npost, (span_node h (iso_node g memo body) endtok), (span_node h (iso_node g memo body') endtok).
  fold file in E1. fold file' in E2. rewrite E1, E2. split; [reflexivity|]. split; [reflexivity|].
  split.
  - exact (proj1 (proj2 (outline_insert (mk_root (units_nodes us ++ Npost)) (units_nodes us) Npost _ eq_refl
                                        (span_node_not_header h _ endtok)))).
  - exact (proj1 (proj2 (outline_insert (mk_root (units_nodes us ++ Npost)) (units_nodes us) Npost _ eq_refl
                                        (span_node_not_header h _ endtok)))).
Qed.

Print Assumptions C09_outline_local.
