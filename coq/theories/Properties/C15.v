(* C15  Unused-variable warnings are exact and per-method.

   "A local variable is reported unused if and only if no statement of its own method mentions it other
    than as the member name to the right of a dot, names being matched without regard to letter case; the
    warning is placed on the variable's declared name.  The warnings for one method are unaffected by the
    contents and order of the other methods and by renaming the variable consistently."

   Model: Model/UnusedVar.v (AstWalker + UnusedVarAnalyzer as repaired by tools/c15_proposed_fix.diff:
   a method is analysed as a whole when the walker reaches its node).  Specification on trees and proofs:
   Proofs/UnusedVarProofs.v.  Concrete trees (dumps of what the real parser builds): Proofs/UnusedVarWitness.v.

   The statement holds of the model for EVERY tree, without guards.  How the property is read on a tree:
     method            a node of kind AstProcedure / AstFunction, wherever it is (all_methods; in a parsed tree
                       the method nodes are exactly the root's children of these kinds: top_flat,
                       C15_methods_top_level)
     its statements    the children of its AstMethodBody child (stmts); the header - the method's name, the
                       parameters, the return type - is not a statement
     local variable    an AstLocalVariableDeclaration anywhere in the statements; a name declared again in
                       any letter case is not a new variable: it gets "Var name already declared" and the
                       variable is the first declaration (locals / redeclared)
     mentions x        an identifier terminal or the name of a call, neither in member position, or the
                       counter of a for block, spelled like x ignoring case (is_mention); member position:
                       every operand of a '.' but the first, the first operand of a '.' that is itself in
                       member position, the base of an indexed member (member_pos); declaratively: MentionsIn
   The analyser before the repair falsified the statement in five ways; they are kept as theorems about
   the old visit function (Model.analyze_old): C15_old_*_refuted, each beside the regression example
   showing the same tree now satisfies the property. *)
From Coq Require Import Permutation.
From GoldV Require Import Base Tokens Lexer AstKinds Tree UnusedVar UnusedVarProofs UnusedVarWitness.

(* ---- exactness: no guard ---- *)

(* all trees, any key function that identifies exactly the case variants of a name: the warnings are the
   specified ones, in the specified order *)
Theorem C15_unused_exact :
  forall keyf file, key_ci keyf -> unused_vars keyf file = unused_spec file.
Proof. exact unused_exact_eq. Qed.

(* the code as it is *)
Theorem C15_unused_exact_today :
  forall file, unused_vars key_today file = unused_spec file.
Proof. intro file. apply unused_exact_eq. exact key_ci_today. Qed.

(* the "if and only if" for one local of one method *)
Theorem C15_reported_iff :
  forall keyf m d, key_ci keyf -> In d (locals m) ->
  (In (warn_of (nident d) (ident_range d)) (method_report keyf m) <->
   ~ exists s, In s (stmts m) /\ MentionsIn (nident d) false s).
Proof. exact reported_iff. Qed.

(* the boolean `mentions` of the specification says: some statement mentions x outside member position *)
Theorem C15_mentions_reading :
  forall m x, mentions m x = true <-> exists s, In s (stmts m) /\ MentionsIn x false s.
Proof. exact mentions_iff. Qed.

(* the other diagnostic: one error per repeated declaration, exactly *)
Theorem C15_duplicates_exact :
  forall keyf file, key_ci keyf -> dup_errors keyf file = dup_spec file.
Proof. exact dups_exact_eq. Qed.

(* one method: the errors for the repeated declarations, then the specified warnings *)
Theorem C15_method_report_exactly :
  forall keyf m, key_ci keyf -> method_report keyf m = map dup_diag (redeclared m) ++ method_spec m.
Proof. exact method_report_spec. Qed.

(* ---- per method: no guard ---- *)

(* the file's report is the concatenation of its method nodes' reports, each a function of that node alone *)
Theorem C15_report_decomposes :
  forall keyf file, analyze keyf file = flat_map (method_report keyf) (all_methods file).
Proof. exact report_decomposes. Qed.

(* whatever else two trees contain: the same method nodes, the same report *)
Theorem C15_report_methods_only :
  forall keyf file file', all_methods file = all_methods file' -> analyze keyf file = analyze keyf file'.
Proof. exact report_methods_only. Qed.

(* permuting the top-level declarations permutes the report *)
Theorem C15_unused_per_method :
  forall keyf file file', Permutation (nchildren file) (nchildren file') ->
  Permutation (analyze keyf file) (analyze keyf file').
Proof. exact report_per_method. Qed.

(* in a tree of the shape the parser builds the methods are the root's method children ... *)
Theorem C15_methods_top_level :
  forall file, top_flat file -> all_methods file = methods file.
Proof. exact all_methods_top. Qed.

Theorem C15_unused_exact_parsed :
  forall file, top_flat file -> unused_vars key_today file = flat_map method_spec (methods file).
Proof. intros file H. rewrite C15_unused_exact_today. unfold unused_spec. rewrite (all_methods_top _ H). reflexivity. Qed.

(* ... and a method's report is what the analyser says about that method alone *)
Theorem C15_method_report_alone :
  forall keyf m, is_method m = true -> Forall (fun n => is_method n = false) (flat_map subnodes (nchildren m)) ->
  analyze keyf (solo m) = method_report keyf m.
Proof. exact analyze_solo_flat. Qed.

(* ---- placement: no guard ---- *)

(* every diagnostic sits on the name token of a local declaration of a method of the file; a warning prints
   that declaration's spelling and is a WARNING, the other class is an ERROR *)
Theorem C15_placement :
  forall keyf file,
  Forall (fun d => exists m n, In m (all_methods file) /\ In n (local_decls m) /\ diag_on d n) (analyze keyf file).
Proof. exact placement. Qed.

Theorem C15_placement_token :
  forall n t, attr_tok K_ident n = Some t -> ident_range n = trange t.
Proof. intros n t H. unfold ident_range. rewrite H. reflexivity. Qed.

(* ---- renaming: no guard ---- *)

(* applying an injective map f to every name - identifiers and token values - (g = what f does to the
   keys) maps the names in the warnings and changes nothing else *)
Theorem C15_unused_rename :
  forall keyf f g file, injective g -> (forall s, keyf (f s) = g (keyf s)) ->
  analyze keyf (map_idents f file) = map (dmap f) (analyze keyf file).
Proof. intros keyf f g file Hg Hfg. exact (rename_equivariant keyf f g Hg Hfg file). Qed.

(* today's code (case-insensitive keys), an instance: every name gets a prefix *)
Theorem C15_unused_rename_today :
  forall c file,
  analyze key_today (map_idents (prefix_name c) file) = map (dmap (prefix_name c)) (analyze key_today file).
Proof. exact rename_prefix_upper. Qed.

(* ---- non-vacuity: a real tree (class header, a field, a procedure with a parameter, three locals used
        after a dot / in an assignment / as the left of a dot in a nested block, a function with a used and
        an unused local): two warnings, three locals not reported ---- *)

Definition show (l : list diag) : list (N * N * N * N * str) :=
  map (fun d => (dsev d, dclass d, pline (rstart (drange d)), pcol (rstart (drange d)), dkey d)) l.

Example C15_nonvacuous :
  top_flat w_ok /\ length (methods w_ok) = 2%nat /\
  length (flat_map locals (methods w_ok)) = 5%nat /\
  show (analyze key_today w_ok) = [(2, 0, 5, 5, [120]); (2, 0, 17, 5, [119])] /\
  show (unused_spec w_ok) = [(2, 0, 5, 5, [120]); (2, 0, 17, 5, [119])].
Proof. split; [apply top_flat_b_sound; vm_compute; reflexivity|]. vm_compute. repeat split; reflexivity. Qed.

(* a method mixing the constructs: `for A = 1 to 3` / `ob.a(B).c[d] = 1` with locals a b c d: a is the
   for counter (and a called member: not a mention), b an argument, d an index; c only an indexed member *)
Example C15_mixed_nonvacuous :
  length (flat_map locals (all_methods w_mixed)) = 4%nat /\
  show (analyze key_today w_mixed) = [(2, 0, 3, 5, [99])] /\ show (unused_spec w_mixed) = [(2, 0, 3, 5, [99])].
Proof. vm_compute. repeat split; reflexivity. Qed.

Example C15_reported_iff_nonvacuous :
  let m := hd w_ok (all_methods w_mixed) in
  let dc := nth 2 (locals m) w_ok in let da := nth 0 (locals m) w_ok in
  In dc (locals m) /\ In (warn_of (nident dc) (ident_range dc)) (method_report key_today m) /\
  In da (locals m) /\ ~ In (warn_of (nident da) (ident_range da)) (method_report key_today m).
Proof.
  cbv zeta. vm_compute. split; [right; right; left; reflexivity|]. split; [left; reflexivity|].
  split; [left; reflexivity|]. intros [H|[]]. discriminate H.
Qed.

(* the same methods around different other declarations; a method alone *)
Example C15_methods_only_nonvacuous :
  let file' := Node KAstRoot [] 0 range0 [] [w_trail_0; w_trail_2; w_trail_1] in
  all_methods w_trail = all_methods file' /\ w_trail <> file' /\
  analyze key_today w_trail = analyze key_today file' /\ length (analyze key_today w_trail) = 1%nat.
Proof.
  cbv zeta. assert (H : all_methods w_trail = all_methods (Node KAstRoot [] 0 range0 [] [w_trail_0; w_trail_2; w_trail_1]))
    by (vm_compute; reflexivity).
  split; [exact H|]. split; [intro E; vm_compute in E; discriminate E|]. split; [apply report_methods_only; exact H|].
  vm_compute. reflexivity.
Qed.

Example C15_method_alone_nonvacuous :
  is_method w_trail_0 = true /\ Forall (fun n => is_method n = false) (flat_map subnodes (nchildren w_trail_0)) /\
  show (analyze key_today (solo w_trail_0)) = [(2, 0, 1, 5, [120])] /\
  method_report key_today w_trail_0 = analyze key_today (solo w_trail_0).
Proof.
  split; [vm_compute; reflexivity|]. split; [|vm_compute; split; reflexivity].
  apply Forall_forall. intros n Hn. vm_compute in Hn.
  repeat (destruct Hn as [<-|Hn]; [vm_compute; reflexivity|]). destruct Hn.
Qed.

(* permuting the top-level declarations *)
Example C15_per_method_nonvacuous :
  let file' := Node KAstRoot [] 0 range0 [] (rev (nchildren w_ok)) in
  methods file' <> methods w_ok /\ analyze key_today file' <> analyze key_today w_ok /\
  Permutation (analyze key_today w_ok) (analyze key_today file').
Proof.
  cbv zeta. split; [vm_compute; discriminate|]. split; [vm_compute; discriminate|].
  apply report_per_method. cbn [nchildren]. apply Permutation_rev.
Qed.

Example C15_rename_nonvacuous :
  show (analyze key_today (map_idents (prefix_name 113) w_ok)) = [(2, 0, 5, 5, [113; 120]); (2, 0, 17, 5, [113; 119])] /\
  show (analyze key_today (map_idents (prefix_name 113) w_forctr)) = [] /\
  mention_names false (map_idents (prefix_name 113) w_forctr) <> mention_names false w_forctr.
Proof. vm_compute. repeat split; try reflexivity. discriminate. Qed.

(* ---- regression: classes repaired earlier, on the trees of their former witnesses ---- *)

(* `var x : int4` ... `X = 1`: the use in another letter case is counted (/repo e5fd419) *)
Example C15_case_regression :
  analyze key_today w_case = [] /\ unused_spec w_case = [].
Proof. vm_compute. split; reflexivity. Qed.

(* `var s : int4` ... `foo('s')`: the content of a string literal is not a use (/repo 993bb42) *)
Example C15_literal_regression :
  show (analyze key_today w_lit) = [(2, 0, 1, 5, [115])] /\ unused_vars key_today w_lit = unused_spec w_lit.
Proof. vm_compute. split; reflexivity. Qed.

(* `var x` twice: the second declaration gets the ERROR, the variable is the first one *)
Example C15_duplicate_regression :
  show (analyze key_today w_dup) = [(1, 1, 2, 5, []); (2, 0, 1, 5, [120])] /\
  show (unused_spec w_dup) = [(2, 0, 1, 5, [120])] /\ show (dup_spec w_dup) = [(1, 1, 2, 5, [])].
Proof. vm_compute. repeat split; reflexivity. Qed.

(* ---- the five deviations repaired by tools/c15_proposed_fix.diff.  For each: the statement was false
        of the analyser as it was (analyze_old: the visit function before the repair, on the dump of the
        real parser's tree), and the same tree now satisfies it ---- *)

Ltac not_perm := let H := fresh in intro H; apply Permutation_length in H; vm_compute in H; discriminate H.

(* R3  proc p (var x) / proc q / `memory f : int4 absolute x`: the field placed right after p silenced p's
       warning (the map was reset at the NEXT method only): the report was not a function of the methods *)
Theorem C15_old_trailing_refuted :
  exists file file',
    Permutation (nchildren file) (nchildren file') /\
    show (analyze_old key_today file) = [(2, 0, 1, 5, [120])] /\ analyze_old key_today file' = [] /\
    show (unused_spec file') = [(2, 0, 1, 5, [120])] /\
    ~ Permutation (analyze_old key_today file) (analyze_old key_today file') /\
    ~ Permutation (unused_vars_old key_today file') (unused_spec file').
Proof.
  exists w_trail, (Node KAstRoot [] 0 range0 [] [w_trail_0; w_trail_2; w_trail_1]).
  split; [cbn [nchildren w_trail]; apply perm_skip; apply perm_swap|].
  repeat split; try (vm_compute; reflexivity); not_perm.
Qed.

Example C15_trailing_regression :
  let file' := Node KAstRoot [] 0 range0 [] [w_trail_0; w_trail_2; w_trail_1] in
  show (analyze key_today w_trail) = [(2, 0, 1, 5, [120])] /\
  show (analyze key_today file') = [(2, 0, 1, 5, [120])] /\ unused_vars key_today file' = unused_spec file'.
Proof. vm_compute. repeat split; reflexivity. Qed.

(* R4  `x = 1` before `var x : int4`: a use that precedes the declaration was not counted *)
Theorem C15_old_use_before_decl_refuted :
  exists file,
    show (unused_vars_old key_today file) = [(2, 0, 2, 5, [120])] /\ unused_spec file = [] /\
    ~ Permutation (unused_vars_old key_today file) (unused_spec file).
Proof. exists w_order. repeat split; try (vm_compute; reflexivity). not_perm. Qed.

Example C15_use_before_decl_regression :
  analyze key_today w_order = [] /\ unused_spec w_order = [] /\ length (flat_map locals (all_methods w_order)) = 1%nat.
Proof. vm_compute. repeat split; reflexivity. Qed.

(* R5  `var x` ... `x(1)`: the name of a call is not a node of the tree: it was reported unused *)
Theorem C15_old_callee_refuted :
  exists file,
    show (unused_vars_old key_today file) = [(2, 0, 1, 5, [120])] /\ unused_spec file = [] /\
    ~ Permutation (unused_vars_old key_today file) (unused_spec file).
Proof. exists w_callee. repeat split; try (vm_compute; reflexivity). not_perm. Qed.

Example C15_callee_regression :
  analyze key_today w_callee = [] /\ unused_spec w_callee = [] /\
  (* ... but a CALLED MEMBER `self.x(1)` is a member name *)
  show (analyze key_today w_member_call) = [(2, 0, 1, 5, [120])] /\ unused_vars key_today w_member_call = unused_spec w_member_call.
Proof. vm_compute. repeat split; reflexivity. Qed.

(* R6  `var x` ... `for x = 1 to 3`: the counter of a for is a token of the for node: it was reported unused *)
Theorem C15_old_for_counter_refuted :
  exists file,
    show (unused_vars_old key_today file) = [(2, 0, 1, 5, [120])] /\ unused_spec file = [] /\
    ~ Permutation (unused_vars_old key_today file) (unused_spec file).
Proof. exists w_forctr. repeat split; try (vm_compute; reflexivity). not_perm. Qed.

Example C15_for_counter_regression :
  analyze key_today w_forctr = [] /\ unused_spec w_forctr = [].
Proof. vm_compute. split; reflexivity. Qed.

(* R7  `var x` ... `self.x[1] = 2`: the member name is the first child of the array access: it counted as a use *)
Theorem C15_old_indexed_member_refuted :
  exists file,
    unused_vars_old key_today file = [] /\ show (unused_spec file) = [(2, 0, 1, 5, [120])] /\
    ~ Permutation (unused_vars_old key_today file) (unused_spec file).
Proof. exists w_indexed. repeat split; try (vm_compute; reflexivity). not_perm. Qed.

Example C15_indexed_member_regression :
  show (analyze key_today w_indexed) = [(2, 0, 1, 5, [120])] /\ unused_vars key_today w_indexed = unused_spec w_indexed.
Proof. vm_compute. split; reflexivity. Qed.

(* the method header is not a statement: a method named like its own local (`proc x` / `var x`), a parameter
   named like a local (`proc p(x : int4)` / `var x`): the local is unused.  (The tree-level specification
   of the old development read the whole method node and called both locals mentioned.) *)
Example C15_header_regression :
  show (analyze key_today w_hdr_name) = [(2, 0, 1, 5, [120])] /\ unused_vars key_today w_hdr_name = unused_spec w_hdr_name /\
  show (analyze key_today w_hdr_param) = [(2, 0, 1, 5, [120])] /\ unused_vars key_today w_hdr_param = unused_spec w_hdr_param.
Proof. vm_compute. repeat split; reflexivity. Qed.

Print Assumptions C15_unused_exact.
Print Assumptions C15_unused_exact_today.
Print Assumptions C15_reported_iff.
Print Assumptions C15_mentions_reading.
Print Assumptions C15_duplicates_exact.
Print Assumptions C15_method_report_exactly.
Print Assumptions C15_report_decomposes.
Print Assumptions C15_report_methods_only.
Print Assumptions C15_unused_per_method.
Print Assumptions C15_methods_top_level.
Print Assumptions C15_unused_exact_parsed.
Print Assumptions C15_method_report_alone.
Print Assumptions C15_placement.
Print Assumptions C15_placement_token.
Print Assumptions C15_unused_rename.
Print Assumptions C15_unused_rename_today.
Print Assumptions C15_nonvacuous.
Print Assumptions C15_mixed_nonvacuous.
Print Assumptions C15_reported_iff_nonvacuous.
Print Assumptions C15_methods_only_nonvacuous.
Print Assumptions C15_method_alone_nonvacuous.
Print Assumptions C15_per_method_nonvacuous.
Print Assumptions C15_rename_nonvacuous.
Print Assumptions C15_case_regression.
Print Assumptions C15_literal_regression.
Print Assumptions C15_duplicate_regression.
Print Assumptions C15_old_trailing_refuted.
Print Assumptions C15_trailing_regression.
Print Assumptions C15_old_use_before_decl_refuted.
Print Assumptions C15_use_before_decl_regression.
Print Assumptions C15_old_callee_refuted.
Print Assumptions C15_callee_regression.
Print Assumptions C15_old_for_counter_refuted.
Print Assumptions C15_for_counter_regression.
Print Assumptions C15_old_indexed_member_refuted.
Print Assumptions C15_indexed_member_regression.
Print Assumptions C15_header_regression.

(* ========================================================================================================== *)
(* The ASSEMBLED response.  The client does not receive analyze_today's list but the items of                  *)
(* ProjectManager::generate_document_diagnostic_report, where UnusedVarAnalyzer's diagnostics stand between the *)
(* parser's and the rule checkers'.  Model/Report.v: report t pd = the items in order (t the tree, pd the        *)
(* document's parser diagnostics); Proofs/ReportProofs.v; witness Proofs/ReportWitness.v (dump of the real       *)
(* parser).  of_uv d = the item the response carries for the analyser's diagnostic d (same range, severity,      *)
(* message; source "gold", tag UNNECESSARY); is_unused_item / is_dup_item = the item's message is                 *)
(* "Unused var: .." / "Var name already declared"; part 1 l = the items of l that come from UnusedVarAnalyzer.    *)
(* ========================================================================================================== *)
From GoldV Require Import Report ReportProofs ReportWitness.

(* exactness on the response: the unused-variable warnings the client receives are the specified ones, each
   once, in the specified order -- every tree, every list of parser diagnostics, whatever else is reported on
   the same names and ranges *)
Theorem C15_response_unused_exact : forall t pd,
  filter is_unused_item (report t pd) = map of_uv (unused_spec t).
Proof. exact report_unused_exact. Qed.

Theorem C15_response_duplicates_exact : forall t pd,
  filter is_dup_item (report t pd) = map of_uv (dup_spec t).
Proof. exact report_dups_exact. Qed.

(* nothing dropped, nothing invented: an analyser's diagnostic is in the response iff the analyser reported it *)
Theorem C15_response_in_iff : forall t pd x,
  In x (analyze_today t) <-> In (of_uv x) (report t pd).
Proof. exact report_unused_in. Qed.

(* ... exactly as often *)
Theorem C15_response_multiplicity : forall t pd x,
  count_occ diag_eq_dec (report t pd) (of_uv x) = count_occ diag_eq_dec (map of_uv (analyze_today t)) (of_uv x).
Proof. intros t pd x. exact (report_multiplicity t pd (of_uv x)). Qed.

(* per method on the response: UnusedVarAnalyzer's part of the response is, in order, the report of each method
   node, a function of that node alone (C15_report_decomposes lifted) *)
Theorem C15_response_per_method : forall t pd,
  part 1 (report t pd) = flat_map (fun m => map of_uv (method_report key_today m)) (all_methods t).
Proof. exact report_unused_per_method. Qed.

(* the whole analyser list is intact inside the response, and it stands after the parser's items *)
Theorem C15_response_analyser_list_intact : forall t pd,
  part 1 (report t pd) = map of_uv (analyze_today t) /\
  firstn (length pd) (report t pd) = map of_pdiag pd.
Proof. intros t pd. split; [exact (report_part 1 t pd) | exact (proj1 (report_parser_first t pd))]. Qed.

(* a top-level declaration (a method) contributes a list that depends on its subtree alone; the items about the
   other declarations are unaffected by it *)
Theorem C15_response_local : forall i r rg a p m q pd,
  Permutation (report (Node KAstRoot i r rg a (p ++ m :: q)) pd)
              (report (Node KAstRoot i r rg a (p ++ q)) pd ++ contrib m).
Proof. exact report_local. Qed.

(* repeating the request *)
Theorem C15_response_idempotent : forall n t pd,
  Forall (fun r => r = report t pd) (requests n (fresh_rdoc t pd)).
Proof. exact report_idempotent. Qed.

(* ---- non-vacuity: the real parser's tree of Proofs/ReportWitness.v (a syntax error at its end; func init with
        locals Vx, y, y, z; proc Work with k, v): the response holds the error for the second `y` and four
        warnings, `Vx` being flagged by two other checkers on the same token ---- *)
Example C15_response_nonvacuous :
  map brief (filter is_unused_item (report w_resp w_resp_pd)) = [(1, 2, 5, 6); (1, 2, 6, 6); (1, 2, 8, 6); (1, 2, 11, 6)]%N /\
  map brief (filter is_dup_item (report w_resp w_resp_pd)) = [(1, 1, 7, 6)]%N /\
  length (all_methods w_resp) = 2%nat /\ length (unused_spec w_resp) = 4%nat /\
  length (report w_resp w_resp_pd) = 15%nat /\
  length (filter (fun d => (pline (rstart (d_range d)) =? 5) && (pcol (rstart (d_range d)) =? 6))%N
                 (report w_resp w_resp_pd)) = 3%nat.
Proof. vm_compute. repeat split; reflexivity. Qed.

Print Assumptions C15_response_unused_exact.
Print Assumptions C15_response_duplicates_exact.
Print Assumptions C15_response_in_iff.
Print Assumptions C15_response_multiplicity.
Print Assumptions C15_response_per_method.
Print Assumptions C15_response_analyser_list_intact.
Print Assumptions C15_response_local.
Print Assumptions C15_response_idempotent.
Print Assumptions C15_response_nonvacuous.
