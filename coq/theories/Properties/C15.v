(* C15  Unused-variable warnings are exact and per-method.

   Model: Model/UnusedVar.v (AstWalker + UnusedVarAnalyzer as they are since /repo e5fd419 and
   993bb42: `key_today` = upper-cased keys, the message prints the declared spelling, string-literal
   terminals are skipped).  Specification on trees, guards and proofs: Proofs/UnusedVarProofs.v.
   Concrete trees (dumps of what the real parser builds): Proofs/UnusedVarWitness.v.

   The statement of C15 is still FALSE of the code in several ways; each way is a `_refuted`
   theorem below with a witness that fails exactly one guard (or, for the three constructs the tree
   does not show, satisfies all of them), and the statement is proved under the conjunction of the
   guards (WFm).  The guards, per method m (WFmeth) and outside methods (WFtop):
     WFtop   no method node / local declaration outside the top-level methods, and no non-literal
             terminal in a declaration FOLLOWING a method that the analyser would charge to a local of it
     G_flat  no method node inside a method
     G_dup   no two local declarations of one method under the same key (= differing in case only)
     G_order a local counted as used before its declaration is visited is also used after it
     G_pos   a later operand of a '.' never has both the text and the start position of the first one
   Repaired (the guards G_case and G_lit that excluded them are gone, the former witnesses are
   regression examples below): a use in another letter case was not counted (e5fd419); the content
   of a string literal counted as a use (993bb42). *)
From Coq Require Import Permutation.
From GoldV Require Import Base Tokens Lexer AstKinds Tree UnusedVar UnusedVarProofs UnusedVarWitness.

(* ---- exactness ---- *)

(* all trees, any key function that identifies exactly the case variants of a name *)
Theorem C15_unused_exact :
  forall keyf file, key_ci keyf -> WFm keyf file ->
  Permutation (unused_vars keyf file) (unused_spec file).
Proof. exact unused_exact. Qed.

(* the code as it is *)
Theorem C15_unused_exact_today :
  forall file, WFm key_today file ->
  Permutation (unused_vars key_today file) (unused_spec file).
Proof. intros file. apply unused_exact. exact key_ci_today. Qed.

(* guard-free: what the analyser reports for a method without nested method nodes, exactly:
   the first declaration of each key iff no counted use follows it *)
Theorem C15_method_warnings_exactly :
  forall keyf m, G_flat m ->
  filter is_unused_diag (method_report keyf m) = fresh_warns keyf [] (sub_events m).
Proof. intros keyf m H. apply unused_of_stretch. exact H. Qed.

(* ---- per method ---- *)

(* a method's report is what the analyser says about that method alone ... *)
Theorem C15_method_report_alone :
  forall keyf m, is_method m = true -> analyze keyf (solo m) = method_report keyf m.
Proof. exact analyze_solo. Qed.

(* ... and under WFtop the file's report is the concatenation of its methods' reports *)
Theorem C15_report_decomposes :
  forall keyf file, WFtop keyf file -> analyze keyf file = flat_map (method_report keyf) (methods file).
Proof. exact report_decomposes. Qed.

(* permuting the top-level declarations permutes the report *)
Theorem C15_unused_per_method :
  forall keyf file file', Permutation (nchildren file) (nchildren file') ->
  WFtop keyf file -> WFtop keyf file' -> Permutation (analyze keyf file) (analyze keyf file').
Proof. exact report_per_method. Qed.

(* ---- placement (guard-free) ---- *)

(* every diagnostic sits on the name token of a local declaration of the file; a warning prints
   that declaration's spelling and is a WARNING, the other class is an ERROR *)
Theorem C15_placement :
  forall keyf file, Forall (diag_from (fun e => In e (events file))) (analyze keyf file).
Proof. exact placement. Qed.

Theorem C15_placement_token :
  forall n t, attr_tok K_ident n = Some t -> ident_range n = trange t.
Proof. intros n t H. unfold ident_range. rewrite H. reflexivity. Qed.

(* ---- renaming (guard-free) ---- *)

(* applying an injective map f to every name (g = what f does to the keys) maps the names in the
   warnings and changes nothing else *)
Theorem C15_unused_rename :
  forall keyf f g file, injective f -> injective g -> (forall s, keyf (f s) = g (keyf s)) ->
  analyze keyf (map_idents f file) = map (dmap f) (analyze keyf file).
Proof. exact rename_equivariant. Qed.

(* today's code (case-insensitive keys), an instance: every name gets a prefix *)
Theorem C15_unused_rename_today :
  forall c file,
  analyze key_today (map_idents (prefix_name c) file) = map (dmap (prefix_name c)) (analyze key_today file).
Proof. exact rename_prefix_upper. Qed.

(* ---- the guards are decidable ---- *)

Theorem C15_guards_checked :
  forall keyf file, guard_flags keyf file = [true; true; true; true; true] -> WFm keyf file.
Proof. exact guard_flags_all. Qed.

(* ---- non-vacuity: a real tree (class header, a field, a procedure with a parameter, three
        locals used after a dot / in an assignment / as the left of a dot in a nested block, a
        function with a used and an unused local) satisfies every guard; two warnings, three
        locals not reported ---- *)

Definition show (l : list diag) : list (N * N * N * N * str) :=
  map (fun d => (dsev d, dclass d, pline (rstart (drange d)), pcol (rstart (drange d)), dkey d)) l.

Example C15_nonvacuous :
  WFm key_today w_ok /\
  length (flat_map local_decls (methods w_ok)) = 5%nat /\
  show (analyze key_today w_ok) = [(2, 0, 5, 5, [120]); (2, 0, 17, 5, [119])] /\
  unused_vars key_today w_ok = unused_spec w_ok.
Proof.
  split; [apply guard_flags_all; vm_compute; reflexivity|]. vm_compute. repeat split; reflexivity.
Qed.

(* permuting the top-level declarations of a tree that stays WFtop *)
Example C15_per_method_nonvacuous :
  let file' := Node KAstRoot [] 0 range0 [] (rev (nchildren w_ok)) in
  WFtop key_today w_ok /\ WFtop key_today file' /\ methods file' <> methods w_ok /\
  Permutation (analyze key_today w_ok) (analyze key_today file').
Proof.
  cbv zeta.
  assert (H1 : WFtop key_today w_ok) by (apply wftop_b_sound; vm_compute; reflexivity).
  assert (H2 : WFtop key_today (Node KAstRoot [] 0 range0 [] (rev (nchildren w_ok))))
    by (apply wftop_b_sound; vm_compute; reflexivity).
  split; [exact H1|]. split; [exact H2|]. split; [vm_compute; discriminate|].
  apply report_per_method; [|exact H1|exact H2]. cbn [nchildren]. apply Permutation_rev.
Qed.

Example C15_rename_nonvacuous :
  show (analyze key_today (map_idents (prefix_name 113) w_ok)) = [(2, 0, 5, 5, [113; 120]); (2, 0, 17, 5, [113; 119])].
Proof. vm_compute. reflexivity. Qed.

(* ---- regression: the two repaired classes, on the trees of their former witnesses ---- *)

(* `var x : int4` ... `X = 1`: the use in another letter case is counted (was R1, /repo e5fd419) *)
Example C15_case_regression :
  WFm key_today w_case /\ analyze key_today w_case = [] /\ unused_spec w_case = [].
Proof. split; [apply guard_flags_all; vm_compute; reflexivity|]. vm_compute. split; reflexivity. Qed.

(* `var s : int4` ... `foo('s')`: the content of a string literal is not a use (was R2, /repo 993bb42) *)
Example C15_literal_regression :
  WFm key_today w_lit /\ show (analyze key_today w_lit) = [(2, 0, 1, 5, [115])] /\
  unused_vars key_today w_lit = unused_spec w_lit.
Proof. split; [apply guard_flags_all; vm_compute; reflexivity|]. vm_compute. split; reflexivity. Qed.

(* ---- refutations: the unguarded statement is false of the code; each witness fails exactly one
        guard (flags: [WFtop; G_flat; G_dup; G_order; G_pos]) ---- *)

Ltac not_perm := let H := fresh in intro H; apply Permutation_length in H; vm_compute in H; discriminate H.

(* R3  proc p (var x) / proc q / `memory f : int4 absolute x`: moving the field right after p
       silences p's warning: the report is NOT a function of the methods alone *)
Theorem C15_per_method_refuted :
  exists file file',
    Permutation (nchildren file) (nchildren file') /\
    guard_flags key_today file = [true; true; true; true; true] /\
    guard_flags key_today file' = [false; true; true; true; true] /\
    show (analyze key_today file) = [(2, 0, 1, 5, [120])] /\ analyze key_today file' = [] /\
    ~ Permutation (analyze key_today file) (analyze key_today file').
Proof.
  exists w_trail, (Node KAstRoot [] 0 range0 [] [w_trail_0; w_trail_2; w_trail_1]).
  split; [cbn [nchildren w_trail]; apply perm_skip; apply perm_swap|].
  repeat split; try (vm_compute; reflexivity). not_perm.
Qed.

Theorem C15_trailing_refuted :
  exists file,
    guard_flags key_today file = [false; true; true; true; true] /\
    unused_vars key_today file = [] /\ show (unused_spec file) = [(2, 0, 1, 5, [120])] /\
    ~ Permutation (unused_vars key_today file) (unused_spec file).
Proof.
  exists (Node KAstRoot [] 0 range0 [] [w_trail_0; w_trail_2; w_trail_1]).
  repeat split; try (vm_compute; reflexivity). not_perm.
Qed.

(* R4a  `x = 1` before `var x : int4`: a use that precedes the declaration is not counted *)
Theorem C15_use_before_decl_refuted :
  exists file,
    guard_flags key_today file = [true; true; true; false; true] /\
    show (unused_vars key_today file) = [(2, 0, 2, 5, [120])] /\ unused_spec file = [] /\
    ~ Permutation (unused_vars key_today file) (unused_spec file).
Proof. exists w_order. repeat split; try (vm_compute; reflexivity). not_perm. Qed.

(* R4b  `var x` twice: the second declaration gets the ERROR and is never reported unused *)
Theorem C15_duplicate_refuted :
  exists file,
    guard_flags key_today file = [true; true; false; true; true] /\
    show (analyze key_today file) = [(1, 1, 2, 5, []); (2, 0, 1, 5, [120])] /\
    length (unused_spec file) = 2%nat /\
    ~ Permutation (unused_vars key_today file) (unused_spec file).
Proof. exists w_dup. repeat split; try (vm_compute; reflexivity). not_perm. Qed.

(* ---- the property read on the source text: three more ways in which it fails, invisible to the
        tree-level specification above because of how the parser builds the tree (every guard holds
        on these witnesses and the analyser agrees with unused_spec, but not with unused_spec_ext) ---- *)

(* R5  `var x` ... `x(1)`: the name of a call is not a node of the tree: reported unused *)
Theorem C15_callee_refuted :
  exists file,
    guard_flags key_today file = [true; true; true; true; true] /\
    show (unused_vars key_today file) = [(2, 0, 1, 5, [120])] /\ unused_spec_ext file = [] /\
    ~ Permutation (unused_vars key_today file) (unused_spec_ext file).
Proof. exists w_callee. repeat split; try (vm_compute; reflexivity). not_perm. Qed.

(* R6  `var x` ... `for x = 1 to 3`: the counter of a for is a token of the for node: reported unused *)
Theorem C15_for_counter_refuted :
  exists file,
    guard_flags key_today file = [true; true; true; true; true] /\
    show (unused_vars key_today file) = [(2, 0, 1, 5, [120])] /\ unused_spec_ext file = [] /\
    ~ Permutation (unused_vars key_today file) (unused_spec_ext file).
Proof. exists w_forctr. repeat split; try (vm_compute; reflexivity). not_perm. Qed.

(* R7  `var x` ... `self.x[1] = 2`: the member name is the first child of the array access: counted as a use *)
Theorem C15_indexed_member_refuted :
  exists file,
    guard_flags key_today file = [true; true; true; true; true] /\
    unused_vars key_today file = [] /\ show (unused_spec_ext file) = [(2, 0, 1, 5, [120])] /\
    ~ Permutation (unused_vars key_today file) (unused_spec_ext file).
Proof. exists w_indexed. repeat split; try (vm_compute; reflexivity). not_perm. Qed.

(* where none of the three constructs occurs the two specifications coincide, e.g. on w_ok *)
Example C15_spec_ext_nonvacuous :
  unused_spec_ext w_ok = unused_spec w_ok /\ length (unused_spec w_ok) = 2%nat.
Proof. vm_compute. split; reflexivity. Qed.

Print Assumptions C15_unused_exact.
Print Assumptions C15_unused_exact_today.
Print Assumptions C15_method_warnings_exactly.
Print Assumptions C15_method_report_alone.
Print Assumptions C15_report_decomposes.
Print Assumptions C15_unused_per_method.
Print Assumptions C15_placement.
Print Assumptions C15_placement_token.
Print Assumptions C15_unused_rename.
Print Assumptions C15_unused_rename_today.
Print Assumptions C15_guards_checked.
Print Assumptions C15_nonvacuous.
Print Assumptions C15_per_method_nonvacuous.
Print Assumptions C15_rename_nonvacuous.
Print Assumptions C15_case_regression.
Print Assumptions C15_literal_regression.
Print Assumptions C15_per_method_refuted.
Print Assumptions C15_trailing_refuted.
Print Assumptions C15_use_before_decl_refuted.
Print Assumptions C15_duplicate_refuted.
Print Assumptions C15_callee_refuted.
Print Assumptions C15_for_counter_refuted.
Print Assumptions C15_indexed_member_refuted.
Print Assumptions C15_spec_ext_nonvacuous.
