(* C19  The workspace index finds every Gold file, once, and re-indexing is harmless.
   Statements only; the proofs are lemmas of Proofs/IndexProofs.v.  Model: Model/Index.v
   (index_files = the explicit stack walk with one unit of fuel per pop). *)
From GoldV Require Import Base Index IndexProofs.
From Coq Require Import String Ascii.

(* ---- the walk is total: fuel = number of directories is enough, for every tree ---- *)
Theorem C19_walk_fuel_enough :
  forall fuel stk st, (dirs_stk stk <= fuel)%nat -> walk fuel stk st <> None.
Proof. exact walk_fuel_enough. Qed.

Theorem C19_index_total :
  forall w st,
    index_files w st <> OutOfFuel /\
    (forall k, index_files w st = Panic k -> k = 2 /\ ~ root_ok w) /\
    (root_ok w -> exists st', index_files w st = Ok st').
Proof.
  intros w st. split; [apply index_files_total|]. split; [intro k; apply index_files_panic | apply root_ok_index].
Qed.

(* ---- Path::extension() == "god"  means  <something>.god, case-sensitively ---- *)
Theorem C19_extension_is_dot_god :
  forall n, is_god_ext n = true <-> exists s, s <> [] /\ n = s ++ dot :: god.
Proof. exact is_god_ext_spec. Qed.

(* ---- complete: every *.god file below the root, at any depth, is registered by a walk ---- *)
Theorem C19_index_complete :
  forall w st st' r n es rel,
    ws_root w = Some r -> node_at (top w) r = Some (Dir n es) ->
    index_files w st = Ok st' ->
    has_file es rel -> is_god_ext (last rel []) = true ->
    In (r ++ rel) (keys (docs st')).
Proof.
  intros w st st' r n es rel H1 H2 H3 H4 H5. eapply index_complete; [exact H3|].
  apply god_under_spec. exists r, n, es, rel. auto.
Qed.

(* ---- sound: a walk registers nothing else ---- *)
Theorem C19_index_sound :
  forall w st st' q,
    index_files w st = Ok st' -> In q (keys (docs st')) ->
    In q (keys (docs st)) \/
    exists r n es rel, ws_root w = Some r /\ node_at (top w) r = Some (Dir n es) /\
                       has_file es rel /\ is_god_ext (last rel []) = true /\ q = r ++ rel.
Proof.
  intros w st st' q H Hq. destruct (index_sound _ _ _ _ H Hq) as [Hk | Hk]; [left; exact Hk | right].
  apply god_under_spec. exact Hk.
Qed.

(* a fresh service: the keys are exactly the *.god files below the root, none twice *)
Theorem C19_index_exact_fresh :
  forall w st',
    index_files w init_svc = Ok st' ->
    (forall q, In q (keys (docs st')) <-> In q (god_under w)) /\ NoDup (keys (docs st')).
Proof. exact index_exact_fresh. Qed.

(* ---- nothing is registered twice, in every state reachable by any history; no two paths
        share a record, and identities stay below the allocation counter ---- *)
Theorem C19_index_nodup :
  forall w ops,
    let st := snd (final_state w ops) in
    NoDup (keys (docs st)) /\
    NoDup (map (fun x => did (snd x)) (docs st)) /\
    (forall p d, In (p, d) (docs st) -> did d < next st).
Proof.
  intros w ops. destruct (history_SInv w ops) as [H1 [H2 H3] _]. split; [exact H1|]. split; [exact H2 | exact H3].
Qed.

(* every key of every reachable state is a *.god file below the root or a document that a
   request of the history named; every class answer is a *.god file below the root whose
   upper-cased stem is the key *)
Theorem C19_history_sound :
  forall w ops,
    let s := final_state w ops in
    (forall q, In q (keys (docs (snd s))) -> In q (god_under (fst s)) \/ In q (touched ops)) /\
    (forall c p, lookup_class (snd s) c = Some p ->
                 In p (god_under (fst s)) /\ ustem p = Some (upper c)).
Proof.
  intros w ops. destruct (history_sound w ops) as [H1 H2]. split; [exact H1|].
  intros c p H. apply H2. exact H.
Qed.

(* ---- look-up by class name in any letter case (unique stems) ---- *)
Theorem C19_class_lookup_ci :
  forall w st st' q s s',
    index_files w st = Ok st' -> stems_unique w -> In q (god_under w) ->
    file_stem (last q []) = Some s -> upper s' = upper s ->
    lookup_class st' s' = Some q.
Proof. exact class_lookup_ci. Qed.

(* ---- look-up by URI: the registered record, no panic, no new registration ---- *)
Theorem C19_uri_lookup :
  forall w st st' q,
    index_files w st = Ok st' -> wf_t (top w) -> In q (god_under w) ->
    exists d, get_document_info w q st' = Ok (st', d) /\ plookup q (docs st') = Some d.
Proof. exact uri_lookup. Qed.

(* ---- re-indexing keeps every record (identity and editor state) ---- *)
Theorem C19_reindex_preserves :
  forall w st st' p d,
    index_files w st = Ok st' -> plookup p (docs st) = Some d -> plookup p (docs st') = Some d.
Proof. exact reindex_preserves. Qed.

(* every operation, a save in particular, leaves the records of the other documents as they
   are, and never replaces the record of any document *)
Theorem C19_step_preserves_others :
  forall s o q d,
    plookup q (docs (snd s)) = Some d ->
    (op_path o <> Some q -> plookup q (docs (snd (fst (step s o)))) = Some d) /\
    (exists d', plookup q (docs (snd (fst (step s o)))) = Some d' /\ did d' = did d).
Proof.
  intros s o q d H. split; [intro Hp; apply step_preserves_others; assumption | apply step_keeps_identity; exact H].
Qed.

(* a record added by a walk is new: a *.god file below the root, fresh identity, nothing open *)
Theorem C19_reindex_new_records :
  forall w st st' p d,
    index_files w st = Ok st' -> plookup p (docs st) = None -> plookup p (docs st') = Some d ->
    In p (god_under w) /\ opened d = None /\ saved d = None /\ next st <= did d < next st'.
Proof. exact reindex_new_records. Qed.

(* ---- re-indexing picks up a newly created file: whatever the service state (the file may
        already have been registered by a request), the next walk registers it, makes it
        reachable by class name in any case (unique stems), and keeps everything else ---- *)
Theorem C19_reindex_picks_up_new :
  forall w r n es rel st st',
    ws_root w = Some r -> node_at (top w) r = Some (Dir n es) -> rel <> [] ->
    creatable (top w) (r ++ rel) -> is_god_ext (last rel []) = true ->
    let w' := after_create w (r ++ rel) in
    index_files w' st = Ok st' ->
    node_at (top w') (r ++ rel) = Some (File (last (r ++ rel) [])) /\
    In (r ++ rel) (keys (docs st')) /\
    (stems_unique w' -> forall s s', file_stem (last (r ++ rel) []) = Some s -> upper s' = upper s ->
                                     lookup_class st' s' = Some (r ++ rel)) /\
    (forall p d, plookup p (docs st) = Some d -> plookup p (docs st') = Some d).
Proof.
  intros w r n es rel st st' H1 H2 H3 H4 H5 w' H6.
  pose proof (created_is_under w r n es rel H1 H2 H3 H4 H5) as Hu. fold w' in Hu.
  split; [apply create_file_creates; exact H4|]. split; [eapply index_complete; eassumption|]. split.
  - intros Hs s s' Hst Hc. eapply class_lookup_ci; eassumption.
  - intros p d Hp. eapply reindex_preserves; eassumption.
Qed.

(* file creation never removes a *.god file from below the root *)
Theorem C19_create_monotone :
  forall w p q, In q (god_under w) -> In q (god_under (after_create w p)).
Proof. exact god_under_create_mono. Qed.

(* ---- a second walk over an unchanged tree changes nothing at all ---- *)
Theorem C19_reindex_idempotent :
  forall w0 ops st1,
    let s := final_state w0 ops in
    index_files (fst s) (snd s) = Ok st1 -> index_files (fst s) st1 = Ok st1.
Proof.
  intros w0 ops st1 s H. eapply reindex_idempotent; [exact H|]. apply si_cls. apply history_SInv.
Qed.

(* a walk does not change the answer for a class whose file is below the root (unique stems) *)
Theorem C19_class_answer_stable :
  forall w st st' c p,
    index_files w st = Ok st' -> stems_unique w ->
    lookup_class st c = Some p -> In p (god_under w) -> ustem p = Some (upper c) ->
    lookup_class st' c = Some p.
Proof. exact class_answer_stable. Qed.

(* ---- files with other extensions are ignored: whatever a walk adds is named <s>.god, and a
        new class answer is such a file ---- *)
Theorem C19_other_extensions_ignored :
  forall w st st',
    index_files w st = Ok st' ->
    (forall q, In q (keys (docs st')) -> ~ In q (keys (docs st)) ->
               exists s, s <> [] /\ last q [] = s ++ dot :: god) /\
    (forall c p, lookup_class st' c = Some p -> lookup_class st c = Some p \/
               exists s, s <> [] /\ last p [] = s ++ dot :: god /\ upper s = upper c).
Proof.
  intros w st st' H. split.
  - intros q Hq Hn. destruct (index_sound _ _ _ _ H Hq) as [Hk | Hk]; [contradiction|].
    apply is_god_ext_spec. apply god_under_ext with (w := w). exact Hk.
  - intros c p Hl. destruct (class_answer_sound _ _ _ _ _ H Hl) as [Ho | [Hg Hk]]; [left; exact Ho | right].
    apply god_under_ext in Hg. apply is_god_ext_spec in Hg as [s [Hs Hn]]. exists s. split; [exact Hs|].
    split; [exact Hn|]. unfold ustem in Hk. rewrite Hn, (file_stem_god s Hs) in Hk. simpl in Hk. congruence.
Qed.

(* ---- all together: a walk (re-index, or the save of any document) made after ANY history
        over a well-formed tree with unique stems: every *.god file below the root is
        registered, reachable by class name in any case and by URI; the records of all other
        documents survive; no path is registered twice ---- *)
Theorem C19_walk_after_any_history :
  forall w0 ops o a s',
    let s := final_state w0 ops in
    walk_op o -> step s o = (s', a) -> a = ANone -> wf_t (top w0) -> stems_unique (fst s) ->
    (forall q, In q (god_under (fst s)) ->
       In q (keys (docs (snd s'))) /\
       (forall st s1, file_stem (last q []) = Some st -> upper s1 = upper st ->
                      lookup_class (snd s') s1 = Some q) /\
       exists d, get_document_info (fst s') q (snd s') = Ok (snd s', d) /\
                 plookup q (docs (snd s')) = Some d) /\
    (forall q d, op_path o <> Some q -> plookup q (docs (snd s)) = Some d ->
                 plookup q (docs (snd s')) = Some d) /\
    NoDup (keys (docs (snd s'))).
Proof. exact walk_after_history. Qed.

(* ================================================================================== *)
(* non-vacuity: a concrete three-level tree with mixed extensions                      *)
(* ================================================================================== *)

Open Scope string_scope.

Fixpoint s2l (s : string) : str :=
  match s with
  | EmptyString => []
  | String c s' => N_of_ascii c :: s2l s'
  end.
Definition P (l : list string) : path := map s2l l.

(*  /a.god  /b.txt  /d/c.god  /d/e/f.god  /d/e/g.GOD  /d/e/.god  /d/e/x.y.god  /d/h/  /p.god/k.god *)
Definition ex_top : fs :=
  Dir [] [File (s2l "a.god"); File (s2l "b.txt");
          Dir (s2l "d") [File (s2l "c.god");
                         Dir (s2l "e") [File (s2l "f.god"); File (s2l "g.GOD"); File (s2l ".god");
                                        File (s2l "x.y.god")];
                         Dir (s2l "h") []];
          Dir (s2l "p.god") [File (s2l "k.god")]].
Definition ex_w : world := mkWorld ex_top (Some []).

Example C19_ex_extensions :
  map is_god_ext [s2l "a.god"; s2l "g.GOD"; s2l ".god"; s2l "x.y.god"; s2l "b.txt"; s2l "god"; s2l "a.god.bak"; s2l "..god"; s2l ".."]
  = [true; false; false; true; false; false; false; true; false] /\
  map file_stem [s2l "a.god"; s2l ".god"; s2l "x.y.god"; s2l "..god"]
  = [Some (s2l "a"); Some (s2l ".god"); Some (s2l "x.y"); Some (s2l ".")].
Proof. vm_compute. split; reflexivity. Qed.

Example C19_ex_god_under :
  god_under ex_w = [P ["a.god"]; P ["d"; "c.god"]; P ["d"; "e"; "f.god"]; P ["d"; "e"; "x.y.god"]; P ["p.god"; "k.god"]].
Proof. vm_compute. reflexivity. Qed.

Ltac nodup_tac :=
  cbn [map fname];
  repeat (apply NoDup_cons; [vm_compute; intuition discriminate|]); apply NoDup_nil.
Ltac wf_tac :=
  match goal with
  | |- wf_t (File _) => exact I
  | |- wf_t (Dir _ _) => apply wf_t_Dir; split; [nodup_tac | wf_all]
  end
with wf_all :=
  match goal with
  | |- Forall _ [] => apply Forall_nil
  | |- Forall _ (_ :: _) => apply Forall_cons; [wf_tac | wf_all]
  end.

Lemma ex_wf : wf_t ex_top.
Proof. unfold ex_top. wf_tac. Qed.

Lemma ex_unique : stems_unique ex_w.
Proof.
  intros q q' Hq Hq' E. rewrite C19_ex_god_under in Hq, Hq'.
  simpl in Hq, Hq'.
  repeat (destruct Hq as [<- | Hq]); try contradiction;
    repeat (destruct Hq' as [<- | Hq']); try contradiction;
      try reflexivity; vm_compute in E; discriminate.
Qed.

(* a history on that tree: index, open two documents, create a file and touch it before it is
   indexed, save another document; everything is found, nothing open is lost *)
Definition ex_ops : list op :=
  [Reindex; Change (P ["a.god"]) 3; Parse (P ["d"; "c.god"]); Change (P ["b.txt"]) 5;
   CreateFile (P ["d"; "n"; "New.god"]); Change (P ["d"; "n"; "New.god"]) 1;
   Save (P ["d"; "c.god"])].

Example C19_ex_history :
  let s := final_state ex_w ex_ops in
  map fst (docs (snd s)) =
    (* walk order: the files of a directory first, then its sub-directories, last listed first *)
    [P ["a.god"]; P ["p.god"; "k.god"]; P ["d"; "c.god"]; P ["d"; "e"; "f.god"]; P ["d"; "e"; "x.y.god"];
     P ["b.txt"]; P ["d"; "n"; "New.god"]] /\
  plookup (P ["a.god"]) (docs (snd s)) = Some (mkDoc 0 (Some 3) None) /\
  plookup (P ["b.txt"]) (docs (snd s)) = Some (mkDoc 5 (Some 5) None) /\
  plookup (P ["d"; "c.god"]) (docs (snd s)) = Some (mkDoc 2 None None) /\
  lookup_class (snd s) (s2l "NEW") = Some (P ["d"; "n"; "New.god"]) /\
  lookup_class (snd s) (s2l "x.Y") = Some (P ["d"; "e"; "x.y.god"]) /\
  lookup_class (snd s) (s2l "G") = None /\
  lookup_class (snd s) (s2l "b") = None.
Proof. vm_compute. repeat split; reflexivity. Qed.

(* the hypotheses of C19_walk_after_any_history hold for this history followed by a save *)
Example C19_ex_walk_hypotheses :
  let s := final_state ex_w ex_ops in
  wf_t (top ex_w) /\ root_ok ex_w /\ stems_unique ex_w /\
  walk_op (Save (P ["a.god"])) /\ snd (step s (Save (P ["a.god"]))) = ANone /\
  List.length (god_under (fst s)) = 6%nat.
Proof.
  split; [exact ex_wf|]. split; [intros r n H; inversion H; subst; vm_compute; discriminate|].
  split; [exact ex_unique|]. split; [right; eexists; reflexivity|]. vm_compute. split; reflexivity.
Qed.

(* the hypotheses of C19_reindex_picks_up_new: a file created three levels below new directories *)
Example C19_ex_creatable :
  creatable (top ex_w) ([] ++ P ["d"; "n"; "m"; "Deep.god"])%list /\
  node_at (top ex_w) [] = Some ex_top /\
  is_god_ext (last (P ["d"; "n"; "m"; "Deep.god"]) []) = true /\
  match index_files (after_create ex_w (P ["d"; "n"; "m"; "Deep.god"])) init_svc with
  | Ok st' => lookup_class st' (s2l "dEEP") = Some (P ["d"; "n"; "m"; "Deep.god"]) /\ List.length (docs st') = 6%nat
  | _ => False
  end.
Proof. vm_compute. repeat split; reflexivity. Qed.

(* idempotence and exactness on the example *)
Example C19_ex_idempotent :
  match index_files ex_w init_svc with
  | Ok st1 => index_files ex_w st1 = Ok st1 /\ List.length (docs st1) = 5%nat /\
              (forall q, In q (keys (docs st1)) <-> In q (god_under ex_w))
  | _ => False
  end.
Proof.
  destruct (index_files ex_w init_svc) as [st1| |] eqn:E; try (vm_compute in E; discriminate).
  split; [|split].
  - vm_compute in E. inversion E; subst. vm_compute. reflexivity.
  - vm_compute in E. inversion E; subst. reflexivity.
  - apply (index_exact_fresh ex_w st1 E).
Qed.

(* ================================================================================== *)
(* guards that are necessary                                                           *)
(* ================================================================================== *)

(* without unique stems one of two files with the same stem is not reachable by class name *)
Theorem C19_class_lookup_without_unique_stems_refuted :
  exists w st' q s,
    index_files w init_svc = Ok st' /\ In q (god_under w) /\
    file_stem (last q []) = Some s /\ lookup_class st' s <> Some q.
Proof.
  exists (mkWorld (Dir [] [Dir (s2l "a") [File (s2l "x.god")]; Dir (s2l "b") [File (s2l "X.god")]]) (Some [])).
  eexists. exists (P ["b"; "X.god"]), (s2l "X").
  split; [vm_compute; reflexivity|]. split; [vm_compute; auto|]. split; [vm_compute; reflexivity|].
  vm_compute. discriminate.
Qed.

(* a request for a path that does not exist fails in get_key_for_path: outcome 1, an error
   returned to the client since /repo commit 0f41eb8 (it was an unwrap panic before: finding D2,
   property C01); C19 is stated for requests about existing paths *)
Theorem C19_uri_lookup_missing_file_is_error :
  exists w p st, get_document_info w p st = Panic 1.
Proof. exists ex_w, (P ["nope.god"]), init_svc. vm_compute. reflexivity. Qed.

(* a workspace root that is a regular file: read_dir(..).unwrap() panics *)
Theorem C19_root_is_file_refuted :
  exists w st, index_files w st = Panic 2.
Proof. exists (mkWorld ex_top (Some (P ["a.god"]))), init_svc. vm_compute. reflexivity. Qed.

Print Assumptions C19_walk_fuel_enough.
Print Assumptions C19_index_total.
Print Assumptions C19_extension_is_dot_god.
Print Assumptions C19_index_complete.
Print Assumptions C19_index_sound.
Print Assumptions C19_index_exact_fresh.
Print Assumptions C19_index_nodup.
Print Assumptions C19_history_sound.
Print Assumptions C19_class_lookup_ci.
Print Assumptions C19_uri_lookup.
Print Assumptions C19_reindex_preserves.
Print Assumptions C19_step_preserves_others.
Print Assumptions C19_reindex_new_records.
Print Assumptions C19_reindex_picks_up_new.
Print Assumptions C19_create_monotone.
Print Assumptions C19_reindex_idempotent.
Print Assumptions C19_class_answer_stable.
Print Assumptions C19_other_extensions_ignored.
Print Assumptions C19_walk_after_any_history.
Print Assumptions C19_ex_extensions.
Print Assumptions C19_ex_god_under.
Print Assumptions C19_ex_history.
Print Assumptions C19_ex_walk_hypotheses.
Print Assumptions C19_ex_creatable.
Print Assumptions C19_ex_idempotent.
Print Assumptions C19_class_lookup_without_unique_stems_refuted.
Print Assumptions C19_uri_lookup_missing_file_is_error.
Print Assumptions C19_root_is_file_refuted.
