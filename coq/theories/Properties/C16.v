(* C16  Rule-based warnings match their stated rules.
   Statements only; proofs are in Proofs/LintsProofs.v; the witness trees of Proofs/LintsWitness.v
   are dumps of the real parser.
   lints      = the report of the checker models (Model/Lints.v) of the code as it is: purge map keyed by the
                upper-cased name (/repo ef936ba), a string literal is not `pass` (/repo 44578d5)
   lints_spec = one diagnostic per declaration satisfying its rule (R_ret, R_inh, R_purge, R_name)
   WF16       = the guard, seven named clauses (guard_profile lists them plus the key clause, which holds
                outright for the upper-cased key); each clause that restricts the PROPERTY (not just the shape
                of trees) is refuted below on a tree of the real parser. *)
From GoldV Require Import Base Tokens Lexer AstKinds Tree Lints LintsProofs LintsWitness.
From Coq Require Import Permutation.

(* ---- the rules as predicates on one declaration and its own method subtree ---- *)

Theorem C16_rule_ret : forall f d, In d (ret_verdict f) <-> R_ret f d.
Proof. exact ret_verdict_spec. Qed.

Theorem C16_rule_inh : forall m d, In d (spec_inh m) <-> R_inh m /\ d = inh_diag m.
Proof. exact spec_inh_in. Qed.

Theorem C16_rule_purge : forall m d,
  In d (spec_purge m) <-> exists v, R_purge m v /\ d = purge_diag v.
Proof. exact spec_purge_in. Qed.

Theorem C16_rule_name : forall anc d x,
  In x (name_verdict anc d) <-> exists cls, R_name anc d cls /\ x = mkDiag cls WARNING (name_rng d cls) [].
Proof. exact name_verdict_in. Qed.

(* at most one diagnostic per declaration and rule *)
Theorem C16_rule_once : forall f m,
  (length (ret_verdict f) <= 1)%nat /\ (length (spec_inh m) <= 1)%nat.
Proof. intros f m. split; [apply ret_verdict_once | apply spec_inh_once]. Qed.

(* ---- each once, and nothing else: the report is the multiset the rules generate ---- *)

Theorem C16_lints_exact : forall file,
  WF16 file -> Permutation (lints file) (lints_spec file).
Proof. exact lints_exact_upper. Qed.

(* the guard of a checker with purge-map key function keyf is the conjunction of eight named clauses;
   for today's key (upper-casing) the key clause holds outright and WF16 is the other seven *)
Theorem C16_guard_clauses : forall keyf file,
  WF16k keyf file <-> forallb (fun b => b) (guard_profile keyf file) = true.
Proof. intros keyf file. unfold WF16k. rewrite wf16b_profile. tauto. Qed.

Theorem C16_guard_today : forall file, WF16 file -> WF16k upper file.
Proof. exact WF16_upper. Qed.

(* the code before ef936ba (exact-spelling key): the same theorem needs the extra clause CaseConsistentPurge *)
Theorem C16_old_guard_case : forall file,
  WF16k key_exact file <-> WF16 file /\ CaseConsistentPurge file = true.
Proof. exact WF16_exact_split. Qed.

Theorem C16_old_lints_exact : forall file,
  WF16k key_exact file -> Permutation (lints_k key_exact file) (lints_spec file).
Proof. intros file H. apply (lints_exact key_exact exact_ci file H). Qed.

(* ---- the verdict on a declaration depends only on that declaration and its own method ---- *)

Theorem C16_lints_local : forall i r rg a p m q,
  WF16k upper (Node KAstRoot i r rg a (p ++ m :: q)) ->
  Permutation (lints (Node KAstRoot i r rg a (p ++ m :: q)))
              (lints (Node KAstRoot i r rg a (p ++ q)) ++ decl_verdicts m).
Proof. intros. apply (lints_local upper upper_ci). assumption. Qed.

Theorem C16_lints_agree : forall i1 r1 rg1 a1 p1 q1 i2 r2 rg2 a2 p2 q2 m,
  WF16k upper (Node KAstRoot i1 r1 rg1 a1 (p1 ++ m :: q1)) ->
  WF16k upper (Node KAstRoot i2 r2 rg2 a2 (p2 ++ m :: q2)) ->
  exists rest1 rest2,
    Permutation (lints (Node KAstRoot i1 r1 rg1 a1 (p1 ++ m :: q1))) (rest1 ++ decl_verdicts m) /\
    Permutation (lints (Node KAstRoot i2 r2 rg2 a2 (p2 ++ m :: q2))) (rest2 ++ decl_verdicts m) /\
    rest1 = lints (Node KAstRoot i1 r1 rg1 a1 (p1 ++ q1)) /\
    rest2 = lints (Node KAstRoot i2 r2 rg2 a2 (p2 ++ q2)).
Proof. intros. apply (lints_agree upper upper_ci); assumption. Qed.

Theorem C16_lints_permute : forall i r rg a ch ch',
  Permutation ch ch' -> WF16k upper (Node KAstRoot i r rg a ch) ->
  WF16k upper (Node KAstRoot i r rg a ch') /\
  Permutation (lints (Node KAstRoot i r rg a ch)) (lints (Node KAstRoot i r rg a ch')).
Proof. intros. apply (lints_permute upper upper_ci); assumption. Qed.

(* ---- repeating the request repeats the same list: the report is a function of the tree ---- *)

Theorem C16_lints_idempotent : forall n ast, Forall (fun r => r = lints ast) (requests n (fresh_doc ast)).
Proof. exact lints_idempotent. Qed.

(* ---- non-vacuity: a file of the real parser in which every rule class fires and every
        near-miss is present satisfies the guard; its report has the nine real diagnostics ---- *)

Example C16_nonvacuous_exact :
  WF16 w_ok /\ WF16k upper w_ok /\
  map dcls (lints w_ok) = [RET; PURGE; NCONST; NTYPE; NFIELD; NFUNC; NPARAM; NLOCAL; INH] /\
  lints w_ok = lints_spec w_ok /\ length (methods w_ok) = 6%nat.
Proof. vm_compute. repeat split; reflexivity. Qed.

Example C16_nonvacuous_local :
  exists i r rg a p m q,
    w_ok = Node KAstRoot i r rg a (p ++ m :: q) /\ WF16k upper (Node KAstRoot i r rg a (p ++ m :: q)) /\
    is_method m = true /\ map dcls (decl_verdicts m) = [PURGE; NLOCAL] /\
    length (lints (Node KAstRoot i r rg a (p ++ q))) = 7%nat.
Proof.
  unfold w_ok.
  match goal with |- context [Node KAstRoot ?i ?r ?rg ?a ?ch] =>
    exists i, r, rg, a, (firstn 13 ch), (nth 13 ch root_stub), (skipn 14 ch) end.
  vm_compute. repeat split; reflexivity.
Qed.

Example C16_nonvacuous_idempotent :
  requests 3 (fresh_doc w_ok) = [lints w_ok; lints w_ok; lints w_ok] /\ lints w_ok <> [].
Proof. split; [vm_compute; reflexivity | vm_compute; discriminate]. Qed.

(* ---- the two repaired defects, on their witnesses (trees of the real parser) ---- *)

Ltac not_perm := let HP := fresh "HP" in intro HP; apply Permutation_length in HP; vm_compute in HP; discriminate HP.

(* `var v : tVarByteArray ... Purge(V)`: the report is now the rule's (nothing); the old exact-spelling key
   reported "not purged" although every clause but CaseConsistentPurge holds *)
Example C16_fixed_R1_case :
  WF16 w_case /\ lints w_case = lints_spec w_case /\ lints w_case = [].
Proof. vm_compute. repeat split; reflexivity. Qed.

Theorem C16_old_R1_case_refuted :
  exists file, WF16 file /\ CaseConsistentPurge file = false /\
               ~ Permutation (lints_k key_exact file) (lints_spec file).
Proof. exists w_case. split; [vm_compute; reflexivity|]. split; [vm_compute; reflexivity | not_perm]. Qed.

(* `proc Init  foo('pass')  endproc`: now flagged, as the rule says *)
Example C16_fixed_R2_pass_literal :
  WF16 w_passlit /\ lints w_passlit = lints_spec w_passlit /\ map dcls (lints w_passlit) = [INH].
Proof. vm_compute. repeat split; reflexivity. Qed.

(* ---- refutations of the unguarded statement (open findings), each on a tree of the real parser;
        guard_profile upper = [RootNotFunction; QuietOutsideMethods; NoNestedMethods; InheritedSelfOnly;
                               NoDupLocals; PurgeAfterDecl; PurgeKeyConsistent; PurgeArgsPlain] ---- *)

(* R3 (D15): `inherited other.Init` counts as `inherited self.Init`: only the right operand's name is looked at *)
Theorem C16_R3_inherited_other_refuted :
  exists file, guard_profile upper file = [true; true; true; false; true; true; true; true] /\
               lints file = [] /\ length (lints_spec file) = 1%nat.
Proof. exists w_inhother. vm_compute. repeat split; reflexivity. Qed.

(* R4a (D16): a local declared twice in one method is flagged once (the map entry is replaced) *)
Theorem C16_R4_duplicate_local_refuted :
  exists file, guard_profile upper file = [true; true; true; true; false; true; true; true] /\
               length (lints file) = 1%nat /\ length (lints_spec file) = 2%nat.
Proof. exists w_dup. vm_compute. repeat split; reflexivity. Qed.

(* R4b (D17): `Purge(v)` BEFORE `var v : tVarByteArray` in the same method does not count *)
Theorem C16_R4_purge_before_decl_refuted :
  exists file, guard_profile upper file = [true; true; true; true; true; false; true; true] /\
               length (lints file) = 1%nat /\ lints_spec file = [].
Proof. exists w_early. vm_compute. repeat split; reflexivity. Qed.

(* R4c (D18): `Purge('v')`: a string literal (any node whose identifier is v) purges the variable v *)
Theorem C16_R4_purge_literal_arg_refuted :
  exists file, guard_profile upper file = [true; true; true; true; true; true; true; false] /\
               lints file = [] /\ length (lints_spec file) = 1%nat.
Proof. exists w_arglit. vm_compute. repeat split; reflexivity. Qed.

(* R5 (D19): state leaks across declarations: `proc Init endproc` followed by the FIELD declaration
   `Fld : int4 absolute pass` is not flagged; the flag is reset only at the next method node *)
Theorem C16_R5_leak_refuted :
  exists file, guard_profile upper file = [true; false; true; true; true; true; true; true] /\
               lints file = [] /\ length (lints_spec file) = 1%nat.
Proof. exists w_leak. vm_compute. repeat split; reflexivity. Qed.

(* ... hence locality and permutation invariance fail without the clause QuietOutsideMethods:
   swapping the field and the method (same nodes) changes the report *)
Theorem C16_local_refuted :
  exists i r rg a ch ch',
    Permutation ch ch' /\
    ~ Permutation (lints (Node KAstRoot i r rg a ch)) (lints (Node KAstRoot i r rg a ch')).
Proof.
  pose (f := w_leak). unfold w_leak in f.
  match eval unfold f in f with Node KAstRoot ?i ?r ?rg ?a [?c; ?p; ?g] =>
    exists i, r, rg, a, [c; p; g], [c; g; p] end.
  split; [apply perm_skip; apply perm_swap | not_perm].
Qed.

Print Assumptions C16_rule_ret.
Print Assumptions C16_rule_inh.
Print Assumptions C16_rule_purge.
Print Assumptions C16_rule_name.
Print Assumptions C16_rule_once.
Print Assumptions C16_lints_exact.
Print Assumptions C16_guard_clauses.
Print Assumptions C16_guard_today.
Print Assumptions C16_old_guard_case.
Print Assumptions C16_old_lints_exact.
Print Assumptions C16_lints_local.
Print Assumptions C16_lints_agree.
Print Assumptions C16_lints_permute.
Print Assumptions C16_lints_idempotent.
Print Assumptions C16_nonvacuous_exact.
Print Assumptions C16_nonvacuous_local.
Print Assumptions C16_nonvacuous_idempotent.
Print Assumptions C16_fixed_R1_case.
Print Assumptions C16_old_R1_case_refuted.
Print Assumptions C16_fixed_R2_pass_literal.
Print Assumptions C16_R3_inherited_other_refuted.
Print Assumptions C16_R4_duplicate_local_refuted.
Print Assumptions C16_R4_purge_before_decl_refuted.
Print Assumptions C16_R4_purge_literal_arg_refuted.
Print Assumptions C16_R5_leak_refuted.
Print Assumptions C16_local_refuted.
