(* C16  Rule-based warnings match their stated rules.
   Statements only; proofs are in Proofs/LintsProofs.v; the witness trees of Proofs/LintsWitness.v
   are dumps of the real parser.
   lints      = the report of the checker models (Model/Lints.v) of the code as it is: the purge and the inherited
                checker decide a method on the method node's own subtree (repair of D15-D19), names compared
                ignoring case (/repo ef936ba), a string literal is not `pass` (/repo 44578d5)
   lints_spec = one diagnostic per declaration satisfying its rule (R_ret, R_inh, R_purge, R_name)
   lints_old  = the report with the two checkers as they were before the repair (streaming state)
   The only hypothesis left is structural: the root of the tree is not itself a function (RootNotFunction;
   the parser's root is an AstRoot).  NoNestedMethods (the parser never nests methods) is needed only to read
   "its method" as THE method of a declaration (C16_one_method_per_declaration). *)
From GoldV Require Import Base Tokens Lexer AstKinds Tree Lints LintsProofs LintsWitness.
From Coq Require Import Permutation.

(* ---- the rules as predicates on one declaration and its own method subtree ---- *)

Theorem C16_rule_ret : forall f d, In d (ret_verdict f) <-> R_ret f d.
Proof. exact ret_verdict_spec. Qed.

(* R3: a method is flagged iff it is named Init / Terminate / NotifyInit / NotifyTerminate (any letter case)
   and NO node below it is a `pass` token or the call `inherited self.<its name>` *)
Theorem C16_rule_inh : forall m d, In d (spec_inh m) <-> R_inh m /\ d = inh_diag m.
Proof. exact spec_inh_in. Qed.

(* ... where the call is exactly: `inherited` applied to `<l>.<r>`, l the identifier self, r an identifier or a
   call named like the method -- receiver, operator and name are all checked, case ignored *)
Theorem C16_rule_inh_call : forall u x, inh_self_call u x = true <-> InhSelfCall u x.
Proof. exact inh_self_call_iff. Qed.

(* R4: a local tVarByteArray DECLARATION of the method is flagged iff no call named Purge below the method node
   (before or after the declaration) has as first argument a plain identifier equal to the variable's name ignoring
   case; one diagnostic per declaration *)
Theorem C16_rule_purge : forall m d,
  In d (spec_purge m) <-> exists v, R_purge m v /\ d = purge_diag v.
Proof. exact spec_purge_in. Qed.

Theorem C16_rule_name : forall anc d x,
  In x (name_verdict anc d) <-> exists cls, R_name anc d cls /\ x = mkDiag cls WARNING (name_rng d cls) [].
Proof. exact name_verdict_in. Qed.

(* at most one diagnostic per declaration and rule; the purge rule: exactly one per unpurged declaration *)
Theorem C16_rule_once : forall f m,
  (length (ret_verdict f) <= 1)%nat /\ (length (spec_inh m) <= 1)%nat /\
  length (spec_purge m) = length (filter (fun v => negb (purged_in (body m) v)) (locals (body m))).
Proof. intros f m. split; [apply ret_verdict_once | split; [apply spec_inh_once | apply spec_purge_count]]. Qed.

(* ---- the two stateful checkers, unguarded: exact on ANY tree ---- *)

Theorem C16_inherited_exact : forall file, inherited_lint file = flat_map spec_inh (methods file).
Proof. exact inherited_lint_spec. Qed.

Theorem C16_purge_exact : forall file, unpurged_lint file = flat_map spec_purge (methods file).
Proof. exact unpurged_lint_spec. Qed.

(* ---- each once, and nothing else: the report is the list the rules generate ---- *)

Theorem C16_lints_exact : forall file,
  RootNotFunction file = true -> lints file = lints_spec file.
Proof. exact lints_exact_eq. Qed.

Theorem C16_lints_exact_perm : forall file,
  RootNotFunction file = true -> Permutation (lints file) (lints_spec file).
Proof. exact lints_exact. Qed.

(* when methods are not nested the pre-order listing is cut into method subtrees and nodes outside every method:
   a declaration lies in at most one method *)
Theorem C16_one_method_per_declaration : forall file,
  NoNestedMethods file = true ->
  nodes file = flat_map expand (items file) /\ methods file = meths (items file).
Proof. exact methods_partition. Qed.

(* ---- the verdict on a declaration depends only on that declaration and its own method ---- *)

Theorem C16_lints_by_declaration : forall i r rg a ch,
  Permutation (lints (Node KAstRoot i r rg a ch)) (flat_map decl_verdicts ch).
Proof. exact lints_by_declaration. Qed.

Theorem C16_lints_local : forall i r rg a p m q,
  Permutation (lints (Node KAstRoot i r rg a (p ++ m :: q)))
              (lints (Node KAstRoot i r rg a (p ++ q)) ++ decl_verdicts m).
Proof. exact lints_local. Qed.

Theorem C16_lints_agree : forall i1 r1 rg1 a1 p1 q1 i2 r2 rg2 a2 p2 q2 m,
  exists rest1 rest2,
    Permutation (lints (Node KAstRoot i1 r1 rg1 a1 (p1 ++ m :: q1))) (rest1 ++ decl_verdicts m) /\
    Permutation (lints (Node KAstRoot i2 r2 rg2 a2 (p2 ++ m :: q2))) (rest2 ++ decl_verdicts m) /\
    rest1 = lints (Node KAstRoot i1 r1 rg1 a1 (p1 ++ q1)) /\
    rest2 = lints (Node KAstRoot i2 r2 rg2 a2 (p2 ++ q2)).
Proof. exact lints_agree. Qed.

Theorem C16_lints_permute : forall i r rg a ch ch',
  Permutation ch ch' ->
  Permutation (lints (Node KAstRoot i r rg a ch)) (lints (Node KAstRoot i r rg a ch')).
Proof. exact lints_permute. Qed.

(* ---- repeating the request repeats the same list: the report is a function of the tree ---- *)

Theorem C16_lints_idempotent : forall n ast, Forall (fun r => r = lints ast) (requests n (fresh_doc ast)).
Proof. exact lints_idempotent. Qed.

(* ---- non-vacuity: a file of the real parser in which every rule class fires and every
        near-miss is present; its report has the nine real diagnostics ---- *)

Example C16_nonvacuous_exact :
  RootNotFunction w_ok = true /\ NoNestedMethods w_ok = true /\
  map dcls (lints w_ok) = [RET; PURGE; NCONST; NTYPE; NFIELD; NFUNC; NPARAM; NLOCAL; INH] /\
  lints w_ok = lints_spec w_ok /\ length (methods w_ok) = 6%nat.
Proof. vm_compute. repeat split; reflexivity. Qed.

Example C16_nonvacuous_local :
  exists i r rg a p m q,
    w_ok = Node KAstRoot i r rg a (p ++ m :: q) /\
    is_method m = true /\ map dcls (decl_verdicts m) = [PURGE; NLOCAL] /\
    length (lints (Node KAstRoot i r rg a (p ++ q))) = 7%nat.
Proof.
  unfold w_ok.
  match goal with |- context [Node KAstRoot ?i ?r ?rg ?a ?ch] =>
    exists i, r, rg, a, (firstn 13 ch), (nth 13 ch root_stub), (skipn 14 ch) end.
  vm_compute. repeat split; reflexivity.
Qed.

Example C16_nonvacuous_idempotent :
  requests 3 (fresh_doc w_ok) = [lints w_ok; lints w_ok; lints w_ok] /\ lints w_ok <> [].
Proof. split; [vm_compute; reflexivity | vm_compute; discriminate]. Qed.

(* every accepted and every rejected form in one file of the real parser: inherited SELF.init(1) inside an if,
   x = inherited Self.TERMINATE, Purge(V) BEFORE var v, OcsByteArray.purge(U, 2) for two declarations of u  --
   accepted;  inherited self.NotifyInit.foo, inherited self.x.NotifyTerminate, Purge(1, w) -- rejected, and w,
   declared twice, is flagged twice *)
Example C16_nonvacuous_forms :
  RootNotFunction w_forms = true /\ lints w_forms = lints_spec w_forms /\
  map dcls (lints w_forms) = [PURGE; PURGE; INH; INH] /\
  map dkey (inherited_lint w_forms) = [[78;111;116;105;102;121;73;110;105;116];
                                       [78;111;116;105;102;121;84;101;114;109;105;110;97;116;101]] /\
  map dkey (unpurged_lint w_forms) = [[119]; [119]].
Proof. vm_compute. repeat split; reflexivity. Qed.

(* ---- repaired defects, on their witnesses (trees of the real parser): the report is the rule's ---- *)

Ltac not_perm := let HP := fresh "HP" in intro HP; apply Permutation_length in HP; vm_compute in HP; discriminate HP.

(* `var v : tVarByteArray ... Purge(V)` (/repo ef936ba) *)
Example C16_fixed_R1_case : lints w_case = lints_spec w_case /\ lints w_case = [].
Proof. vm_compute. repeat split; reflexivity. Qed.

(* `proc Init  foo('pass')  endproc`: flagged (/repo 44578d5) *)
Example C16_fixed_R2_pass_literal : lints w_passlit = lints_spec w_passlit /\ map dcls (lints w_passlit) = [INH].
Proof. vm_compute. repeat split; reflexivity. Qed.

(* D15: inherited other.Init / inherited x.y.Init / x = inherited (a + Init): flagged *)
Example C16_fixed_R3_inherited_receiver :
  map dcls (lints w_inhother) = [INH] /\ map dcls (lints w_inhchain) = [INH] /\ map dcls (lints w_inhexpr) = [INH] /\
  lints w_inhother = lints_spec w_inhother /\ lints w_inhchain = lints_spec w_inhchain /\
  lints w_inhexpr = lints_spec w_inhexpr.
Proof. vm_compute. repeat split; reflexivity. Qed.

(* D16: a local declared twice: two diagnostics *)
Example C16_fixed_R4_duplicate_local : lints w_dup = lints_spec w_dup /\ map dcls (lints w_dup) = [PURGE; PURGE].
Proof. vm_compute. repeat split; reflexivity. Qed.

(* D17: Purge(v) before var v counts *)
Example C16_fixed_R4_purge_before_decl : lints w_early = lints_spec w_early /\ lints w_early = [].
Proof. vm_compute. repeat split; reflexivity. Qed.

(* D18: Purge('v'), Purge(v(1)), Purge(v[1]) do not purge v *)
Example C16_fixed_R4_purge_literal_arg :
  map dcls (lints w_arglit) = [PURGE] /\ map dcls (lints w_argcall) = [PURGE] /\ map dcls (lints w_argindex) = [PURGE] /\
  lints w_arglit = lints_spec w_arglit /\ lints w_argcall = lints_spec w_argcall /\ lints w_argindex = lints_spec w_argindex.
Proof. vm_compute. repeat split; reflexivity. Qed.

(* D19: a `pass` terminal in the declaration following Init does not silence the warning, wherever it stands *)
Example C16_fixed_R5_leak :
  map dcls (lints w_leak) = [INH] /\ map dcls (lints w_leak2) = [INH] /\
  lints w_leak = lints_spec w_leak /\ lints w_leak2 = lints_spec w_leak2.
Proof. vm_compute. repeat split; reflexivity. Qed.

(* ---- regression theorems: the OLD checker steps (Model/Lints.v, *_old) falsify the unguarded statement on the
        same trees; these are the five behaviours the repair removed, plus the older key defect ---- *)

Theorem C16_old_R1_case_refuted :
  exists file, RootNotFunction file = true /\ ~ Permutation (lints_old_k key_exact file) (lints_spec file).
Proof. exists w_case. split; [reflexivity | not_perm]. Qed.

(* D15: only the right operand's name of ANY binary operator was looked at *)
Theorem C16_old_R3_inherited_other_refuted :
  exists f1 f2 f3, lints_old f1 = [] /\ length (lints_spec f1) = 1%nat /\
                   lints_old f2 = [] /\ length (lints_spec f2) = 1%nat /\
                   lints_old f3 = [] /\ length (lints_spec f3) = 1%nat.
Proof. exists w_inhother, w_inhchain, w_inhexpr. vm_compute. repeat split; reflexivity. Qed.

(* D16: the map entry was replaced *)
Theorem C16_old_R4_duplicate_local_refuted :
  exists file, length (lints_old file) = 1%nat /\ length (lints_spec file) = 2%nat.
Proof. exists w_dup. vm_compute. repeat split; reflexivity. Qed.

(* D17: a Purge before the declaration found no map entry *)
Theorem C16_old_R4_purge_before_decl_refuted :
  exists file, length (lints_old file) = 1%nat /\ lints_spec file = [].
Proof. exists w_early. vm_compute. repeat split; reflexivity. Qed.

(* D18: any first argument whose node identifier is v *)
Theorem C16_old_R4_purge_literal_arg_refuted :
  exists f1 f2 f3, lints_old f1 = [] /\ length (lints_spec f1) = 1%nat /\
                   lints_old f2 = [] /\ length (lints_spec f2) = 1%nat /\
                   lints_old f3 = [] /\ length (lints_spec f3) = 1%nat.
Proof. exists w_arglit, w_argcall, w_argindex. vm_compute. repeat split; reflexivity. Qed.

(* D19: the flag was reset only at the next method node *)
Theorem C16_old_R5_leak_refuted :
  exists file, lints_old file = [] /\ length (lints_spec file) = 1%nat.
Proof. exists w_leak. vm_compute. repeat split; reflexivity. Qed.

(* ... hence locality and permutation invariance failed: swapping the field and the method (same nodes)
   changed the old report, and does not change today's *)
Theorem C16_old_local_refuted :
  exists i r rg a ch ch',
    Permutation ch ch' /\
    ~ Permutation (lints_old (Node KAstRoot i r rg a ch)) (lints_old (Node KAstRoot i r rg a ch')) /\
    Permutation (lints (Node KAstRoot i r rg a ch)) (lints (Node KAstRoot i r rg a ch')).
Proof.
  pose (f := w_leak). unfold w_leak in f.
  match eval unfold f in f with Node KAstRoot ?i ?r ?rg ?a [?c; ?p; ?g] =>
    exists i, r, rg, a, [c; p; g], [c; g; p] end.
  assert (HP : forall (x y z : node), Permutation [x; y; z] [x; z; y]) by (intros; apply perm_skip; apply perm_swap).
  split; [apply HP | split; [not_perm | apply lints_permute; apply HP]].
Qed.

Print Assumptions C16_rule_ret.
Print Assumptions C16_rule_inh.
Print Assumptions C16_rule_inh_call.
Print Assumptions C16_rule_purge.
Print Assumptions C16_rule_name.
Print Assumptions C16_rule_once.
Print Assumptions C16_inherited_exact.
Print Assumptions C16_purge_exact.
Print Assumptions C16_lints_exact.
Print Assumptions C16_lints_exact_perm.
Print Assumptions C16_one_method_per_declaration.
Print Assumptions C16_lints_by_declaration.
Print Assumptions C16_lints_local.
Print Assumptions C16_lints_agree.
Print Assumptions C16_lints_permute.
Print Assumptions C16_lints_idempotent.
Print Assumptions C16_nonvacuous_exact.
Print Assumptions C16_nonvacuous_local.
Print Assumptions C16_nonvacuous_idempotent.
Print Assumptions C16_nonvacuous_forms.
Print Assumptions C16_fixed_R1_case.
Print Assumptions C16_fixed_R2_pass_literal.
Print Assumptions C16_fixed_R3_inherited_receiver.
Print Assumptions C16_fixed_R4_duplicate_local.
Print Assumptions C16_fixed_R4_purge_before_decl.
Print Assumptions C16_fixed_R4_purge_literal_arg.
Print Assumptions C16_fixed_R5_leak.
Print Assumptions C16_old_R1_case_refuted.
Print Assumptions C16_old_R3_inherited_other_refuted.
Print Assumptions C16_old_R4_duplicate_local_refuted.
Print Assumptions C16_old_R4_purge_before_decl_refuted.
Print Assumptions C16_old_R4_purge_literal_arg_refuted.
Print Assumptions C16_old_R5_leak_refuted.
Print Assumptions C16_old_local_refuted.

(* ========================================================================================================== *)
(* The ASSEMBLED response.  What the client receives is not a checker's own list but the items of              *)
(* ProjectManager::generate_document_diagnostic_report: parser diagnostics, then the two IAstNode analysers'  *)
(* lists, then the ONE collector the three annotated-tree checkers push into during ONE pre-order walk.        *)
(* Model/Report.v: report t pd = those items in order, for the tree t and the document's parser diagnostics   *)
(* pd; proofs in Proofs/ReportProofs.v; the witness of Proofs/ReportWitness.v is a dump of the real parser.    *)
(*   origin d        which source an item comes from, told by its message: 0 parser, 1 UnusedVarAnalyzer,     *)
(*                   2 FunctionReturnTypeChecker, 3 Unpurged.., 4 NamingConvention.., 5 InheritedChecker      *)
(*   part k l        the items of l that come from source k, in the order of l                                *)
(*   own_report k    source k's own list: map of_pdiag pd, map of_uv (analyze_today t), map of_lint of          *)
(*                   ret_type_lint / unpurged_lint / naming_lint / inherited_lint t                            *)
(* ========================================================================================================== *)
From GoldV Require Import Report ReportProofs ReportWitness.
From GoldV Require UnusedVar UnusedVarProofs.

(* every theorem above about ret_type_lint / unpurged_lint / naming_lint / inherited_lint (and every theorem of C15
   about analyze_today) is a theorem about the response: the response is a permutation of the six lists *)
Theorem C16_response_permutation : forall t pd,
  Permutation (report t pd)
    (map of_pdiag pd ++ map of_uv (UnusedVar.analyze_today t) ++ map of_lint (Lints.ret_type_lint t) ++
     map of_lint (Lints.unpurged_lint t) ++ map of_lint (Lints.naming_lint t) ++ map of_lint (Lints.inherited_lint t)).
Proof. exact report_permutation. Qed.

Theorem C16_response_lints : forall t pd,
  Permutation (report t pd)
    (map of_pdiag pd ++ map of_uv (UnusedVar.analyze_today t) ++ map of_lint (Lints.lints t)).
Proof. exact report_permutation_lints. Qed.

(* each flagged once and nothing else is flagged -- in the response: its rule items are, as a multiset, one per
   declaration satisfying its rule (C16_lints_exact lifted) *)
Theorem C16_response_rules_exact : forall t pd,
  RootNotFunction t = true ->
  Permutation (report t pd)
    (map of_pdiag pd ++ map of_uv (UnusedVar.analyze_today t) ++ map of_lint (lints_spec t)).
Proof. exact report_rules_exact. Qed.

(* stronger than a permutation: for EVERY source the items of the response that come from it, read in the order
   of the response, ARE that source's own list (same items, as often, same order): nothing is dropped, merged,
   deduplicated or reordered within a source, whatever the ranges and names of the items are *)
Theorem C16_response_each_source_intact : forall k t pd, part k (report t pd) = own_report k t pd.
Proof. exact report_part. Qed.

(* nothing dropped, nothing invented *)
Theorem C16_response_nothing_dropped_nothing_invented : forall t pd d,
  In d (report t pd) <->
  In d (map of_pdiag pd) \/ In d (alone_unused t) \/ In d (alone_ret t) \/
  In d (alone_unpurged t) \/ In d (alone_naming t) \/ In d (alone_inherited t).
Proof. exact report_in_iff. Qed.

Theorem C16_response_in_own_source : forall t pd d,
  In d (report t pd) <-> In d (own_report (origin d) t pd).
Proof. exact report_in_own. Qed.

(* an item is in the response exactly as often as its own checker reports it ... *)
Theorem C16_response_multiplicity : forall t pd d,
  count_occ diag_eq_dec (report t pd) d = count_occ diag_eq_dec (own_report (origin d) t pd) d.
Proof. exact report_multiplicity. Qed.

Theorem C16_response_multiplicity_sum : forall t pd d,
  count_occ diag_eq_dec (report t pd) d =
  (count_occ diag_eq_dec (map of_pdiag pd) d + count_occ diag_eq_dec (alone_unused t) d +
   count_occ diag_eq_dec (alone_ret t) d + count_occ diag_eq_dec (alone_unpurged t) d +
   count_occ diag_eq_dec (alone_naming t) d + count_occ diag_eq_dec (alone_inherited t) d)%nat.
Proof. exact report_multiplicity_sum. Qed.

(* ... so a warning its checker flags once is there once, and two rules firing on one name are both there *)
Theorem C16_response_flagged_once : forall t pd d,
  count_occ diag_eq_dec (own_report (origin d) t pd) d = 1%nat -> count_occ diag_eq_dec (report t pd) d = 1%nat.
Proof. exact report_flagged_once. Qed.

Theorem C16_response_both_rules : forall t pd x y,
  In x (Lints.lints t) -> In y (Lints.lints t) -> In (of_lint x) (report t pd) /\ In (of_lint y) (report t pd).
Proof. exact report_both_rules. Qed.

(* order: the parser's diagnostics first, in the parser's order, none later *)
Theorem C16_response_parser_first : forall t pd,
  firstn (length pd) (report t pd) = map of_pdiag pd /\
  Forall (fun d => origin d <> 0%N) (skipn (length pd) (report t pd)).
Proof. exact report_parser_first. Qed.

(* then the analysers in the fixed order: UnusedVarAnalyzer's list, FunctionReturnTypeChecker's list, then the
   shared collector: the pre-order listing of the tree with, per node, what unpurged / naming / inherited push
   there -- an order-preserving interleaving of the three checkers' own lists *)
Theorem C16_response_groups_in_order : forall t pd,
  exists shared,
    report t pd = map of_pdiag pd ++ alone_unused t ++ alone_ret t ++ shared /\
    shared = map of_lint (flat_map node_verdicts (pre [] t)) /\
    Permutation shared (alone_unpurged t ++ alone_naming t ++ alone_inherited t) /\
    part 3 shared = alone_unpurged t /\ part 4 shared = alone_naming t /\ part 5 shared = alone_inherited t.
Proof. exact report_groups. Qed.

Theorem C16_response_shared_collector : forall t, v2_walk t = flat_map node_verdicts (pre [] t).
Proof. exact v2_walk_eq. Qed.

(* repeating the request repeats the same list, item by item (the v1 list is cached on the document, the shared
   collector is refilled from the same tree); the response is a function of the tree and the parser diagnostics *)
Theorem C16_response_idempotent : forall n t pd,
  Forall (fun r => r = report t pd) (ReportProofs.requests n (fresh_rdoc t pd)).
Proof. exact report_idempotent. Qed.

Theorem C16_response_deterministic : forall d1 d2,
  rdoc_ok d1 -> rdoc_ok d2 -> r_ast d1 = r_ast d2 -> r_pd d1 = r_pd d2 ->
  fst (Report.request d1) = fst (Report.request d2).
Proof. exact report_deterministic. Qed.

(* locality (C16_lints_local and C15_report_decomposes lifted): removing / adding the top-level declaration m
   changes the response by contrib m, a function of m's subtree alone; permuting the declarations permutes it *)
Theorem C16_response_local : forall i r rg a p m q pd,
  Permutation (report (Node KAstRoot i r rg a (p ++ m :: q)) pd)
              (report (Node KAstRoot i r rg a (p ++ q)) pd ++ contrib m).
Proof. exact report_local. Qed.

Theorem C16_response_permute : forall i r rg a ch ch' pd,
  Permutation ch ch' ->
  Permutation (report (Node KAstRoot i r rg a ch) pd) (report (Node KAstRoot i r rg a ch') pd).
Proof. exact report_permute. Qed.

(* PARTIAL (by ranges): IF the items about m lie in m's range and the items about the other declarations do not
   (facts about the parser's ranges that are hypotheses here), the items of the response lying in m's range are
   the parser's own there plus contrib m *)
Theorem C16_response_in_range_partial : forall i r rg a p m q pd,
  Forall (fun d => in_range_of m d = true) (contrib m) ->
  Forall (fun d => in_range_of m d = false) (report (Node KAstRoot i r rg a (p ++ q)) []) ->
  Permutation (filter (in_range_of m) (report (Node KAstRoot i r rg a (p ++ m :: q)) pd))
              (filter (in_range_of m) (map of_pdiag pd) ++ contrib m).
Proof. exact report_in_range_partial. Qed.

(* ---- non-vacuity: a file of the real parser with a syntax error at its end; the response has a parser
        diagnostic and items of all five analysers; `init` carries two rules (casing, inherited) on one name
        range and `Vx` three warnings (unused, unpurged, casing) on one range; brief = (origin, severity, line,
        column).  The list is the real server's response (Proofs/ReportWitness.v) ---- *)
Example C16_response_nonvacuous :
  map brief (report w_resp w_resp_pd) =
    [(0, 1, 15, 0); (1, 1, 7, 6); (1, 2, 5, 6); (1, 2, 6, 6); (1, 2, 8, 6); (1, 2, 11, 6); (2, 2, 4, 29);
     (4, 2, 1, 6); (4, 2, 2, 5); (4, 2, 3, 0); (3, 2, 5, 6); (4, 2, 4, 5); (5, 2, 4, 5); (4, 2, 4, 10); (4, 2, 5, 6)]%N /\
  map (fun k => length (own_report k w_resp w_resp_pd)) [0; 1; 2; 3; 4; 5]%N = [1; 5; 1; 1; 6; 1]%nat /\
  RootNotFunction w_resp = true /\
  (* the interleaving is observable: the collector's part is not the three lists one after the other *)
  map of_lint (v2_walk w_resp) <> alone_unpurged w_resp ++ alone_naming w_resp ++ alone_inherited w_resp /\
  (* two rules on the name `init`, three warnings on the token `Vx`, each exactly once *)
  map (fun d => count_occ diag_eq_dec (report w_resp w_resp_pd) d)
      (filter (fun d => (pline (rstart (d_range d)) =? 4) && (pcol (rstart (d_range d)) =? 5) ||
                        (pline (rstart (d_range d)) =? 5) && (pcol (rstart (d_range d)) =? 6))%N
              (report w_resp w_resp_pd)) = [1; 1; 1; 1; 1]%nat.
Proof.
  split; [vm_compute; reflexivity|]. split; [vm_compute; reflexivity|]. split; [reflexivity|].
  split; [intro E; vm_compute in E; discriminate E | vm_compute; reflexivity].
Qed.

Example C16_response_nonvacuous_idempotent :
  ReportProofs.requests 3 (fresh_rdoc w_resp w_resp_pd) =
    [report w_resp w_resp_pd; report w_resp w_resp_pd; report w_resp w_resp_pd] /\
  length (report w_resp w_resp_pd) = 15%nat.
Proof. split; vm_compute; reflexivity. Qed.

(* the function `init` (with its three flagged locals) as the top-level declaration m: the range hypotheses of the
   partial theorem hold on the real tree, and the ten items in its range are contrib m *)
Example C16_response_nonvacuous_local :
  exists i r rg a p m q,
    w_resp = Node KAstRoot i r rg a (p ++ m :: q) /\ m = w_resp_4 /\
    Forall (fun d => in_range_of m d = true) (contrib m) /\
    Forall (fun d => in_range_of m d = false) (report (Node KAstRoot i r rg a (p ++ q)) []) /\
    map brief (contrib m) =
      [(1, 1, 7, 6); (1, 2, 5, 6); (1, 2, 6, 6); (1, 2, 8, 6); (2, 2, 4, 29); (3, 2, 5, 6); (4, 2, 4, 5);
       (4, 2, 4, 10); (4, 2, 5, 6); (5, 2, 4, 5)]%N /\
    length (filter (in_range_of m) (report w_resp w_resp_pd)) = 10%nat.
Proof.
  unfold w_resp.
  match goal with |- context [Node KAstRoot ?i ?r ?rg ?a _] =>
    exists i, r, rg, a, [w_resp_0; w_resp_1; w_resp_2; w_resp_3], w_resp_4, [w_resp_5] end.
  split; [reflexivity|]. split; [reflexivity|].
  split; [apply Forall_forall; apply forallb_forall; vm_compute; reflexivity|].
  split; [|split; vm_compute; reflexivity].
  apply Forall_forall. intros d Hd.
  assert (G : forallb (fun d => negb (in_range_of w_resp_4 d))
                (report (Node KAstRoot [] 0 (mkRange (mkPos 0 0) (mkPos 0 0)) []
                          ([w_resp_0; w_resp_1; w_resp_2; w_resp_3] ++ [w_resp_5])) []) = true)
    by (vm_compute; reflexivity).
  rewrite forallb_forall in G. specialize (G d Hd). destruct (in_range_of w_resp_4 d); [discriminate G | reflexivity].
Qed.

Print Assumptions C16_response_permutation.
Print Assumptions C16_response_lints.
Print Assumptions C16_response_rules_exact.
Print Assumptions C16_response_each_source_intact.
Print Assumptions C16_response_nothing_dropped_nothing_invented.
Print Assumptions C16_response_in_own_source.
Print Assumptions C16_response_multiplicity.
Print Assumptions C16_response_multiplicity_sum.
Print Assumptions C16_response_flagged_once.
Print Assumptions C16_response_both_rules.
Print Assumptions C16_response_parser_first.
Print Assumptions C16_response_groups_in_order.
Print Assumptions C16_response_shared_collector.
Print Assumptions C16_response_idempotent.
Print Assumptions C16_response_deterministic.
Print Assumptions C16_response_local.
Print Assumptions C16_response_permute.
Print Assumptions C16_response_in_range_partial.
Print Assumptions C16_response_nonvacuous.
Print Assumptions C16_response_nonvacuous_idempotent.
Print Assumptions C16_response_nonvacuous_local.

(* ---------- from the TEXT to the response ----------
   For every text that is the print of printable lexemes (Model/Unlex.v) whose tokens form a file of the grammar:
   no lexical error, no syntax diagnostic, and the diagnostics response of the parsed tree consists of the analysers'
   findings only: the rule items are, as a multiset, one per declaration satisfying its rule (C16_lints_exact lifted),
   the unused-variable items are exactly the specification's list (C15).  Lexer round trip + file theorem + the
   assembled response on one object. *)
From GoldV Require Import Keywords Strings PComb Grammar RTComb ExprRT StmtRT DeclRT FileRT Unlex TextLevelDiag.

Theorem C16_response_of_text : forall lx f ns, forallb printable lx = true -> Decls f (fst (lex (unlex lx))) ns ->
  snd (lex (unlex lx)) = [] /\
  exists root, fst (parse_gold (fst (lex (unlex lx)))) = Ok [] root /\
               cdiags (snd (parse_gold (fst (lex (unlex lx))))) = [] /\
               nchildren root = ns /\
               Permutation (report root []) (map of_uv (UnusedVar.analyze_today root) ++ map of_lint (lints_spec root)) /\
               filter is_unused_item (report root []) = map of_uv (UnusedVarProofs.unused_spec root).
Proof. exact response_of_text. Qed.

Print Assumptions C16_response_of_text.
