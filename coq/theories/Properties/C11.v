(* C11  Completion offers exactly the visible names.
   Statements about Model/Scoping.v (generate_completion_items_rhs / _lhs on the symbol tables
   the annotator builds) against the declarative scoping rules (`nearest_member`, the method's
   variables).  The listings are the merged listing of C18 (C18_merged_listing: collect = merged,
   each name once, nearest declaration wins, complete), filtered by symbol type.
   PARTIAL: the parser (the `AstEmpty` operand of a dangling dot), the annotated tree, the
   position -> node step and the eval-type annotation of arbitrary expressions are tied to this
   model by the differential run only (checks/c11.py). *)
From GoldV Require Import Base SymTab SymTabProofs Scoping ScopingProofs ScopingWitness ScopingRecase ScopingRecaseWitness.

(* the listing the code computes is C18's merged listing of the class's tables, filtered *)
Theorem C11_after_dot_is_merged_listing :
  forall ws d, complete_after_dot ws d = map sid (filter is_member_kind (merged (class_chain ws d))).
Proof. exact complete_after_dot_merged. Qed.

(* after `x.` with x of class / module d: exactly the fields, procedures and functions declared by
   d and its ancestors, each name once (ignoring case), the nearest declaration of a name decides
   (its spelling is the label; if it is a constant or type the name is not offered).
   lineage_clean: no member of d or of an ancestor is called `self` or like a class / module. *)
Theorem C11_after_dot :
  forall ws d, lineage_clean ws d ->
    let labels := complete_after_dot ws d in
    NoDup (map upper labels) /\
    (forall l, In l labels <->
       exists e mem, nearest_member ws d l = Some (e, mem) /\ m_name mem = l /\ is_fpf mem = true).
Proof. exact complete_after_dot_spec. Qed.

(* ... as the service performs it from inside method m of ANY class c, the enclosing class
   included (fix 945552f: the class-level table above the cursor's nearest table) *)
Theorem C11_after_dot_in_context :
  forall ws c m d, completion_member ws c m d = complete_after_dot ws d.
Proof. exact completion_member_spec. Qed.

(* elsewhere in the body of method m of class c: exactly the method's parameters and local
   variables (latest declaration of a name) plus the names whose nearest declaration in c and its
   ancestors is a constant; each name once *)
Theorem C11_plain :
  forall ws c m, lineage_clean ws c ->
    let labels := complete_plain ws c m in
    NoDup (map upper labels) /\
    (forall l, In l labels <->
       (exists v, find_last v_name l (vars_of ws c m) = Some v /\ v_name v = l) \/
       (find_last v_name l (vars_of ws c m) = None /\
        exists e mem, nearest_member ws c l = Some (e, mem) /\ m_name mem = l /\ m_kind mem = MConst)).
Proof. exact complete_plain_spec. Qed.

(* an operand of unknown type, or of a type that is not an indexed class / module: no proposals
   (and no definition links) *)
Theorem C11_unknown_type_empty :
  forall ws c m p, static_class ws c m p = None ->
    completion_dotted ws c m p = [] /\ forall id, definition_dotted ws c m p id = [].
Proof. exact unknown_type_empty. Qed.

Theorem C11_unindexed_type_empty :
  forall ws c m d, find_entity ws d = None ->
    completion_member ws c m d = [] /\ forall id, definition_member ws c m d id = [].
Proof. exact unindexed_type_empty. Qed.

(* ---- non-vacuity: aBase <- aMid <- aLeaf ---- *)
Example C11_after_dot_nonvacuous :
  lineage_clean ws3 s_aLeaf /\
  (* aLeaf's Fb, Run; aMid's FA (hides aBase's Fa), cA (a FIELD in aMid: hides aBase's constant), Ga; aBase's Link *)
  complete_after_dot ws3 s_aLeaf = [s_Fb; s_Run; s_FA; s_cA; s_Ga; s_Link] /\
  completion_member ws3 s_aMid (Some s_Ga) s_aLeaf = complete_after_dot ws3 s_aLeaf /\
  (* `self.` inside aLeaf.Run(Fa : int4) with `var Fb`: FA and Fb are offered *)
  completion_member ws3 s_aLeaf leaf_run s_aLeaf = [s_Fb; s_Run; s_FA; s_cA; s_Ga; s_Link].
Proof.
  destruct ws3_after_dot as (H1 & H2 & H3 & _). destruct ws3_clean as (C1 & _).
  split; [exact C1|]. split; [exact H1|]. split; [rewrite H3, H1; reflexivity|exact H2].
Qed.

Example C11_plain_nonvacuous :
  lineage_clean ws3 s_aBase /\ lineage_clean ws3 s_aLeaf /\
  complete_plain ws3 s_aBase (Some s_Run) = [s_cA] /\            (* the constant *)
  complete_plain ws3 s_aLeaf leaf_run = [s_Fa; s_Fb] /\          (* parameter and local; cA is a field in aMid: not offered *)
  complete_plain ws3 s_aMid (Some s_Ga) = [s_p1].
Proof.
  destruct ws3_plain_completion as (H1 & H2 & H3). destruct ws3_clean as (C1 & C2). auto.
Qed.

Example C11_unknown_type_nonvacuous :
  static_class ws3 s_aLeaf leaf_run [IId s_self; IId s_Fb] = None /\       (* the field Fb : int4 *)
  static_class ws3 s_aLeaf leaf_run [IId s_Fb] = Some (SClass s_aBase) /\   (* the local Fb : aBase *)
  static_class ws3 s_aLeaf leaf_run [IId s_self; IId s_Link] = Some (SClass s_aLeaf).
Proof. destruct ws3_static as (H1 & _ & H3 & H4 & _). auto. Qed.

(* regression case of fix 4a7e667: proposals after a call on a module qualifier *)
Example C11_module_call_nonvacuous :
  completion_dotted w_modcall s_aUser (Some s_Run) [IId s_aModUtil; ICall s_Make] = [s_Run].
Proof. vm_compute. reflexivity. Qed.

(* ---- where the code differs from the wording ---- *)

(* the step before fix 945552f (member_chain_old): after `self.` the members named like a
   parameter or local variable of the current method were missing *)
Theorem C11_old_after_dot_refuted_local :
  exists ws c m, map sid (filter is_member_kind (collect (member_chain_old ws c m c))) <> complete_after_dot ws c.
Proof.
  exists ws3, s_aLeaf, leaf_run. destruct ws3_after_dot as (H1 & _ & _ & H4). rewrite H1, H4. discriminate.
Qed.

(* the type of the operand depends on where in the class it is written (forward reference to a
   method declared later): no proposals there *)
Theorem C11_operand_type_refuted_forward :
  exists ws c m1 m2 p, completion_dotted ws c (Some m1) p = [] /\ completion_dotted ws c (Some m2) p <> [].
Proof.
  exists w_fwd, s_aNode, s_First, s_Last, [IId s_self; IId s_Later]. split; vm_compute; [reflexivity|discriminate].
Qed.

(* ---- re-casing the REFERENCES stored in the workspace (ws_sim, Proofs/ScopingRecase.v): parent
   classes, `uses`, declared type names in another letter case, declarations as written: the same
   proposals, with the same (declared) spelling ---- *)
Theorem C11_workspace_recase :
  forall ws ws', ws_sim ws ws' -> forall c m d d' p, ci d d' ->
    complete_after_dot ws d = complete_after_dot ws' d' /\
    completion_member ws c m d = completion_member ws' c m d' /\
    completion_dotted ws c m p = completion_dotted ws' c m p /\
    complete_plain ws c m = complete_plain ws' c m.
Proof.
  intros ws ws' H c m d d' p Hd. destruct (completion_sim ws ws' c m d d' H Hd) as (H1 & H2 & H3).
  split; [exact H1|]. split; [exact H2|]. split; [apply (dotted_sim ws ws' c m p [] H)|exact H3].
Qed.

Example C11_workspace_recase_nonvacuous :
  ws_sim w_alias w_alias_recased /\ w_alias <> w_alias_recased /\
  (* p : TLIB, `uses ALIB`, tLib : ABASE: proposals after `p.ga().` *)
  completion_dotted w_alias_recased r_aLeaf in_go [IId r_p; ICall r_ga] = [r_Link; r_Items; r_Ga; r_Run] /\
  complete_after_dot w_alias_recased r_aLeaf = [r_Fb; r_Go; r_Link; r_Items; r_Ga; r_Run].
Proof.
  destruct w_alias_answers as (_ & _ & _ & _ & _ & H6 & _ & _ & _ & H10).
  split; [exact w_alias_sim|]. split; [exact w_alias_differ|]. auto.
Qed.

Print Assumptions C11_after_dot_is_merged_listing.
Print Assumptions C11_after_dot.
Print Assumptions C11_after_dot_in_context.
Print Assumptions C11_plain.
Print Assumptions C11_unknown_type_empty.
Print Assumptions C11_unindexed_type_empty.
Print Assumptions C11_after_dot_nonvacuous.
Print Assumptions C11_plain_nonvacuous.
Print Assumptions C11_unknown_type_nonvacuous.
Print Assumptions C11_module_call_nonvacuous.
Print Assumptions C11_old_after_dot_refuted_local.
Print Assumptions C11_operand_type_refuted_forward.
Print Assumptions C11_workspace_recase.
Print Assumptions C11_workspace_recase_nonvacuous.

(* ---- completion at tree level, one document (Model/DefTree.v: DefTree.completion on the real
   tree and the tables of Model/Annot.v; engine deftree of checks/c10.py) ---- *)
From GoldV Require Import Lexer Tree Annot AnnotProofs DefTree DefTreeProofs DefTreeWitness.

(* where generate_completion_proposals lists the plain names (the encasing node is no dot
   operation and not under one): generate_completion_items_lhs on the chain of the encasing method *)
Theorem C11_tree_plain_case :
  forall t stem p idx enc pi q up ch,
    flat_methods t = true -> chain_for t (descend p t) = Some ch ->
    path_up p t = (idx, enc) :: (pi, q) :: up -> is_dot enc = false -> is_dot q = false ->
    completion t stem p = if foreign_parent t then Outside else Ans (labels_lhs ch).
Proof. exact completion_plain_case. Qed.

(* the property itself, ANY tables: the labels are the variables / constants of C18's merged
   listing of the chain; each name once ignoring case; a label is offered iff the nearest, latest
   declaration of that name along the chain is a variable or a constant, spelled as declared *)
Theorem C11_tree_plain :
  forall ch,
    let c := map scope_of ch in
    labels_lhs ch = map sid (filter is_plain_kind (merged c)) /\
    NoDup (map upper (labels_lhs ch)) /\
    (forall l, In l (labels_lhs ch) <-> exists x, spec_get c l = Some x /\ sid x = l /\ is_plain_kind x = true).
Proof. exact labels_lhs_merged. Qed.

(* refinement: in the k-th method of a regular document the labels are those of the abstract model
   on entity_of_tree t, in the same order -- elsewhere in the body, and after `self.` *)
Theorem C11_tree_plain_refines :
  forall t k mt, regular t ->
    nth_error (method_tables_of false t) k = Some mt ->
    let e := entity_of_tree t in
    exists me, nth_error (e_methods e) k = Some me /\
      labels_lhs [mt; root_table_of false t] = map sid (filter is_plain_kind (collect (abs_chain e me))) /\
      labels_rhs [root_table_of false t] = map sid (filter is_member_kind (collect [root_table e])).
Proof. exact compltree_plain_refines. Qed.

Example C11_tree_nonvacuous :
  regular deftree_ex /\ foreign_parent deftree_ex = false /\
  completion deftree_ex dx_aFoo (mkPos 7 1) = Ans [[112]; [70;97]; [108]; [99;65]] /\   (* p, Fa, l, cA *)
  completion deftree_ex dx_aFoo (mkPos 6 6) = Ans [[102;97]; [82;117;110]] /\           (* self. -> fa, Run *)
  complete_plain [entity_of_tree deftree_ex] dx_aFoo (Some [82;117;110]) = [[112]; [70;97]; [108]; [99;65]].
Proof.
  destruct deftree_ex_facts as (H1 & _ & _ & _ & _ & _ & _ & _ & _ & _ & _ & H12 & H13 & _ & H15).
  split; [apply regularb_ok; exact H1|]. split; [vm_compute; reflexivity|]. repeat split; assumption.
Qed.

Print Assumptions C11_tree_plain_case.
Print Assumptions C11_tree_plain.
Print Assumptions C11_tree_plain_refines.
Print Assumptions C11_tree_nonvacuous.

(* completion after `self.` (or `<own class>.`) inside the k-th method of a regular, parent-less
   document: the labels generate_rhs_of_entity lists on the class-level table are
   Scoping.complete_after_dot on the one-entity workspace (C11_after_dot), in the same order *)
Theorem C11_tree_after_self_refines :
  forall t k mt, regular t ->
    nth_error (method_tables_of false t) k = Some mt ->
    let e := entity_of_tree t in
    e_parent e = None ->
    labels_rhs (class_level_t [mt; root_table_of false t]) = complete_after_dot [e] (e_name e).
Proof. exact compltree_after_self_refines. Qed.

Print Assumptions C11_tree_after_self_refines.

(* ---- completion on a WORKSPACE of documents, at tree level (Model/WsTree.v, see Properties/C10.v) ---- *)
From GoldV Require Import WsTree WsTreeProofs WsTreeWitness.

(* the labels computed from the real trees -- in a method body on the chain [method table; root
   table; ancestors' root tables ...], after `<entity>.` on the chain generate_rhs_of_entity chooses --
   are the labels of Scoping.complete_plain / completion_member, in the same order *)
Theorem C11_ws_complete_refines :
  forall ws a d k mt, ws_ok ws -> ws_acyclic ws -> distinct_stems ws = true ->
    nth_error ws a = Some d -> nth_error (method_tables_of false (snd d)) k = Some mt ->
    exists me path, nth_error (e_methods (ent d)) k = Some me /\ lineage_t ws a = Ans (false, path) /\
      (find_method (ent d) (me_name me) = Some me ->
       labels_lhs (tree_chain ws a mt path) = complete_plain (absws ws) (fst d) (Some (me_name me)) /\
       forall en,
         match entity_chain ws a (tree_chain ws a mt path) en with
         | Ans (Some chE) => labels_rhs chE = completion_member (absws ws) (fst d) (Some (me_name me)) en
         | Ans None => completion_member (absws ws) (fst d) (Some (me_name me)) en = []
         | Outside => False
         end).
Proof. exact ws_complete_refines. Qed.

(* C11_plain on real trees *)
Theorem C11_ws_plain :
  forall ws a d k mt, ws_ok ws -> ws_acyclic ws -> distinct_stems ws = true ->
    nth_error ws a = Some d -> nth_error (method_tables_of false (snd d)) k = Some mt ->
    exists me path, nth_error (e_methods (ent d)) k = Some me /\ lineage_t ws a = Ans (false, path) /\
      (find_method (ent d) (me_name me) = Some me -> lineage_clean (absws ws) (fst d) ->
       let labels := labels_lhs (tree_chain ws a mt path) in
       let m := Some (me_name me) in
       NoDup (map upper labels) /\
       (forall l, In l labels <->
          (exists v, find_last v_name l (vars_of (absws ws) (fst d) m) = Some v /\ v_name v = l) \/
          (find_last v_name l (vars_of (absws ws) (fst d) m) = None /\
           exists e mem, nearest_member (absws ws) (fst d) l = Some (e, mem) /\ m_name mem = l /\ m_kind mem = MConst))).
Proof. exact ws_complete_plain_spec. Qed.

(* C11_after_dot / C11_after_dot_in_context on real trees *)
Theorem C11_ws_after_dot :
  forall ws a d k mt en, ws_ok ws -> ws_acyclic ws -> distinct_stems ws = true ->
    nth_error ws a = Some d -> nth_error (method_tables_of false (snd d)) k = Some mt ->
    exists me path, nth_error (e_methods (ent d)) k = Some me /\ lineage_t ws a = Ans (false, path) /\
      (find_method (ent d) (me_name me) = Some me ->
       match entity_chain ws a (tree_chain ws a mt path) en with
       | Ans (Some chE) =>
           labels_rhs chE = complete_after_dot (absws ws) en /\
           (lineage_clean (absws ws) en ->
            NoDup (map upper (labels_rhs chE)) /\
            (forall l, In l (labels_rhs chE) <->
               exists e mem, nearest_member (absws ws) en l = Some (e, mem) /\ m_name mem = l /\ is_fpf mem = true))
       | Ans None => complete_after_dot (absws ws) en = []
       | Outside => False
       end).
Proof. exact ws_complete_after_dot_spec. Qed.

Theorem C11_ws_plain_case :
  forall ws a stem t p idx enc pi q up full,
    distinct_stems ws = true -> nth_error ws a = Some (stem, t) -> flat_methods t = true ->
    full_chain ws a t (descend p t) = Ans full -> path_up p t = (idx, enc) :: (pi, q) :: up ->
    is_dot enc = false -> is_dot q = false ->
    wcompletion ws a p = Ans (labels_lhs full).
Proof. exact wcompletion_plain_case. Qed.

Theorem C11_ws_member_case :
  forall ws a stem t p i enc pi q up full lft en,
    distinct_stems ws = true -> nth_error ws a = Some (stem, t) -> flat_methods t = true ->
    full_chain ws a t (descend p t) = Ans full -> path_up p t = (S i, enc) :: (pi, q) :: up ->
    is_dot enc = false -> is_dot q = true -> first_child q = Some lft -> own_entity t lft = Some en ->
    in_method (descend p t) = true ->
    wcompletion ws a p =
    match entity_chain ws a full en with
    | Outside => Outside
    | Ans None => Ans []
    | Ans (Some ch) => Ans (labels_rhs ch)
    end.
Proof. exact wcompletion_member_case. Qed.

(* non-vacuity: aChild (aParent) uses aLib, see C10_ws_nonvacuous *)
Example C11_ws_nonvacuous :
  ws_ok wsx /\ ws_acyclic wsx /\ distinct_stems wsx = true /\
  wcompletion wsx 0 (mkPos 5 1) = Ans [[112]; [108]; [99;80]] /\                        (* p, l, the PARENT's constant cP *)
  wcompletion wsx 0 (mkPos 6 6) = Ans [[102;99]; wx_Run; wx_Base; wx_fp] /\             (* self. -> fc, Run, Base, inherited fp *)
  complete_plain (absws wsx) wx_aChild (Some wx_Run) = [[112]; [108]; [99;80]] /\
  completion_member (absws wsx) wx_aChild (Some wx_Run) wx_aChild = [[102;99]; wx_Run; wx_Base; wx_fp].
Proof.
  destruct wsx_facts as (H1 & H2 & H3 & _ & _ & _ & _ & _ & _ & H10 & H11 & _ & _ & _ & H15 & H16).
  split; [apply ws_okb_ok; exact H1|]. split; [apply ws_acyclicb_ok; exact H2|]. repeat split; assumption.
Qed.

Print Assumptions C11_ws_complete_refines.
Print Assumptions C11_ws_plain.
Print Assumptions C11_ws_after_dot.
Print Assumptions C11_ws_plain_case.
Print Assumptions C11_ws_member_case.
Print Assumptions C11_ws_nonvacuous.

(* completion after `x.` for a typed operand x (WsTree.typed_entity, see C10_ws_typed_member_case; PARTIAL
   in the same sense: the typing step is tied to the code by the differential run only) *)
Theorem C11_ws_typed_member_case :
  forall ws a stem t p i enc pi q up full lft,
    distinct_stems ws = true -> nth_error ws a = Some (stem, t) -> flat_methods t = true ->
    full_chain ws a t (descend p t) = Ans full -> path_up p t = (S i, enc) :: (pi, q) :: up ->
    is_dot enc = false -> is_dot q = true -> first_child q = Some lft -> own_entity t lft = None ->
    wcompletion ws a p =
    match typed_entity ws a t (descend p t) lft with
    | Outside => Outside
    | Ans None => Ans []
    | Ans (Some en) =>
        match entity_chain ws a full en with
        | Outside => Outside
        | Ans None => Ans []
        | Ans (Some ch) => Ans (labels_rhs ch)
        end
    end.
Proof. exact wcompletion_typed_member_case. Qed.

Example C11_ws_typed_nonvacuous :
  ws_ok wsx2 /\ ws_acyclic wsx2 /\ distinct_stems wsx2 = true /\
  wcompletion wsx2 3 (mkPos 2 3) = Ans [[102;99]; wx_Run; wx_Base; wx_fp] /\            (* q. , q : aChild *)
  completion_member (absws wsx2) wx_aUser (Some [71;111]) wx_aChild = [[102;99]; wx_Run; wx_Base; wx_fp].
Proof.
  destruct wsx2_facts as (H1 & H2 & H3 & _ & H5 & _ & _ & H8).
  split; [apply ws_okb_ok; exact H1|]. split; [apply ws_acyclicb_ok; exact H2|]. repeat split; assumption.
Qed.

Print Assumptions C11_ws_typed_member_case.
Print Assumptions C11_ws_typed_nonvacuous.
