(* Model of /repo/src/analyzers/unused_var_analyzer.rs driven by /repo/src/analyzers/ast_walker.rs
   the way ProjectManager::analyze_ast drives it (AstWalker::new(true); run; append_diagnostics).
   Executable; no property proofs in this file.

   The walker is modelled by the list of visit calls it makes (pre-order over the root's children,
   each visited node together with the parent it was reached from: DynamicChild{data,parent}); the
   analyser is a fold of `step` (= IVisitor::visit) over that list followed by notify_end.

   The analyser since the repair proposed in tools/c15_proposed_fix.diff: a method is analysed AS A
   WHOLE when the walker reaches its node (analyze_method): the map is emptied, the local
   declarations found anywhere in the body are entered (collect_local_vars), every name the body
   mentions outside member position is looked up (count_mentions / notify_mention), the unused
   entries are reported and the map is emptied again; every other visit and notify_end do nothing.
   The analyser BEFORE that repair (one map filled and read while the walker advances, flushed at
   the next method node) is kept at the end of this file as old_step / analyze_old for the
   regression theorems of Properties/C15.v and C17.v.

   `keyf` is the function applied to a name before it is used as a key of cur_local_vars.
   Since /repo e5fd419 the code uses `to_uppercase()`: keyf := key_today = upper
   (before: the spelling itself).  The message prints the DECLARED spelling
   (`val.ident_token.get_value_as_str()`), and since /repo 993bb42 a terminal whose token is a
   string literal is never a mention.  The theorems are generic in keyf. *)
From GoldV Require Import Base Tokens Lexer AstKinds Tree.

(* the key function of the code as it is: names are case-insensitive *)
Definition key_today (s : str) : str := upper s.

(* ---- the walker ------------------------------------------------------------------------- *)

Definition ev := (node * node)%type.       (* DynamicChild: (parent, data) *)
Definition ev_parent (e : ev) : node := fst e.
Definition ev_node (e : ev) : node := snd e.

(* AstWalker::visit: the visitors see the node, then its children (get_children_ref_dynamic:
   each child wrapped with parent = this node) are visited in order *)
Fixpoint walk (p : node) (n : node) {struct n} : list ev :=
  (p, n) ::
  match n with
  | Node _ _ _ _ _ ch =>
      (fix go (l : list node) {struct l} : list ev :=
         match l with
         | [] => []
         | c :: l' => walk n c ++ go l'
         end) ch
  end.

Fixpoint walk_list (p : node) (l : list node) : list ev :=
  match l with
  | [] => []
  | c :: l' => walk p c ++ walk_list p l'
  end.

(* AstWalker::run: the ROOT'S CHILDREN are visited (the root itself is not), then notify_end *)
Definition events (file : node) : list ev := walk_list file (nchildren file).

(* ---- the analyser ----------------------------------------------------------------------- *)

Record vinfo := mkV { vuses : N; vrange : range; vname : str }.   (* VarInfo: use_count, ident_token (its range, its value) *)

Record diag := mkDiag {
  dsev : N;            (* DiagnosticSeverity: 1 ERROR, 2 WARNING *)
  dclass : N;          (* 0 = "Unused var: <key>", 1 = "Var name already declared" *)
  drange : range;
  dkey : str           (* the name printed in the message ([] for class 1) *)
}.

Record st := mkSt {
  cur : list (str * vinfo);     (* cur_local_vars; insertion order, never observed *)
  diags : list diag             (* diagnostics, in push order *)
}.

Definition st0 : st := mkSt [] [].

Definition SEV_ERROR : N := 1.
Definition SEV_WARNING : N := 2.
Definition CL_UNUSED : N := 0.
Definition CL_DUP : N := 1.

(* node.identifier.get_range() of an AstLocalVariableDeclaration: the K_ident token of the dump *)
Definition ident_range (n : node) : range :=
  match attr_tok K_ident n with Some t => trange t | None => nrange n end.

(* format!("Unused var: {}", val.ident_token.get_value_as_str()) *)
Definition unused_of (m : list (str * vinfo)) : list diag :=
  flat_map (fun kv => if vuses (snd kv) =? 0
                      then [mkDiag SEV_WARNING CL_UNUSED (vrange (snd kv)) (vname (snd kv))] else []) m.

(* check_unused_vars (HashMap iteration; order unobservable) *)
Definition check_unused (s : st) : st := mkSt (cur s) (diags s ++ unused_of (cur s)).

Definition is_method (n : node) : bool := is_kind KAstProcedure n || is_kind KAstFunction n.

Definition op_is_dot (p : node) : bool :=
  match attr_tok K_op p with Some t => tt_eqb (tty t) TDot | None => false end.

(* terminal.token.token_type == TokenType::StringLiteral (the K_token attribute of the dump) *)
Definition is_string_lit (n : node) : bool :=
  match attr_tok K_token n with Some t => tt_eqb (tty t) TStringLiteral | None => false end.

(* notify_local_var_node.  ident_token.value is the declaration's own identifier:
   AstLocalVariableDeclaration::get_identifier() returns identifier.get_value_as_str() *)
Definition notify_local_var (keyf : str -> str) (s : st) (n : node) : st :=
  let k := keyf (nident n) in
  match alookup k (cur s) with
  | Some _ => mkSt (cur s) (diags s ++ [mkDiag SEV_ERROR CL_DUP (ident_range n) []])
  | None => mkSt (ainsert k (mkV 0 (ident_range n) (nident n)) (cur s)) (diags s)
  end.

(* the nodes of a subtree in pre-order: the order in which collect_local_vars reaches them *)
Fixpoint subnodes (n : node) {struct n} : list node :=
  n ::
  match n with
  | Node _ _ _ _ _ ch =>
      (fix go (l : list node) {struct l} : list node :=
         match l with
         | [] => []
         | c :: l' => subnodes c ++ go l'
         end) ch
  end.

(* collect_local_vars *)
Definition collect (keyf : str -> str) (s : st) (b : node) : st :=
  fold_left (fun s n => if is_kind KAstLocalVariableDeclaration n then notify_local_var keyf s n else s)
            (subnodes b) s.

Definition is_dot_op (n : node) : bool := is_kind KAstBinaryOp n && op_is_dot n.

(* count_mentions: the is_member argument of the recursive call on a child (first = the child is
   left_node): both operands of a '.' but the first are member names, the first one is what the
   '.' itself is; the base of an array access is what the access is; anything else: false *)
Definition child_member (n : node) (member first : bool) : bool :=
  if is_dot_op n then (if first then member else true)
  else if is_kind KAstArrayAccess n then first && member
  else false.

(* the names count_mentions passes to notify_mention at node n itself:
   a terminal that is neither in member position nor a string literal; the name of a call that is
   not in member position (AstMethodCall.identifier is not a child node); the counter of a for
   block (AstForBlock.counter_token, the K_ident attribute of the dump) *)
Definition names_here (member : bool) (n : node) : list str :=
  if is_kind KAstTerminal n then (if negb member && negb (is_string_lit n) then [nident n] else [])
  else (if is_kind KAstMethodCall n && negb member then [nident n] else []) ++
       (if is_kind KAstForBlock n then match attr_tok K_ident n with Some t => [tval t] | None => [] end else []).

(* count_mentions: all the names passed to notify_mention, in call order (a terminal returns early) *)
Fixpoint mention_names (member : bool) (n : node) {struct n} : list str :=
  names_here member n ++
  match n with
  | Node _ _ _ _ _ ch =>
      if is_kind KAstTerminal n then [] else
      (fix go (first : bool) (l : list node) {struct l} : list str :=
         match l with
         | [] => []
         | c :: l' => mention_names (child_member n member first) c ++ go false l'
         end) true ch
  end.

(* notify_mention *)
Definition notify_mention (keyf : str -> str) (s : st) (name : str) : st :=
  let k := keyf name in
  match alookup k (cur s) with
  | Some v => mkSt (ainsert k (mkV (vuses v + 1) (vrange v) (vname v)) (cur s)) (diags s)
  | None => s
  end.

(* proc_node.body / func_node.body: the child of kind AstMethodBody (the other children - name,
   return type, parameter list - are of other kinds; checks/c15.py ASSUMPTIONS) *)
Definition method_body (m : node) : option node := find (is_kind KAstMethodBody) (nchildren m).

(* analyze_method *)
Definition analyze_method (keyf : str -> str) (s : st) (m : node) : st :=
  let s0 := mkSt [] (diags s) in
  let s1 := match method_body m with
            | Some b => fold_left (notify_mention keyf) (mention_names false b) (collect keyf s0 b)
            | None => s0
            end in
  mkSt [] (diags (check_unused s1)).

(* IVisitor::visit: two successive downcasts (a node is of one kind) *)
Definition step (keyf : str -> str) (s : st) (e : ev) : st :=
  if is_method (ev_node e) then analyze_method keyf s (ev_node e) else s.

(* run: visit everything; notify_end does nothing *)
Definition run (keyf : str -> str) (l : list ev) (s : st) : st := fold_left (step keyf) l s.

(* all diagnostics of the analyser for one file (append_diagnostics) *)
Definition analyze (keyf : str -> str) (file : node) : list diag :=
  diags (run keyf (events file) st0).

Definition is_unused_diag (d : diag) : bool := dclass d =? CL_UNUSED.
Definition unused_vars (keyf : str -> str) (file : node) : list diag :=
  filter is_unused_diag (analyze keyf file).
Definition dup_errors (keyf : str -> str) (file : node) : list diag :=
  filter (fun d => negb (is_unused_diag d)) (analyze keyf file).

(* the code as it is *)
Definition analyze_today (file : node) : list diag := analyze key_today file.

(* ---- the analyser before the repair (regression theorems only) --------------------------- *)

(* check_unused_vars(); cur_local_vars = HashMap::new() *)
Definition reset (s : st) : st := mkSt [] (diags (check_unused s)).

(* to_string_ident_pos = format!("{}:{}", get_identifier(), get_pos().to_string_brief()):
   the identifier and the start position ("(l:L,c:C)"); two such strings are equal iff both
   components are (the position part is delimited from the right). *)
Definition pos_eqb (a b : pos) : bool := (pline a =? pline b) && (pcol a =? pcol b).
Definition ident_pos_eqb (a b : node) : bool :=
  str_eqb (nident a) (nident b) && pos_eqb (rstart (nrange a)) (rstart (nrange b)).

(* is_left_node: the parent is always Some in a walk *)
Definition is_left_node (p n : node) : bool :=
  if is_kind KAstBinaryOp p then
    if negb (op_is_dot p) then true
    else match nchildren p with
         | l :: _ => ident_pos_eqb l n           (* bin_node.left_node *)
         | [] => true                            (* not reachable: n is a child of p *)
         end
  else true.

(* notify_terminal_node: a string literal is skipped before the lookup *)
Definition old_notify_terminal (keyf : str -> str) (s : st) (p n : node) : st :=
  if is_string_lit n then s else
  let k := keyf (nident n) in
  match alookup k (cur s) with
  | Some v => if is_left_node p n
              then mkSt (ainsert k (mkV (vuses v + 1) (vrange v) (vname v)) (cur s)) (diags s)
              else s
  | None => s
  end.

(* IVisitor::visit as it was: four successive downcasts *)
Definition old_step (keyf : str -> str) (s : st) (e : ev) : st :=
  let p := ev_parent e in
  let n := ev_node e in
  let s1 := if is_kind KAstProcedure n then reset s else s in
  let s2 := if is_kind KAstFunction n then reset s1 else s1 in
  let s3 := if is_kind KAstTerminal n then old_notify_terminal keyf s2 p n else s2 in
  if is_kind KAstLocalVariableDeclaration n then notify_local_var keyf s3 n else s3.

(* run as it was: visit everything, then notify_end = check_unused_vars *)
Definition old_run (keyf : str -> str) (l : list ev) (s : st) : st :=
  check_unused (fold_left (old_step keyf) l s).

Definition analyze_old (keyf : str -> str) (file : node) : list diag :=
  diags (old_run keyf (events file) st0).
Definition unused_vars_old (keyf : str -> str) (file : node) : list diag :=
  filter is_unused_diag (analyze_old keyf file).
