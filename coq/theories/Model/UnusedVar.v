(* Model of /repo/src/analyzers/unused_var_analyzer.rs driven by /repo/src/analyzers/ast_walker.rs
   the way ProjectManager::analyze_ast drives it (AstWalker::new(true); run; append_diagnostics).
   Executable; no property proofs in this file.

   The walker is modelled by the list of visit calls it makes (pre-order over the root's children,
   each visited node together with the parent it was reached from: DynamicChild{data,parent}); the
   analyser is a fold of `step` (= IVisitor::visit) over that list followed by notify_end.

   `keyf` is the function applied to a name before it is used as a key of cur_local_vars.
   Since /repo e5fd419 the code uses `get_identifier().to_uppercase()`: keyf := key_today = upper
   (before: the spelling itself).  The message prints the DECLARED spelling
   (`val.ident_token.get_value_as_str()`), and since /repo 993bb42 a terminal whose token is a
   string literal is skipped before the map lookup.  The theorems are generic in keyf. *)
From GoldV Require Import Base Tokens Lexer AstKinds Tree.

(* the key function of the code as it is: names are case-insensitive *)
Definition key_today (s : str) : str := upper s.

(* ---- the walker ------------------------------------------------------------------------- *)

Definition ev := (node * node)%type.       (* DynamicChild: (parent, data) *)
Definition ev_parent (e : ev) : node := fst e.
Definition ev_node (e : ev) : node := snd e.

(* AstWalker::visit: the visitors see the node, then its children (get_children_ref_dynamic:
   each child wrapped with parent = this node) are visited in order *)
Fixpoint walk (p : node) (n : node) {struct n} : list ev :=
  (p, n) ::
  match n with
  | Node _ _ _ _ _ ch =>
      (fix go (l : list node) {struct l} : list ev :=
         match l with
         | [] => []
         | c :: l' => walk n c ++ go l'
         end) ch
  end.

Fixpoint walk_list (p : node) (l : list node) : list ev :=
  match l with
  | [] => []
  | c :: l' => walk p c ++ walk_list p l'
  end.

(* AstWalker::run: the ROOT'S CHILDREN are visited (the root itself is not), then notify_end *)
Definition events (file : node) : list ev := walk_list file (nchildren file).

(* ---- the analyser ----------------------------------------------------------------------- *)

Record vinfo := mkV { vuses : N; vrange : range; vname : str }.   (* VarInfo: use_count, ident_token (its range, its value) *)

Record diag := mkDiag {
  dsev : N;            (* DiagnosticSeverity: 1 ERROR, 2 WARNING *)
  dclass : N;          (* 0 = "Unused var: <key>", 1 = "Var name already declared" *)
  drange : range;
  dkey : str           (* the name printed in the message ([] for class 1) *)
}.

Record st := mkSt {
  cur : list (str * vinfo);     (* cur_local_vars; insertion order, never observed *)
  diags : list diag             (* diagnostics, in push order *)
}.

Definition st0 : st := mkSt [] [].

Definition SEV_ERROR : N := 1.
Definition SEV_WARNING : N := 2.
Definition CL_UNUSED : N := 0.
Definition CL_DUP : N := 1.

(* node.identifier.get_range() of an AstLocalVariableDeclaration: the K_ident token of the dump *)
Definition ident_range (n : node) : range :=
  match attr_tok K_ident n with Some t => trange t | None => nrange n end.

(* format!("Unused var: {}", val.ident_token.get_value_as_str()) *)
Definition unused_of (m : list (str * vinfo)) : list diag :=
  flat_map (fun kv => if vuses (snd kv) =? 0
                      then [mkDiag SEV_WARNING CL_UNUSED (vrange (snd kv)) (vname (snd kv))] else []) m.

(* check_unused_vars (HashMap iteration; order unobservable) *)
Definition check_unused (s : st) : st := mkSt (cur s) (diags s ++ unused_of (cur s)).

(* check_unused_vars(); cur_local_vars = HashMap::new() *)
Definition reset (s : st) : st := mkSt [] (diags (check_unused s)).

(* to_string_ident_pos = format!("{}:{}", get_identifier(), get_pos().to_string_brief()):
   the identifier and the start position ("(l:L,c:C)"); two such strings are equal iff both
   components are (the position part is delimited from the right).  get_pos() is range.start for
   every node kind that can be an operand (checks/c15.py ASSUMPTIONS; the harness flags a tree
   where it is not). *)
Definition pos_eqb (a b : pos) : bool := (pline a =? pline b) && (pcol a =? pcol b).
Definition ident_pos_eqb (a b : node) : bool :=
  str_eqb (nident a) (nident b) && pos_eqb (rstart (nrange a)) (rstart (nrange b)).

Definition op_is_dot (p : node) : bool :=
  match attr_tok K_op p with Some t => tt_eqb (tty t) TDot | None => false end.

(* is_left_node: the parent is always Some in a walk *)
Definition is_left_node (p n : node) : bool :=
  if is_kind KAstBinaryOp p then
    if negb (op_is_dot p) then true
    else match nchildren p with
         | l :: _ => ident_pos_eqb l n           (* bin_node.left_node *)
         | [] => true                            (* not reachable: n is a child of p *)
         end
  else true.

(* terminal.token.token_type == TokenType::StringLiteral (the K_token attribute of the dump) *)
Definition is_string_lit (n : node) : bool :=
  match attr_tok K_token n with Some t => tt_eqb (tty t) TStringLiteral | None => false end.

(* notify_terminal_node: a string literal is skipped before the lookup *)
Definition notify_terminal (keyf : str -> str) (s : st) (p n : node) : st :=
  if is_string_lit n then s else
  let k := keyf (nident n) in
  match alookup k (cur s) with
  | Some v => if is_left_node p n
              then mkSt (ainsert k (mkV (vuses v + 1) (vrange v) (vname v)) (cur s)) (diags s)
              else s
  | None => s
  end.

(* notify_local_var_node.  ident_token.value is the declaration's own identifier:
   AstLocalVariableDeclaration::get_identifier() returns identifier.get_value_as_str() *)
Definition notify_local_var (keyf : str -> str) (s : st) (n : node) : st :=
  let k := keyf (nident n) in
  match alookup k (cur s) with
  | Some _ => mkSt (cur s) (diags s ++ [mkDiag SEV_ERROR CL_DUP (ident_range n) []])
  | None => mkSt (ainsert k (mkV 0 (ident_range n) (nident n)) (cur s)) (diags s)
  end.

(* IVisitor::visit: four successive downcasts *)
Definition step (keyf : str -> str) (s : st) (e : ev) : st :=
  let p := ev_parent e in
  let n := ev_node e in
  let s1 := if is_kind KAstProcedure n then reset s else s in
  let s2 := if is_kind KAstFunction n then reset s1 else s1 in
  let s3 := if is_kind KAstTerminal n then notify_terminal keyf s2 p n else s2 in
  if is_kind KAstLocalVariableDeclaration n then notify_local_var keyf s3 n else s3.

(* run: visit everything, then notify_end = check_unused_vars *)
Definition run (keyf : str -> str) (l : list ev) (s : st) : st :=
  check_unused (fold_left (step keyf) l s).

(* all diagnostics of the analyser for one file (append_diagnostics) *)
Definition analyze (keyf : str -> str) (file : node) : list diag :=
  diags (run keyf (events file) st0).

Definition is_unused_diag (d : diag) : bool := dclass d =? CL_UNUSED.
Definition unused_vars (keyf : str -> str) (file : node) : list diag :=
  filter is_unused_diag (analyze keyf file).
Definition dup_errors (keyf : str -> str) (file : node) : list diag :=
  filter (fun d => negb (is_unused_diag d)) (analyze keyf file).

(* the code as it is *)
Definition analyze_today (file : node) : list diag := analyze key_today file.
