(* Go-to-definition and completion on ONE document, at tree level: from the real syntax tree
   (Model/Tree.v), the tables AstAnnotator builds from it (Model/Annot.v) and a position, the answer of
     /repo/src/manager/definition_service.rs   get_definition -> handle_node -> handle_generic
                                               (generate_loc_link_single / _all / generate_right_hand_of_entity)
     /repo/src/manager/completion_service.rs   generate_completion_proposals -> generate_for_node
                                               (generate_completion_items_lhs / _rhs / generate_rhs_of_entity)
     /repo/src/manager/utils.rs                search_encasing_node, class_level_table
     /repo/src/analyzers_v2/type_resolver.rs   get_nearest_symbol_table, search_sym_info_w_class, search_sym_info_through_parent
   in a workspace that holds this one file, named <stem>.god (class_uri_map: upper-cased stem).

   Everything that needs another document gets the distinguished outcome Outside, never a guess:
   a look-up that misses in the document's own tables while the document has a parent class or a
   `uses`; every all-declarations look-up and every completion when there is a parent class; the
   name after a dot unless the left operand is the terminal `self` / the header's own name and
   nothing else in the document is called so (its eval type is then the class / module itself,
   whatever the moment of annotation); trees with a procedure / function node below the first
   level (never delivered by the parser: the tables would not line up with the method nodes).
   Executable; no property proofs in this file. *)
From GoldV Require Import Base Tokens Lexer AstKinds Tree Encase SymTab Scoping Annot.

Inductive outcome (A : Type) := Outside | Ans (a : A).
Arguments Outside {A}.
Arguments Ans {A} a.

(* target_selection_range, target_range of a LocationLink (the target file is this document) *)
Definition link := (range * range)%type.

(* ---------- search_encasing_node with the way down: (index among the siblings, node) ---------- *)

Fixpoint descend (p : pos) (n : node) : list (nat * node) :=
  match n with
  | Node _ _ _ _ _ ch =>
      (fix go (i : nat) (l : list node) : list (nat * node) :=
         match l with
         | [] => []
         | c :: l' => if contains (nrange c) p then (i, c) :: descend p c else go (S i) l'
         end) O ch
  end.

(* nearest first: the encasing node, its parent, ..., the root *)
Definition path_up (p : pos) (root : node) : list (nat * node) := rev ((O, root) :: descend p root).

(* ---------- the tables as C18 scopes: tag = symbol type and position in symbols_list ---------- *)

Fixpoint ins_all (s : scope) (i : N) (l : list asym) : scope :=
  match l with
  | [] => s
  | a :: r => ins_all (ins s (a_kind a) (a_name a) i) (i + 1) r
  end.

Definition scope_of (T : table) : scope := ins_all (empty_scope (cls_str T)) 0 (t_syms T).

Definition sym_at (T : table) (x : sym) : option asym := nth_error (t_syms T) (N.to_nat (dtag x)).

(* hash_map.get(upper id) on one table *)
Definition find_in (T : table) (id : str) : option asym :=
  match scope_find (scope_of T) id with Some x => sym_at T x | None => None end.

(* search_symbol_info_wparent along parent links: the first table that knows the name *)
Fixpoint lookup (ch : list table) (id : str) : option (table * asym) :=
  match ch with
  | [] => None
  | T :: r => match find_in T id with Some a => Some (T, a) | None => lookup r id end
  end.

(* search_all_symbol_info: one hit per table that knows the name, nearest first *)
Fixpoint lookup_all (ch : list table) (id : str) : list (table * asym) :=
  match ch with
  | [] => []
  | T :: r => (match find_in T id with Some a => [(T, a)] | None => [] end) ++ lookup_all r id
  end.

Definition opt_str_eqb (a b : option str) : bool :=
  match a, b with
  | Some x, Some y => str_eqb x y
  | None, None => true
  | _, _ => false
  end.

(* manager/utils.rs class_level_table *)
Fixpoint class_level_t (ch : list table) : list table :=
  match ch with
  | T :: r =>
      match r with
      | P :: _ => if opt_str_eqb (t_cls P) (t_cls T) then class_level_t r else ch
      | [] => ch
      end
  | [] => ch
  end.

(* ---------- what the document refers to outside itself ---------- *)

Definition has_parent_node (n : node) : bool :=
  is_kind KAstClass n && match attr_tok K_parent n with Some _ => true | None => false end.
Definition has_uses_node (n : node) : bool :=
  is_kind KAstUses n && match uses_names n with [] => false | _ => true end.

Definition all_nodes (t : node) : list node := map snd (visit_seq false t).

Definition foreign_parent (t : node) : bool := existsb has_parent_node (all_nodes t).
Definition foreign (t : node) : bool := foreign_parent t || existsb has_uses_node (all_nodes t).

(* ---------- which table a node sees (get_nearest_symbol_table) ---------- *)

Definition is_method_node (n : node) : bool := is_method_kind (nkind n).

(* no method node below the first level, the root is none: the method tables line up with the
   method children of the root *)
Definition flat_methods (t : node) : bool :=
  negb (is_method_node t) &&
  forallb (fun c => forallb (fun p => negb (is_method_node (snd p))) (below t c)) (nchildren t).

(* steps = descend p t: the chain [method table; root table] when the first step is a method
   child, else [root table] *)
Definition chain_for (t : node) (steps : list (nat * node)) : option (list table) :=
  let A := annotate false t in
  match steps with
  | (i, c) :: _ =>
      if is_method_node c then
        match nth_error (st_done A) (length (filter is_method_node (firstn i (nchildren t)))) with
        | Some mt => Some [mt; st_root A]
        | None => None
        end
      else Some [st_root A]
  | [] => Some [st_root A]
  end.

(* ---------- get_uri_for_class in the one-file workspace ---------- *)

Definition indexed1 (stem c : str) : bool := ci_eqb c stem.

(* ---------- get_id ---------- *)

Definition tok_contains (o : option tok) (p : pos) : bool :=
  match o with Some k => contains (trange k) p | None => false end.

Definition is_member_decl (n : node) : bool :=
  is_kind KAstGlobalVariableDeclaration n || is_kind KAstConstantDeclaration n || is_kind KAstTypeDeclaration n.

Definition get_id (n : node) (p : pos) : option str :=
  if is_kind KAstTerminal n || is_kind KAstTypeBasic n || is_kind KAstTypeReference n || is_kind KAstMethodCall n
  then Some (nident n)
  else if is_kind KAstClass n then
    (if tok_contains (attr_tok K_parent n) p then option_map tval (attr_tok K_parent n) else None)
  else if is_member_decl n then
    (if tok_contains (attr_tok K_ident n) p then option_map tval (attr_tok K_ident n) else None)
  else None.

(* ---------- links ---------- *)

Definition link_of (a : asym) : link := (a_sel a, a_range a).

(* generate_loc_link_single (search_uses = true) *)
Definition def_single (t : node) (stem : str) (ch : list table) (oid : option str) : outcome (list link) :=
  match oid with
  | None => Ans []                                  (* "Cannot get id for node" *)
  | Some id =>
      match lookup ch id with
      | Some (T, a) => if indexed1 stem (cls_str T) then Ans [link_of a] else Ans []
      | None => if foreign t then Outside else Ans []
      end
  end.

(* generate_loc_link_all: an unknown class of one hit fails the whole request *)
Definition def_all (t : node) (stem : str) (ch : list table) (oid : option str) : outcome (list link) :=
  match oid with
  | None => Ans []
  | Some id =>
      if foreign_parent t then Outside
      else
        let hits := lookup_all ch id in
        if forallb (fun h => indexed1 stem (cls_str (fst h))) hits then Ans (map (fun h => link_of (snd h)) hits)
        else Ans []
  end.

(* ---------- the left operand of a dot whose eval type is the document's own class / module ---------- *)

Definition is_header_node (n : node) : bool := is_kind KAstClass n || is_kind KAstModule n.

(* the header, when the document has exactly one, as a child of the root in front of every method *)
Definition the_header (t : node) : option node :=
  match filter is_header_node (all_nodes t) with
  | [_] =>
      match filter (fun c => is_header_node c || is_method_node c) (nchildren t) with
      | h :: _ => if is_header_node h then Some h else None
      | [] => None
      end
  | _ => None
  end.

Definition header_kind_sym (a : asym) : bool :=
  match a_kind a with KClass | KModule => true | _ => false end.

(* no symbol of any table other than the header's is called like L *)
Definition name_free (t : node) (L : str) : bool :=
  let A := annotate false t in
  forallb (fun T => forallb (fun a => header_kind_sym a || negb (ci_eqb (a_name a) L)) (t_syms T))
          (st_root A :: st_done A).

(* Some entity: the eval type of the terminal `left` written inside a method is Class / Module(entity) *)
Definition own_entity (t : node) (lft : node) : option str :=
  if is_kind KAstTerminal lft then
    match the_header t with
    | Some h =>
        let L := nident lft in
        if name_free t L &&
           (ci_eqb L (nident h) || (is_kind KAstClass h && ci_eqb L s_self))
        then Some (nident h) else None
    | None => None
    end
  else None.

Definition first_child (n : node) : option node :=
  match nchildren n with c :: _ => Some c | [] => None end.

Definition is_dot (n : node) : bool :=
  is_kind KAstBinaryOp n &&
  match attr_tok K_op n with Some o => tt_eqb (tty o) TDot | None => false end.

Definition in_method (steps : list (nat * node)) : bool :=
  match steps with (_, c) :: _ => is_method_node c | [] => false end.

(* ---------- get_definition ---------- *)

Definition definition (t : node) (stem : str) (p : pos) : outcome (list link) :=
  if negb (flat_methods t) then Outside else
  let steps := descend p t in
  match chain_for t steps, path_up p t with
  | Some ch, (idx, enc) :: up =>
      let parent := match up with (_, q) :: _ => Some q | [] => None end in
      match parent with
      | Some q =>
          if is_dot q then
            (match idx with
             | O => def_single t stem ch (get_id enc p)                       (* left operand *)
             | S _ =>                                                         (* after the dot *)
                 match first_child q with
                 | Some lft =>
                     match own_entity t lft with
                     | Some ent =>
                         if in_method steps then
                           (if indexed1 stem ent then def_all t stem (class_level_t ch) (get_id enc p) else Ans [])
                         else Outside
                     | None => Outside
                     end
                 | None => Outside
                 end
             end)
          else if is_method_node q && Nat.eqb idx 0 then
            def_all t stem (class_level_t ch) (get_id enc p)                 (* declared name of a method *)
          else if is_member_decl enc then def_all t stem ch (get_id enc p)   (* declared name of a member *)
          else def_single t stem ch (get_id enc p)
      | None =>
          if is_member_decl enc then def_all t stem ch (get_id enc p) else def_single t stem ch (get_id enc p)
      end
  | _, _ => Outside
  end.

(* ---------- generate_completion_proposals ---------- *)

Definition labels_lhs (ch : list table) : list str :=
  map sid (filter is_plain_kind (collect (map scope_of ch))).
Definition labels_rhs (ch : list table) : list str :=
  map sid (filter is_member_kind (collect (map scope_of ch))).

Definition compl_lhs (t : node) (ch : list table) : outcome (list str) :=
  if foreign_parent t then Outside else Ans (labels_lhs ch).

Definition compl_rhs (t : node) (stem : str) (steps : list (nat * node)) (ch : list table) (lft : option node)
  : outcome (list str) :=
  match lft with
  | Some l =>
      match own_entity t l with
      | Some ent =>
          if in_method steps then
            (if indexed1 stem ent then
               (if foreign_parent t then Outside else Ans (labels_rhs (class_level_t ch)))
             else Ans [])
          else Outside
      | None => Outside
      end
  | None => Outside
  end.

Definition completion (t : node) (stem : str) (p : pos) : outcome (list str) :=
  if negb (flat_methods t) then Outside else
  let steps := descend p t in
  match chain_for t steps, path_up p t with
  | Some ch, (idx, enc) :: up =>
      if is_dot enc then
        (match attr_tok K_op enc with
         | Some o => if pos_leb (rend (trange o)) p then compl_rhs t stem steps ch (first_child enc)
                     else compl_lhs t ch
         | None => Outside
         end)
      else
        match up with
        | (_, q) :: _ =>
            if is_dot q then
              (match idx with O => compl_lhs t ch | S _ => compl_rhs t stem steps ch (first_child q) end)
            else compl_lhs t ch
        | [] => compl_lhs t ch
        end
  | _, _ => Outside
  end.
