(* Model of /repo/src/threadpool.rs (ThreadPool, Worker, Drop for ThreadPool).
   Executable small-step semantics; no property proofs in this file.

   The code being modelled:

     Worker thread:   loop {
                        let msg = receiver.lock().unwrap().recv().unwrap();   // (1)
                        match msg { NewJob(job) => (job.run)(),                // (2)
                                    Terminate   => return }                    // (3)
                      }
     execute(f):      sender.send(NewJob(f)).unwrap()
     Drop:            for _ in workers { sender.send(Terminate) }              // one per worker
                      for worker in workers { worker.thread.take().join().unwrap() }   // index order

   Statement (1) is four steps of a worker: `lock()` (EAcquire: blocks while another worker holds the
   receiver mutex), `recv()` (ERecv: blocks while the channel is empty, takes the OLDEST message:
   std::sync::mpsc is FIFO), and the drop of the temporary MutexGuard at the end of the `let`
   statement (ERelease) -- i.e. BEFORE the job of (2) runs.  Then EStart/EFinish bracket (2) and
   EExit is (3).

   Job ids are labels of the distinct closures handed to `execute`/`execute_req` (a closure is
   FnOnce and moved into the channel, so one closure is submitted once: ESubmit of an id that was
   already submitted is not enabled).  Jobs that panic are outside the model (ASSUMPTIONS of
   checks/c20.py). *)
From GoldV Require Import Base.

Inductive msg := Job (j : N) | Terminate.

Inductive wstat :=
| Idle                 (* at the top of the loop, not holding the receiver lock *)
| Locked               (* holds the receiver lock, blocked in / about to call recv() *)
| Holding (m : msg)    (* recv() returned m; the guard temporary is still alive: lock held *)
| Ready (m : msg)      (* guard dropped (lock released), msg bound, match not yet entered *)
| Running (j : N)      (* inside (job.run)() *)
| Stopped.             (* returned from the thread closure *)

Inductive ophase :=
| Open                 (* pool alive, owner may submit *)
| Dropping (k : nat)   (* in Drop, first loop: k Terminates sent so far *)
| Joining (k : nat)    (* in Drop, second loop: workers 0..k-1 joined *)
| Joined.              (* Drop returned *)

Record state := mkSt {
  queue : list msg;          (* the mpsc channel, oldest first *)
  lock : option nat;         (* which worker owns the Mutex<Receiver> *)
  workers : list wstat;      (* status of worker 0..n-1 *)
  phase : ophase;
  submitted : list N;        (* history: ids handed to execute, in order *)
  started : list N;          (* history: ids whose closure was entered, in order *)
  finished : list N          (* history: ids whose closure returned, in order *)
}.

Inductive event :=
| ESubmit (j : N)            (* owner: execute / execute_req *)
| EAcquire (w : nat)         (* worker w: receiver.lock() succeeds *)
| ERecv (w : nat)            (* worker w: recv() returns the head of the channel *)
| ERelease (w : nat)         (* worker w: guard temporary dropped *)
| EStart (w : nat) (j : N)   (* worker w enters job j *)
| EFinish (w : nat) (j : N)  (* job j returns on worker w *)
| EExit (w : nat)            (* worker w got Terminate and returns *)
| EDropBegin                 (* owner enters Drop::drop *)
| ESendTerminate             (* owner: one iteration of the first loop of Drop *)
| EJoin (w : nat)            (* owner: thread.join() of worker w returns *)
| EDropEnd.                  (* owner leaves Drop::drop *)

Fixpoint upd {A} (i : nat) (x : A) (l : list A) : list A :=
  match l, i with
  | [], _ => []
  | _ :: l', O => x :: l'
  | y :: l', S i' => y :: upd i' x l'
  end.

Definition memN (j : N) (l : list N) : bool := existsb (N.eqb j) l.

Definition set_worker (st : state) (w : nat) (s : wstat) : state :=
  mkSt (queue st) (lock st) (upd w s (workers st)) (phase st) (submitted st) (started st) (finished st).

Definition init (n : nat) : state := mkSt [] None (repeat Idle n) Open [] [] [].

(* None = the event is not enabled in this state (the thread would block, or is elsewhere) *)
Definition step (st : state) (e : event) : option state :=
  let n := length (workers st) in
  match e with
  | ESubmit j =>
      match phase st with
      | Open => if memN j (submitted st) then None
                else Some (mkSt (queue st ++ [Job j]) (lock st) (workers st) Open
                                (submitted st ++ [j]) (started st) (finished st))
      | _ => None
      end
  | EAcquire w =>
      match lock st, nth_error (workers st) w with
      | None, Some Idle =>
          Some (mkSt (queue st) (Some w) (upd w Locked (workers st)) (phase st)
                     (submitted st) (started st) (finished st))
      | _, _ => None
      end
  | ERecv w =>
      match nth_error (workers st) w, queue st with
      | Some Locked, m :: q =>
          Some (mkSt q (lock st) (upd w (Holding m) (workers st)) (phase st)
                     (submitted st) (started st) (finished st))
      | _, _ => None
      end
  | ERelease w =>
      match nth_error (workers st) w with
      | Some (Holding m) =>
          Some (mkSt (queue st) None (upd w (Ready m) (workers st)) (phase st)
                     (submitted st) (started st) (finished st))
      | _ => None
      end
  | EStart w j =>
      match nth_error (workers st) w with
      | Some (Ready (Job j')) =>
          if N.eqb j j' then
            Some (mkSt (queue st) (lock st) (upd w (Running j) (workers st)) (phase st)
                       (submitted st) (started st ++ [j]) (finished st))
          else None
      | _ => None
      end
  | EFinish w j =>
      match nth_error (workers st) w with
      | Some (Running j') =>
          if N.eqb j j' then
            Some (mkSt (queue st) (lock st) (upd w Idle (workers st)) (phase st)
                       (submitted st) (started st) (finished st ++ [j]))
          else None
      | _ => None
      end
  | EExit w =>
      match nth_error (workers st) w with
      | Some (Ready Terminate) => Some (set_worker st w Stopped)
      | _ => None
      end
  | EDropBegin =>
      match phase st with
      | Open => Some (mkSt (queue st) (lock st) (workers st) (Dropping 0)
                           (submitted st) (started st) (finished st))
      | _ => None
      end
  | ESendTerminate =>
      match phase st with
      | Dropping k =>
          if Nat.ltb k n then
            Some (mkSt (queue st ++ [Terminate]) (lock st) (workers st)
                       (if Nat.eqb (S k) n then Joining 0 else Dropping (S k))
                       (submitted st) (started st) (finished st))
          else None
      | _ => None
      end
  | EJoin w =>
      match phase st with
      | Joining k =>
          match nth_error (workers st) k with
          | Some Stopped =>
              if Nat.eqb w k then
                Some (mkSt (queue st) (lock st) (workers st) (Joining (S k))
                           (submitted st) (started st) (finished st))
              else None
          | _ => None
          end
      | _ => None
      end
  | EDropEnd =>
      match phase st with
      | Joining k =>
          if Nat.eqb k n then
            Some (mkSt (queue st) (lock st) (workers st) Joined
                       (submitted st) (started st) (finished st))
          else None
      | _ => None
      end
  end.

Fixpoint run (st : state) (evs : list event) : option state :=
  match evs with
  | [] => Some st
  | e :: r => match step st e with Some st' => run st' r | None => None end
  end.

(* ---------- what an observer (the instrumented closures and the owner thread) can log ---------- *)

Inductive vevent :=
| VSubmit (j : N)
| VStart (w : nat) (j : N)
| VFinish (w : nat) (j : N)
| VDropBegin
| VDropEnd.

Definition visible (e : event) : list vevent :=
  match e with
  | ESubmit j => [VSubmit j]
  | EStart w j => [VStart w j]
  | EFinish w j => [VFinish w j]
  | EDropBegin => [VDropBegin]
  | EDropEnd => [VDropEnd]
  | _ => []
  end.

Definition trace (evs : list event) : list vevent := flat_map visible evs.

(* ---------- the monitor: is a visible log a behaviour of the model with n workers? ---------- *)

Inductive mphase := MOpen | MDrop | MEnd.

Record mon := mkMon {
  m_ws : list (option N);    (* per worker: the job it is visibly running *)
  m_pend : list N;           (* submitted and not yet started, in submission order *)
  m_sub : list N;            (* everything submitted so far *)
  m_ph : mphase
}.

Definition mon_init (n : nat) : mon := mkMon (repeat None n) [] [] MOpen.

Definition is_some {A} (o : option A) : bool := match o with Some _ => true | None => false end.
Definition nrun (ws : list (option N)) : nat := length (filter is_some ws).

Fixpoint remove1 (j : N) (l : list N) : list N :=
  match l with
  | [] => []
  | x :: l' => if N.eqb x j then l' else x :: remove1 j l'
  end.

(* VStart w j: worker w is free; j is pending; and j is among the first (n - running) pending jobs.
   The last clause is the visible face of FIFO reception: messages leave the channel oldest first
   and a received job sits on a worker that runs nothing else, so a job can be overtaken by at
   most (free workers - 1) younger jobs.  With one worker it is strict submission order. *)
Definition mon_step (m : mon) (v : vevent) : option mon :=
  match v with
  | VSubmit j =>
      match m_ph m with
      | MOpen => if memN j (m_sub m) then None
                 else Some (mkMon (m_ws m) (m_pend m ++ [j]) (m_sub m ++ [j]) MOpen)
      | _ => None
      end
  | VStart w j =>
      match m_ph m, nth_error (m_ws m) w with
      | MEnd, _ => None
      | _, Some None =>
          if memN j (firstn (length (m_ws m) - nrun (m_ws m)) (m_pend m)) then
            Some (mkMon (upd w (Some j) (m_ws m)) (remove1 j (m_pend m)) (m_sub m) (m_ph m))
          else None
      | _, _ => None
      end
  | VFinish w j =>
      match m_ph m, nth_error (m_ws m) w with
      | MEnd, _ => None
      | _, Some (Some j') =>
          if N.eqb j j' then Some (mkMon (upd w None (m_ws m)) (m_pend m) (m_sub m) (m_ph m))
          else None
      | _, _ => None
      end
  | VDropBegin =>
      match m_ph m with
      | MOpen => Some (mkMon (m_ws m) (m_pend m) (m_sub m) MDrop)
      | _ => None
      end
  | VDropEnd =>
      match m_ph m, m_pend m with
      | MDrop, [] => if Nat.eqb (nrun (m_ws m)) 0 then Some (mkMon (m_ws m) [] (m_sub m) MEnd)
                     else None
      | _, _ => None
      end
  end.

(* index of the first event the monitor refuses *)
Fixpoint mon_run (m : mon) (tr : list vevent) (i : nat) : option nat :=
  match tr with
  | [] => None
  | v :: r => match mon_step m v with
              | Some m' => mon_run m' r (S i)
              | None => Some i
              end
  end.

Definition first_bad (n : nat) (tr : list vevent) : option nat := mon_run (mon_init n) tr 0.

Definition trace_ok (n : nat) (tr : list vevent) : bool :=
  match first_bad n tr with None => true | Some _ => false end.
