(* Model for C03: one document's cache (DocumentInfo: opened / saved / file on disk, guarded by a
   RwLock) under concurrent access: the main thread processes change / save / close notifications
   as sequences of atomic actions (one action = one critical section of the code, or one step
   outside any lock); any number of request threads read the document as get_parsed_document
   does (read lock: opened, else saved; else write lock: parse the file, keep it as saved).
   A schedule interleaves the main thread's actions with the requests' steps.
   `old_change` is the handler before the repair (reset and install in two critical sections).
   No property proofs here. *)
From GoldV Require Import Base.

Record dstate := mkD {
  opened : option N;       (* version of the in-editor document, if any *)
  saved : option N;        (* version of the parsed on-disk copy, if cached *)
  disk : N;                (* version of the file on disk *)
  wlock : bool             (* the DocumentInfo write lock is held by the main thread *)
}.

(* what a freshly started server would use: the in-editor text if any, else the file *)
Definition logical (s : dstate) : N := match opened s with Some v => v | None => disk s end.

Inductive act :=
| AWLock | AWUnlock
| AResetTransient                 (* reset_transient_data: opened := None (symbol table too) *)
| AResetAll                       (* reset_all_data: opened := None, saved := None *)
| AInstall (v : N)                (* set_opened_document(Some(new)) *)
| ASetSavedNone | ASetOpenedNone  (* notify_document_closed, two critical sections *)
| AClientWritesDisk.              (* the client rewrites the file with the logical text before didSave *)

Definition apply_act (a : act) (s : dstate) : dstate :=
  match a with
  | AWLock => mkD (opened s) (saved s) (disk s) true
  | AWUnlock => mkD (opened s) (saved s) (disk s) false
  | AResetTransient => mkD None (saved s) (disk s) (wlock s)
  | AResetAll => mkD None None (disk s) (wlock s)
  | AInstall v => mkD (Some v) (saved s) (disk s) (wlock s)
  | ASetSavedNone => mkD (opened s) None (disk s) (wlock s)
  | ASetOpenedNone => mkD None (saved s) (disk s) (wlock s)
  | AClientWritesDisk => mkD (opened s) (saved s) (logical s) (wlock s)
  end.

Inductive notif := NChange (v : N) | NSave | NClose | NChangeOld (v : N).

(* the handlers as the code runs them *)
Definition program (n : notif) : list act :=
  match n with
  | NChange v => [AWLock; AResetTransient; AInstall v; AWUnlock]                 (* after the repair *)
  | NChangeOld v => [AWLock; AResetTransient; AWUnlock; AWLock; AInstall v; AWUnlock]
  | NSave => [AClientWritesDisk; AWLock; AResetAll; AWUnlock]
  | NClose => [AWLock; AResetAll; AWUnlock]          (* one critical section since /repo 9bf8fa8 (was: saved, then opened, in two) *)
  end.

Definition run_acts (l : list act) (s : dstate) : dstate := fold_left (fun s a => apply_act a s) l s.

(* a request's read of the document: Some version when the read lock can be taken *)
Definition read_doc (s : dstate) : option (N * dstate) :=
  if wlock s then None
  else match opened s with
       | Some v => Some (v, s)
       | None => match saved s with
                 | Some v => Some (v, s)
                 | None => Some (disk s, mkD (opened s) (Some (disk s)) (disk s) (wlock s))   (* parse + cache *)
                 end
       end.

(* global state: document, the main thread's remaining actions of the notification in progress
   together with the versions acceptable while it is in progress, remaining notifications, and the
   answers of the requests that have read so far (version, versions acceptable at that instant) *)
Record gstate := mkG {
  doc : dstate;
  cur : list act;
  window : option (N * N);          (* (logical before, logical after) of the notification in progress *)
  todo : list notif;
  answers : list (N * list N)
}.

Definition acceptable (g : gstate) : list N :=
  match window g with
  | Some (b, a) => [b; a]
  | None => [logical (doc g)]
  end.

Inductive ev := EMain | ERead.      (* who moves next *)

Definition step (g : gstate) (e : ev) : gstate :=
  match e with
  | EMain =>
      match cur g with
      | a :: rest =>
          let d := apply_act a (doc g) in
          mkG d rest (match rest with [] => None | _ => window g end) (todo g) (answers g)
      | [] =>
          match todo g with
          | n :: ns =>
              let p := program n in
              let b := logical (doc g) in
              let a := logical (run_acts p (doc g)) in
              mkG (doc g) p (Some (b, a)) ns (answers g)
          | [] => g
          end
      end
  | ERead =>
      match read_doc (doc g) with
      | Some (v, d) => mkG d (cur g) (window g) (todo g) ((v, acceptable g) :: answers g)
      | None => g                                  (* blocked on the lock: nothing happens *)
      end
  end.

Definition run (sched : list ev) (g : gstate) : gstate := fold_left step sched g.

Definition init (op sv : option N) (dk : N) (ns : list notif) : gstate :=
  mkG (mkD op sv dk false) [] None ns [].

Definition answer_ok (x : N * list N) : bool := existsb (N.eqb (fst x)) (snd x).
