(* Model of the workspace index: /repo/src/manager/document_service.rs (DocumentService::new,
   index_files, get_key_for_path/uri, get_uri_for_class, get_document_info, get_parsed_document,
   notify_document_closed, count_files), /repo/src/manager/data_structs.rs (DocumentInfo,
   reset_all_data, reset_transient_data) and /repo/src/manager/mod.rs (index_files,
   notify_document_changed, notify_document_saved, generate_document_symbols).
   Executable; no property proofs in this file.

   Conventions.  A file name is a `str` (code points); a path is the list of its components below
   the top of the modelled file system; a URI is identified with its path (file names are over
   [A-Za-z0-9_.], so Url::from_file_path / to_file_path are mutually inverse and nothing is
   percent-encoded; no symlinks, so canonicalize is the identity on existing paths).  The order
   of `read_dir` is the order of the entry list (the real order is OS dependent: observations are
   compared as sorted sets).  A DocumentInfo is a record with an identity (allocation counter,
   the model of the Arc pointer) and its editor state. *)
From GoldV Require Import Base.

Definition path := list str.

Inductive fs :=
| File (name : str)
| Dir (name : str) (entries : list fs).

Definition fname (t : fs) : str := match t with File n => n | Dir n _ => n end.

(* ---------- std::path::Path::file_stem / extension (rsplit_file_at_dot) ---------- *)

Definition dot : N := 46.

(* the pieces before and after the last '.', None when there is no '.' *)
Fixpoint split_last_dot (s : str) : option (str * str) :=
  match s with
  | [] => None
  | c :: s' =>
      match split_last_dot s' with
      | Some (b, a) => Some (c :: b, a)
      | None => if c =? dot then Some ([], s') else None
      end
  end.

(* (before, after) exactly as std's rsplit_file_at_dot: ".." and names whose only '.' is the
   first character have no extension *)
Definition rsplit_file_at_dot (name : str) : option str * option str :=
  if str_eqb name [dot; dot] then (Some name, None)
  else match split_last_dot name with
       | None => (None, Some name)
       | Some ([], _) => (Some name, None)
       | Some (b, a) => (Some b, Some a)
       end.

(* before.or(after) *)
Definition file_stem (name : str) : option str :=
  match rsplit_file_at_dot name with
  | (Some b, _) => Some b
  | (None, a) => a
  end.

(* before.and(after) *)
Definition extension (name : str) : option str :=
  match rsplit_file_at_dot name with
  | (Some _, a) => a
  | (None, _) => None
  end.

Definition god : str := [103; 111; 100].

(* entry_path.extension().map_or(false, |ext| ext == "god") *)
Definition is_god_ext (name : str) : bool :=
  match extension name with
  | Some e => str_eqb e god
  | None => false
  end.

(* ---------- maps keyed by paths (HashMap<String, _> keyed by the canonical path) ---------- *)

Fixpoint path_eqb (a b : path) : bool :=
  match a, b with
  | [], [] => true
  | x :: a', y :: b' => str_eqb x y && path_eqb a' b'
  | _, _ => false
  end.

Fixpoint plookup {V} (k : path) (m : list (path * V)) : option V :=
  match m with
  | [] => None
  | (k', v) :: m' => if path_eqb k k' then Some v else plookup k m'
  end.

(* HashMap::insert: overwrite or add *)
Fixpoint pinsert {V} (k : path) (v : V) (m : list (path * V)) : list (path * V) :=
  match m with
  | [] => [(k, v)]
  | (k', v') :: m' => if path_eqb k k' then (k, v) :: m' else (k', v') :: pinsert k v m'
  end.

(* mutation of the object behind the Arc<RwLock<_>> stored under k *)
Fixpoint pupdate {V} (k : path) (f : V -> V) (m : list (path * V)) : list (path * V) :=
  match m with
  | [] => []
  | (k', v) :: m' => if path_eqb k k' then (k', f v) :: m' else (k', v) :: pupdate k f m'
  end.

(* ---------- the file system ---------- *)

Fixpoint find_entry (es : list fs) (n : str) : option fs :=
  match es with
  | [] => None
  | t :: es' => if str_eqb (fname t) n then Some t else find_entry es' n
  end.

(* what is at path p below t (p = [] is t itself) *)
Fixpoint node_at (t : fs) (p : path) : option fs :=
  match p with
  | [] => Some t
  | n :: p' =>
      match t with
      | File _ => None
      | Dir _ es => match find_entry es n with
                    | Some t' => node_at t' p'
                    | None => None
                    end
      end
  end.

Fixpoint map_entry (n : str) (f : fs -> fs) (es : list fs) : list fs :=
  match es with
  | [] => []
  | t :: es' => if str_eqb (fname t) n then f t :: es' else t :: map_entry n f es'
  end.

(* a new file n below freshly created directories *)
Fixpoint fresh_chain (n : str) (p : path) : fs :=
  match p with
  | [] => File n
  | m :: p' => Dir n [fresh_chain m p']
  end.

(* create_dir_all(parent) + write, nothing happens when a file is in the way of a directory or
   something already has that name; a new entry is listed last *)
Fixpoint create_file (t : fs) (p : path) : fs :=
  match p with
  | [] => t
  | n :: p' =>
      match t with
      | File _ => t
      | Dir d es =>
          match find_entry es n with
          | Some _ => Dir d (map_entry n (fun t' => create_file t' p') es)
          | None => Dir d (es ++ [fresh_chain n p'])
          end
      end
  end.

(* ---------- the service ---------- *)

(* DocumentInfo behind its Arc: identity, opened (version of the in-editor text), saved *)
Record docinfo := mkDoc { did : N; opened : option N; saved : option N }.

Record svc := mkSvc {
  docs : list (path * docinfo);     (* path_docinfo_map *)
  classes : list (str * path);      (* class_uri_map: upper-cased stem -> uri *)
  next : N                          (* allocation counter *)
}.

Definition init_svc : svc := mkSvc [] [] 0.

Record world := mkWorld {
  top : fs;                         (* the file system *)
  ws_root : option path             (* root_path of DocumentService::new *)
}.

Inductive res (A : Type) :=
| Ok (a : A)
| Panic (site : N)      (* 1: canonicalize(path) fails in get_key_for_path: since /repo commit 0f41eb8 an
                              Err(InvalidParams) returned to the caller (it was an unwrap panic before);
                              kept as its own outcome, reported as an error answer by `step`
                           2: read_dir(&path).unwrap() in index_files *)
| OutOfFuel.
Arguments Ok {A} a.
Arguments Panic {A} site.
Arguments OutOfFuel {A}.

(* body of `if file_type.is_file() && is_god_ext`: p = entry_path, n = its last component.
   The doc info is inserted only when the key is absent; the class name is (re-)inserted for
   every *.god file the walk meets (as of /repo commit 716a3a6; before it the class insert sat
   inside the `!contains_key` branch, see known_findings.json "fixed:" for C19). *)
Definition register_file (p : path) (n : str) (st : svc) : svc :=
  let st1 :=
    match plookup p (docs st) with
    | Some _ => st                                       (* contains_key *)
    | None => mkSvc (pinsert p (mkDoc (next st) None None) (docs st)) (classes st) (next st + 1)
    end in
  mkSvc (docs st1)
        (match file_stem n with
         | Some s => ainsert (upper s) p (classes st1)   (* class_uri_map.insert(stem.to_uppercase(), uri) *)
         | None => classes st1
         end)
        (next st1).

Definition stack := list (path * list fs).   (* head = top of the Vec; a directory with what read_dir will list *)

(* `for entry in read_dir(&path)`: directories are pushed, *.god files registered *)
Fixpoint scan (dirp : path) (es : list fs) (st : svc) (stk : stack) : svc * stack :=
  match es with
  | [] => (st, stk)
  | Dir n sub :: es' => scan dirp es' st ((dirp ++ [n], sub) :: stk)
  | File n :: es' =>
      scan dirp es' (if is_god_ext n then register_file (dirp ++ [n]) n st else st) stk
  end.

(* `while !stack.is_empty() { let path = stack.pop().unwrap(); ... }`, one unit of fuel per pop *)
Fixpoint walk (fuel : nat) (stk : stack) (st : svc) : option svc :=
  match stk with
  | [] => Some st
  | (p, es) :: rest =>
      match fuel with
      | O => None
      | S f => let '(st', stk') := scan p es st rest in walk f stk' st'
      end
  end.

(* number of directories in a forest: the number of pops the walk needs *)
Fixpoint dirs_t (t : fs) : nat :=
  match t with
  | File _ => O
  | Dir _ es => S ((fix go (l : list fs) : nat :=
                      match l with [] => O | x :: l' => (dirs_t x + go l')%nat end) es)
  end.

Definition index_files (w : world) (st : svc) : res svc :=
  match ws_root w with
  | None => Ok st                                        (* root_path.is_none() *)
  | Some r =>
      match node_at (top w) r with
      | None => Ok st                                    (* canonicalize fails: logged, return *)
      | Some (File _) => Panic 2                         (* read_dir on a regular file *)
      | Some (Dir n es) =>
          match walk (dirs_t (Dir n es)) [(r, es)] st with
          | Some st' => Ok st'
          | None => OutOfFuel
          end
      end
  end.

(* get_document_info: the key needs the file to exist; an unknown path is registered on the spot,
   class_uri_map is not touched *)
Definition get_document_info (w : world) (p : path) (st : svc) : res (svc * docinfo) :=
  match node_at (top w) p with
  | None => Panic 1
  | Some _ =>
      match plookup p (docs st) with
      | Some d => Ok (st, d)
      | None =>
          let d := mkDoc (next st) None None in
          Ok (mkSvc (pinsert p d (docs st)) (classes st) (next st + 1), d)
      end
  end.

Definition set_doc (p : path) (f : docinfo -> docinfo) (st : svc) : svc :=
  mkSvc (pupdate p f (docs st)) (classes st) (next st).

(* get_uri_for_class *)
Definition lookup_class (st : svc) (c : str) : option path := alookup (upper c) (classes st).

Inductive op :=
| CreateFile (p : path)
| Reindex
| Change (p : path) (v : N)     (* notify_document_changed *)
| Parse (p : path)              (* generate_document_symbols -> get_parsed_document *)
| Save (p : path)               (* notify_document_saved *)
| Close (p : path)              (* notify_document_closed *)
| LookupClass (c : str)
| LookupUri (p : path)          (* get_document_info *)
| Count.

Inductive answer :=
| ANone
| AErr                          (* Err(ProjectManagerError) *)
| APanic (site : N)
| AFuel
| AClass (r : option path)
| ADoc (d : docinfo)
| ACount (n : nat).

Definition is_file (t : fs) : bool := match t with File _ => true | Dir _ _ => false end.

Definition step (s : world * svc) (o : op) : (world * svc) * answer :=
  let '(w, st) := s in
  match o with
  | CreateFile p => ((mkWorld (create_file (top w) p) (ws_root w), st), ANone)
  | Reindex =>
      match index_files w st with
      | Ok st' => ((w, st'), ANone)
      | Panic k => ((w, st), APanic k)
      | OutOfFuel => ((w, st), AFuel)
      end
  | Change p v =>
      match get_document_info w p st with
      | Ok (st1, _) =>
          (* reset_transient_data; parse_content; set_opened_document(Some(new_doc)) *)
          ((w, set_doc p (fun d => mkDoc (did d) (Some v) (saved d)) st1), ANone)
      | Panic k => ((w, st), if k =? 1 then AErr else APanic k)
      | OutOfFuel => ((w, st), AFuel)
      end
  | Parse p =>
      match get_document_info w p st with
      | Ok (st1, d) =>
          match opened d, saved d with
          | None, None =>
              (* parse_document(file_path): reading a directory fails *)
              match node_at (top w) p with
              | Some (File _) => ((w, set_doc p (fun d => mkDoc (did d) (opened d) (Some 0)) st1), ANone)
              | _ => ((w, st1), AErr)
              end
          | _, _ => ((w, st1), ANone)
          end
      | Panic k => ((w, st), if k =? 1 then AErr else APanic k)
      | OutOfFuel => ((w, st), AFuel)
      end
  | Save p =>
      match get_document_info w p st with
      | Ok (st1, _) =>
          let st2 := set_doc p (fun d => mkDoc (did d) None None) st1 in    (* reset_all_data *)
          match index_files w st2 with
          | Ok st3 => ((w, st3), ANone)
          | Panic k => ((w, st2), APanic k)
          | OutOfFuel => ((w, st2), AFuel)
          end
      | Panic k => ((w, st), if k =? 1 then AErr else APanic k)
      | OutOfFuel => ((w, st), AFuel)
      end
  | Close p =>
      match get_document_info w p st with
      | Ok (st1, _) => ((w, set_doc p (fun d => mkDoc (did d) None None) st1), ANone)
      | Panic k => ((w, st), if k =? 1 then AErr else APanic k)
      | OutOfFuel => ((w, st), AFuel)
      end
  | LookupClass c => ((w, st), AClass (lookup_class st c))
  | LookupUri p =>
      match get_document_info w p st with
      | Ok (st1, d) => ((w, st1), ADoc d)
      | Panic k => ((w, st), if k =? 1 then AErr else APanic k)
      | OutOfFuel => ((w, st), AFuel)
      end
  | Count => ((w, st), ACount (length (docs st)))
  end.

(* one observation per operation: the answer and the whole path map after the operation *)
Fixpoint run_from (s : world * svc) (ops : list op) : list (answer * list (path * docinfo)) :=
  match ops with
  | [] => []
  | o :: ops' => let '(s', a) := step s o in (a, docs (snd s')) :: run_from s' ops'
  end.

Definition run (w : world) (ops : list op) : list (answer * list (path * docinfo)) :=
  run_from (w, init_svc) ops.

Definition final_state (w : world) (ops : list op) : world * svc :=
  fold_left (fun s o => fst (step s o)) ops (w, init_svc).
