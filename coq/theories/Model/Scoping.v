(* Model of the scoping core behind go-to-definition (C10) and completion (C11):
     /repo/src/analyzers_v2/ast_annotator.rs   (which symbol tables exist and what they contain),
     /repo/src/analyzers_v2/type_resolver.rs   (eval types of declared types, terminals, calls),
     /repo/src/manager/definition_service.rs   (handle_generic / generate_loc_link_single / _all),
     /repo/src/manager/completion_service.rs   (generate_for_node / generate_completion_items_lhs / _rhs),
   over an ABSTRACT workspace (entities with members and methods).  The symbol tables are the
   C18 model (SymTab): the state the annotator builds is written with insert_scope, the services
   are written with search_wparent / search_all / collect exactly where the code calls
   search_symbol_info_wparent / search_all_symbol_info / collect_unique_symbols_w_parents.
   Not modelled here (covered by the correspondence only): lexer, parser, the annotated tree,
   search_encasing_node (position -> node), the rendering of a workspace to files.
   Executable; no property proofs in this file. *)
From GoldV Require Import Base SymTab.

(* ---------- abstract workspace ---------- *)

Inductive ekind := EClass | EModule.
Inductive mkind := MConst | MType | MField | MProc | MFunc.

(* a declared type as written: nothing | `name` | `refto name` | `listof name` *)
Inductive tyref := TNone | TName (s : str) | TRefTo (s : str) | TListOf (s : str).

Record member := mkMember { m_kind : mkind; m_name : str; m_type : tyref; m_tag : N }.
Record var := mkVar { v_name : str; v_type : tyref; v_tag : N }.
Record method := mkMethod { me_name : str; me_params : list var; me_locals : list var }.

Record entity := mkEntity {
  e_name : str;                 (* name in the class / module header = file stem *)
  e_kind : ekind;
  e_parent : option str;        (* `class aFoo (aBar)` *)
  e_uses : list str;            (* `uses a, b` in order *)
  e_members : list member;      (* constants, types, fields, procedures, functions in declaration order *)
  e_methods : list method       (* bodies' scopes: parameters and local variables of each proc/func *)
}.

Definition workspace := list entity.

(* ---------- SymbolInfo payload: symbol type and declaration tag packed into SymTab's tag ---------- *)

(* SymbolType of symbol_table.rs *)
Inductive skind := KClass | KField | KType | KProc | KFunc | KVariable | KConstant | KModule.

Definition kcode (k : skind) : N :=
  match k with
  | KClass => 0 | KField => 1 | KType => 2 | KProc => 3 | KFunc => 4
  | KVariable => 5 | KConstant => 6 | KModule => 7
  end.

Definition kdecode (c : N) : skind :=
  match c with
  | 0 => KClass | 1 => KField | 2 => KType | 3 => KProc | 4 => KFunc
  | 5 => KVariable | 6 => KConstant | _ => KModule
  end.

Definition pack (k : skind) (t : N) : N := t * 8 + kcode k.
Definition dtag (x : sym) : N := stag x / 8.                 (* which declaration of its entity *)
Definition skind_of (x : sym) : skind := kdecode (stag x mod 8).

Definition ins (s : scope) (k : skind) (name : str) (t : N) : scope := insert_scope s name (pack k t).

Definition kind_of_member (m : member) : skind :=
  match m_kind m with
  | MConst => KConstant | MType => KType | MField => KField | MProc => KProc | MFunc => KFunc
  end.

Definition s_self : str := [115; 101; 108; 102].

(* ---------- the tables the annotator builds ---------- *)

(* handle_class inserts the class symbol and `self` (both pointing at the class name, tag 0);
   handle_module inserts the module symbol *)
Definition header_table (e : entity) : scope :=
  match e_kind e with
  | EClass => ins (ins (empty_scope (e_name e)) KClass (e_name e) 0) KClass s_self 0
  | EModule => ins (empty_scope (e_name e)) KModule (e_name e) 0
  end.

Definition ins_member (s : scope) (m : member) : scope := ins s (kind_of_member m) (m_name m) (m_tag m).
Definition ins_var (s : scope) (v : var) : scope := ins s KVariable (v_name v) (v_tag v).

(* root table of a file: header symbols, then every top-level declaration in order *)
Definition table_of (e : entity) (ms : list member) : scope := fold_left ins_member ms (header_table e).
Definition root_table (e : entity) : scope := table_of e (e_members e).

(* notify_new_scope: a fresh table for the method (for_class_or_module copied from the root);
   handle_param_decl / handle_var_decl fill it, parameters first *)
Definition method_table (e : entity) (me : method) : scope :=
  fold_left ins_var (me_params me ++ me_locals me) (empty_scope (e_name e)).

(* class_uri_map: look-up by upper-cased stem *)
Definition find_entity (ws : workspace) (name : str) : option entity :=
  find (fun e => ci_eqb (e_name e) name) ws.

Definition find_method (e : entity) (mn : str) : option method :=
  find (fun me => ci_eqb (me_name me) mn) (e_methods e).

(* the entity and the entities reached through parent links; a parent that is not indexed, or
   that is the class itself (ignoring case), gives no link.  Fuel = number of entities. *)
Fixpoint ancestors (fuel : nat) (ws : workspace) (name : str) : list entity :=
  match fuel with
  | O => []
  | S f =>
      match find_entity ws name with
      | None => []
      | Some e =>
          e :: match e_parent e with
               | None => []
               | Some p => if ci_eqb p (e_name e) then [] else ancestors f ws p
               end
      end
  end.

Definition lineage (ws : workspace) (name : str) : list entity := ancestors (length ws) ws name.

(* [table of C; table of parent(C); ...] *)
Definition class_chain (ws : workspace) (c : str) : chain := map root_table (lineage ws c).

(* nearest table of a node inside method m of C (None: a top-level position) *)
Definition scope_chain (ws : workspace) (c : str) (m : option str) : chain :=
  match find_entity ws c, m with
  | Some e, Some mn =>
      match find_method e mn with
      | Some me => method_table e me :: class_chain ws c
      | None => class_chain ws c
      end
  | _, _ => class_chain ws c
  end.

Definition uses_of (ws : workspace) (c : str) : list str :=
  match find_entity ws c with Some e => e_uses e | None => [] end.

(* ---------- go-to-definition ---------- *)

Definition target := (str * N)%type.          (* declaring entity (for_class_or_module), declaration tag *)
Definition to_target (p : str * sym) : target := (fst p, dtag (snd p)).

(* the `uses` loop of search_sym_info_w_class: the first used entity whose table (with ITS
   parents) knows the name; entities that are not indexed are skipped *)
Fixpoint search_uses (ws : workspace) (us : list str) (id : str) : option (str * sym) :=
  match us with
  | [] => None
  | u :: us' =>
      match find_entity ws u with
      | None => search_uses ws us' id
      | Some _ =>
          match search_wparent (class_chain ws u) id with
          | Some r => Some r
          | None => search_uses ws us' id
          end
      end
  end.

(* search_sym_info_w_class(id, st, search_uses) *)
Definition search_w_class (ws : workspace) (c : str) (m : option str) (with_uses : bool) (id : str)
  : option (str * sym) :=
  match search_wparent (scope_chain ws c m) id with
  | Some r => Some r
  | None => if with_uses then search_uses ws (uses_of ws c) id else None
  end.

(* generate_loc_link_single(search_uses = true): a plain identifier, the left end of a dotted
   chain, a call name, a type reference *)
Definition resolve_plain (ws : workspace) (c : str) (m : option str) (id : str) : option target :=
  option_map to_target (search_w_class ws c m true id).

(* search_all_symbol_info on the table of class D: one hit per declaring ancestor, nearest first *)
Definition resolve_member (ws : workspace) (d : str) (id : str) : list target :=
  map to_target (search_all (class_chain ws d) id).

(* manager/utils.rs class_level_table: from the nearest table climb while the parent table is for
   the same class (a method's table has the same for_class_or_module as the class's table) *)
Fixpoint class_level (c : chain) : chain :=
  match c with
  | s :: ps =>
      match ps with
      | p :: _ => if str_eqb (cls p) (cls s) then class_level ps else c
      | [] => c
      end
  | [] => c
  end.

(* generate_right_hand_of_entity: when D's file is the file of the request the class-level table
   above the cursor's nearest table is used (fix 945552f), otherwise the table of D *)
Definition member_chain (ws : workspace) (c : str) (m : option str) (d : str) : chain :=
  match find_entity ws d with
  | None => []
  | Some _ => if ci_eqb d c then class_level (scope_chain ws c m) else class_chain ws d
  end.

(* the step before fix 945552f (the nearest table itself, i.e. the method's): kept so that the
   refutation of the member clause for the old code stays a checked theorem *)
Definition member_chain_old (ws : workspace) (c : str) (m : option str) (d : str) : chain :=
  match find_entity ws d with
  | None => []
  | Some _ => if ci_eqb d c then scope_chain ws c m else class_chain ws d
  end.

Definition definition_member (ws : workspace) (c : str) (m : option str) (d : str) (id : str) : list target :=
  map to_target (search_all (member_chain ws c m d) id).

(* cursor on the declared name of a method (check_parent_method_decl: the identifier child only,
   fix 7983abd): generate_loc_link_all on the class-level table above the method's own table.
   A function's return type is an ordinary type reference: resolve_plain inside that method. *)
Definition definition_method_name (ws : workspace) (c : str) (mn : str) : list target :=
  map to_target (search_all (class_level (scope_chain ws c (Some mn))) mn).

(* cursor on the declared name of a field, constant or type (check_is_gvar_decl, fix efb255c):
   generate_loc_link_all on the nearest table = the root table of the file *)
Definition definition_member_name (ws : workspace) (c : str) (id : str) : list target :=
  map to_target (search_all (class_chain ws c) id).

(* ---------- eval types (type_resolver.rs + the annotator's terminal / call handlers) ---------- *)

(* EvalType restricted to what the services branch on: Class(spelling) / Module(spelling) *)
Inductive sty := SClass (s : str) | SModule (s : str).

Definition natives : list str :=
  [[73; 78; 84; 49]; [73; 78; 84; 50]; [73; 78; 84; 52]; [73; 78; 84; 56];
   [78; 85; 77; 52]; [78; 85; 77; 56]; [78; 85; 77; 49; 48]; [68; 69; 67; 73; 77; 65; 76];
   [83; 84; 82; 73; 78; 71]; [67; 83; 84; 82; 73; 78; 71]; [84; 69; 88; 84];
   [66; 79; 79; 76; 69; 65; 78]; [67; 72; 65; 82]].
Definition is_native (s : str) : bool := existsb (str_eqb (upper s)) natives.

(* WRITELN WRITE CONCAT *)
Definition intrinsics : list str :=
  [[87; 82; 73; 84; 69; 76; 78]; [87; 82; 73; 84; 69]; [67; 79; 78; 67; 65; 84]].
Definition is_intrinsic (s : str) : bool := existsb (str_eqb (upper s)) intrinsics.

Definition s_list_of_instances : str :=
  [97; 76; 105; 115; 116; 79; 102; 73; 110; 115; 116; 97; 110; 99; 101; 115].

Definition indexed (ws : workspace) (s : str) : bool :=
  match find_entity ws s with Some _ => true | None => false end.

Definition member_by_tag (e : entity) (t : N) : option member :=
  find (fun m => N.eqb (m_tag m) t) (e_members e).

Definition var_by_tag (me : method) (t : N) : option var :=
  find (fun v => N.eqb (v_tag v) t) (me_params me ++ me_locals me).

(* eval type of a declared type written inside (c, m), and the eval type stored in a symbol
   found by a look-up made inside (c, m).  The code computes the latter when the symbol is
   inserted, against the tables as they are at that moment; the model recomputes it on demand
   against the complete tables (fuel bounds alias nesting).  The two coincide when a declared
   type name that is neither native nor an indexed class refers to a type declared textually
   before its use and is not also the name of a variable / field / method visible there
   (ASSUMPTIONS of checks/c10.py); the scoping theorems (C10_*, C11_after_dot, C11_plain) do
   not depend on this part. *)
Fixpoint tyref_etype (fuel : nat) (ws : workspace) (c : str) (m : option str) (t : tyref) : option sty :=
  match fuel with
  | O => None
  | S f =>
      let of_sym (r : option (str * sym)) : option sty :=
        match r with
        | None => None                                   (* EvalType::Unresolved *)
        | Some (k, x) =>
            match skind_of x with
            | KClass => Some (SClass k)
            | KModule => Some (SModule k)
            | KConstant | KProc => None
            | KType | KField | KFunc =>
                match find_entity ws k with
                | None => None
                | Some e =>
                    match member_by_tag e (dtag x) with
                    | Some mem => tyref_etype f ws k None (m_type mem)
                    | None => None
                    end
                end
            | KVariable =>
                match find_entity ws k, m with
                | Some e, Some mn =>
                    match find_method e mn with
                    | Some me =>
                        match var_by_tag me (dtag x) with
                        | Some v => tyref_etype f ws k m (v_type v)
                        | None => None
                        end
                    | None => None
                    end
                | _, _ => None
                end
            end
        end in
      match t with
      | TNone => None
      | TListOf _ => Some (SClass s_list_of_instances)
      | TName s =>
          if is_native s then None
          else if indexed ws s then Some (SClass s)
          else of_sym (search_w_class ws c m true s)       (* resolve_type_basic: parents and uses *)
      | TRefTo s =>
          if indexed ws s then Some (SClass s)
          else of_sym (search_w_class ws c m false s)      (* resolve_type_refto: parents only *)
      end
  end.

(* the eval type carried by a symbol found from inside (c, m) *)
Definition sym_etype (fuel : nat) (ws : workspace) (m : option str) (r : option (str * sym))
  : option sty :=
  match r with
  | None => None
  | Some (k, x) =>
      match skind_of x with
      | KClass => Some (SClass k)
      | KModule => Some (SModule k)
      | KConstant | KProc => None
      | KType | KField | KFunc =>
          match find_entity ws k with
          | None => None
          | Some e =>
              match member_by_tag e (dtag x) with
              | Some mem => tyref_etype fuel ws k None (m_type mem)
              | None => None
              end
          end
      | KVariable =>
          match find_entity ws k, m with
          | Some e, Some mn =>
              match find_method e mn with
              | Some me =>
                  match var_by_tag me (dtag x) with
                  | Some v => tyref_etype fuel ws k m (v_type v)
                  | None => None
                  end
              | None => None
              end
          | _, _ => None
          end
      end
  end.

Definition etype_fuel : nat := 8.

(* While the body of method m of C is being annotated the root table of C holds the
   declarations up to and including m's own (later procedures / functions are not there yet). *)
Fixpoint members_upto (mn : str) (l : list member) : list member :=
  match l with
  | [] => []
  | x :: l' =>
      match m_kind x with
      | MProc | MFunc => if ci_eqb (m_name x) mn then [x] else x :: members_upto mn l'
      | _ => x :: members_upto mn l'
      end
  end.

Definition class_chain_during (ws : workspace) (c : str) (m : option str) (d : str) : chain :=
  match lineage ws d, m with
  | e :: rest, Some mn =>
      if ci_eqb d c then table_of e (members_upto mn (e_members e)) :: map root_table rest
      else class_chain ws d
  | _, _ => class_chain ws d
  end.

(* get_cur_sym_table() while a statement of m is visited *)
Definition scope_chain_during (ws : workspace) (c : str) (m : option str) : chain :=
  match find_entity ws c, m with
  | Some e, Some mn =>
      match find_method e mn with
      | Some me => method_table e me :: class_chain_during ws c m c
      | None => class_chain_during ws c m c
      end
  | _, _ => class_chain ws c
  end.

(* one element of a dotted chain: `name` or `name(...)` *)
Inductive item := IId (n : str) | ICall (n : str).
Definition item_name (i : item) : str := match i with IId n => n | ICall n => n end.

(* leftmost element: resolve_terminal (own tables, then a class or module of that name) /
   resolve_method_call (intrinsics, then own tables) *)
Definition head_etype (ws : workspace) (c : str) (m : option str) (i : item) : option sty :=
  match i with
  | IId n =>
      match search_wparent (scope_chain_during ws c m) n with
      | Some r => sym_etype etype_fuel ws m (Some r)
      | None =>
          match find_entity ws n with
          | None => None
          | Some _ => sym_etype etype_fuel ws None (search_wparent (class_chain_during ws c m n) n)
          end
      end
  | ICall n =>
      if is_intrinsic n then None
      else sym_etype etype_fuel ws m (search_wparent (scope_chain_during ws c m) n)
  end.

(* element after a dot: eval_right_hand_of_entity / resolve_method_call.  When the left type is
   spelled exactly as the class being annotated its root table is used (fix 945552f: no longer
   the current method's table), otherwise the table of that class; read and call alike, after a
   Class and after a Module (fix 4a7e667) *)
Definition next_etype (ws : workspace) (c : str) (m : option str) (left : sty) (i : item) : option sty :=
  let own := match find_entity ws c with Some e => e_name e | None => c end in
  let d := match left with SClass s => s | SModule s => s end in
  if str_eqb d own then
    sym_etype etype_fuel ws None (search_wparent (class_chain_during ws c m c) (item_name i))
  else
    match find_entity ws d with
    | Some _ => sym_etype etype_fuel ws None (search_wparent (class_chain_during ws c m d) (item_name i))
    | None => None
    end.

Definition chain_etype (ws : workspace) (c : str) (m : option str) (left : option sty) (l : list item)
  : option sty :=
  fold_left (fun acc i => match acc with None => None | Some t => next_etype ws c m t i end) l left.

(* static type of a non-empty dotted prefix `a.b.c` written in method m of C *)
Definition static_class (ws : workspace) (c : str) (m : option str) (prefix : list item) : option sty :=
  match prefix with
  | [] => None
  | i :: l => chain_etype ws c m (head_etype ws c m i) l
  end.

Definition sty_name (t : sty) : str := match t with SClass s => s | SModule s => s end.

(* cursor on the name after a dot *)
Definition definition_dotted (ws : workspace) (c : str) (m : option str) (prefix : list item) (id : str)
  : list target :=
  match static_class ws c m prefix with
  | Some t => definition_member ws c m (sty_name t) id
  | None => []
  end.

(* ---------- completion ---------- *)

Definition is_member_kind (x : sym) : bool :=
  match skind_of x with KField | KFunc | KProc => true | _ => false end.

(* generate_completion_items_lhs keeps everything but Class Module Type Field Proc Func *)
Definition is_plain_kind (x : sym) : bool :=
  match skind_of x with KVariable | KConstant => true | _ => false end.

(* generate_completion_items_rhs on the table of D *)
Definition complete_after_dot (ws : workspace) (d : str) : list str :=
  map sid (filter is_member_kind (collect (class_chain ws d))).

(* generate_rhs_of_entity: same choice of table as generate_right_hand_of_entity *)
Definition completion_member (ws : workspace) (c : str) (m : option str) (d : str) : list str :=
  map sid (filter is_member_kind (collect (member_chain ws c m d))).

Definition completion_dotted (ws : workspace) (c : str) (m : option str) (prefix : list item) : list str :=
  match static_class ws c m prefix with
  | Some t => completion_member ws c m (sty_name t)
  | None => []
  end.

(* generate_completion_items_lhs on the nearest table *)
Definition complete_plain (ws : workspace) (c : str) (m : option str) : list str :=
  map sid (filter is_plain_kind (collect (scope_chain ws c m))).

(* ---------- the abstract questions of the correspondence engine ---------- *)

Inductive query :=
| QPlain (c : str) (m : option str) (id : str)                        (* definition: plain identifier *)
| QDotted (c : str) (m : option str) (prefix : list item) (id : str)  (* definition: name after a dot *)
| QMethodName (c : str) (mn : str)                                    (* definition: declared name of a method *)
| QMemberName (c : str) (id : str)                                    (* definition: declared name of a field / constant / type *)
| QCompleteDot (c : str) (m : option str) (prefix : list item)        (* completion after `prefix.` *)
| QCompletePlain (c : str) (m : option str).                          (* completion elsewhere *)

Inductive answer := ALinks (l : list target) | ALabels (l : list str).

Definition answer_query (ws : workspace) (q : query) : answer :=
  match q with
  | QPlain c m id => ALinks (match resolve_plain ws c m id with Some t => [t] | None => [] end)
  | QDotted c m p id => ALinks (definition_dotted ws c m p id)
  | QMethodName c mn => ALinks (definition_method_name ws c mn)
  | QMemberName c id => ALinks (definition_member_name ws c id)
  | QCompleteDot c m p => ALabels (completion_dotted ws c m p)
  | QCompletePlain c m => ALabels (complete_plain ws c m)
  end.
