(* Model of the table-building half of AstAnnotator (/repo/src/analyzers_v2/ast_annotator.rs:
   annotate_doc / walk_tree / walk_tree_postorder / visit / notify_new_scope / notify_end_method /
   handle_class / handle_module / handle_constant_decl / handle_type_decl / handle_proc_decl /
   handle_func_decl / handle_field_decl / handle_uses / handle_param_decl / handle_var_decl) for
   ONE document, over the real syntax tree (Model/Tree.v, as dumped by harness/src/treedump.rs),
   as far as symbol insertion is concerned: which tables exist, and for each table its
   for_class_or_module, its symbols_list (insertion order = iter_symbols order) and its uses_entities.

   What the code does, and the model follows:
   * walk_tree visits the root, then every child of the root (pre-order); in the full mode
     (only_definitions = false) everything below a child of the root is visited in POST-order
     (a node after its children), directly after that child.  In the definitions-only mode the
     walk stops at the children of the root.
   * `visit` calls every handler; each handler acts on one node type only (downcast), so at most one acts.
   * check_identifier_already_defined only REPORTS (a diagnostic); the symbol is inserted anyway
     (symbols_list.push; the hash map entry is overwritten -- Model/SymTab.v insert_scope).
   * every insertion goes to get_cur_sym_table(): the top of the scope stack, else the root table.
     The stack holds at most one table: handle_proc_decl / handle_func_decl first pop it
     (notify_end_method: it becomes the table of the previous method node), insert the method's
     symbol -- now into the root table --, then push a fresh table (notify_new_scope) that copies
     the root's for_class_or_module and uses_entities AS THEY ARE AT THAT MOMENT.
     Consequences (quirks, kept): a constant / type / field / `uses` / class header that comes
     after a method lands in THAT METHOD's table; the parameters of a procedure TYPE
     (`type t : proc(x : int4)`, `f : func(x : int4) return int4`, `var cb : proc(x : int4)`) are
     AstParameterDeclaration nodes below the declaration; since the repair c14b1c2 handle_param_decl
     returns early unless the GRANDPARENT annotated node of the parameter is an AstProcedure or an
     AstFunction (parameter -> parameter list -> method), so they insert nothing.  The walk therefore
     carries, for every visited node, whether its grandparent is a method node (a child of the root
     has no grandparent).  The rule before the repair (every parameter declaration inserts) is kept
     in Proofs/AnnotWitness.v for the regression pair C10_old_type_param_leak_refuted / C10_fixed_type_param_leak.
   * handle_class / handle_module set the ROOT table's for_class_or_module (also when the header
     comes after a method) and insert into the CURRENT table; a class inserts two symbols, its name
     and `self`, both carrying the class name token's range.
   * the id of a symbol is get_identifier() of the node (= `ident` of the dump; for a method the
     identifier of its name node, `Name#Event` for AstMethodNameWithEvent); selection_range is the
     range of the name token (attribute K_ident) resp. of the name node (first child) of a method;
     range is the node's range.
   Not modelled: eval_type / type_str / parent of a symbol, the parent link of the root table,
   diagnostics.  Executable; no property proofs in this file. *)
From GoldV Require Import Base Tokens Lexer AstKinds Tree SymTab Scoping.

Record asym := mkAsym {
  a_name : str;        (* SymbolInfo.id *)
  a_kind : skind;      (* SymbolInfo.sym_type *)
  a_sel : range;       (* SymbolInfo.selection_range *)
  a_range : range      (* SymbolInfo.range *)
}.

Record table := mkTable {
  t_cls : option str;          (* for_class_or_module *)
  t_syms : list asym;          (* symbols_list *)
  t_uses : list str            (* uses_entities *)
}.

Record astate := mkSt {
  st_root : table;             (* root_symbol_table *)
  st_cur : option table;       (* symbol_table_stack (never deeper than one) *)
  st_done : list table         (* tables already handed to their method nodes, in that order *)
}.

Definition empty_table : table := mkTable None [] [].
Definition init_state : astate := mkSt empty_table None [].

(* ---------- which handler acts on a node ---------- *)

Inductive dkind := DClass | DModule | DConst | DType | DProc | DFunc | DField | DUses | DParam | DVar.

Definition dkind_of (n : node) : option dkind :=
  match nkind n with
  | KAstClass => Some DClass
  | KAstModule => Some DModule
  | KAstConstantDeclaration => Some DConst
  | KAstTypeDeclaration => Some DType
  | KAstProcedure => Some DProc
  | KAstFunction => Some DFunc
  | KAstGlobalVariableDeclaration => Some DField
  | KAstUses => Some DUses
  | KAstParameterDeclaration => Some DParam
  | KAstLocalVariableDeclaration => Some DVar
  | _ => None
  end.

(* ---------- the name token ---------- *)

Definition tok_range (o : option tok) : range := match o with Some t => trange t | None => range0 end.

(* `x.identifier.get_range()`: the token field `identifier` / `id` (attribute K_ident) of a class,
   module, constant, type, field, parameter, local variable; the name NODE (first child) of a
   procedure / function.  A `node` value lacking it (never a dumped tree) gives range 0. *)
Definition name_range (n : node) : range :=
  match dkind_of n with
  | Some DProc | Some DFunc =>
      match nchildren n with c :: _ => nrange c | [] => range0 end
  | _ => tok_range (attr_tok K_ident n)
  end.

Definition sym_of (k : skind) (n : node) : asym := mkAsym (nident n) k (name_range n) (nrange n).

(* `self_sym = sym_info; self_sym.id = "self"` *)
Definition self_of (n : node) : asym := mkAsym s_self KClass (name_range n) (nrange n).

(* AstUses.list_of_uses *)
Definition uses_names (n : node) : list str :=
  match attr K_uses (nattrs n) with
  | Some (AL l) => map tval l
  | Some (AT t) => [tval t]
  | _ => []
  end.

(* ---------- table operations ---------- *)

Definition t_insert (t : table) (s : asym) : table := mkTable (t_cls t) (t_syms t ++ [s]) (t_uses t).
Definition t_add_uses (t : table) (u : list str) : table := mkTable (t_cls t) (t_syms t) (t_uses t ++ u).
Definition t_set_cls (t : table) (c : str) : table := mkTable (Some c) (t_syms t) (t_uses t).

(* insert_symbol_info on get_cur_sym_table() *)
Definition cur_insert (st : astate) (s : asym) : astate :=
  match st_cur st with
  | Some c => mkSt (st_root st) (Some (t_insert c s)) (st_done st)
  | None => mkSt (t_insert (st_root st) s) None (st_done st)
  end.

Definition cur_add_uses (st : astate) (u : list str) : astate :=
  match st_cur st with
  | Some c => mkSt (st_root st) (Some (t_add_uses c u)) (st_done st)
  | None => mkSt (t_add_uses (st_root st) u) None (st_done st)
  end.

Definition root_set_cls (st : astate) (c : str) : astate :=
  mkSt (t_set_cls (st_root st) c) (st_cur st) (st_done st).

(* notify_end_method *)
Definition end_method (st : astate) : astate :=
  match st_cur st with
  | Some c => mkSt (st_root st) None (st_done st ++ [c])
  | None => st
  end.

(* notify_new_scope *)
Definition new_scope (st : astate) : astate :=
  mkSt (st_root st) (Some (mkTable (t_cls (st_root st)) [] (t_uses (st_root st)))) (st_done st).

(* AstProcedure / AstFunction *)
Definition is_method_kind (k : akind) : bool :=
  match k with KAstProcedure | KAstFunction => true | _ => false end.

(* a visited node: (its grandparent is a method node, the node) *)
Definition vnode := (bool * node)%type.

(* the handler that acts: handle_param_decl only under a method's parameter list *)
Definition dkind_at (p : vnode) : option dkind :=
  match dkind_of (snd p) with
  | Some DParam => if fst p then Some DParam else None
  | k => k
  end.

(* ---------- visit ---------- *)

Definition visit (st : astate) (p : vnode) : astate :=
  let n := snd p in
  match dkind_at p with
  | Some DClass => cur_insert (cur_insert (root_set_cls st (nident n)) (sym_of KClass n)) (self_of n)
  | Some DModule => cur_insert (root_set_cls st (nident n)) (sym_of KModule n)
  | Some DConst => cur_insert st (sym_of KConstant n)
  | Some DType => cur_insert st (sym_of KType n)
  | Some DField => cur_insert st (sym_of KField n)
  | Some DProc => new_scope (cur_insert (end_method st) (sym_of KProc n))
  | Some DFunc => new_scope (cur_insert (end_method st) (sym_of KFunc n))
  | Some DUses => cur_add_uses st (uses_names n)
  | Some DParam => cur_insert st (sym_of KVariable n)
  | Some DVar => cur_insert st (sym_of KVariable n)
  | None => st
  end.

(* ---------- the walk ---------- *)

(* walk_tree_postorder: the nodes in the order they are visited; gm / pm: the grandparent / the
   parent of n is a method node *)
Fixpoint post (gm pm : bool) (n : node) : list vnode :=
  match n with
  | Node k _ _ _ _ cs =>
      (fix go (l : list node) : list vnode :=
         match l with [] => [] | c :: r => post pm (is_method_kind k) c ++ go r end) cs ++ [(gm, n)]
  end.

Definition post_list (gm pm : bool) (l : list node) : list vnode := flat_map (post gm pm) l.

(* everything below the child c of the node t, in post-order *)
Definition below (t c : node) : list vnode :=
  post_list (is_method_kind (nkind t)) (is_method_kind (nkind c)) (nchildren c).

(* one child of the root: itself (no grandparent), then (full mode) everything below it *)
Definition top_seq (defs_only : bool) (root c : node) : list vnode :=
  (false, c) :: (if defs_only then [] else below root c).

(* walk_tree: the root, then its children *)
Definition visit_seq (defs_only : bool) (root : node) : list vnode :=
  (false, root) :: flat_map (top_seq defs_only root) (nchildren root).

(* annotate_doc: walk_tree, then notify_end_method *)
Definition annotate (defs_only : bool) (root : node) : astate :=
  end_method (fold_left visit (visit_seq defs_only root) init_state).

(* the observable result: the root table and the tables of the method nodes in the order the
   methods were visited (= source order) *)
Definition root_table_of (defs_only : bool) (root : node) : table := st_root (annotate defs_only root).
Definition method_tables_of (defs_only : bool) (root : node) : list table := st_done (annotate defs_only root).

(* ---------- the table as the C18 / C10 scope (Model/SymTab.v, Model/Scoping.v) ----------
   symbols_list and hash_map are built by the same insertions; the tag packs the symbol type and
   the position of the declaration among all declarations of the document (see Proofs/AnnotProofs.v) *)
Definition cls_str (t : table) : str := match t_cls t with Some c => c | None => [] end.
