(* Model of /repo/src/analyzers_v2/symbol_table.rs (SymbolTable / ISymbolTable).
   A chain of scopes, nearest first: scope i's parent_symbol_table is scope i+1.
   Executable; no property proofs in this file. *)
From GoldV Require Import Base.

Record sym := mkSym { sid : str; stag : N }.      (* SymbolInfo: id + a tag identifying the insertion *)

Record scope := mkScope {
  syms : list sym;               (* symbols_list: insertion order *)
  idx  : list (str * nat);       (* hash_map: upper-cased key -> index into symbols_list *)
  cls  : str                     (* for_class_or_module, "" when None *)
}.

Definition chain := list scope.

Definition empty_scope (c : str) : scope := mkScope [] [] c.

(* insert_symbol_info: push, then hash_map.insert(id.to_uppercase(), idx) *)
Definition insert_scope (s : scope) (id : str) (tag : N) : scope :=
  mkScope (syms s ++ [mkSym id tag]) (ainsert (upper id) (length (syms s)) (idx s)) (cls s).

(* hash_map.get(&id.to_uppercase()) followed by symbols_list.get(i) *)
Definition scope_find (s : scope) (id : str) : option sym :=
  match alookup (upper id) (idx s) with
  | Some i => nth_error (syms s) i
  | None => None
  end.

(* get_symbol_info: own scope, else parent (recursively) *)
Fixpoint get (c : chain) (id : str) : option sym :=
  match c with
  | [] => None
  | s :: ps => match scope_find s id with Some x => Some x | None => get ps id end
  end.

(* search_symbol_info_wparent: as get, also reporting the owning class/module *)
Fixpoint search_wparent (c : chain) (id : str) : option (str * sym) :=
  match c with
  | [] => None
  | s :: ps => match scope_find s id with
               | Some x => Some (cls s, x)
               | None => search_wparent ps id
               end
  end.

(* search_symbol_info: own scope only *)
Definition search (c : chain) (id : str) : option (str * sym) :=
  match c with
  | [] => None
  | s :: _ => match scope_find s id with Some x => Some (cls s, x) | None => None end
  end.

(* search_all_symbol_info: own hit (if any) followed by the parent's hits *)
Fixpoint search_all (c : chain) (id : str) : list (str * sym) :=
  match c with
  | [] => []
  | s :: ps => (match scope_find s id with Some x => [(cls s, x)] | None => [] end)
               ++ search_all ps id
  end.

(* iter_symbols *)
Definition iter (c : chain) : list sym :=
  match c with [] => [] | s :: _ => syms s end.

(* identifier_exists *)
Definition exists_id (c : chain) (id : str) : bool :=
  match get c id with Some _ => true | None => false end.

(* collect_unique_symbols_w_parents.
   As of the fix recorded in known_findings.json (property C18): a symbol of the own scope is
   listed when it is the live binding of its name (hash_map[upper id] = its index), `seen`
   holds upper-cased names, and the parent's listing is filtered against `seen`. *)
Fixpoint live_from (s : scope) (i : nat) (l : list sym) : list sym :=
  match l with
  | [] => []
  | x :: l' =>
      (match alookup (upper (sid x)) (idx s) with
       | Some j => if Nat.eqb j i then [x] else []
       | None => []
       end) ++ live_from s (S i) l'
  end.

Definition live (s : scope) : list sym := live_from s 0 (syms s).

Definition seen_in (l : list sym) (x : sym) : bool :=
  existsb (fun y => str_eqb (upper (sid y)) (upper (sid x))) l.

Fixpoint collect (c : chain) : list sym :=
  match c with
  | [] => []
  | s :: ps => live s ++ filter (fun x => negb (seen_in (live s) x)) (collect ps)
  end.

(* The behaviour before the fix (exact-string `seen`, every own symbol listed); kept so that
   the refutation of the merged-listing law for the old code stays a checked theorem and the
   check can tell which of the two behaviours the implementation shows. *)
Definition seen_exact (l : list sym) (x : sym) : bool :=
  existsb (fun y => str_eqb (sid y) (sid x)) l.

Fixpoint collect_old (c : chain) : list sym :=
  match c with
  | [] => []
  | s :: ps => syms s ++ filter (fun x => negb (seen_exact (syms s) x)) (collect_old ps)
  end.

(* ---- operation sequences over a chain of n scopes ---- *)
Inductive op :=
| Insert (j : nat) (id : str)
| Get (j : nat) (id : str)
| SearchWP (j : nat) (id : str)
| Search (j : nat) (id : str)
| SearchAll (j : nat) (id : str)
| Iter (j : nat)
| Collect (j : nat)
| Exists (j : nat) (id : str).

(* an observation: list of (class, id, tag); booleans as [] / [one dummy] *)
Definition obs := list (str * str * N).

Definition o_sym (x : sym) : str * str * N := ([], sid x, stag x).
Definition o_csym (p : str * sym) : str * str * N := (fst p, sid (snd p), stag (snd p)).
Definition o_opt {A} (f : A -> str * str * N) (o : option A) : obs :=
  match o with Some a => [f a] | None => [] end.

Fixpoint update_nth {A} (n : nat) (f : A -> A) (l : list A) : list A :=
  match l, n with
  | [], _ => []
  | x :: l', O => f x :: l'
  | x :: l', S n' => x :: update_nth n' f l'
  end.

Definition step (st : chain * N) (o : op) : (chain * N) * obs :=
  let '(c, t) := st in
  match o with
  | Insert j id => ((update_nth j (fun s => insert_scope s id t) c, t + 1), [])
  | Get j id => ((c, t + 1), o_opt o_sym (get (skipn j c) id))
  | SearchWP j id => ((c, t + 1), o_opt o_csym (search_wparent (skipn j c) id))
  | Search j id => ((c, t + 1), o_opt o_csym (search (skipn j c) id))
  | SearchAll j id => ((c, t + 1), map o_csym (search_all (skipn j c) id))
  | Iter j => ((c, t + 1), map o_sym (iter (skipn j c)))
  | Collect j => ((c, t + 1), map o_sym (collect (skipn j c)))
  | Exists j id => ((c, t + 1), if exists_id (skipn j c) id then [([], [], 1)] else [])
  end.

Fixpoint run_from (st : chain * N) (ops : list op) : list obs :=
  match ops with
  | [] => []
  | o :: ops' => let '(st', out) := step st o in out :: run_from st' ops'
  end.

(* scope j of a fresh chain is for class "C<j>" (code point 67 followed by digit) *)
Fixpoint fresh_chain_from (i n : nat) : chain :=
  match n with
  | O => []
  | S n' => empty_scope [67; 48 + N.of_nat i] :: fresh_chain_from (S i) n'
  end.

Definition run (n : nat) (ops : list op) : list obs := run_from (fresh_chain_from 0 n, 0) ops.

Definition final_chain (n : nat) (ops : list op) : chain :=
  fst (fold_left (fun st o => fst (step st o)) ops (fresh_chain_from 0 n, 0)).
