(* Model of /repo/src/lexer/mod.rs (GoldLexer::lex).
   Text is a list of Unicode scalar values; offsets count scalar values (chars().enumerate()).
   The model emits, besides tokens and errors, the whitespace it skips, and every item carries
   the chunk of text it consumed (model-only), so that "tokens partition the source" is a
   statement about the model's own output.  No property proofs here. *)
From GoldV Require Import Base Tokens Keywords.

Record pos := mkPos { pline : N; pcol : N }.
Record range := mkRange { rstart : pos; rend : pos }.
Record tok := mkTok { traw : N; trange : range; tty : ttype; tval : str }.
Record lexerr := mkErr { erange : range; echar : N }.

Inductive item :=
| IWs (chunk : str)                     (* skipped whitespace *)
| ITok (t : tok) (chunk : str)
| IErr (e : lexerr) (chunk : str).

Definition chunk_of (i : item) : str :=
  match i with IWs c => c | ITok _ c => c | IErr _ c => c end.

(* line state: (line_pos.len(), last_line_pos) with last_line_pos = 0 when line_pos is empty,
   else line_pos.last()+1 -- exactly the two quantities create_range computes from line_pos *)
Definition lst := (N * N)%type.
Definition lst0 : lst := (0, 0).
Definition record_nl (p : N) (st : lst) : lst := (fst st + 1, p + 1).

Definition lenN (s : str) : N := N.of_nat (length s).

(* value.len(): UTF-8 byte length *)
Definition utf8_len1 (c : N) : N :=
  if c <? 128 then 1 else if c <? 2048 then 2 else if c <? 65536 then 3 else 4.
Definition utf8_len (s : str) : N := fold_right (fun c a => utf8_len1 c + a) 0 s.

(* create_range(raw_pos, length) *)
Definition create_range (st : lst) (raw : N) (len : N) : range :=
  let line := fst st in
  let col := raw - snd st in
  mkRange (mkPos line col) (mkPos line (col + len)).

(* create_token(pos, type, value): the range length is value.chars().count() (since /repo f444e80; before, it
   was value.len(), the UTF-8 byte length utf8_len above, while columns count characters) *)
Definition create_token (st : lst) (raw : N) (ty : ttype) (v : str) : tok :=
  mkTok raw (create_range st raw (lenN v)) ty v.

Definition is_word_start (c : N) : bool := is_alpha c || (c =? 95).
Definition is_word_char (c : N) : bool := is_alpha c || is_digit c || (c =? 95).
Definition is_num_char (c : N) : bool := is_digit c || (c =? 46) || is_alpha c.
Definition is_blank (c : N) : bool := (c =? 32) || (c =? 9).

Fixpoint span (p : N -> bool) (l : str) : str * str :=
  match l with
  | [] => ([], [])
  | c :: r => if p c then let '(a, b) := span p r in (c :: a, b) else ([], l)
  end.

(* create_word_token: first arm whose key equals word.to_uppercase() *)
Fixpoint kw_lookup (u : str) (t : list (str * ttype)) : option ttype :=
  match t with
  | [] => None
  | (k, ty) :: t' => if str_eqb u k then Some ty else kw_lookup u t'
  end.
Definition classify (w : str) : ttype :=
  match kw_lookup (upper w) kw_table with Some ty => ty | None => kw_default end.

(* read_string_constant: after the opening quote.  Returns value, rest, offsets of the LFs
   consumed, number of scalars consumed.  off = offset of the head of l. *)
Fixpoint read_sq (l : str) (off : N) : str * str * list N * N :=
  match l with
  | [] => ([], [], [], 0)
  | c :: r =>
      if c =? 39 then
        match r with
        | c2 :: r2 =>
            if c2 =? 39 then
              let '(v, rest, nl, n) := read_sq r2 (off + 2) in (39 :: v, rest, nl, n + 2)
            else ([], r, [], 1)
        | [] => ([], [], [], 1)
        end
      else
        let '(v, rest, nl, n) := read_sq r (off + 1) in
        (c :: v, rest, (if c =? 10 then off :: nl else nl), n + 1)
  end.

(* read_string_constant_doublequotes *)
Fixpoint read_dq (l : str) (off : N) : str * str * list N * N :=
  match l with
  | [] => ([], [], [], 0)
  | c :: r =>
      if c =? 34 then ([], r, [], 1)
      else
        let '(v, rest, nl, n) := read_dq r (off + 1) in
        (c :: v, rest, (if c =? 10 then off :: nl else nl), n + 1)
  end.

Definition not_eol (c : N) : bool := negb ((c =? 10) || (c =? 13)).

(* read_double_char_op: first char c, next char (if any) *)
Definition double_op (c : N) (next : option N) : option (ttype * str * bool) :=
  let nx := match next with Some x => x | None => 0 end in
  if c =? 60 then        (* < *)
    if nx =? 60 then Some (TLeftShift, [60; 60], true)
    else if nx =? 61 then Some (TLessThanOrEqual, [60; 61], true)
    else if nx =? 62 then Some (TNotEquals, [60; 62], true)
    else Some (TLessThan, [60], false)
  else if c =? 62 then   (* > *)
    if nx =? 62 then Some (TRightShift, [62; 62], true)
    else if nx =? 61 then Some (TGreaterThanOrEqual, [62; 61], true)
    else Some (TGreaterThan, [62], false)
  else if c =? 38 then   (* & *)
    if nx =? 38 then Some (TStringConcat, [38; 38], true)
    else Some (TStringConcat2, [38], false)
  else if c =? 43 then   (* + *)
    if nx =? 43 then Some (TIncrement, [43; 43], true)
    else if nx =? 61 then Some (TIncrementAssign, [43; 61], true)
    else Some (TPlus, [43], false)
  else if c =? 45 then   (* - *)
    if nx =? 45 then Some (TDecrement, [45; 45], true)
    else if nx =? 61 then Some (TDecrementAssign, [45; 61], true)
    else Some (TMinus, [45], false)
  else if c =? 58 then   (* : *)
    if nx =? 61 then Some (TDeepAssign, [58; 61], true)
    else Some (TColon, [58], false)
  else None.

Definition single_op (c : N) : option ttype :=
  if c =? 40 then Some TOBracket else if c =? 41 then Some TCBracket
  else if c =? 91 then Some TOSqrBracket else if c =? 93 then Some TCSqrBracket
  else if c =? 123 then Some TOCurBracket else if c =? 125 then Some TCCurBracket
  else if c =? 42 then Some TAsterisk else if c =? 47 then Some TDivide
  else if c =? 37 then Some TModulus else if c =? 64 then Some TAddressOf
  else if c =? 46 then Some TDot else if c =? 61 then Some TEquals
  else if c =? 44 then Some TComma
  else None.

(* one iteration of the main loop on a non-empty remaining text c :: r at offset off:
   the item produced, the new line state and the remaining text *)
Definition lex_step (off : N) (st : lst) (c : N) (r : str) : item * lst * str :=
  if is_blank c then (IWs [c], st, r)
  else if c =? 10 then (IWs [c], record_nl off st, r)
  else if c =? 13 then
    match r with
    | c2 :: r2 => if c2 =? 10 then (IWs [c; c2], record_nl (off + 1) st, r2) else (IWs [c], st, r)
    | [] => (IWs [c], st, r)
    end
  else if is_word_start c then
    let '(w, rest) := span is_word_char (c :: r) in
    (ITok (create_token st off (classify w) w) w, st, rest)
  else if is_digit c then
    let '(w, rest) := span is_num_char (c :: r) in
    (ITok (create_token st off TNumericLiteral w) w, st, rest)
  else
    match single_op c with
    | Some ty => (ITok (create_token st off ty [c]) [c], st, r)
    | None =>
      if c =? 39 then
        let '(v, rest, nl, n) := read_sq r (off + 1) in
        (ITok (create_token st off TStringLiteral v) (c :: firstn (N.to_nat n) r),
         fold_left (fun s p => record_nl p s) nl st, rest)
      else if c =? 34 then
        let '(v, rest, nl, n) := read_dq r (off + 1) in
        (ITok (create_token st off TStringLiteral v) (c :: firstn (N.to_nat n) r),
         fold_left (fun s p => record_nl p s) nl st, rest)
      else if c =? 59 then
        let '(v, rest) := span not_eol r in
        (ITok (create_token st off TComment v) (c :: v), st, rest)
      else if c =? 35 then
        let '(d, rest) := span is_digit r in
        (ITok (create_token st off (match d with [] => TPound | _ => TStringLiteral end) (c :: d)) (c :: d), st, rest)
      else
        match double_op c (match r with x :: _ => Some x | [] => None end) with
        | Some (ty, v, dbl) =>
            if dbl then (ITok (create_token st off ty v) v, st, tl r)
            else (ITok (create_token st off ty v) v, st, r)
        | None => (IErr (mkErr (create_range st off 1) c) [c], st, r)
        end
    end.

Fixpoint lex_go (fuel : nat) (off : N) (st : lst) (l : str) : list item :=
  match fuel, l with
  | S f, c :: r =>
      let '(it, st', rest) := lex_step off st c r in
      it :: lex_go f (off + lenN (chunk_of it)) st' rest
  | _, _ => []
  end.

Definition lex_items (text : str) : list item := lex_go (length text) 0 lst0 text.

Definition tokens_of (l : list item) : list tok :=
  flat_map (fun i => match i with ITok t _ => [t] | _ => [] end) l.
Definition errors_of (l : list item) : list lexerr :=
  flat_map (fun i => match i with IErr e _ => [e] | _ => [] end) l.

(* GoldLexer::lex *)
Definition lex (text : str) : list tok * list lexerr :=
  let its := lex_items text in (tokens_of its, errors_of its).
