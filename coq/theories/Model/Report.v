(* C15 / C16: the ASSEMBLED diagnostics response, item by item and in order.
     /repo/src/manager/mod.rs   ProjectManager::generate_document_diagnostic_report / generate_diagnostics /
                                get_analyzer_diagnostics / analyze_ast / collect_diagnostics /
                                generate_diags_on_annotated_ast
     /repo/src/analyzers/ast_walker.rs, /repo/src/analyzers_v2/annotated_ast_walker.rs,
     /repo/src/utils.rs         GenericDiagnosticCollector (one Vec, push / take)
   built from the per-checker models of Model/UnusedVar.v and Model/Lints.v.  Executable; no proofs.

   generate_diagnostics(uri) =
     1. Document::get_parser_diagnostics() (parse_gold's diagnostics, then the lexer's errors), each mapped to a
        Diagnostic of severity ERROR, source "gold", no tag, message = the parser's message          -- in that order;
     2. get_analyzer_diagnostics: analyze_ast runs ONE AstWalker with the two v1 analysers registered
        (UnusedVarAnalyzer, FunctionReturnTypeChecker); each analyser pushes into ITS OWN Vec; collect_diagnostics
        appends the Vecs in registration order: all of UnusedVarAnalyzer's, then all of FunctionReturnTypeChecker's.
        The list is computed once per document and cached on it (set_analyzer_diagnostics);
     3. generate_diags_on_annotated_ast: ONE AnnotatedAstWalkerPreOrder over the annotated tree with the three v2
        checkers registered in the order unpurged, naming, inherited, all three holding the SAME
        GenericDiagnosticCollector.  Every checker pushes when it VISITS a node (UnpurgedVarByteArrayChecker: at a
        method node, after scanning that node's subtree, its Vec byte_array_seen in declaration order;
        NamingConventionChecker: at the declaration node itself; InheritedChecker: at the method node); notify_end
        pushes nothing.  So the collector's content is the pre-order listing of the tree with, per node, the pushes
        of unpurged, then naming, then inherited: an INTERLEAVING of the three checkers' own reports.  Recomputed on
        every request.

   Order: everything above is order-exact in the code EXCEPT inside UnusedVarAnalyzer::check_unused_vars, which
   iterates a HashMap: the "Unused var" warnings OF ONE METHOD come in an unspecified order (the "Var name already
   declared" errors of the method, pushed while collecting, precede them, in declaration order; methods in walk
   order).  Model/UnusedVar.v lists a method's warnings in insertion order; the correspondence check compares every
   maximal run of consecutive "Unused var" items as a multiset and everything else position by position. *)
From GoldV Require Import Base Tokens Lexer AstKinds Tree.
From GoldV Require UnusedVar Lints.

(* ParserDiagnostic { range, msg } *)
Record pdiag := mkPD { pd_range : range; pd_msg : str }.

(* the message of a response item, in the encodings of the checker models *)
Inductive dmsg :=
| MParser (m : str)                              (* the parser's / lexer's own text *)
| MUnused (cls : N) (key : str)                  (* UnusedVar.dclass / UnusedVar.dkey *)
| MLint (cls : Lints.dclass) (key : str).        (* Lints.dcls / Lints.dkey *)

(* lsp_types::Diagnostic as far as the server fills it: range, severity, source, tags, message
   (code, code_description, related_information, data are None everywhere) *)
Record diag := mkD {
  d_range : range;
  d_sev : N;               (* DiagnosticSeverity: 1 ERROR, 2 WARNING *)
  d_src : str;             (* Some(source) *)
  d_tags : list N;         (* DiagnosticTag numbers; [] = None; UNNECESSARY = 1 *)
  d_msg : dmsg
}.

Definition s_gold : str := [103;111;108;100].          (* "gold" = DIAGNOSTIC_SOURCE_GOLD *)
Definition SEV_ERROR : N := 1.
Definition TAG_UNNECESSARY : N := 1.

(* generate_diagnostics, the closure over get_parser_diagnostics() *)
Definition of_pdiag (p : pdiag) : diag := mkD (pd_range p) SEV_ERROR s_gold [] (MParser (pd_msg p)).

(* UnusedVarAnalyzer: both of its diagnostics carry source "gold" and the tag UNNECESSARY *)
Definition of_uv (d : UnusedVar.diag) : diag :=
  mkD (UnusedVar.drange d) (UnusedVar.dsev d) s_gold [TAG_UNNECESSARY] (MUnused (UnusedVar.dclass d) (UnusedVar.dkey d)).

(* the four rule checkers: source "gold", no tag *)
Definition of_lint (d : Lints.diag) : diag :=
  mkD (Lints.drng d) (Lints.dsev d) s_gold [] (MLint (Lints.dcls d) (Lints.dkey d)).

(* ---- 2. the v1 analysers: two Vecs, appended in registration order ---- *)
Definition v1_report (t : node) : list diag :=
  map of_uv (UnusedVar.analyze_today t) ++ map of_lint (Lints.ret_type_lint t).

(* ---- 3. the v2 checkers: one walk, one collector, three visitors per node ---- *)
(* AnnotatedAstWalkerPreOrder::visit: `for visitor in self.visitors.iter_mut() { visitor.visit_w_context(node, ..) }`
   with visitors = [unpurged, naming, inherited]; `out` is the shared collector *)
Definition v2_visit (c : Lints.wctx) (anc : list node) (n : node) (out : list Lints.diag) : list Lints.diag :=
  Lints.inh_visit c anc n (Lints.name_visit c anc n (Lints.unp_visit c anc n out)).

(* walk(&annotated_ast); take_diagnostics() *)
Definition v2_walk (t : node) : list Lints.diag := Lints.run2 v2_visit (fun s => s) t [].

(* ---- the response of a first request ---- *)
Definition report (t : node) (pd : list pdiag) : list diag :=
  map of_pdiag pd ++ v1_report t ++ map of_lint (v2_walk t).

(* ---- successive requests on one document: the v1 list is cached on the Document, the parser diagnostics are
        stored on it, the v2 list is recomputed from the (cached) annotated tree ---- *)
Record rdoc := mkRDoc { r_ast : node; r_pd : list pdiag; r_cache : option (list diag) }.
Definition fresh_rdoc (t : node) (pd : list pdiag) : rdoc := mkRDoc t pd None.

Definition request (d : rdoc) : list diag * rdoc :=
  let v1 := match r_cache d with Some l => l | None => v1_report (r_ast d) end in
  (map of_pdiag (r_pd d) ++ v1 ++ map of_lint (v2_walk (r_ast d)), mkRDoc (r_ast d) (r_pd d) (Some v1)).

(* ---- the message texts (format! / literals of the five checkers) ---- *)
Definition m_unused : str := [85;110;117;115;101;100;32;118;97;114;58;32].   (* "Unused var: " *)
Definition m_dup : str := [86;97;114;32;110;97;109;101;32;97;108;114;101;97;100;121;32;100;101;99;108;97;114;101;100].   (* "Var name already declared" *)
Definition m_ret_tail : str := [32;116;121;112;101;32;115;104;111;117;108;100;32;110;111;116;32;98;101;32;114;101;116;117;114;110;101;100;32;98;121;32;102;117;110;99;116;105;111;110;115;44;32;112;97;115;115;32;105;116;32;97;115;32;105;110;111;117;116;47;118;97;114;32;112;97;114;97;109;32;105;110;115;116;101;97;100].   (* " type should not be returned by functions, pass it as inout/var param instead" *)
Definition m_inh_head : str := [77;101;116;104;111;100;32;39].   (* "Method '" *)
Definition m_inh_tail : str := [39;32;115;104;111;117;108;100;32;99;97;108;108;32;105;116;115;32;105;110;104;101;114;105;116;101;100;32;105;109;112;108;101;109;46].   (* "' should call its inherited implem." *)
Definition m_purge_head : str := [76;111;99;97;108;32;116;86;97;114;66;121;116;101;65;114;114;97;121;32;39].   (* "Local tVarByteArray '" *)
Definition m_purge_tail : str := [39;32;105;115;32;110;111;116;32;112;117;114;103;101;100].   (* "' is not purged" *)
Definition m_nproc : str := [80;114;111;99;101;100;117;114;101;32;110;97;109;101;115;32;115;104;111;117;108;100;32;104;97;118;101;32;99;97;112;105;116;97;108;32;102;105;114;115;116;32;108;101;116;116;101;114].   (* "Procedure names should have capital first letter" *)
Definition m_nfunc : str := [70;117;110;99;116;105;111;110;32;110;97;109;101;115;32;115;104;111;117;108;100;32;104;97;118;101;32;99;97;112;105;116;97;108;32;102;105;114;115;116;32;108;101;116;116;101;114].   (* "Function names should have capital first letter" *)
Definition m_nfield : str := [70;105;101;108;100;32;110;97;109;101;115;32;115;104;111;117;108;100;32;104;97;118;101;32;99;97;112;105;116;97;108;32;102;105;114;115;116;32;108;101;116;116;101;114].   (* "Field names should have capital first letter" *)
Definition m_nparam : str := [80;97;114;97;109;101;116;101;114;32;110;97;109;101;115;32;115;104;111;117;108;100;32;104;97;118;101;32;99;97;112;105;116;97;108;32;102;105;114;115;116;32;108;101;116;116;101;114].   (* "Parameter names should have capital first letter" *)
Definition m_nlocal : str := [76;111;99;97;108;32;118;97;114;105;97;98;108;101;32;110;97;109;101;115;32;115;104;111;117;108;100;32;104;97;118;101;32;108;111;119;101;114;99;97;115;101;32;102;105;114;115;116;32;108;101;116;116;101;114].   (* "Local variable names should have lowercase first letter" *)
Definition m_ntype : str := [84;121;112;101;32;110;97;109;101;115;32;115;104;111;117;108;100;32;115;116;97;114;116;32;119;105;116;104;32;116;44;32;101;46;103;46;32;116;83;111;109;101;84;121;112;101].   (* "Type names should start with t, e.g. tSomeType" *)
Definition m_nconst : str := [67;111;110;115;116;97;110;116;32;110;97;109;101;115;32;115;104;111;117;108;100;32;115;116;97;114;116;32;119;105;116;104;32;99;44;32;101;46;103;46;32;99;83;111;109;101;67;111;110;115;116;97;110;116].   (* "Constant names should start with c, e.g. cSomeConstant" *)

(* Diagnostic.message *)
Definition msg_text (m : dmsg) : str :=
  match m with
  | MParser s => s
  | MUnused cls key => if cls =? UnusedVar.CL_UNUSED then m_unused ++ key else m_dup
  | MLint Lints.RET key => key ++ m_ret_tail
  | MLint Lints.INH key => m_inh_head ++ key ++ m_inh_tail
  | MLint Lints.PURGE key => m_purge_head ++ key ++ m_purge_tail
  | MLint Lints.NPROC _ => m_nproc
  | MLint Lints.NFUNC _ => m_nfunc
  | MLint Lints.NFIELD _ => m_nfield
  | MLint Lints.NPARAM _ => m_nparam
  | MLint Lints.NLOCAL _ => m_nlocal
  | MLint Lints.NTYPE _ => m_ntype
  | MLint Lints.NCONST _ => m_nconst
  end.

(* ---- what each checker says when it is driven alone (its own walker, its own collector): the third section of
        the engine's observation, as response items ---- *)
Definition alone_unused (t : node) : list diag := map of_uv (UnusedVar.analyze_today t).
Definition alone_ret (t : node) : list diag := map of_lint (Lints.ret_type_lint t).
Definition alone_unpurged (t : node) : list diag := map of_lint (Lints.unpurged_lint t).
Definition alone_naming (t : node) : list diag := map of_lint (Lints.naming_lint t).
Definition alone_inherited (t : node) : list diag := map of_lint (Lints.inherited_lint t).
