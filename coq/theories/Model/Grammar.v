(* Model of /repo/src/parser/mod.rs, body_parser.rs and oql_parser.rs: one definition per Rust
   parse_* function, same order of alternatives, same error positions, same ranges.
   Recursion between the grammar's recursive entry points (type, expression, primary, statement)
   goes through the fuel-indexed record [gram fuel]; fuel = number of tokens + 1 suffices
   (every descent is preceded by the consumption of a token).  No property proofs here. *)
From GoldV Require Import Base Tokens Lexer AstKinds Tree Strings PComb.
Open Scope N_scope.

(* ---------- node builders (attribute order = harness/src/treedump.rs) ---------- *)

Definition opt_toks (o : option tok) : aval := AL (match o with Some t => [t] | None => [] end).
Definition opt_list {A} (o : option A) : list A := match o with Some a => [a] | None => [] end.
Definition tpos (t : tok) : pos := rstart (trange t).
Definition range_of_toks (a b : tok) : range := mkRange (tpos a) (rend (trange b)).   (* create_new_range_from_irange *)

Definition mk_terminal (t : tok) : node :=
  Node KAstTerminal (tval t) (traw t) (trange t) [(K_token, AT t)] [].
Definition mk_empty_default : node :=
  Node KAstEmpty S_empty_node 0 range_default [] [].
Definition mk_binop (op : tok) (l r : node) : node :=
  Node KAstBinaryOp (tval op) (nraw l) (new_range (nrange l) (nrange r)) [(K_op, AT op)] [l; r].

Definition b2n (b : bool) : N := if b then 1 else 0.

(* ---------- small shared parsers ---------- *)

Definition tok_alt (tys : list ttype) : P tok := alt (map exp_token tys).

(* parse_comment *)
Definition parse_comment : P node :=
  t <- exp_token TComment ;;
  ret (Node KAstComment S_comment (traw t) (trange t) [(K_str, AS (tval t))] []).

(* parse_annotations: `[` ... `]`; without the closing bracket the error is located just after the `[`
   (before /repo's repair an unclosed bracket swallowed the rest of the file and succeeded).
   `opt` continues at its original input when its argument fails, which is where the code puts the error. *)
Definition annotation_body : P unit :=
  r <- take_until [TCSqrBracket] ;;
  match snd r with
  | Some _ => ret tt
  | None => fail S_Annotation_is_not_closed
  end.

Definition parse_annotations : P node :=
  _ <- exp_token TOSqrBracket ;;
  r <- opt annotation_body ;;
  match r with
  | Some _ => ret mk_empty_default
  | None => fail S_Annotation_is_not_closed
  end.

(* parse_literal_basic *)
Definition parse_literal_basic : P node :=
  t <- tok_alt [TStringLiteral; TNumericLiteral; TBooleanTrue; TBooleanFalse; TNil] ;;
  ret (mk_terminal t).

(* parse_ident_token: keywords that may also be member identifiers *)
Definition parse_ident_token : P tok :=
  tok_alt [TIdentifier; TType; TDistinct; TFrom; TSelect; TTop; TUsing; TWhere; TAllVersionsOf;
           TPhantomsToo; TConditional; TDescending; TOrder; TBy; TFetch; TInto].

Definition parse_identifier : P node := t <- parse_ident_token ;; ret (mk_terminal t).

(* parse_binary_ops_w_context *)
Definition empty_after_dot (op : tok) (e : input) : node :=
  let s := tpos op in
  let start := mkRange (mkPos (pline s) (pcol s + 1)) (mkPos (pline s) (pcol s + 2)) in
  let end_ := match e with t :: _ => trange t | [] => start end in
  Node KAstEmpty S_empty_node (traw op + 1) (new_range start end_) [] [].

Fixpoint binops_go (fuel : nat) (opp : P tok) (ep : P node) (left : node) : P node :=
  fun i c =>
    match fuel with
    | O => (NoFuel, c)
    | S f =>
        match opp i c with
        | (Ok r op, c1) =>
            match ep r c1 with
            | (Ok r2 rn, c2) => binops_go f opp ep (mk_binop op left rn) r2 c2
            | (Err e _, c2) =>
                if tt_eqb (tty op) TDot
                then binops_go f opp ep (mk_binop op left (empty_after_dot op e)) r c2
                else (Ok i left, c2)
            | (Panic s, c2) => (Panic s, c2)
            | (NoFuel, c2) => (NoFuel, c2)
            end
        | (Err _ _, c1) => (Ok i left, c1)
        | (Panic s, c1) => (Panic s, c1)
        | (NoFuel, c1) => (NoFuel, c1)
        end
    end.
Definition binops (opp : P tok) (ep : P node) : P node :=
  fun i c =>
    match ep i c with
    | (Ok r ln, c1) => binops_go (S (length r)) opp ep ln r c1
    | (Err e m, c1) => (Err e m, c1)
    | (Panic s, c1) => (Panic s, c1)
    | (NoFuel, c1) => (NoFuel, c1)
    end.

(* run a parser on an explicitly given token slice, keeping the caller's position *)
Definition on_slice {A} (slice : input) (p : P A) : P A :=
  fun i c =>
    match p slice c with
    | (Ok _ a, c1) => (Ok i a, c1)
    | (Err e m, c1) => (Err e m, c1)
    | (Panic s, c1) => (Panic s, c1)
    | (NoFuel, c1) => (NoFuel, c1)
    end.

(* ---------- types ---------- *)

Definition parse_type_basic : P node :=
  t <- tok_alt [TIdentifier] ;;
  ret (Node KAstTypeBasic (tval t) (traw t) (trange t) [(K_token, AT t)] []).

Definition parse_enum_variant : P node :=
  _ <- opt parse_annotations ;;
  v <- exp_token TIdentifier ;;
  a <- opt (seq_tokens [TEquals; TNumericLiteral]) ;;
  let value := match a with Some [_; t] => Some t | _ => None end in
  ret (Node KAstEnumVariant (tval v) (traw v) (trange v) [(K_ident, AT v); (K_value, opt_toks value)] []).

Definition parse_type_sized : P node :=
  id <- exp_token TIdentifier ;;
  _ <- exp_token TOBracket ;;
  sz <- exp_token TNumericLiteral ;;
  cb <- exp_token TCBracket ;;
  ret (Node KAstTypeSized (tval id) (traw id) (new_range (trange id) (trange cb))
            [(K_token, AT id); (K_value, AL [sz])] []).

Definition parse_type_enum : P node :=
  ob <- exp_token TOBracket ;;
  vs <- sep_list parse_enum_variant TComma ;;
  cb <- exp_token TCBracket ;;
  ret (Node KAstTypeEnum S_type_enum (traw ob) (range_of_toks ob cb) [] vs).

Definition parse_type_composed : P node :=
  binops (exp_token TPlus) (alt [parse_type_basic; parse_type_enum]).

Definition parse_type_reference_options : P (list tok) :=
  o <- exp_token TOSqrBracket ;;
  opts <- sep_tokens TIdentifier TComma ;;
  cl <- exp_token TCSqrBracket ;;
  ret (o :: opts ++ [cl]).

Definition parse_type_reference : P node :=
  rt <- tok_alt [TRefTo; TListOf] ;;
  o <- recover_at_error parse_type_reference_options ;;
  let option_tokens := match o with Some l => l | None => [] end in
  id <- exp_token TIdentifier ;;
  inv <- opt (exp_token TInverse) ;;
  invv <- match inv with
          | Some _ => t <- exp_token TIdentifier ;; ret (Some t)
          | None => ret None
          end ;;
  let end_range := match invv with Some t => trange t | None => trange id end in
  (* if there are options remove open and close sqr brackets *)
  let options := match option_tokens with [] => [] | _ :: l => removelast l end in
  ret (Node KAstTypeReference (tval id) (traw rt) (new_range (trange rt) end_range)
            [(K_ident, AT id); (K_op, AT rt); (K_value, opt_toks invv); (K_options, AL options)] []).

Definition parse_type_range : P node :=
  from <- parse_literal_basic ;;
  _ <- exp_token TTo ;;
  to <- parse_literal_basic ;;
  ret (Node KAstTypeRange S_type_range (nraw from) (new_range (nrange from) (nrange to)) [] [from; to]).

Definition parse_type_set : P node :=
  ob <- exp_token TOSqrBracket ;;
  st <- parse_type_basic ;;
  cb <- exp_token TCSqrBracket ;;
  ret (Node KAstTypeSet (nident st) (traw ob) (new_range (trange ob) (trange cb)) [] [st]).

Definition parse_type_pointer : P node :=
  d <- exp_token TDot ;;
  ty <- parse_type_basic ;;
  ret (Node KAstTypePointer S_type_pointer (traw d) (new_range (trange d) (nrange ty)) [] [ty]).

Definition parse_type_array_index : P node :=
  _ <- exp_token TOSqrBracket ;;
  ix <- alt [parse_type_basic; parse_type_range] ;;
  _ <- exp_token TCSqrBracket ;;
  ret ix.

Definition parse_type_array : P node :=
  a <- tok_alt [TArray; TSequence] ;;
  i1 <- parse_type_array_index ;;
  i2 <- opt parse_type_array_index ;;
  _ <- exp_token TOf ;;
  ot <- parse_type_basic ;;
  ret (Node KAstTypeArray S_type_array (traw a) (new_range (trange a) (nrange ot))
            [(K_op, AT a)] (i1 :: opt_list i2 ++ [ot])).

Definition parse_type_instanceof : P node :=
  t <- exp_token TInstanceOf ;;
  ty <- parse_type_basic ;;
  ret (Node KAstTypeInstanceOf (nident ty) (traw t) (new_range (trange t) (nrange ty)) [] [ty]).

Section TypesWithRec.
  Variable rec_type : P node.     (* parse_type at the next fuel level *)

  Definition parse_type_record_field : P node :=
    _ <- opt parse_annotations ;;
    id <- exp_token TIdentifier ;;
    _ <- exp_token TColon ;;
    ty <- rec_type ;;
    ret (Node KAstTypeRecordField (tval id) (traw id) (new_range (trange id) (nrange ty))
              [(K_ident, AT id)] [ty]).

  Definition parse_type_record : P node :=
    rt <- exp_token TRecord ;;
    pt <- opt (seq_tokens [TOBracket; TIdentifier; TCBracket]) ;;
    let parent := match pt with Some [_; t; _] => Some (mk_terminal t) | _ => None end in
    '(fields, endt) <- until_strict (exp_token TEndRecord) parse_type_record_field ;;
    let end_ := match endt with
                | Some t => trange t
                | None => match rev fields with n :: _ => nrange n | [] => trange rt end
                end in
    ret (Node KAstTypeRecord S_type_record (traw rt) (new_range (trange rt) end_) []
              (opt_list parent ++ fields)).

  Definition parse_parameter_declaration : P node :=
    m <- recover_at_error (tok_alt [TConst; TVar; TInOut]) ;;
    id <- parse_ident_token ;;
    let first := match m with Some t => t | None => id end in
    let raw := traw first in
    let p := tpos first in
    col <- recover_at_error (exp_token TColon) ;;
    match col with
    | Some _ =>
        ty <- prepend S_Failed_parsing_parameter_decl rec_type ;;
        ret (Node KAstParameterDeclaration (tval id) raw (mkRange p (rend (nrange ty)))
                  [(K_ident, AT id); (K_value, opt_toks m)] [ty])
    | None =>
        (* without a type the declaration ends where its name ends *)
        ret (Node KAstParameterDeclaration (tval id) raw (mkRange p (rend (trange id)))
                  [(K_ident, AT id); (K_value, opt_toks m)] [])
    end.

  Definition parse_parameter_declaration_list : P (option node) :=
    ob <- recover_at_error (exp_token TOBracket) ;;
    match ob with
    | None => ret None
    | Some ob =>
        ps <- prepend S_Failed_to_parse_param_list_decl (sep_list parse_parameter_declaration TComma) ;;
        cb <- prepend S_Failed_to_parse_param_list_decl (exp_token TCBracket) ;;
        ret (Some (Node KAstParameterDeclarationList S_param_decls (traw ob)
                        (mkRange (tpos ob) (rend (trange cb))) [] ps))
    end.

  Definition parse_type_procedure : P node :=
    pt <- exp_token TProc ;;
    ps <- prepend S_failed_to_parse_proc_type parse_parameter_declaration_list ;;
    let end_ := match ps with Some n => nrange n | None => trange pt end in
    ret (Node KAstTypeProcedure S_type_proc (traw pt) (new_range (trange pt) end_) [] (opt_list ps)).

  Definition parse_type_function : P node :=
    ft <- exp_token TFunc ;;
    ps <- parse_parameter_declaration_list ;;
    _ <- exp_token TReturn ;;
    rt <- parse_type_basic ;;
    ret (Node KAstTypeFunction S_type_func (traw ft) (new_range (trange ft) (nrange rt)) []
              (opt_list ps ++ [rt])).

  Definition parse_type_body : P node :=
    alt [parse_type_sized; parse_type_composed; parse_type_basic; parse_type_reference;
         parse_type_range; parse_type_set; parse_type_record; parse_type_pointer; parse_type_array;
         parse_type_procedure; parse_type_function; parse_type_instanceof].
End TypesWithRec.

(* ---------- declarations that need only parse_type ---------- *)

Definition pfx_const : str := S_Cannot_parse_constant_decl.

Definition parse_constant_declaration : P node :=
  ct <- prepend pfx_const (exp_token TConst) ;;
  id <- prepend pfx_const (exp_token TIdentifier) ;;
  _ <- prepend pfx_const (exp_token TEquals) ;;
  v <- prepend pfx_const (tok_alt [TStringLiteral; TNumericLiteral]) ;;
  ml <- recover_at_error (exp_token TMultiLang) ;;
  ret (Node KAstConstantDeclaration (tval id) (traw ct) (range_of_toks ct v)
            [(K_ident, AT id); (K_flags, AN (b2n (match ml with Some _ => true | None => false end)));
             (K_value, AL [v])] []).

Definition parse_uses : P node :=
  ut <- exp_token TUses ;;
  ids <- sep_tokens TIdentifier TComma ;;
  let end_ := match rev ids with t :: _ => rend (trange t) | [] => rend (trange ut) end in
  ret (Node KAstUses S_uses (traw ut) (mkRange (tpos ut) end_) [(K_uses, AL ids)] []).

Section DeclsWithType.
  Variable ptype : P node.      (* parse_type *)

  Definition parse_type_declaration : P node :=
    _ <- opt parse_annotations ;;
    ts <- seq_tokens [TType; TIdentifier; TColon] ;;
    match ts with
    | [t0; t1; _] =>
        ty <- ptype ;;
        ret (Node KAstTypeDeclaration (tval t1) (traw t0) (mkRange (tpos t0) (rend (nrange ty)))
                  [(K_ident, AT t1)] [ty])
    | _ => fun i c => (Panic 2, c)
    end.

  Definition parse_local_var_decl : P node :=
    vt <- exp_token TVar ;;
    id <- exp_token TIdentifier ;;
    _ <- exp_token TColon ;;
    ty <- ptype ;;
    ab <- opt (exp_token TAbsolute) ;;
    an <- match ab with
          | Some _ => n <- parse_identifier ;; ret (Some n)
          | None => ret None
          end ;;
    let end_range := match an with Some n => nrange n | None => nrange ty end in
    ret (Node KAstLocalVariableDeclaration (tval id) (traw vt) (new_range (trange vt) end_range)
              [(K_ident, AT id)] (ty :: opt_list an)).
End DeclsWithType.

(* ---------- expressions ---------- *)

Definition CACHE_PRIMARY : N := 0.
Definition CACHE_EXPR : N := 1.
Definition CACHE_METHOD_CALL : N := 2.

Section ExprWithRec.
  Variable rec_expr : P node.       (* parse_expr at the next fuel level *)
  Variable rec_primary : P node.    (* parse_primary at the next fuel level *)

  Definition parse_literal_set : P node :=
    ob <- exp_token TOSqrBracket ;;
    items <- sep_list rec_primary TComma ;;
    cb <- exp_token TCSqrBracket ;;
    ret (Node KAstSetLiteral S_set_literal (traw ob) (new_range (trange ob) (trange cb)) [] items).

  Definition parse_literals : P node := alt [parse_literal_basic; parse_literal_set].

  Definition parse_method_call : P node :=
    memo CACHE_METHOD_CALL (
      id <- parse_identifier ;;
      _ <- exp_token TOBracket ;;
      ps <- sep_list rec_expr TComma ;;
      cb <- exp_token TCBracket ;;
      ret (Node KAstMethodCall (nident id) (nraw id) (mkRange (rstart (nrange id)) (rend (trange cb))) [] ps)).

  Definition parse_array_access : P node :=
    id <- parse_identifier ;;
    _ <- exp_token TOSqrBracket ;;
    ix <- rec_expr ;;
    cb <- exp_token TCSqrBracket ;;
    ret (Node KAstArrayAccess (nident id) (nraw id) (new_range (nrange id) (trange cb)) [] [id; ix]).

  Definition parse_dot_op : P node := alt [parse_method_call; parse_array_access; parse_identifier].
  Definition parse_dot_ops : P node := binops (exp_token TDot) parse_dot_op.

  Definition parse_bracket_closure : P node :=
    _ <- exp_token TOBracket ;;
    e <- rec_expr ;;
    _ <- exp_token TCBracket ;;
    ret e.

  Definition parse_unary_op_pre : P node :=
    op <- tok_alt [TNot; TBNot; TAddressOf; TInherited; TMinus] ;;
    e <- rec_primary ;;
    ret (Node KAstUnaryOp (tval op) (traw op) (mkRange (tpos op) (rend (nrange e))) [(K_op, AT op)] [e]).

  Definition parse_unary_op_post : P node :=
    e <- parse_dot_ops ;;
    op <- tok_alt [TIncrement; TDecrement] ;;
    ret (Node KAstUnaryOp (tval op) (nraw e) (mkRange (rstart (nrange e)) (rend (trange op))) [(K_op, AT op)] [e]).

  Definition parse_unary_op : P node := alt [parse_unary_op_pre; parse_unary_op_post].

  Definition parse_primary_body : P node :=
    memo CACHE_PRIMARY (alt [parse_bracket_closure; parse_unary_op; parse_dot_ops; parse_literals]).
End ExprWithRec.

(* the operator ladder above parse_primary; [prim] is parse_primary of the SAME level *)
Section Ladder.
  Variable prim : P node.
  Definition parse_factors := binops (tok_alt [TAsterisk; TDivide; TModulus]) prim.
  Definition parse_terms := binops (tok_alt [TPlus; TMinus; TStringConcat; TStringConcat2]) parse_factors.
  Definition parse_bit_ops_1 := binops (tok_alt [TBAnd]) parse_terms.
  Definition parse_bit_ops_2 := binops (tok_alt [TBOr; TBXor]) parse_bit_ops_1.
  Definition parse_shifts := binops (tok_alt [TLeftShift; TRightShift]) parse_bit_ops_2.
  Definition parse_compare :=
    binops (tok_alt [TEquals; TNotEquals; TLessThan; TLessThanOrEqual; TGreaterThan;
                     TGreaterThanOrEqual; TIn; TLike]) parse_shifts.
  Definition parse_logical_and := binops (tok_alt [TAnd]) parse_compare.
  Definition parse_logical_or := binops (tok_alt [TOr; TXor]) parse_logical_and.
  Definition parse_expr_body : P node := memo CACHE_EXPR (alt [parse_logical_or]).
End Ladder.

(* ---------- OQL (needs expression parsers of one level) ---------- *)

Section Oql.
  Variable pexpr : P node.       (* parse_expr *)
  Variable pdotops : P node.     (* parse_dot_ops *)
  Variable pcompare : P node.    (* parse_compare *)

  Definition parse_asterisk : P node := t <- exp_token TAsterisk ;; ret (mk_terminal t).

  Definition parse_top_n : P node :=
    _ <- exp_token TTop ;; alt [parse_literal_basic; parse_identifier].

  Definition parse_oql_method_call : P node :=
    id <- parse_identifier ;;
    _ <- exp_token TOBracket ;;
    ps <- sep_list parse_asterisk TComma ;;
    cb <- exp_token TCBracket ;;
    ret (Node KAstMethodCall (nident id) (nraw id) (new_range (nrange id) (trange cb)) [] ps).

  Definition parse_select_item : P node := alt [parse_asterisk; parse_oql_method_call; pdotops].

  Definition parse_join_item : P node :=
    jt <- alt [exp_ident_with_value S_outerjoinon; exp_ident_with_value S_leftouterjoinon;
               exp_ident_with_value S_rightouterjoinon; exp_ident_with_value S_fullouterjoinon] ;;
    cn <- pcompare ;;
    ret (Node KAstOQLJoin (tval jt) (traw jt) (new_range (trange jt) (nrange cn)) [(K_op, AT jt)] [cn]).

  Definition parse_from_item : P node :=
    cond <- opt (exp_token TConditional) ;;
    allv <- opt (exp_token TAllVersionsOf) ;;
    ph <- opt (exp_token TPhantomsToo) ;;
    al <- exp_token TIdentifier ;;
    let '(sraw, start) := match cond with
                          | Some t => (traw t, trange t)
                          | None => (traw al, trange al)
                          end in
    _ <- exp_token TIn ;;
    src <- parse_identifier ;;
    sub <- opt (exp_token TIncrement) ;;
    joins <- until_no_match parse_join_item ;;
    let end_ := match rev joins with
                | n :: _ => nrange n
                | [] => match sub with Some t => trange t | None => nrange src end
                end in
    let isS {A} (o : option A) := match o with Some _ => 1 | None => 0 end in
    ret (Node KAstOQLFromNode (tval al) sraw (new_range start end_)
              [(K_ident, AT al); (K_flags, AN (isS cond + 2 * isS allv + 4 * isS ph + 8 * isS sub))]
              (src :: joins)).

  Definition parse_where : P node := _ <- exp_token TWhere ;; pexpr.

  Definition parse_order_by_item : P node :=
    f <- pdotops ;;
    d <- opt (exp_token TDescending) ;;
    let end_ := match d with Some t => trange t | None => nrange f end in
    ret (Node KAstOQLOrderBy S_oql_order_by_node (nraw f) (new_range (nrange f) end_)
              [(K_flags, AN (match d with Some _ => 1 | None => 0 end))] [f]).

  Definition parse_order_by : P (list node) :=
    _ <- exp_token TOrder ;; _ <- exp_token TBy ;; sep_list parse_order_by_item TComma.

  Definition parse_using : P node := _ <- exp_token TUsing ;; parse_identifier.

  Definition last_range (l : list node) (dflt : range) : range :=
    match rev l with n :: _ => nrange n | [] => dflt end.

  Definition parse_oql_select : P node :=
    ot <- exp_token TOQL ;;
    st <- exp_token TSelect ;;
    lim <- opt parse_top_n ;;
    dist <- opt (exp_token TDistinct) ;;
    sel <- sep_list parse_select_item TComma ;;
    let e1 := last_range sel (trange st) in
    _ <- exp_token TFrom ;;
    frm <- sep_list parse_from_item TComma ;;
    let e2 := last_range frm e1 in
    wh <- opt parse_where ;;
    let e3 := match wh with Some n => nrange n | None => e2 end in
    ob <- opt parse_order_by ;;
    let e4 := match ob with Some l => last_range l e3 | None => e3 end in
    us <- opt parse_using ;;
    let e5 := match us with Some n => nrange n | None => e4 end in
    ret (Node KAstOQLSelect S_oql_select (traw ot) (new_range (trange ot) e5)
              [(K_flags, AN (match dist with Some _ => 1 | None => 0 end))]
              (opt_list lim ++ sel ++ frm ++ opt_list wh ++ (match ob with Some l => l | None => [] end) ++ opt_list us)).

  Definition parse_oql_fetch : P node :=
    ot <- exp_token TOQL ;;
    _ <- exp_token TFetch ;;
    it <- exp_token TInto ;;
    into <- sep_list pdotops TComma ;;
    us <- opt parse_using ;;
    let end_ := match us with Some n => nrange n | None => last_range into (trange it) end in
    ret (Node KAstOQLFetch S_oql_fetch (traw ot) (new_range (trange ot) end_) []
              (into ++ opt_list us)).

  Definition parse_oql_expr : P node := alt [parse_oql_select; parse_oql_fetch].
End Oql.

(* ---------- statements ---------- *)

Record cblock := mkCB { cb_raw : N; cb_range : range; cb_cond : option node; cb_stmts : list node }.
Definition cb_node (b : cblock) : node :=
  Node KAstConditionalBlock S_cond_block (cb_raw b) (cb_range b) [] (opt_list (cb_cond b) ++ cb_stmts b).
(* update_cond_block_range *)
Definition cb_update (b : cblock) : cblock :=
  let end_range := match rev (cb_stmts b) with
                   | n :: _ => nrange n
                   | [] => match cb_cond b with Some n => nrange n | None => cb_range b end
                   end in
  mkCB (cb_raw b) (new_range (cb_range b) end_range) (cb_cond b) (cb_stmts b).

Section StmtWithRec.
  Variable ptype : P node.          (* parse_type *)
  Variable pexpr : P node.          (* parse_expr *)

  Variable pdotops : P node.        (* parse_dot_ops *)
  Variable pcompare : P node.       (* parse_compare *)
  Variable rec_stmt : P node.       (* parse_statement_v2 at the next fuel level *)

  Definition parse_assignment : P node :=
    l <- pdotops ;;
    op <- tok_alt [TEquals; TDecrementAssign; TIncrementAssign; TDeepAssign] ;;
    r <- pexpr ;;
    ret (mk_binop op l r).

  (* parse_if_block_v3: the loop over if / elseif / else blocks *)
  Fixpoint if_loop (fuel : nat) (if_tok : tok) (cur : cblock) (done : list cblock)
    : P (cblock * list cblock * option tok) :=
    fun i c =>
      match fuel with
      | O => (NoFuel, c)
      | S f =>
          match i with
          | [] => (Ok i (cur, done, None), c)
          | _ =>
              match until_w_ctx (tok_alt [TElseIf; TElse; TEndIf; TEnd]) rec_stmt i c with
              | (Ok r (nodes, endt), c1) =>
                  let cur1 := mkCB (cb_raw cur) (cb_range cur) (cb_cond cur) (cb_stmts cur ++ nodes) in
                  match endt with
                  | Some t =>
                      if tt_eqb (tty t) TEndIf || tt_eqb (tty t) TEnd then
                        (Ok r (cb_update cur1, done, Some t), c1)
                      else if tt_eqb (tty t) TElseIf then
                        match pexpr r c1 with
                        | (Ok r2 cond, c2) =>
                            if_loop f if_tok (mkCB (traw t) (trange t) (Some cond) []) (done ++ [cb_update cur1]) r2 c2
                        | (Err e m, c2) => (Err e m, c2)
                        | (Panic s, c2) => (Panic s, c2)
                        | (NoFuel, c2) => (NoFuel, c2)
                        end
                      else if tt_eqb (tty t) TElse then
                        if_loop f if_tok (mkCB (traw t) (trange t) None []) (done ++ [cb_update cur1]) r c1
                      else (Err r S_error_while_parsing_if_something_went_wrong, c1)
                  | None =>
                      if_loop f if_tok cur1 done r
                              (add_diag (mkDiag (trange if_tok) S_no_end_token_found) c1)
                  end
              | (Err e m, c1) => (Err e m, c1)
              | (Panic s, c1) => (Panic s, c1)
              | (NoFuel, c1) => (NoFuel, c1)
              end
          end
      end.

  Definition parse_if_block : P node :=
    it <- exp_token TIf ;;
    cond <- pexpr ;;
    let first := mkCB (traw it) (new_range (trange it) (trange it)) (Some cond) [] in
    '(cur, done, endt) <- (fun i c => if_loop (S (S (length i))) it first [] i c) ;;
    (* `done` holds the finished blocks in order, `cur` the block being filled when the loop ended;
       the first of them is the if block, the others are the elseif / else blocks *)
    let blocks := match done with [] => (cur, []) | d :: ds => (d, ds ++ [cur]) end in
    let r0 := new_range (trange it) (nrange cond) in
    let r := match endt with Some t => new_range r0 (trange t) | None => r0 end in
    ret (Node KAstIfBlock S_if (traw it) r [(K_end, opt_toks endt)] (map cb_node (fst blocks :: snd blocks))).

  Definition parse_to_op : P node :=
    l <- parse_literal_basic ;;
    op <- exp_token TTo ;;
    r <- parse_literal_basic ;;
    ret (Node KAstBinaryOp (tval op) (nraw l) (new_range (nrange l) (nrange r)) [(K_op, AT op)] [l; r]).

  Definition parse_separated_values : P node :=
    items <- sep_list (alt [parse_literal_basic; parse_identifier]) TComma ;;
    match items with
    | first :: _ =>
        let last := match rev items with n :: _ => n | [] => first end in
        ret (Node KAstSetLiteral S_set_literal (nraw first) (new_range (nrange first) (nrange last)) [] items)
    | [] => fail S_Empty_list
    end.

  Definition parse_when_expr : P node := alt [parse_to_op; parse_separated_values].

  Definition parse_when_block : P node :=
    wt <- exp_token TWhen ;;
    we <- parse_when_expr ;;
    '(stmts, endt) <- until_w_ctx (exp_token TEndWhen) rec_stmt ;;
    let end_ := match endt with Some t => trange t | None => trange wt end in
    ret (Node KAstWhenBlock S_when_block (traw wt) (new_range (trange wt) end_) [] (we :: stmts)).

  Definition parse_switch_else_block : P (option node * option tok) :=
    e <- recover_at_error (exp_token TElse) ;;
    match e with
    | None =>
        endt <- opt (exp_token TEndSwitch) ;;
        ret (None, endt)
    | Some et =>
        '(stmts, endt) <- until_w_ctx (exp_token TEndSwitch) rec_stmt ;;
        let end_ := match endt with Some t => trange t | None => trange et end in
        ret (Some (Node KAstWhenBlock S_when_block (traw et) (new_range (trange et) end_) [] stmts), endt)
    end.

  Definition parse_switch_block : P node :=
    st <- exp_token TSwitch ;;
    se <- pexpr ;;
    whens <- until_no_match parse_when_block ;;
    '(els, endt) <- parse_switch_else_block ;;
    let end_ := match endt with Some t => trange t | None => trange st end in
    ret (Node KAstSwitchBlock S_switch (traw st) (new_range (trange st) end_)
              [(K_end, opt_toks endt)] (se :: whens ++ opt_list els)).

  Definition parse_for_block : P node :=
    ft <- exp_token TFor ;;
    vt <- exp_token TIdentifier ;;
    _ <- exp_token TEquals ;;
    rn <- binops (tok_alt [TTo; TDownTo]) pexpr ;;
    stp <- opt (exp_token TStep) ;;
    se <- match stp with
          | Some _ => opt pexpr
          | None => ret None
          end ;;
    '(stmts, endt) <- until_w_ctx (tok_alt [TEndFor; TEnd]) rec_stmt ;;
    let endr := match endt with Some t => trange t | None => trange ft end in
    ret (Node KAstForBlock S_for (traw ft) (new_range (trange ft) endr)
              [(K_ident, AT vt); (K_end, opt_toks endt)] (rn :: opt_list se ++ stmts)).

  Definition parse_foreach_block : P node :=
    ft <- exp_token TForEach ;;
    ie <- binops (exp_token TIn) (alt [parse_oql_expr pexpr pdotops pcompare; pexpr]) ;;
    dt <- opt (exp_token TDownTo) ;;
    ut <- opt (exp_token TUsing) ;;
    uv <- match ut with
          | Some _ => n <- parse_identifier ;; ret (Some n)
          | None => ret None
          end ;;
    '(stmts, endt) <- until_w_ctx (tok_alt [TEndFor; TEnd]) rec_stmt ;;
    let endr := match endt with Some t => trange t | None => trange ft end in
    ret (Node KAstForEachBlock S_foreach (traw ft) (new_range (trange ft) endr)
              [(K_end, opt_toks endt); (K_flags, AN (match dt with Some _ => 1 | None => 0 end))]
              (ie :: opt_list uv ++ stmts)).

  Definition parse_while_block : P node :=
    wt <- exp_token TWhile ;;
    cond <- pexpr ;;
    '(stmts, endt) <- until_w_ctx (tok_alt [TEndWhile; TEnd]) rec_stmt ;;
    let endr := match endt with Some t => trange t | None => trange wt end in
    let r := new_range (trange wt) endr in
    ret (Node KAstWhileBlock S_while (traw wt) r [(K_end, opt_toks endt)]
              [cb_node (mkCB (nraw cond) r (Some cond) stmts)]).

  Definition parse_loop_block : P node :=
    lt <- exp_token TLoop ;;
    '(stmts, endt) <- until_w_ctx (tok_alt [TEndLoop; TEnd]) rec_stmt ;;
    let endr := match endt with Some t => trange t | None => trange lt end in
    ret (Node KAstLoopBlock S_loop (traw lt) (new_range (trange lt) endr) [(K_end, opt_toks endt)] stmts).

  Definition parse_repeat_block : P node :=
    rt <- exp_token TRepeat ;;
    '(stmts, endt) <- until_w_ctx (exp_token TUntil) rec_stmt ;;
    cond <- match endt with
            | Some _ => n <- pexpr ;; ret (Some n)
            | None => ret None
            end ;;
    let end_ := match cond with Some n => nrange n | None => trange rt end in
    let r := new_range (trange rt) end_ in
    ret (Node KAstRepeatBlock S_repeat (traw rt) r [(K_end, opt_toks endt)]
              [cb_node (mkCB (traw rt) r cond stmts)]).

  Definition parse_return_statement : P node :=
    rt <- exp_token TReturn ;;
    e <- pexpr ;;
    ret (Node KAstReturnNode S_return (traw rt) (new_range (trange rt) (nrange e)) [] [e]).

  Definition parse_control_statements : P node :=
    alt [ (t <- tok_alt [TExit; TBreak; TContinue] ;; ret (mk_terminal t)); parse_return_statement ].

  (* parse_statement_v2: the seven block parsers tried by hand (furthest error kept, ties keep the
     earlier one), then alt over the simple statements; of the two the strictly further error wins,
     ties keep the block parsers' error *)
  Fixpoint try_blocks (ps : list (P node)) (best : option (input * str)) : P (option node * option (input * str)) :=
    fun i c =>
      match ps with
      | [] => (Ok i (None, best), c)
      | p :: ps' =>
          match p i c with
          | (Ok r n, c1) => (Ok r (Some n, best), c1)
          | (Err e m, c1) =>
              let best' := match best with
                           | Some (be, bm) => if ilen e <? ilen be then Some (e, m) else Some (be, bm)
                           | None => Some (e, m)
                           end in
              try_blocks ps' best' i c1
          | (Panic s, c1) => (Panic s, c1)
          | (NoFuel, c1) => (NoFuel, c1)
          end
      end.

  Definition parse_statement_body : P node :=
    fun i c =>
      match try_blocks [parse_if_block; parse_for_block; parse_foreach_block; parse_while_block;
                        parse_loop_block; parse_switch_block; parse_repeat_block] None i c with
      | (Ok r (Some n, _), c1) => (Ok r n, c1)
      | (Ok _ (None, best), c1) =>
          match alt [parse_comment; parse_uses; parse_constant_declaration; parse_type_declaration ptype;
                     parse_local_var_decl ptype; parse_control_statements;
                     parse_oql_expr pexpr pdotops pcompare; parse_assignment; pexpr] i c1 with
          | (Err e m, c2) =>
              match best with
              | Some (be, bm) => if ilen e <? ilen be then (Err e m, c2) else (Err be bm, c2)
              | None => (Err e m, c2)
              end
          | r => r
          end
      | (Err e m, c1) => (Err e m, c1)
      | (Panic s, c1) => (Panic s, c1)
      | (NoFuel, c1) => (NoFuel, c1)
      end.
End StmtWithRec.

(* ---------- the fuel-indexed knot ---------- *)

Record G := mkG { g_type : P node; g_expr : P node; g_primary : P node; g_stmt : P node }.

Definition out_of_fuel : P node := fun i c => (NoFuel, c).

Fixpoint gram (fuel : nat) : G :=
  match fuel with
  | O => mkG out_of_fuel out_of_fuel out_of_fuel out_of_fuel
  | S f =>
      let g := gram f in
      let ty := parse_type_body (g_type g) in
      let prim := parse_primary_body (g_expr g) (g_primary g) in
      let ex := parse_expr_body prim in
      let dots := parse_dot_ops (g_expr g) in
      let cmp := parse_compare prim in
      let st := parse_statement_body ty ex dots cmp (g_stmt g) in
      mkG ty ex prim st
  end.

(* ---------- methods, fields, top level ---------- *)

Section TopLevel.
  Variable g : G.
  Let ptype := g_type g.
  Let pexpr := g_expr g.
  Let pstmt := g_stmt g.
  (* parse_identifier does not depend on the level *)

  Definition member_flags (ts : list tok) : N :=
    let has ty := existsb (fun t => tt_eqb (tty t) ty) ts in
    b2n (has TPrivate) + 2 * b2n (has TProtected) + 4 * b2n (has TFinal) + 8 * b2n (has TOverride).

  Definition parse_member_modifier_tokens : P tok := tok_alt [TPrivate; TProtected; TFinal; TOverride].

  (* (range of the modifier list, flags) *)
  Definition parse_member_modifiers : P (option (range * N)) :=
    fun i c =>
      match until_no_match parse_member_modifier_tokens i c with
      | (Ok r ts, c1) =>
          match ts with
          | [] => (Ok i None, c1)
          | first :: _ =>
              let last := match rev ts with t :: _ => t | [] => first end in
              (Ok r (Some (new_range (trange first) (trange last), member_flags ts)), c1)
          end
      | (Err e m, c1) => (Err e m, c1)
      | (Panic s, c1) => (Panic s, c1)
      | (NoFuel, c1) => (NoFuel, c1)
      end.

  Definition parse_method_external : P tok :=
    ts <- seq_tokens [TExternal; TStringLiteral] ;;
    match ts with
    | [ext; str] => ret (mkTok (traw ext) (new_range (trange ext) (trange str)) (tty str) (tval str))
    | _ => fun i c => (Panic 4, c)
    end.

  (* (raw, range, flags incl. forward bit4 / external bit5) *)
  Definition parse_method_modifiers : P (option (N * range * N)) :=
    fun i c =>
      match until_no_match (alt [parse_member_modifier_tokens; parse_method_external; exp_token TForward]) i c with
      | (Ok r ts, c1) =>
          match ts with
          | [] => (Ok i None, c1)
          | first :: _ =>
              let last := match rev ts with t :: _ => t | [] => first end in
              let fwd := existsb (fun t => tt_eqb (tty t) TForward) ts in
              let ext := existsb (fun t => tt_eqb (tty t) TStringLiteral) ts in
              (Ok r (Some (traw first, new_range (trange first) (trange last),
                           member_flags ts + 16 * b2n fwd + 32 * b2n ext)), c1)
          end
      | (Err e m, c1) => (Err e m, c1)
      | (Panic s, c1) => (Panic s, c1)
      | (NoFuel, c1) => (NoFuel, c1)
      end.

  Definition parse_global_variable_declaration : P node :=
    _ <- opt parse_annotations ;;
    mem <- recover_at_error (exp_token TMemory) ;;
    id <- exp_token TIdentifier ;;
    _ <- exp_token TColon ;;
    ty <- ptype ;;
    mods <- parse_member_modifiers ;;
    let first := match mem with Some t => t | None => id end in
    let end0 := match mods with Some (r, _) => r | None => nrange ty end in
    ab <- opt (exp_token TAbsolute) ;;
    an <- match ab with
          | Some _ => n <- parse_identifier ;; ret (Some n)
          | None => ret None
          end ;;
    let end_ := match an with Some n => nrange n | None => end0 end in
    let flags := match mods with Some (_, f) => f | None => 0 end in
    ret (Node KAstGlobalVariableDeclaration (tval id) (traw first) (new_range (trange first) end_)
              [(K_ident, AT id); (K_flags, AN (flags + 64 * b2n (match mem with Some _ => true | None => false end)))]
              (ty :: opt_list an)).

  Definition parse_method_name_uievent : P node :=
    mn <- parse_identifier ;;
    _ <- exp_token TPound ;;
    ev <- parse_identifier ;;
    let id := nident mn ++ [35] ++ nident ev in
    ret (Node KAstMethodNameWithEvent id (nraw mn) (new_range (nrange mn) (nrange ev)) [(K_str, AS id)] [mn; ev]).

  Definition parse_method_name : P node := alt [parse_method_name_uievent; parse_identifier].

  (* parse_method_body on the body slice *)
  Definition parse_method_body (body : list tok) : P (option node) :=
    match body with
    | [] => ret None
    | first :: _ =>
        on_slice body (
          _ <- with_ctx clear_cache ;;
          stmts <- repeat_w_ctx pstmt ;;
          let last_tok := match rev body with t :: _ => t | [] => first end in
          let '(raw, sr, er) :=
            match stmts with
            | s0 :: _ => (nraw s0, nrange s0, match rev stmts with n :: _ => nrange n | [] => nrange s0 end)
            | [] => (traw first, trange first, trange last_tok)
            end in
          ret (Some (Node KAstMethodBody S_method_body raw (new_range sr er) [] stmts)))
    end.

  Definition has_method_body (mods : option (N * range * N)) : bool :=
    match mods with
    | None => true
    | Some (_, _, f) => negb (N.testbit f 4) && negb (N.testbit f 5)
    end.

  (* shared tail of parse_procedure_declaration / parse_function_declaration *)
  Definition method_tail (first : tok) (end_raw : N) (end_range : range) (mods : option (N * range * N))
             (terms : list ttype) (missing_msg : str) : P (option node * option tok * range) :=
    if has_method_body mods then
      '(body, endt) <- take_until terms ;;
      b <- parse_method_body body ;;
      let b' := match b with
                | Some n => n
                | None => Node KAstMethodBody S_method_body end_raw end_range [] []
                end in
      _ <- match endt with
           | None => with_ctx (add_diag (mkDiag (trange first) missing_msg))
           | Some _ => ret tt
           end ;;
      ret (Some b', endt, match endt with Some t => trange t | None => end_range end)
    else ret (None, None, end_range).

  Definition parse_procedure_declaration : P node :=
    first <- exp_token TProc ;;
    name <- parse_method_name ;;
    ps <- parse_parameter_declaration_list ptype ;;
    mods <- parse_method_modifiers ;;
    let '(eraw, erange) :=
      match mods with
      | Some (mr, r, _) => (mr, r)
      | None => match ps with Some n => (nraw n, nrange n) | None => (nraw name, nrange name) end
      end in
    '(body, endt, end_) <- method_tail first eraw erange mods [TEndProc; TEnd] S_proc_end_token_not_found ;;
    let flags := match mods with Some (_, _, f) => f | None => 0 end in
    ret (Node KAstProcedure (nident name) (traw first) (new_range (trange first) end_)
              [(K_end, opt_toks endt); (K_flags, AN flags)]
              (name :: opt_list ps ++ opt_list body)).

  Definition parse_function_declaration : P node :=
    first <- exp_token TFunc ;;
    name <- parse_method_name ;;
    ps <- parse_parameter_declaration_list ptype ;;
    _ <- exp_token TReturn ;;
    rt <- alt [parse_type_basic] ;;
    mods <- parse_method_modifiers ;;
    let '(eraw, erange) :=
      match mods with
      | Some (mr, r, _) => (mr, r)
      | None => (nraw rt, nrange rt)
      end in
    '(body, endt, end_) <- method_tail first eraw erange mods [TEndFunc; TEnd] S_func_end_token_not_found ;;
    let flags := match mods with Some (_, _, f) => f | None => 0 end in
    ret (Node KAstFunction (nident name) (traw first) (new_range (trange first) end_)
              [(K_end, opt_toks endt); (K_flags, AN flags)]
              (name :: rt :: opt_list ps ++ opt_list body)).

  Definition parse_parent_class : P (tok * tok) :=
    ts <- seq_tokens [TOBracket; TIdentifier; TCBracket] ;;
    match ts with
    | [_; p; e] => ret (p, e)
    | _ => fun i c => (Panic 5, c)
    end.

  Definition parse_class : P node :=
    _ <- opt parse_annotations ;;
    ct <- exp_token TClass ;;
    nt <- exp_token TIdentifier ;;
    pr <- opt parse_parent_class ;;
    let end_ := match pr with Some (_, e) => trange e | None => trange nt end in
    ret (Node KAstClass (tval nt) (traw ct) (new_range (trange ct) end_)
              [(K_ident, AT nt); (K_parent, opt_toks (match pr with Some (p, _) => Some p | None => None end))] []).

  Definition parse_module : P node :=
    _ <- opt parse_annotations ;;
    mt <- exp_token TModule ;;
    nm <- exp_token TIdentifier ;;
    ret (Node KAstModule (tval nm) (traw mt) (range_of_toks mt nm) [(K_ident, AT nm)] []).

  (* parse_gold: the top-level loop *)
  Definition top_decl_parsers : list (P node) :=
    [parse_comment; parse_class; parse_module; parse_uses; parse_type_declaration ptype;
     parse_constant_declaration; parse_global_variable_declaration; parse_annotations].
  Definition top_block_parsers : list (P node) :=
    [parse_procedure_declaration; parse_function_declaration].

  Fixpoint top_loop (fuel : nat) (whole : input) (acc : list node) : P (list node) :=
    fun i c =>
      match fuel with
      | O => (NoFuel, c)
      | S f =>
          match i with
          | [] => (Ok i (rev acc), c)
          | first_tok :: _ =>
              match alt top_block_parsers i c with
              | (Ok r n, c1) => top_loop f whole (n :: acc) r c1
              | (Err be bm, c1) =>
                  match alt top_decl_parsers i c1 with
                  | (Ok r n, c2) => top_loop f whole (n :: acc) r c2
                  | (Err e m, c2) =>
                      let '(me, mm) := if ilen e <? ilen be then (e, m) else (be, bm) in
                      let last_tok :=
                        match me with
                        | t :: _ => Some t
                        | [] => match rev whole with t :: _ => Some t | [] => None end
                        end in
                      match last_tok with
                      | None => (Panic 6, c2)          (* input.last().unwrap() on an empty input *)
                      | Some lt =>
                          let d := mkDiag (range_of_toks first_tok lt) mm in
                          top_loop f whole acc (skip_after_error i me) (add_diag d c2)
                      end
                  | (Panic s, c2) => (Panic s, c2)
                  | (NoFuel, c2) => (NoFuel, c2)
                  end
              | (Panic s, c1) => (Panic s, c1)
              | (NoFuel, c1) => (NoFuel, c1)
              end
          end
      end.
End TopLevel.

Definition mk_root (stmts : list node) : node := Node KAstRoot [] 0 range_default [] stmts.

(* parse_gold(tokens): ((remaining, root), diagnostics in the order they were added) *)
Definition parse_gold_with (memo : bool) (fuel : nat) (ts : input) : res node * ctx :=
  match top_loop (gram fuel) (S (length ts)) ts [] ts (ctx0 memo) with
  | (Ok r stmts, c) => (Ok r (mk_root stmts), c)
  | (Err e m, c) => (Err e m, c)
  | (Panic s, c) => (Panic s, c)
  | (NoFuel, c) => (NoFuel, c)
  end.

Definition default_fuel (ts : input) : nat := S (S (length ts)).

Definition parse_gold (ts : input) : res node * ctx := parse_gold_with true (default_fuel ts) ts.
