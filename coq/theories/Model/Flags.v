(* Model of the annotation-flag protocol (C14, cross-thread part):
     /repo/src/analyzers_v2/ast_annotator.rs        annotate_doc
     /repo/src/manager/semantic_analysis_service.rs get_symbol_table_for_uri_def_only, analyze_uri
     /repo/src/manager/data_structs.rs              Document::{annotation_done, annotating_thread,
                                                    wait_until_annotated}, DocumentInfo
     /repo/src/manager/mod.rs, document_service.rs  notify_document_changed / saved / closed,
                                                    get_parsed_document(_without_caching)
   Any number of request threads, any dependency lists (parents, uses, referenced types: whatever a
   walk looks up, per Document object, so a changed text may depend on other files), change / save /
   close notifications at any moment.

   Document objects live in a heap that only grows (a notification REPLACES the object of a file);
   every object has its own flag (annotation_done) and annotating_thread.  A thread is a stack of
   frames: one frame per analyze_uri call, nested through the look-ups of a walk.
   `clk`, the push time of a frame and the set time inside PWalk are ghost data (they influence no
   step); the proofs order the wait-for edges with them.
   Executable; no property proofs in this file. *)
From GoldV Require Import Base.
Local Open Scope nat_scope.

Inductive ann := ANone | ADef | AFull.      (* annotated_ast = None | Some with only_definitions | Some, full *)

Record obj := mkObj {
  ouri    : nat;             (* the file this Document object was parsed for *)
  oann    : ann;
  oholder : option nat;      (* the thread holding annotation_done *)
  oat     : option nat       (* annotating_thread *)
}.

Inductive phase :=
| PStart                                   (* analyze_uri: fetch the file's Document object *)
| PCreate                                  (* get_parsed_document found nothing cached; parse + install next *)
| PWait (o : nat)                          (* annotated_ast is Some: wait_until_annotated *)
| PLock (o : nat)                          (* annotate_doc: take the flag (unless re-entered) *)
| PBuild (o : nat) (own : bool)            (* tree built, annotated_ast about to be published *)
| PPub (o : nat) (own : bool)              (* published; yield point; doc_info.set_symbol_table next *)
| PWalk (o : nat) (own : bool) (tset : nat) (todo : list nat).  (* walking: look-ups still to do *)

Record frame := mkF {
  furi  : nat;
  ffull : bool;      (* full annotation requested (top-level request) / definitions only (look-up) *)
  fcache : bool;     (* get_parsed_document (caches the parsed copy) / _without_caching *)
  fph   : phase;
  fpush : nat        (* ghost: when the frame was pushed *)
}.

(* finite maps as association lists *)
Fixpoint aget (u : nat) (m : list (nat * nat)) : option nat :=
  match m with
  | [] => None
  | (k, v) :: r => if Nat.eqb u k then Some v else aget u r
  end.
Definition aset (u v : nat) (m : list (nat * nat)) : list (nat * nat) := (u, v) :: m.
Definition adel (u : nat) (m : list (nat * nat)) : list (nat * nat) :=
  filter (fun kv => negb (Nat.eqb u (fst kv))) m.
Definition smem (u : nat) (l : list nat) : bool := existsb (Nat.eqb u) l.
Definition sdel (u : nat) (l : list nat) : list nat := filter (fun k => negb (Nat.eqb u k)) l.

Record thread := mkT { stack : list frame; queue : list nat }.   (* requests still to serve *)

Record st := mkSt {
  objs  : list obj;
  opn   : list (nat * nat);      (* DocumentInfo.opened per file *)
  sav   : list (nat * nat);      (* DocumentInfo.saved per file *)
  tbl   : list nat;              (* files whose DocumentInfo.symbol_table is Some *)
  thr   : list thread;
  notes : list (nat * bool);     (* notifications still to come: (file, true = change | false = save/close) *)
  clk   : nat
}.

(* DocumentInfo::get_document: the opened copy if there is one, else the saved one *)
Definition current (s : st) (u : nat) : option nat :=
  match aget u (opn s) with Some o => Some o | None => aget u (sav s) end.

Definition getobj (s : st) (o : nat) : obj :=
  nth o (objs s) (mkObj 0 ANone None None).

Fixpoint updl {A} (n : nat) (f : A -> A) (l : list A) : list A :=
  match l, n with
  | [], _ => []
  | x :: l', O => f x :: l'
  | x :: l', S n' => x :: updl n' f l'
  end.

(* what analyze_uri / annotate_doc accept as complete enough *)
Definition enough (full : bool) (a : ann) : bool :=
  match a with ANone => false | ADef => negb full | AFull => true end.

Definition set_top (t : thread) (f : frame) : thread :=
  match stack t with [] => t | _ :: r => mkT (f :: r) (queue t) end.
Definition pop (t : thread) : thread := mkT (tl (stack t)) (queue t).
Definition with_ph (f : frame) (p : phase) : frame := mkF (furi f) (ffull f) (fcache f) p (fpush f).

Definition put_thr (s : st) (i : nat) (t : thread) : st :=
  mkSt (objs s) (opn s) (sav s) (tbl s) (updl i (fun _ => t) (thr s)) (notes s) (S (clk s)).
Definition put_objs (s : st) (os : list obj) : st :=
  mkSt os (opn s) (sav s) (tbl s) (thr s) (notes s) (clk s).

(* after the Document object has been fetched: annotated_ast Some -> wait, else straight to annotate_doc
   (through the yield point analyze:after_cache_check) *)
Definition after_fetch (s : st) (o : nat) : phase :=
  match oann (getobj s o) with ANone => PLock o | _ => PWait o end.

(* `deps o`: the files the walk of Document object o looks up, in order (parent class, uses, types) *)
Definition tstep (deps : nat -> list nat) (s : st) (i : nat) : option st :=
  match nth_error (thr s) i with
  | None => None
  | Some t =>
      match stack t with
      | [] =>
          match queue t with
          | [] => None                                             (* this thread has finished *)
          | u :: q => Some (put_thr s i (mkT [mkF u true true PStart (clk s)] q))
          end
      | f :: _ =>
          match fph f with
          | PStart =>
              match current s (furi f) with
              | Some o => Some (put_thr s i (set_top t (with_ph f (after_fetch s o))))
              | None =>
                  if fcache f then Some (put_thr s i (set_top t (with_ph f PCreate)))
                  else (* a fresh, private Document object *)
                    let o := length (objs s) in
                    Some (put_thr (put_objs s (objs s ++ [mkObj (furi f) ANone None None])) i
                                  (set_top t (with_ph f (PLock o))))
              end
          | PCreate =>
              let o := length (objs s) in
              let s1 := mkSt (objs s ++ [mkObj (furi f) ANone None None]) (opn s)
                             (aset (furi f) o (sav s)) (tbl s) (thr s) (notes s) (clk s) in
              Some (put_thr s1 i (set_top t (with_ph f (PLock o))))
          | PWait o =>
              let ob := getobj s o in
              let pass := match oat ob with
                          | Some j => if Nat.eqb j i then true
                                      else match oholder ob with None => true | Some _ => false end
                          | None => match oholder ob with None => true | Some _ => false end
                          end in
              if pass then
                if enough (ffull f) (oann ob) then Some (put_thr s i (pop t))
                else Some (put_thr s i (set_top t (with_ph f (PLock o))))
              else None                                            (* blocked on the flag *)
          | PLock o =>
              let ob := getobj s o in
              let reentered := match oat ob with Some j => Nat.eqb j i | None => false end in
              if reentered then Some (put_thr s i (set_top t (with_ph f (PBuild o false))))
              else match oholder ob with
                   | Some _ => None                                (* blocked on the flag *)
                   | None =>
                       if enough (ffull f) (oann ob) then Some (put_thr s i (pop t))   (* lock, look, unlock *)
                       else Some (put_thr (put_objs s (updl o (fun x => mkObj (ouri x) (oann x) (Some i) (Some i)) (objs s)))
                                          i (set_top t (with_ph f (PBuild o true))))
                   end
          | PBuild o own =>
              let a := if ffull f then AFull else ADef in
              Some (put_thr (put_objs s (updl o (fun x => mkObj (ouri x) a (oholder x) (oat x)) (objs s)))
                            i (set_top t (with_ph f (PPub o own))))
          | PPub o own =>
              let s1 := mkSt (objs s) (opn s) (sav s) (furi f :: tbl s) (thr s) (notes s) (clk s) in
              Some (put_thr s1 i (set_top t (with_ph f (PWalk o own (clk s) (deps o)))))
          | PWalk o own ts (u :: l) =>
              if smem u (tbl s) then Some (put_thr s i (set_top t (with_ph f (PWalk o own ts l))))
              else Some (put_thr s i (mkT (mkF u false false PStart (clk s) :: with_ph f (PWalk o own ts l) :: tl (stack t))
                                          (queue t)))
          | PWalk o own ts [] =>
              if own then
                Some (put_thr (put_objs s (updl o (fun x => mkObj (ouri x) (oann x) None None) (objs s))) i (pop t))
              else Some (put_thr s i (pop t))
          end
      end
  end.

(* the next notification: change installs a new opened Document object; save / close drop everything;
   both clear the symbol table of the file *)
Definition nstep (s : st) : option st :=
  match notes s with
  | [] => None
  | (u, true) :: r =>
      Some (mkSt (objs s ++ [mkObj u ANone None None]) (aset u (length (objs s)) (opn s)) (sav s)
                 (sdel u (tbl s)) (thr s) r (S (clk s)))
  | (u, false) :: r =>
      Some (mkSt (objs s) (adel u (opn s)) (adel u (sav s)) (sdel u (tbl s)) (thr s) r (S (clk s)))
  end.

(* a schedule: Some i = thread i moves, None = the next notification arrives; a move that is not
   enabled is skipped *)
Definition step (deps : nat -> list nat) (s : st) (a : option nat) : option st :=
  match a with Some i => tstep deps s i | None => nstep s end.

Fixpoint run (deps : nat -> list nat) (sched : list (option nat)) (s : st) : st :=
  match sched with
  | [] => s
  | a :: r => match step deps s a with Some s' => run deps r s' | None => run deps r s end
  end.

Definition init (queues : list (list nat)) (ns : list (nat * bool)) : st :=
  mkSt [] [] [] [] (map (fun q => mkT [] q) queues) ns 1.

Definition tdone (t : thread) : bool :=
  match stack t, queue t with [], [] => true | _, _ => false end.
Definition all_done (s : st) : bool := forallb tdone (thr s).

(* round robin until nothing moves or the fuel is spent: used by the correspondence engine *)
Fixpoint rr (deps : nat -> list nat) (fuel : nat) (s : st) : st :=
  match fuel with
  | O => s
  | S f =>
      let s' := run deps (map Some (seq 0 (length (thr s)))) s in
      if Nat.eqb (clk s') (clk s) then s else rr deps f s'
  end.
