(* Model of the message loop of /repo/src/main.rs (main_loop) over the dispatch tables that
   translator T4 regenerates from the source.  Handler bodies are abstracted: a handler arm sends
   exactly one response (result or error) for the request it was given -- on the main thread for
   synchronous methods, from a pool job otherwise.  A schedule says which pending pool jobs finish
   before each incoming message is processed.  No property proofs here. *)
From GoldV Require Import Base Dispatch.

Inductive msg :=
| MReq (id : N) (method : str)
| MNotif (method : str)
| MShutdown (id : N)
| MExit.

Inductive phase := Running | Exited (status : N).

Record sstate := mkS {
  sent : list N;         (* ids of the responses sent so far, most recent first *)
  pending : list N       (* ids of pool jobs submitted and not finished yet, oldest first *)
}.

Definition s0 : sstate := mkS [] [].

Fixpoint lookup_method (m : str) (t : list (str * bool)) : option bool :=
  match t with
  | [] => None
  | (k, pooled) :: t' => if str_eqb m k then Some pooled else lookup_method m t'
  end.

Definition send (id : N) (s : sstate) : sstate := mkS (id :: sent s) (pending s).
Definition submit (id : N) (s : sstate) : sstate := mkS (sent s) (pending s ++ [id]).

(* the k-th pending job finishes: it sends its one response *)
Fixpoint remove_nth {A} (k : nat) (l : list A) : option (A * list A) :=
  match l, k with
  | [], _ => None
  | x :: l', O => Some (x, l')
  | x :: l', S k' => match remove_nth k' l' with Some (y, r) => Some (y, x :: r) | None => None end
  end.
Definition finish (k : nat) (s : sstate) : sstate :=
  match remove_nth k (pending s) with
  | Some (id, rest) => mkS (id :: sent s) rest
  | None => s
  end.
Definition finish_all (ks : list nat) (s : sstate) : sstate := fold_left (fun s k => finish k s) ks s.

(* dropping the pool returns only when every submitted job has run (C20_drop_drains) *)
Definition drain (s : sstate) : sstate := mkS (rev (pending s) ++ sent s) [].

(* one incoming message *)
Definition on_msg (m : msg) (s : sstate) : sstate :=
  match m with
  | MReq id meth =>
      match lookup_method meth req_table with
      | Some false => send id s               (* handled on the main thread *)
      | Some true => submit id s              (* threadpool.execute_req *)
      | None => if fallthrough_reply then send id s else s
      end
  | MNotif _ => s
  | MShutdown _ => s                          (* handled by the loop below *)
  | MExit => s                                (* an `exit` notification outside shutdown matches no arm *)
  end.

(* main_loop + process exit.  sched: for each incoming message, the pending jobs (by index) that
   finish before it is processed.  Result: final state and exit status (0 = clean). *)
Fixpoint serve (script : list msg) (sched : list (list nat)) (s : sstate) : sstate * N :=
  match script with
  | [] => (drain s, 1)                        (* input closed without shutdown: not a clean exit *)
  | m :: rest =>
      let s1 := finish_all (hd [] sched) s in
      match m with
      | MShutdown id =>
          (* handle_shutdown: reply, then wait for `exit`; main_loop returns, the pool is dropped *)
          let s2 := send id s1 in
          match rest with
          | MExit :: _ => (drain s2, 0)
          | _ => (drain s2, 1)
          end
      | _ => serve rest (tl sched) (on_msg m s1)
      end
  end.

Definition run_server (script : list msg) (sched : list (list nat)) : sstate * N := serve script sched s0.

(* what the property demands: one response per request received before the shutdown, plus the
   response to the shutdown itself *)
Fixpoint expected_ids (script : list msg) : list N :=
  match script with
  | [] => []
  | MReq id _ :: rest => id :: expected_ids rest
  | MShutdown id :: _ => [id]
  | _ :: rest => expected_ids rest
  end.
