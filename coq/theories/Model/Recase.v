(* C17: executable definitions about letter case.
   - re-casing a word (the four modes the check uses) and the test "same word ignoring ASCII case";
   - the token types whose value is a WORD (identifier or keyword: the only tokens whose letters
     the property allows to change);
   - boolean checkers of the similarity relations of Proofs/RecaseBase.v on tokens and trees
     (used by the non-vacuity examples and by the model engine eng_recase.ml).
   No property proofs here. *)
From GoldV Require Import Base Tokens Keywords Lexer AstKinds Tree.

(* ---- words ---- *)
Definition lowc (c : N) : N := if is_upper c then c + 32 else c.
Definition lower (s : str) : str := map lowc s.

(* alternating case, starting with an upper-case letter at even positions *)
Fixpoint alternate (up : bool) (s : str) : str :=
  match s with
  | [] => []
  | c :: r => (if up then upc c else lowc c) :: alternate (negb up) r
  end.

(* per-letter choice: true = upper *)
Fixpoint recase_mask (m : list bool) (s : str) : str :=
  match s, m with
  | [], _ => []
  | c :: r, [] => c :: r
  | c :: r, b :: m' => (if b then upc c else lowc c) :: recase_mask m' r
  end.

Definition same_ci (a b : str) : bool := ci_eqb a b.      (* str_eqb (upper a) (upper b) *)

(* ---- tokens ---- *)
(* the value of such a token is a word lexed by read_word: Identifier or one of the keyword kinds *)
Definition word_ty (ty : ttype) : bool :=
  tt_eqb ty kw_default || existsb (fun e : str * ttype => tt_eqb ty (snd e)) kw_table.

Definition pos_eqb (a b : pos) : bool := (pline a =? pline b) && (pcol a =? pcol b).
Definition range_eqb (a b : range) : bool := pos_eqb (rstart a) (rstart b) && pos_eqb (rend a) (rend b).

Definition tok_simb (t t' : tok) : bool :=
  (traw t =? traw t') && range_eqb (trange t) (trange t') && tt_eqb (tty t) (tty t') &&
  same_ci (tval t) (tval t') && (word_ty (tty t) || str_eqb (tval t) (tval t')).

Fixpoint forall2b {A} (f : A -> A -> bool) (l l' : list A) : bool :=
  match l, l' with
  | [], [] => true
  | x :: r, y :: r' => f x y && forall2b f r r'
  | _, _ => false
  end.

Definition aval_simb (v v' : aval) : bool :=
  match v, v' with
  | AN n, AN n' => n =? n'
  | AS s, AS s' => same_ci s s'
  | AT t, AT t' => tok_simb t t'
  | AL l, AL l' => forall2b tok_simb l l'
  | _, _ => false
  end.

Definition attr_simb (a a' : N * aval) : bool := (fst a =? fst a') && aval_simb (snd a) (snd a').

(* same kind, same raw offset, same range, identifiers equal ignoring case, attributes and children
   pairwise similar *)
Fixpoint node_simb (n n' : node) {struct n} : bool :=
  match n, n' with
  | Node k id raw rg at_ ch, Node k' id' raw' rg' at' ch' =>
      ak_eqb k k' && same_ci id id' && (raw =? raw') && range_eqb rg rg' && forall2b attr_simb at_ at' &&
      (fix go (l l' : list node) {struct l} : bool :=
         match l, l' with
         | [], [] => true
         | x :: r, y :: r' => node_simb x y && go r r'
         | _, _ => false
         end) ch ch'
  end.

(* ---- declarations left as written ---- *)
(* node kinds that DECLARE the name they carry (get_identifier() = the declared name) *)
Definition decl_kind (k : akind) : bool :=
  ak_eqb k KAstClass || ak_eqb k KAstModule || ak_eqb k KAstConstantDeclaration ||
  ak_eqb k KAstTypeDeclaration || ak_eqb k KAstGlobalVariableDeclaration ||
  ak_eqb k KAstLocalVariableDeclaration || ak_eqb k KAstParameterDeclaration ||
  ak_eqb k KAstProcedure || ak_eqb k KAstFunction || ak_eqb k KAstEnumVariant ||
  ak_eqb k KAstTypeRecordField.
(* procedures and functions: the declared name is also the first child (the name node) *)
Definition meth_kind (k : akind) : bool := ak_eqb k KAstProcedure || ak_eqb k KAstFunction.

Definition child_ident0 (n : node) : str :=
  match nchildren n with c :: _ => nident c | [] => [] end.

Definition opt_str_eqb (a b : option str) : bool :=
  match a, b with
  | Some x, Some y => str_eqb x y
  | None, None => true
  | _, _ => false
  end.

(* the declared name is spelled identically in both trees (identifier, K_ident token, name node) *)
Definition decl_exact1b (n n' : node) : bool :=
  (negb (decl_kind (nkind n)) ||
   (str_eqb (nident n) (nident n') &&
    opt_str_eqb (option_map tval (attr_tok K_ident n)) (option_map tval (attr_tok K_ident n')))) &&
  (negb (meth_kind (nkind n)) || str_eqb (child_ident0 n) (child_ident0 n')).

Fixpoint decl_exactb (n n' : node) {struct n} : bool :=
  decl_exact1b n n' &&
  match n, n' with
  | Node _ _ _ _ _ ch, Node _ _ _ _ _ ch' =>
      (fix go (l l' : list node) {struct l} : bool :=
         match l, l' with
         | [], [] => true
         | x :: r, y :: r' => decl_exactb x y && go r r'
         | _, _ => false
         end) ch ch'
  end.

(* ---- well-formedness the unused-variable rule relies on ---- *)
(* in a `.` operation no later operand starts where the left operand starts (is_left_node compares
   identifier AND start position) *)
Definition dot_node (n : node) : bool :=
  is_kind KAstBinaryOp n &&
  match attr_tok K_op n with Some t => tt_eqb (tty t) TDot | None => false end.

Definition dot_ok1 (n : node) : bool :=
  negb (dot_node n) ||
  match nchildren n with
  | l :: rest => forallb (fun c => negb (pos_eqb (rstart (nrange l)) (rstart (nrange c)))) rest
  | [] => true
  end.

Fixpoint dot_ok (n : node) : bool :=
  dot_ok1 n &&
  match n with
  | Node _ _ _ _ _ ch =>
      (fix go (l : list node) : bool := match l with [] => true | c :: r => dot_ok c && go r end) ch
  end.
