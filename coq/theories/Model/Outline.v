(* Model of DocumentSymbolGeneratorFromAst (/repo/src/analyzers_v2/doc_symbol_generator.rs, the
   second struct of the file; the symbol-table based generator above it is dead code) as called by
   ProjectManager::generate_document_symbols: the outline is computed from the root of the syntax
   tree alone.  The tree is the interchange tree of Model/Tree.v (children = get_children_ref,
   token-valued struct fields as attributes).

   Struct fields that are not `Option` in the Rust AST (identifier, value_token, type_node,
   return_type ...) are always present in a dumped tree; for a `node` value that lacks them (the
   Coq type is more liberal than the Rust structs) the accessors below return the empty string /
   range0.  The only partial operation of the code, `class_sym.children.as_mut().unwrap()`, is
   modelled as such: `outline_run` returns None where the code would panic. *)
From GoldV Require Import Base Tokens Lexer AstKinds Tree.

(* lsp_types::SymbolKind numbers *)
Definition SK_MODULE : N := 2.
Definition SK_CLASS : N := 5.
Definition SK_METHOD : N := 6.
Definition SK_PROPERTY : N := 7.
Definition SK_FIELD : N := 8.
Definition SK_FUNCTION : N := 12.
Definition SK_CONSTANT : N := 14.

(* lsp_types::DocumentSymbol without `tags` / `deprecated` (always None in the code) *)
Inductive dsym := mkDsym {
  ds_name : str;
  ds_detail : option str;
  ds_kind : N;
  ds_range : range;
  ds_sel : range;
  ds_children : option (list dsym)
}.

Definition set_children (d : dsym) (c : option (list dsym)) : dsym :=
  mkDsym (ds_name d) (ds_detail d) (ds_kind d) (ds_range d) (ds_sel d) c.

(* token-valued struct fields *)
Definition tok_value (o : option tok) : str := match o with Some t => tval t | None => [] end.
Definition tok_range (o : option tok) : range := match o with Some t => trange t | None => range0 end.

(* the i-th element of get_children_ref: `x.get_identifier()` and `x.get_range()` of a child field *)
Definition child_ident (i : nat) (n : node) : str :=
  match nth_error (nchildren n) i with Some c => nident c | None => [] end.
Definition child_range (i : nat) (n : node) : range :=
  match nth_error (nchildren n) i with Some c => nrange c | None => range0 end.

(* generate_constant_symbol: downcast to AstConstantDeclaration *)
Definition gen_constant (n : node) : option dsym :=
  if is_kind KAstConstantDeclaration n then
    Some (mkDsym (tok_value (attr_tok K_ident n))            (* n.identifier.get_value_as_str() *)
                 (Some (tok_value (attr_tok K_value n)))     (* Some(n.value_token.get_value_as_str()) *)
                 SK_CONSTANT
                 (nrange n)                                  (* n.get_range() *)
                 (tok_range (attr_tok K_ident n))            (* n.identifier.get_range() *)
                 None)
  else None.

(* generate_type_declaration_symbol: AstTypeDeclaration *)
Definition gen_type (n : node) : option dsym :=
  if is_kind KAstTypeDeclaration n then
    Some (mkDsym (tok_value (attr_tok K_ident n)) None SK_PROPERTY
                 (nrange n) (tok_range (attr_tok K_ident n)) None)
  else None.

(* generate_global_var_decl_symbol: AstGlobalVariableDeclaration; children = type_node, [absolute_node] *)
Definition gen_gvar (n : node) : option dsym :=
  if is_kind KAstGlobalVariableDeclaration n then
    Some (mkDsym (tok_value (attr_tok K_ident n))
                 (Some (child_ident 0 n))                    (* n.type_node.get_identifier() *)
                 SK_FIELD
                 (nrange n) (tok_range (attr_tok K_ident n)) None)
  else None.

(* generate_proc_symbol: AstProcedure; children = identifier, [parameter_list], [body] *)
Definition gen_proc (n : node) : option dsym :=
  if is_kind KAstProcedure n then
    Some (mkDsym (child_ident 0 n)                           (* n.identifier.get_identifier() *)
                 None SK_METHOD
                 (nrange n)
                 (child_range 0 n)                           (* n.identifier.get_range() *)
                 None)
  else None.

(* generate_func_symbol: AstFunction; children = identifier, return_type, [parameter_list], [body] *)
Definition gen_func (n : node) : option dsym :=
  if is_kind KAstFunction n then
    Some (mkDsym (child_ident 0 n)
                 (Some (child_ident 1 n))                    (* n.return_type.get_identifier() *)
                 SK_FUNCTION
                 (nrange n) (child_range 0 n) None)
  else None.

(* `match gen(node) { Some(s) => result = Some(s), None => () }` *)
Definition overwrite (acc r : option dsym) : option dsym :=
  match r with Some s => Some s | None => acc end.

(* generate_symbol_for_node: all five generators are tried in this order, the last match wins *)
Definition entry (n : node) : option dsym :=
  overwrite (overwrite (overwrite (overwrite (overwrite None
    (gen_constant n)) (gen_type n)) (gen_gvar n)) (gen_proc n)) (gen_func n).

(* the two arms of the loop of find_and_generate_class_symbol *)
Definition class_sym (n : node) : dsym :=
  mkDsym (tok_value (attr_tok K_ident n))                    (* n.identifier.get_value() *)
         (option_map tval (attr_tok K_parent n))             (* parent_class.map(get_value_as_str) *)
         SK_CLASS (nrange n) (nrange n) (Some []).

Definition module_sym (n : node) : dsym :=
  mkDsym (nident n)                                          (* n.get_identifier() *)
         None SK_MODULE (nrange n) (nrange n) (Some []).

(* find_and_generate_class_symbol: first child that downcasts to AstClass or to AstModule; break *)
Fixpoint header (l : list node) : option dsym :=
  match l with
  | [] => None
  | n :: r =>
    if is_kind KAstClass n then Some (class_sym n)
    else if is_kind KAstModule n then Some (module_sym n)
    else header r
  end.

(* one iteration of the loop of generate_symbols on a node that produced `s`:
     match &mut class_symbol { Some(c) => c.children.as_mut().unwrap().push(s), None => result.push(s) }
   state = (result, class_symbol); None = the unwrap panics *)
Definition push_sym (st : list dsym * option dsym) (s : dsym) : option (list dsym * option dsym) :=
  match st with
  | (res, Some c) =>
    match ds_children c with
    | Some ch => Some (res, Some (set_children c (Some (ch ++ [s]))))
    | None => None
    end
  | (res, None) => Some (res ++ [s], None)
  end.

Fixpoint sym_loop (l : list node) (st : list dsym * option dsym) : option (list dsym * option dsym) :=
  match l with
  | [] => Some st
  | n :: r =>
    match entry n with
    | Some s => match push_sym st s with Some st' => sym_loop r st' | None => None end
    | None => sym_loop r st
    end
  end.

(* generate_symbols; `ast.get_children_ref().unwrap_or_default()` = nchildren (a node without
   children has the empty list in the interchange tree) *)
Definition outline_run (root : node) : option (list dsym) :=
  match sym_loop (nchildren root) ([], header (nchildren root)) with
  | Some (res, Some c) => Some (res ++ [c])       (* if class_symbol.is_some() { result.push(class_symbol) } *)
  | Some (res, None) => Some res
  | None => None
  end.

Definition outline (root : node) : list dsym :=
  match outline_run root with Some l => l | None => [] end.
