(* Base definitions shared by all models: text as code points, ASCII case folding,
   association lists.  No proofs of properties here; only small structural lemmas. *)
From Coq Require Export List NArith Bool Arith Lia.
Export ListNotations.
Open Scope N_scope.

Definition str := list N.          (* a Rust &str as its sequence of Unicode scalar values *)

Definition is_lower (c : N) : bool := (97 <=? c) && (c <=? 122).
Definition is_upper (c : N) : bool := (65 <=? c) && (c <=? 90).
Definition is_digit (c : N) : bool := (48 <=? c) && (c <=? 57).
Definition is_alpha (c : N) : bool := is_lower c || is_upper c.

(* str::to_uppercase restricted to ASCII letters.  Identifiers and keywords are ASCII by
   construction of the lexer ([a-zA-Z0-9_]); DESIGN.md section 3 records the assumption. *)
Definition upc (c : N) : N := if is_lower c then c - 32 else c.
Definition upper (s : str) : str := map upc s.

Fixpoint str_eqb (a b : str) : bool :=
  match a, b with
  | [], [] => true
  | x :: a', y :: b' => (x =? y) && str_eqb a' b'
  | _, _ => false
  end.

Definition ci_eqb (a b : str) : bool := str_eqb (upper a) (upper b).

Lemma str_eqb_eq a b : str_eqb a b = true <-> a = b.
Proof.
  revert b; induction a as [|x a IH]; intros [|y b]; simpl; split; intro H;
    try reflexivity; try discriminate.
  - apply andb_true_iff in H as [H1 H2]. apply N.eqb_eq in H1. apply IH in H2. congruence.
  - inversion H; subst. rewrite N.eqb_refl. simpl. apply IH. reflexivity.
Qed.

Lemma str_eqb_refl a : str_eqb a a = true.
Proof. apply str_eqb_eq. reflexivity. Qed.

Lemma str_eqb_neq a b : str_eqb a b = false <-> a <> b.
Proof.
  split; intro H.
  - intro E. apply str_eqb_eq in E. congruence.
  - destruct (str_eqb a b) eqn:E; [apply str_eqb_eq in E; contradiction | reflexivity].
Qed.

Lemma upc_idem c : upc (upc c) = upc c.
Proof.
  unfold upc, is_lower.
  destruct ((97 <=? c) && (c <=? 122)) eqn:E; [|rewrite E; reflexivity].
  apply andb_true_iff in E as [E1 E2]. apply N.leb_le in E1. apply N.leb_le in E2.
  replace ((97 <=? c - 32) && (c - 32 <=? 122)) with false; [reflexivity|].
  symmetry. apply andb_false_iff. left. apply N.leb_gt. lia.
Qed.

Lemma upper_idem s : upper (upper s) = upper s.
Proof. unfold upper. rewrite map_map. apply map_ext. apply upc_idem. Qed.

(* association lists keyed by strings: the model of HashMap<String, V> (iteration order is
   never observed through this interface) *)
Fixpoint alookup {V} (k : str) (m : list (str * V)) : option V :=
  match m with
  | [] => None
  | (k', v) :: m' => if str_eqb k k' then Some v else alookup k m'
  end.

Fixpoint ainsert {V} (k : str) (v : V) (m : list (str * V)) : list (str * V) :=
  match m with
  | [] => [(k, v)]
  | (k', v') :: m' => if str_eqb k k' then (k, v) :: m' else (k', v') :: ainsert k v m'
  end.

Lemma alookup_ainsert_same {V} k (v : V) m : alookup k (ainsert k v m) = Some v.
Proof.
  induction m as [|[k' v'] m IH]; simpl.
  - rewrite str_eqb_refl. reflexivity.
  - destruct (str_eqb k k') eqn:E; simpl; rewrite ?str_eqb_refl, ?E; auto.
Qed.

Lemma alookup_ainsert_other {V} k k2 (v : V) m :
  k2 <> k -> alookup k2 (ainsert k v m) = alookup k2 m.
Proof.
  intro Hne. induction m as [|[k' v'] m IH]; simpl.
  - apply str_eqb_neq in Hne. rewrite Hne. reflexivity.
  - destruct (str_eqb k k') eqn:E; simpl.
    + apply str_eqb_eq in E. subst k'. apply str_eqb_neq in Hne. rewrite Hne. reflexivity.
    + destruct (str_eqb k2 k'); auto.
Qed.
