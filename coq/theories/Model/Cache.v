(* Model of the caching layers behind the request entry points of /repo/src/manager:
     data_structs.rs            Document / DocumentInfo (saved, opened, symbol_table)
     document_service.rs        get_parsed_document, get_parsed_document_without_caching, notify_document_closed
                                (since /repo 9bf8fa8: reset_all_data, the table goes with the documents)
     mod.rs                     notify_document_{opened,changed,saved}, the 7 request entry points
     semantic_analysis_service  analyze_uri, get_symbol_table_for_uri_def_only
     analyzers_v2/ast_annotator annotate_doc (publish, then fill), handle_class (parent link, cycle refusal)
     entity_tree_service.rs     the class tree, built once at start-up (main_loop)
   as a state machine over VERSIONS AND PROVENANCE, not contents: a content version is an identifier
   plus the parent class its header names; a symbol table records which version of which document
   it was built from and the table it was linked to (by value = the Arc linked at annotation time;
   the pair (document, serial number) is the identity of the Arc, used by the annotator's cycle
   refusal `is_own_table_reachable_from`).
   The answer of a request is its provenance.  No property proofs here.

   Sequential executions only (the client waits for each response): one request or notification
   at a time, so the published-but-unfilled table of a document is only ever seen from inside that
   document's own parent look-up, and a table captured there never gets a parent afterwards (its
   capture makes the own table reachable, so the link is refused): linking by value is exact. *)
From GoldV Require Import Base.

(* ---------- versions, tables, documents ---------- *)

Record version := mkV { vid : N; vpar : option nat }.   (* vpar: the document (= index) of the parent class named by the header *)

Definition opt_nat_eqb (a b : option nat) : bool :=
  match a, b with
  | None, None => true
  | Some x, Some y => Nat.eqb x y
  | _, _ => false
  end.
Definition version_eqb (a b : version) : bool := (vid a =? vid b) && opt_nat_eqb (vpar a) (vpar b).

Inductive tbl := Tbl (id : N) (doc : nat) (ver : version) (par : option tbl).
Definition t_id (t : tbl) : N := match t with Tbl i _ _ _ => i end.
Definition t_doc (t : tbl) : nat := match t with Tbl _ d _ _ => d end.
Definition t_ver (t : tbl) : version := match t with Tbl _ _ v _ => v end.
Definition t_par (t : tbl) : option tbl := match t with Tbl _ _ _ p => p end.

(* what a look-up through the table sees: its own members, then the linked parent's, ... *)
Fixpoint chain_of (t : tbl) : list (nat * version) :=
  match t with
  | Tbl _ d v p => (d, v) :: match p with Some u => chain_of u | None => [] end
  end.

(* AstAnnotator::is_own_table_reachable_from: pointer identity along the parent links
   (identity of a table = the document it was built for and its serial number) *)
Fixpoint reachable (own : nat) (id : N) (t : tbl) : bool :=
  match t with
  | Tbl i d _ p => (Nat.eqb d own && (i =? id)) || match p with Some u => reachable own id u | None => false end
  end.

(* Document: the tree is the version; annotated_ast (its root table) with only_definitions;
   analyzer_diagnostics = the version the cached v1 diagnostics were computed from *)
Record doc_obj := mkD {
  d_ver : version;
  d_annot : option (tbl * bool);
  d_adiags : option version
}.
Definition new_doc (v : version) : doc_obj := mkD v None None.

Record dinfo := mkI {
  disk : version;                 (* the file as it is on disk *)
  saved : option doc_obj;
  opened : option doc_obj;
  stab : option tbl               (* DocumentInfo::symbol_table *)
}.

Record state := mkS {
  docs : list dinfo;              (* document = index *)
  tree : list (option nat);       (* class tree: each document's parent AS OF START-UP *)
  next : N                        (* next table identity *)
}.

(* the text the client last supplied: the opened version, else the file *)
Definition logical (i : dinfo) : version :=
  match opened i with Some d => d_ver d | None => disk i end.

Fixpoint upd {A} (p : nat) (f : A -> A) (l : list A) : list A :=
  match l, p with
  | [], _ => []
  | x :: l', O => f x :: l'
  | x :: l', S p' => x :: upd p' f l'
  end.

Definition get (st : state) (p : nat) : option dinfo := nth_error (docs st) p.
Definition set_info (st : state) (p : nat) (f : dinfo -> dinfo) : state :=
  mkS (upd p f (docs st)) (tree st) (next st).

(* ---------- document_service.rs ---------- *)

Inductive loc := LOpened | LSaved | LTemp.      (* which Arc<Mutex<Document>> was handed out *)

(* get_parsed_document: opened, else saved, else parse the file and store it as saved *)
Definition get_parsed (i : dinfo) : dinfo * loc * doc_obj :=
  match opened i with
  | Some d => (i, LOpened, d)
  | None =>
      match saved i with
      | Some d => (i, LSaved, d)
      | None => let d := new_doc (disk i) in (mkI (disk i) (Some d) (opened i) (stab i), LSaved, d)
      end
  end.

(* get_parsed_document_without_caching: same order, the freshly parsed document is not stored *)
Definition get_parsed_nocache (i : dinfo) : loc * doc_obj :=
  match opened i with
  | Some d => (LOpened, d)
  | None =>
      match saved i with
      | Some d => (LSaved, d)
      | None => (LTemp, new_doc (disk i))
      end
  end.

(* writing through the Arc that was handed out *)
Definition put_doc (i : dinfo) (l : loc) (d : doc_obj) : dinfo :=
  match l with
  | LOpened => mkI (disk i) (saved i) (Some d) (stab i)
  | LSaved => mkI (disk i) (Some d) (opened i) (stab i)
  | LTemp => i
  end.

(* ---------- ast_annotator.rs / semantic_analysis_service.rs ---------- *)

(* annotate_doc publishes the root table on the Document and on the DocumentInfo *)
Definition publish (st : state) (p : nat) (l : loc) (d : doc_obj) (t : tbl) : state :=
  set_info st p (fun i => let i' := put_doc i l d in mkI (disk i') (saved i') (opened i') (Some t)).

(* annotate_doc + handle_class, parameterised by get_symbol_table_for_class_def_only *)
Definition annotate_with (lookup : state -> nat -> state * option tbl)
           (st : state) (p : nat) (l : loc) (d : doc_obj) (only_def : bool) : state * tbl :=
  let id := next st in
  let v := d_ver d in
  let t0 := Tbl id p v None in
  (* published before it is filled *)
  let st1 := publish (mkS (docs st) (tree st) (next st + 1)) p l (mkD v (Some (t0, only_def)) (d_adiags d)) t0 in
  match vpar v with
  | None => (st1, t0)
  | Some q =>
      if Nat.eqb q p then (st1, t0)                       (* "Parent class cannot be itself" *)
      else
        let '(st2, r) := lookup st1 q in
        match r with
        | None => (st2, t0)                               (* "Parent class not defined" *)
        | Some pt =>
            if reachable p id pt then (st2, t0)             (* "Circular class inheritance" *)
            else
              let t := Tbl id p v (Some pt) in            (* set_parent_symbol_table on the published Arc *)
              (publish st2 p l (mkD v (Some (t, only_def)) (d_adiags d)) t, t)
        end
  end.

(* get_symbol_table_for_uri_def_only: the DocumentInfo's table if present, else a def-only analysis
   of the UNCACHED document (analyze_uri with only_definitions, cache_result = false) *)
Fixpoint symtab (fuel : nat) (st : state) (q : nat) : state * option tbl :=
  match fuel with
  | O => (st, None)
  | S f =>
      match get st q with
      | None => (st, None)                                (* get_uri_for_class fails *)
      | Some i =>
          match stab i with
          | Some t => (st, Some t)
          | None =>
              let '(l, d) := get_parsed_nocache i in
              match d_annot d with
              | Some (t, _) => (st, Some t)               (* only definitions needed: any annotation will do *)
              | None => let '(st', t) := annotate_with (symtab f) st q l d true in (st', Some t)
              end
          end
      end
  end.

Definition fuel_of (st : state) : nat := S (length (docs st)).

(* analyze_uri with cache_result = true, only_definitions = false (all request paths) *)
Definition analyze_full (st : state) (p : nat) : state * option tbl :=
  match get st p with
  | None => (st, None)
  | Some i =>
      let '(i1, l, d) := get_parsed i in
      let st1 := set_info st p (fun _ => i1) in
      match d_annot d with
      | Some (t, false) => (st1, Some t)                  (* annotated.is_some() && doc.only_definitions == false *)
      | _ => let '(st2, t) := annotate_with (symtab (fuel_of st)) st1 p l d false in (st2, Some t)
      end
  end.

(* ---------- requests ---------- *)

Inductive kind :=
| KSym                      (* documentSymbol: the current document object only *)
| KDiag                     (* diagnostic: parser + cached v1 analyzers + v2 analyzers on the annotated tree *)
| KChain                    (* definition, completion, prepareTypeHierarchy: the annotated table and its parent links *)
| KSuper (member : bool)    (* typeHierarchy/supertypes for a class item / a member item *)
| KSub (member : bool).     (* typeHierarchy/subtypes *)

Inductive answer :=
| AErr
| ALocal (p : nat) (v : version)
| ADiag (p : nat) (parser v1 : version) (v2 : option version)
| AChain (c : list (nat * version))
| ATree (l : list (nat * version)).      (* entities reached in the start-up tree, with the version of the table consulted *)

Definition req_sym (st : state) (p : nat) : state * answer :=
  match get st p with
  | None => (st, AErr)
  | Some i =>
      let '(i1, _, d) := get_parsed i in
      (set_info st p (fun _ => i1), ALocal p (d_ver d))
  end.

Definition req_diag (st : state) (p : nat) : state * answer :=
  match get st p with
  | None => (st, AErr)
  | Some i =>
      let '(i1, l, d) := get_parsed i in
      (* get_analyzer_diagnostics: the cache on the Document, filled on first use *)
      let a := match d_adiags d with Some a => a | None => d_ver d end in
      let st1 := set_info st p (fun _ => put_doc i1 l (mkD (d_ver d) (d_annot d) (Some a))) in
      let '(st2, r) := analyze_full st1 p in
      (st2, ADiag p (d_ver d) a (option_map t_ver r))
  end.

Definition req_chain (st : state) (p : nat) : state * answer :=
  match analyze_full st p with
  | (st', Some t) => (st', AChain (chain_of t))
  | (st', None) => (st', AErr)
  end.

(* children of p in the start-up tree, in document order (the code iterates a Vec filled in HashMap
   order: compared as a multiset) *)
Fixpoint children_from (k : nat) (tr : list (option nat)) (p : nat) : list nat :=
  match tr with
  | [] => []
  | e :: tr' =>
      (match e with Some q => if Nat.eqb q p then [k] else [] | None => [] end) ++ children_from (S k) tr' p
  end.
Definition children (st : state) (p : nat) : list nat := children_from 0 (tree st) p.

(* generate_entity_type_hierarchy_item / generate_*_for_entity: the entity's def-only table *)
Fixpoint consult (st : state) (fuel : nat) (es : list nat) : state * list (nat * version) :=
  match es with
  | [] => (st, [])
  | e :: es' =>
      let '(st1, r) := symtab fuel st e in
      let '(st2, rest) := consult st1 fuel es' in
      (st2, match r with Some t => (e, t_ver t) :: rest | None => rest end)
  end.

Definition req_tree (st : state) (sub member : bool) (p : nat) : state * answer :=
  match get st p with
  | None => (st, AErr)
  | Some _ =>
      (* a member item first asks for the class of its own uri (get_symbol_table_for_uri_def_only) *)
      let '(st1, ok) := if member then (let '(s, r) := symtab (fuel_of st) st p in (s, match r with Some _ => true | None => false end))
                        else (st, true) in
      if ok then
        let es := if sub then children st p
                  else match nth_error (tree st) p with Some (Some e) => [e] | _ => [] end in
        let '(st2, l) := consult st1 (fuel_of st) es in
        (st2, ATree l)
      else (st1, AErr)
  end.

Definition request (st : state) (k : kind) (p : nat) : state * answer :=
  match k with
  | KSym => req_sym st p
  | KDiag => req_diag st p
  | KChain => req_chain st p
  | KSuper m => req_tree st false m p
  | KSub m => req_tree st true m p
  end.

(* ---------- notifications ---------- *)

Inductive event :=
| Open (p : nat)                  (* notify_document_opened: nothing *)
| Change (p : nat) (v : version)  (* notify_document_changed: reset_transient_data, parse, set opened *)
| Save (p : nat)                  (* the client has rewritten the file; notify_document_saved: reset_all_data + re-index *)
| Close (p : nat)                 (* notify_document_closed: reset_all_data (saved, opened, symbol_table) *)
| Req (k : kind) (p : nat).

Definition step (st : state) (e : event) : state * option answer :=
  match e with
  | Open _ => (st, None)
  | Change p v => (set_info st p (fun i => mkI (disk i) (saved i) (Some (new_doc v)) None), None)
  | Save p => (set_info st p (fun i => mkI (logical i) None None None), None)
  | Close p => (set_info st p (fun i => mkI (disk i) None None None), None)
  | Req k p => let '(st', a) := request st k p in (st', Some a)
  end.

(* regression: notify_document_closed before /repo 9bf8fa8 dropped saved and opened but NOT symbol_table *)
Definition old_close (st : state) (p : nat) : state :=
  set_info st p (fun i => mkI (disk i) None None (stab i)).

Fixpoint run (st : state) (h : list event) : state * list (option answer) :=
  match h with
  | [] => (st, [])
  | e :: h' =>
      let '(st1, a) := step st e in
      let '(st2, l) := run st1 h' in
      (st2, a :: l)
  end.

(* a freshly started server on a workspace whose files have the given texts: nothing cached, the
   class tree built from the headers (workspaces without inheritance cycles: with a cycle the
   start-up builder refuses one link of it, which one depends on HashMap order) *)
Definition init (ws : list version) : state :=
  mkS (map (fun v => mkI v None None None) ws) (map vpar ws) 0.

Definition run_server (ws : list version) (h : list event) : list (option answer) := snd (run (init ws) h).

(* ---------- the property's reference: a freshly started server on the logical workspace ---------- *)

Definition logical_ws (st : state) : list version := map logical (docs st).
Definition fresh_answer (st : state) (k : kind) (p : nat) : answer := snd (request (init (logical_ws st)) k p).

Fixpoint count_occ_pair (x : nat * version) (l : list (nat * version)) : nat :=
  match l with
  | [] => O
  | y :: l' => (if Nat.eqb (fst x) (fst y) && version_eqb (snd x) (snd y) then 1 else 0)%nat + count_occ_pair x l'
  end.
Definition same_multiset (a b : list (nat * version)) : bool :=
  Nat.eqb (length a) (length b) && forallb (fun x => Nat.eqb (count_occ_pair x a) (count_occ_pair x b)) a.

Fixpoint list_pair_eqb (a b : list (nat * version)) : bool :=
  match a, b with
  | [], [] => true
  | x :: a', y :: b' => Nat.eqb (fst x) (fst y) && version_eqb (snd x) (snd y) && list_pair_eqb a' b'
  | _, _ => false
  end.

(* answers compared as multisets where the protocol imposes no order (hierarchy children) *)
Definition answer_eqb (a b : answer) : bool :=
  match a, b with
  | AErr, AErr => true
  | ALocal p v, ALocal q w => Nat.eqb p q && version_eqb v w
  | ADiag p a1 a2 a3, ADiag q b1 b2 b3 =>
      Nat.eqb p q && version_eqb a1 b1 && version_eqb a2 b2 &&
      match a3, b3 with Some x, Some y => version_eqb x y | None, None => true | _, _ => false end
  | AChain c, AChain d => list_pair_eqb c d
  | ATree c, ATree d => same_multiset c d
  | _, _ => false
  end.

(* the oracle of the property on one history: every answer equals the fresh server's *)
Fixpoint fresh_run (st : state) (h : list event) : bool :=
  match h with
  | [] => true
  | e :: h' =>
      (match e with
       | Req k p => answer_eqb (snd (request st k p)) (fresh_answer st k p)
       | _ => true
       end) && fresh_run (fst (step st e)) h'
  end.

(* ---------- classification of histories (decidable; extracted for the check's `known`) ---------- *)

(* the document object a request would be handed *)
Definition visible (i : dinfo) : option doc_obj :=
  match opened i with Some d => Some d | None => saved i end.

(* every table a later request can be answered from: the DocumentInfo's and the visible Document's *)
Definition cached_tables (i : dinfo) : list tbl :=
  (match stab i with Some t => [t] | None => [] end) ++
  (match visible i with
   | Some d => match d_annot d with Some (t, _) => [t] | None => [] end
   | None => []
   end).

Definition mentions (p : nat) (t : tbl) : bool := existsb (fun x => Nat.eqb (fst x) p) (chain_of t).

Fixpoint dependents_from (k : nat) (l : list dinfo) (p : nat) : bool :=
  match l with
  | [] => false
  | i :: l' => (negb (Nat.eqb k p) && existsb (mentions p) (cached_tables i)) || dependents_from (S k) l' p
  end.
(* some OTHER document holds a cached table whose chain contains p *)
Definition has_dependents (st : state) (p : nat) : bool := dependents_from 0 (docs st) p.

Definition logical_at (st : state) (p : nat) : option version := option_map logical (get st p).

Fixpoint tree_eqb (a : list (option nat)) (b : list (option nat)) : bool :=
  match a, b with
  | [], [] => true
  | x :: a', y :: b' => opt_nat_eqb x y && tree_eqb a' b'
  | _, _ => false
  end.
(* the start-up class tree still is the inheritance relation of the logical workspace *)
Definition tree_fresh (st : state) : bool := tree_eqb (tree st) (map vpar (logical_ws st)).

(* the event changes the text of p that requests are answered for *)
Definition changes_logical (st : state) (e : event) : option nat :=
  match e with
  | Change p v =>
      match get st p with Some i => if version_eqb v (logical i) then None else Some p | None => None end
  | Close p =>
      match get st p with Some i => if version_eqb (disk i) (logical i) then None else Some p | None => None end
  | _ => None
  end.

(* R-dep: the text of p changes while another document holds a table linked to p's old table *)
Definition trigger_dep (st : state) (e : event) : bool :=
  match changes_logical st e with Some p => has_dependents st p | None => false end.

(* R-tree: a hierarchy request when a header change has made the start-up class tree obsolete *)
Definition trigger_tree (st : state) (e : event) : bool :=
  match e with
  | Req (KSuper _) _ | Req (KSub _) _ => negb (tree_fresh st)
  | _ => false
  end.

Fixpoint known_by (trig : state -> event -> bool) (st : state) (h : list event) : bool :=
  match h with
  | [] => false
  | e :: h' => trig st e || known_by trig (fst (step st e)) h'
  end.

(* per event: which of the two situations it is in *)
Fixpoint triggers (st : state) (h : list event) : list (bool * bool) :=
  match h with
  | [] => []
  | e :: h' => (trigger_dep st e, trigger_tree st e) :: triggers (fst (step st e)) h'
  end.
Definition triggers_of (ws : list version) (h : list event) : list (bool * bool) := triggers (init ws) h.
