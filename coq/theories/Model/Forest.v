(* Model of /repo/src/manager/entity_tree_service.rs (the class tree) and of the hierarchy queries of
   /repo/src/manager/type_hierarchy_service.rs, as the code is after 8e84a43 (cycle check at link
   time), e20acc7 (double-checked insert), 3e4a84d (item names from the declaring file) and 17b78d0
   (a class that is linked again first leaves its previous parent's children list).

   Arc<Mutex<EntityInfoNode>> pointers are indices into a heap that only grows; the
   HashMap<String, Arc<..>> is an association list from upper-cased names to pointers.  The heap is
   needed (instead of nodes keyed by name) because the code before e20acc7 could create two nodes
   for one name; `dc = false` / `guard = false` select the behaviour before the repairs so that the
   refutations of the old code are theorems about the same model.

   Executable; no property proofs in this file. *)
From GoldV Require Import Base.
Local Open Scope nat_scope.

Record node := mkNode {
  nid   : str;            (* EntityInfoNode.id: the spelling at creation *)
  npar  : option nat;     (* parent: Weak pointer *)
  nkids : list nat        (* children: pointers, push order *)
}.

Record tree := mkTree {
  heap : list node;            (* every node ever allocated; pointer = index *)
  emap : list (str * nat)      (* class_module_map: upper-cased name -> pointer *)
}.

Definition empty : tree := mkTree [] [].

(* one file of the workspace as the builders see it: EntityInfo { id, parent } *)
Definition file := (str * option str)%type.

Definition getn (t : tree) (p : nat) : option node := nth_error (heap t) p.
Definition parent_of (t : tree) (p : nat) : option nat :=
  match getn t p with Some n => npar n | None => None end.
Definition kids_of (t : tree) (p : nat) : list nat :=
  match getn t p with Some n => nkids n | None => [] end.
Definition key_of (t : tree) (p : nat) : str :=
  match getn t p with Some n => upper (nid n) | None => [] end.
Definition lookup (t : tree) (k : str) : option nat := alookup k (emap t).

Fixpoint upd {A} (n : nat) (f : A -> A) (l : list A) : list A :=
  match l, n with
  | [], _ => []
  | x :: l', O => f x :: l'
  | x :: l', S n' => x :: upd n' f l'
  end.

(* Arc::new(Mutex::new(EntityInfoNode::new(id))) ; map.insert(id.to_uppercase(), node)
   (HashMap::insert replaces an existing binding) *)
Definition alloc (id : str) (t : tree) : nat * tree :=
  (length (heap t),
   mkTree (heap t ++ [mkNode id None []]) (ainsert (upper id) (length (heap t)) (emap t))).

(* get_or_create_entity (sequential builder, map write-locked throughout) *)
Definition get_or_create (id : str) (t : tree) : nat * tree :=
  match lookup t (upper id) with
  | Some p => (p, t)
  | None => alloc id t
  end.

Definition set_parent (t : tree) (e p : nat) : tree :=
  mkTree (upd e (fun n => mkNode (nid n) (Some p) (nkids n)) (heap t)) (emap t).
Definition push_child (t : tree) (p e : nat) : tree :=
  mkTree (upd p (fun n => mkNode (nid n) (npar n) (nkids n ++ [e])) (heap t)) (emap t).
(* entity.parent = Some(weak parent); parent.children.push(entity) *)
Definition link (t : tree) (e p : nat) : tree := push_child (set_parent t e p) p e.

(* detach_from_parent(entity): old_parent.children.retain(|c| !ptr_eq(c, entity)) *)
Definition remove_kid (t : tree) (q e : nat) : tree :=
  mkTree (upd q (fun n => mkNode (nid n) (npar n) (filter (fun c => negb (Nat.eqb c e)) (nkids n))) (heap t))
         (emap t).
Definition detach (t : tree) (e : nat) : tree :=
  match parent_of t e with Some q => remove_kid t q e | None => t end.
(* detach_from_parent; set parent; push child *)
Definition relink (t : tree) (e p : nat) : tree := link (detach t e) e p.

(* is_self_or_ancestor(entity, candidate): walk up from the candidate; `fuel` genuine comparisons,
   then the answer is `true` (steps > 10_000) *)
Fixpoint isa (fuel : nat) (t : tree) (e cur : nat) : bool :=
  match fuel with
  | O => true
  | S f => if Nat.eqb cur e then true
           else match parent_of t cur with
                | None => false
                | Some q => isa f t e q
                end
  end.

(* steps = 0 .. 10_000 compare, the iteration with steps = 10_001 answers true *)
Definition isa_bound : nat := N.to_nat 10001%N.

(* the cycle check and the link: one atomic region (map write lock) in both builders.
   guard = false: the code before 8e84a43 (no cycle check); dt = false: the code before 17b78d0 (no
   detach_from_parent) *)
Definition check_link_g (guard dt : bool) (t : tree) (e p : nat) : tree :=
  if guard && isa isa_bound t e p then t else if dt then relink t e p else link t e p.
Definition check_link (guard : bool) := check_link_g guard true.

(* ---- the sequential builder: build_tree ---- *)
Definition add_file_x (guard dt : bool) (t : tree) (f : file) : tree :=
  let '(e, t1) := get_or_create (fst f) t in
  match snd f with
  | None => t1
  | Some pn => let '(p, t2) := get_or_create pn t1 in check_link_g guard dt t2 e p
  end.
Definition add_file_g (guard : bool) := add_file_x guard true.

Definition add_file := add_file_g true.
Definition build (fs : list file) : tree := fold_left add_file fs empty.
(* before 8e84a43: no cycle check *)
Definition build_old (fs : list file) : tree := fold_left (add_file_g false) fs empty.
(* before 17b78d0: a class linked again stays in its first parent's children list *)
Definition build_nodetach (fs : list file) : tree := fold_left (add_file_x true false) fs empty.

(* ---- the parallel builder: build_tree_parallel ----
   One thread per chunk (the pool runs any subset of them at a time: every pool schedule is an
   interleaving of the chunk threads).  Atomic steps = regions between lock operations:
     PIdle    : take the next file, read-lock look-up of the entity
     PInsE    : (after the yield point) write lock: look again, insert if still absent
     PPar     : read-lock look-up of the parent (or nothing to do)
     PInsP    : as PInsE for the parent
     PLink    : write lock: is_self_or_ancestor + link *)
Inductive pc :=
| PIdle
| PInsE (f : file)
| PPar (e : nat) (f : file)
| PInsP (e : nat) (f : file)
| PLink (e p : nat) (f : file).

Record worker := mkW { todo : list file; wpc : pc }.

(* dc = true: get_or_create_entity_2 as repaired (second look-up under the write lock);
   dc = false: the code before e20acc7 (insert unconditionally after the missed look-up) *)
Definition insert_step (dc : bool) (id : str) (t : tree) : nat * tree :=
  if dc then get_or_create id t else alloc id t.

Definition wstep (dc guard : bool) (t : tree) (w : worker) : tree * worker :=
  match wpc w with
  | PIdle =>
      match todo w with
      | [] => (t, w)
      | f :: rest =>
          match lookup t (upper (fst f)) with
          | Some e => (t, mkW rest (PPar e f))
          | None => (t, mkW rest (PInsE f))
          end
      end
  | PInsE f => let '(e, t') := insert_step dc (fst f) t in (t', mkW (todo w) (PPar e f))
  | PPar e f =>
      match snd f with
      | None => (t, mkW (todo w) PIdle)
      | Some pn =>
          match lookup t (upper pn) with
          | Some p => (t, mkW (todo w) (PLink e p f))
          | None => (t, mkW (todo w) (PInsP e f))
          end
      end
  | PInsP e f =>
      match snd f with
      | None => (t, mkW (todo w) PIdle)
      | Some pn => let '(p, t') := insert_step dc pn t in (t', mkW (todo w) (PLink e p f))
      end
  | PLink e p f => (check_link guard t e p, mkW (todo w) PIdle)
  end.

Record sys := mkSys { st : tree; ws : list worker }.

Definition sstep (dc guard : bool) (s : sys) (i : nat) : sys :=
  match nth_error (ws s) i with
  | None => s
  | Some w => let '(t', w') := wstep dc guard (st s) w in mkSys t' (upd i (fun _ => w') (ws s))
  end.

(* a schedule is a list of thread ids *)
Definition run (dc guard : bool) (sched : list nat) (s : sys) : sys :=
  fold_left (sstep dc guard) sched s.

Definition init (chunks : list (list file)) : sys :=
  mkSys empty (map (fun c => mkW c PIdle) chunks).

Definition wdone (w : worker) : bool :=
  match todo w, wpc w with [], PIdle => true | _, _ => false end.
Definition all_done (s : sys) : bool := forallb wdone (ws s).

(* files_to_process.chunks(chunk_size) *)
Fixpoint chunks_aux (fuel n : nat) (l : list file) : list (list file) :=
  match fuel with
  | O => []
  | S f => match l with
           | [] => []
           | _ => firstn n l :: chunks_aux f n (skipn n l)
           end
  end.
Definition chunks (n : nat) (l : list file) : list (list file) := chunks_aux (length l) n l.

(* the schedule in which thread after thread runs to completion (5 steps per file at most) *)
Fixpoint seq_sched (i : nat) (cs : list (list file)) : list nat :=
  match cs with
  | [] => []
  | c :: cs' => repeat i (5 * length c) ++ seq_sched (S i) cs'
  end.

(* round robin: `rounds` times every thread once *)
Definition rr_sched (nthreads rounds : nat) : list nat :=
  concat (repeat (seq 0 nthreads) rounds).

Definition par_build (n : nat) (sched : list nat) (fs : list file) : sys :=
  run true true sched (init (chunks n fs)).

(* ---- the relation a tree represents, by upper-cased names ---- *)
Definition kparent (t : tree) (k : str) : option str :=
  match lookup t k with
  | Some e => match parent_of t e with Some q => Some (key_of t q) | None => None end
  | None => None
  end.
Definition kchildren (t : tree) (k : str) : list str :=
  match lookup t k with
  | Some e => map (key_of t) (kids_of t e)
  | None => []
  end.
Definition keys (t : tree) : list str := map fst (emap t).

(* ---- hierarchy queries ----
   `decl k` : the members (upper-cased names) declared in the file of class k, None when no file
   defines k (get_symbol_table_for_class_def_only fails and the walker gives up on that node). *)
Definition decls := str -> option (list str).

Fixpoint memb (x : str) (l : list str) : bool :=
  match l with [] => false | y :: l' => str_eqb x y || memb x l' end.

Inductive out (A : Type) := Ok (a : A) | Deadlock (lock : nat) | OutOfFuel.
Arguments Ok {A}. Arguments Deadlock {A}. Arguments OutOfFuel {A}.

(* type_hierarchy_supertypes / subtypes for a class item (answers as upper-cased names; the item
   itself is made from the declaring file, generate_entity_type_hierarchy_item) *)
Definition supertypes (t : tree) (c : str) : list str :=
  match kparent t (upper c) with Some q => [q] | None => [] end.
Definition subtypes (t : tree) (c : str) : list str := kchildren t (upper c).

(* generate_method_supertypes_for_entity: the nearest node, from p upwards, whose file declares
   the member; unbounded recursion in the code, fuel here *)
Fixpoint mem_up (fuel : nat) (t : tree) (d : decls) (name : str) (p : nat) : out (option nat) :=
  match fuel with
  | O => OutOfFuel
  | S f =>
      match d (key_of t p) with
      | None => Ok None
      | Some ms =>
          if memb name ms then Ok (Some p)
          else match parent_of t p with
               | None => Ok None
               | Some q => mem_up f t d name q
               end
      end
  end.

(* generate_method_supertypes *)
Definition member_supertypes (t : tree) (d : decls) (c name : str) : out (option nat) :=
  match lookup t (upper c) with
  | None => Ok None
  | Some e => match parent_of t e with
              | None => Ok None
              | Some q => mem_up (S (length (heap t))) t d (upper name) q
              end
  end.

Definition out_app {A} (a b : out (list A)) : out (list A) :=
  match a with
  | Ok x => match b with Ok y => Ok (x ++ y) | Deadlock l => Deadlock l | OutOfFuel => OutOfFuel end
  | Deadlock l => Deadlock l
  | OutOfFuel => OutOfFuel
  end.

(* generate_class_member_subtypes_for_entity: the node itself if its file declares the member,
   else the union over its children.
   hold = false: the code as it is (0e8d93b): the children list is cloned and NO node stays locked during
   the recursion; on a children cycle the recursion would have no end (OutOfFuel).
   hold = true: the code before 0e8d93b: the node's mutex was taken for the first statement and again, for the
   whole loop over the children, while recursing: `held` = the nodes locked up-stack; taking a held lock
   again was a self-deadlock. *)
Fixpoint mem_down (hold : bool) (fuel : nat) (t : tree) (d : decls) (name : str) (held : list nat) (p : nat)
  : out (list nat) :=
  match fuel with
  | O => OutOfFuel
  | S f =>
      if existsb (Nat.eqb p) held then Deadlock p
      else match d (key_of t p) with
           | None => Ok []
           | Some ms =>
               if memb name ms then Ok [p]
               else fold_right (fun c acc => out_app (mem_down hold f t d name (if hold then p :: held else held) c) acc)
                               (Ok []) (kids_of t p)
           end
  end.

(* generate_class_member_subtypes: the children are cloned first, the start node is not held.
   Fuel: one level more than the number of nodes: on a tree whose children lists mirror acyclic parent links the
   walk returns (proved); on a children cycle the old code re-locked a held node (Deadlock), the current code
   would recurse without end (OutOfFuel). *)
Definition member_subtypes_g (hold : bool) (t : tree) (d : decls) (c name : str) : out (list nat) :=
  match lookup t (upper c) with
  | None => Ok []
  | Some e => fold_right (fun c acc => out_app (mem_down hold (S (length (heap t))) t d (upper name) [] c) acc)
                         (Ok []) (kids_of t e)
  end.
Definition member_subtypes := member_subtypes_g false.
Definition member_subtypes_old := member_subtypes_g true.

(* the item name before 3e4a84d: the node's id, i.e. the first spelling seen *)
Definition old_item_name (t : tree) (k : str) : option str :=
  match lookup t k with
  | Some e => match getn t e with Some n => Some (nid n) | None => None end
  | None => None
  end.
