(* The syntax tree as every analyser sees it: one rose tree whose children are those of
   IAstNode::get_children_ref, with the token-valued fields analysers downcast for as attributes.
   This is the interchange format between the harness (which dumps the real tree through the
   public IAstNode trait and as_any().downcast_ref) and the tree-level models. *)
From GoldV Require Import Base Tokens Lexer AstKinds.

Inductive aval :=
| AN (n : N)                (* flags / booleans *)
| AS (s : str)              (* strings that are not tokens *)
| AT (t : tok)              (* a token-valued field *)
| AL (l : list tok).        (* optional / repeated token-valued field *)

Inductive node :=
| Node (kind : akind) (ident : str) (raw : N) (rng : range)
       (attrs : list (N * aval)) (children : list node).

(* attribute keys (numeric in the dump) *)
Definition K_token : N := 0.      (* AstTerminal.token, AstTypeBasic.id_token, AstTypeSized.type_token *)
Definition K_ident : N := 1.      (* identifier / id / ident_token / alias_token / counter_token *)
Definition K_parent : N := 2.     (* AstClass.parent_class *)
Definition K_uses : N := 3.       (* AstUses.list_of_uses *)
Definition K_op : N := 4.         (* op_token / ref_type / array_seq_token / join_token *)
Definition K_end : N := 5.        (* end_token *)
Definition K_flags : N := 6.      (* bit0 private, bit1 protected, bit2 final, bit3 override, bit4 forward, bit5 external;
                                     constants: bit0 multilang; fields: bit6 memory; foreach: bit0 downto;
                                     oql select: bit0 distinct; oql from: bit0..3; order by: bit0 descending *)
Definition K_value : N := 7.      (* value_token / size_token / modifier / inverse_var_token *)
Definition K_options : N := 8.    (* AstTypeReference.options, modifier_tokens *)
Definition K_str : N := 9.        (* comment text / external dll name / method#event id *)
Definition K_views : N := 99.     (* present (AN 1) iff the two child views of the real node disagree *)

Definition nkind (n : node) : akind := match n with Node k _ _ _ _ _ => k end.
Definition nident (n : node) : str := match n with Node _ i _ _ _ _ => i end.
Definition nraw (n : node) : N := match n with Node _ _ r _ _ _ => r end.
Definition nrange (n : node) : range := match n with Node _ _ _ r _ _ => r end.
Definition nattrs (n : node) : list (N * aval) := match n with Node _ _ _ _ a _ => a end.
Definition nchildren (n : node) : list node := match n with Node _ _ _ _ _ c => c end.

Fixpoint attr (k : N) (l : list (N * aval)) : option aval :=
  match l with
  | [] => None
  | (k', v) :: l' => if k =? k' then Some v else attr k l'
  end.

Definition attr_tok (k : N) (n : node) : option tok :=
  match attr k (nattrs n) with
  | Some (AT t) => Some t
  | Some (AL (t :: _)) => Some t
  | _ => None
  end.

Definition attr_flags (n : node) : N :=
  match attr K_flags (nattrs n) with Some (AN f) => f | _ => 0 end.

Definition is_kind (k : akind) (n : node) : bool := ak_eqb (nkind n) k.

Definition pos_leb (a b : pos) : bool :=
  (pline a <? pline b) || ((pline a =? pline b) && (pcol a <=? pcol b)).

Definition range0 : range := mkRange (mkPos 0 0) (mkPos 0 0).
