(* Go-to-definition and completion on a WORKSPACE of documents, at tree level: a workspace is a list
   of (file stem, real syntax tree); from the tables AstAnnotator builds from every tree
   (Model/Annot.v) and the way it links them, the answers of
     /repo/src/analyzers_v2/ast_annotator.rs      handle_class (parent look-up through the class index,
                                                  `Parent class cannot be itself`, is_own_table_reachable_from,
                                                  set_parent_symbol_table), handle_uses, notify_new_scope
     /repo/src/manager/semantic_analysis_service.rs  get_symbol_table_for_class_def_only (the table cached in
                                                  DocumentInfo, else a definitions-only annotation), analyze_uri
     /repo/src/manager/document_service.rs        get_uri_for_class (class_uri_map: upper-cased stem)
     /repo/src/analyzers_v2/type_resolver.rs      search_sym_info_w_class (parents, then the `uses` loop),
                                                  search_sym_info_through_parent
     /repo/src/manager/definition_service.rs      get_definition -> handle_generic
     /repo/src/manager/completion_service.rs      generate_completion_proposals -> generate_for_node
   for a request on document number `a` made to a FRESH ProjectManager (index_files, then requests
   on that one document only): document a is annotated in the full mode, every other document
   that is needed in the definitions-only mode, on demand.

   Parent links.  Annotating a document visits its class header, which asks for the table of the
   parent class: class_uri_map look-up (missing -> no link), the table cached in DocumentInfo --
   it is stored there BEFORE the walk, so a document whose annotation is in progress answers with
   its own, still parent-less table -- else a definitions-only annotation of that file (recursion).
   The link is refused when the annotator's own table is reachable from the table it got.
   Consequences, followed here:
   * along a lineage that never comes back to a document already on it every link is made,
     whatever the order of annotation (the refusal needs a path back): the chain of a document is
     the list of root tables along its lineage;
   * a lineage that comes back (a = P0 -> P1 -> ... -> Pk -> Pi): Pk is linked to Pi's table, then
     on the way back every P_j (j > i) is linked, and Pi itself finds its own table reachable and
     stays parent-less: the chain of document a is P0 .. Pi.  This is the order of events when the
     header is the first child of the root of every document on that path (nothing annotated
     before it can start another annotation); otherwise, and for a USED entity whose lineage
     comes back (its tables are built at some moment between requests), the outcome is Outside.
   The table of document j in a chain is its full-mode root table when j = a, else its
   definitions-only root table.

   Outside also: the typing of operands before a dot beyond: the terminal `self` / the header's own name
   (DefTree.own_entity), the name of another indexed class / module, a variable, parameter or field
   (own or inherited) whose declared type is native, an indexed class, `refto` an indexed class or
   `listof` (typed_entity); dotted chains, calls, aliases and unknown type names stay Outside; documents with more than one class / module node, or one below the
   first level; workspaces whose stems collide ignoring case (HashMap: the last one indexed wins).
   Executable; no property proofs in this file. *)
From GoldV Require Import Base Tokens Lexer AstKinds Tree Encase SymTab Scoping Annot DefTree.

Definition doc := (str * node)%type.            (* file stem, tree *)
Definition wst := list doc.

(* ---------- class_uri_map ---------- *)

Fixpoint find_doc_from (k : nat) (ws : wst) (name : str) : option (nat * doc) :=
  match ws with
  | [] => None
  | d :: r => if ci_eqb (fst d) name then Some (k, d) else find_doc_from (S k) r name
  end.

Definition find_doc (ws : wst) (name : str) : option (nat * doc) := find_doc_from 0 ws name.

Fixpoint distinct_stems (ws : wst) : bool :=
  match ws with
  | [] => true
  | d :: r => negb (existsb (fun e => ci_eqb (fst e) (fst d)) r) && distinct_stems r
  end.

(* ---------- the parent a document's header names ---------- *)

Inductive plink := PNone | PTo (p : str) | PBad.

(* handle_class acts on every AstClass node it visits: the root and its children in the
   definitions-only mode, every node in the full mode.  Exactly one class / module node, a child
   of the root: both modes see the same header. *)
Definition parent_link (t : node) : plink :=
  match filter is_header_node (all_nodes t), filter is_header_node (nchildren t) with
  | [], _ => PNone
  | [_], [h] =>
      if is_kind KAstClass h then
        match attr_tok K_parent h with
        | Some p => if ci_eqb (tval p) (nident h) then PNone else PTo (tval p)   (* "Parent class cannot be itself" *)
        | None => PNone
        end
      else PNone
  | _, _ => PBad
  end.

Definition header_first (t : node) : bool :=
  match nchildren t with h :: _ => is_header_node h | [] => false end.

(* ---------- the lineage of a document, as the annotators walk it ---------- *)

Fixpoint index_of (i : nat) (l : list nat) : option nat :=
  match l with
  | [] => None
  | x :: r => if Nat.eqb x i then Some O else option_map S (index_of i r)
  end.

Definition tree_ok (ws : wst) (f : node -> bool) (j : nat) : bool :=
  match nth_error ws j with Some d => f (snd d) | None => false end.

(* (came back to a document already on the path, the documents whose tables are chained) *)
Fixpoint walk (fuel : nat) (ws : wst) (seen : list nat) (i : nat) : outcome (bool * list nat) :=
  match fuel with
  | O => Outside
  | S f =>
      match index_of i seen with
      | Some k => if forallb (tree_ok ws header_first) seen then Ans (true, firstn (S k) seen) else Outside
      | None =>
          match nth_error ws i with
          | None => Outside
          | Some d =>
              match parent_link (snd d) with
              | PBad => Outside
              | PNone => Ans (false, seen ++ [i])
              | PTo p =>
                  match find_doc ws p with
                  | None => Ans (false, seen ++ [i])              (* "Parent class not defined" *)
                  | Some (j, _) => walk f ws (seen ++ [i]) j
                  end
              end
          end
      end
  end.

Definition lineage_t (ws : wst) (i : nat) : outcome (bool * list nat) := walk (S (length ws)) ws [] i.

(* the root table of document j as document a's session holds it *)
Definition root_of (ws : wst) (a j : nat) : list table :=
  match nth_error ws j with
  | Some d => [root_table_of (negb (Nat.eqb j a)) (snd d)]
  | None => []
  end.

Definition tables_along (ws : wst) (a : nat) (path : list nat) : list table := flat_map (root_of ws a) path.

(* the chain of root tables of the requested document: itself, then its linked ancestors *)
Definition own_chain (ws : wst) (a : nat) : outcome (list table) :=
  match lineage_t ws a with
  | Outside => Outside
  | Ans (_, path) => Ans (tables_along ws a path)
  end.

(* the chain of another entity (used entity, class named before a dot) *)
Definition other_chain (ws : wst) (a j : nat) : outcome (list table) :=
  if Nat.eqb j a then own_chain ws a
  else
    match lineage_t ws j with
    | Ans (false, path) => Ans (tables_along ws a path)
    | _ => Outside
    end.

(* ---------- links ---------- *)

(* stem of the target file, target_selection_range, target_range *)
Definition wlink := (str * range * range)%type.

(* get_uri_for_class(in_class): the file whose stem is the table's for_class_or_module *)
Definition target_of (ws : wst) (h : table * asym) : option wlink :=
  match find_doc ws (cls_str (fst h)) with
  | Some (_, d) => Some (fst d, a_sel (snd h), a_range (snd h))
  | None => None
  end.

(* the `uses` loop of search_sym_info_w_class: the first used entity whose table or its parents'
   know the name; entities the index does not know are skipped *)
Fixpoint uses_search (ws : wst) (a : nat) (us : list str) (id : str) : outcome (option (table * asym)) :=
  match us with
  | [] => Ans None
  | u :: r =>
      match find_doc ws u with
      | None => uses_search ws a r id
      | Some (j, _) =>
          match other_chain ws a j with
          | Outside => Outside
          | Ans ch =>
              match lookup ch id with
              | Some h => Ans (Some h)
              | None => uses_search ws a r id
              end
          end
      end
  end.

Definition uses_of_chain (ch : list table) : list str :=
  match ch with T :: _ => t_uses T | [] => [] end.

(* search_sym_info_w_class(id, st, search_uses = true) *)
Definition wsearch (ws : wst) (a : nat) (ch : list table) (id : str) : outcome (option (table * asym)) :=
  match lookup ch id with
  | Some h => Ans (Some h)
  | None => uses_search ws a (uses_of_chain ch) id
  end.

(* generate_loc_link_single *)
Definition wdef_single (ws : wst) (a : nat) (ch : list table) (oid : option str) : outcome (list wlink) :=
  match oid with
  | None => Ans []
  | Some id =>
      match wsearch ws a ch id with
      | Outside => Outside
      | Ans None => Ans []
      | Ans (Some h) => Ans (match target_of ws h with Some l => [l] | None => [] end)
      end
  end.

Definition opt_list {A} (o : option A) : list A := match o with Some x => [x] | None => [] end.
Definition is_some {A} (o : option A) : bool := match o with Some _ => true | None => false end.

(* generate_loc_link_all: an unknown class of one hit fails the whole request *)
Definition wdef_all (ws : wst) (ch : list table) (oid : option str) : list wlink :=
  match oid with
  | None => []
  | Some id =>
      let ls := map (target_of ws) (lookup_all ch id) in
      if forallb is_some ls then flat_map opt_list ls else []
  end.

(* generate_right_hand_of_entity / generate_rhs_of_entity: the table of the entity before the dot *)
Definition entity_chain (ws : wst) (a : nat) (full : list table) (ent : str) : outcome (option (list table)) :=
  match find_doc ws ent with
  | None => Ans None
  | Some (j, _) =>
      if Nat.eqb j a then Ans (Some (class_level_t full))
      else match other_chain ws a j with Outside => Outside | Ans ch => Ans (Some ch) end
  end.

(* ---------- the chain a position sees ---------- *)

Definition full_chain (ws : wst) (a : nat) (t : node) (steps : list (nat * node)) : outcome (list table) :=
  match chain_for t steps, own_chain ws a with
  | Some ch, Ans oc => Ans (ch ++ tl oc)
  | _, _ => Outside
  end.

(* ---------- the eval type of a left operand that is a plain name (resolve_terminal) ----------
   Stored when the terminal is annotated: get_symbol_info on the chain as it is at that moment, else
   the class / module of that name.  The moment does not matter when every declaration of the name
   in the document's own tables (method table, root table) ends before the operand; the ancestors'
   tables are complete by then (no parent cycle).  The eval type of a variable / parameter / field is
   the one of its declared type, computed when the symbol was inserted: a native type name -> no
   class; a name the class index knows, `refto` such a name -> that class, as written; `listof` ->
   aListOfInstances; anything else (an alias, an unknown name: a look-up in tables under
   construction) stays Outside.  Constants and procedures have no class. *)

Definition rng_eqb (a b : range) : bool :=
  N.eqb (pline (rstart a)) (pline (rstart b)) && N.eqb (pcol (rstart a)) (pcol (rstart b)) &&
  N.eqb (pline (rend a)) (pline (rend b)) && N.eqb (pcol (rend a)) (pcol (rend b)).

Definition is_typed_decl (n : node) : bool :=
  is_kind KAstGlobalVariableDeclaration n || is_kind KAstParameterDeclaration n || is_kind KAstLocalVariableDeclaration n.

(* the declaration node a symbol was made from *)
Definition decl_node (t : node) (s : asym) : option node :=
  match filter (fun n => is_typed_decl n && rng_eqb (nrange n) (a_range s) && str_eqb (nident n) (a_name s)) (all_nodes t) with
  | [n] => Some n
  | _ => None
  end.

Definition indexed_as (ws : wst) (name : str) : outcome (option str) :=
  match find_doc ws name with Some _ => Ans (Some name) | None => Outside end.

(* resolve_type_basic / resolve_type_refto on the declared type (first child of the declaration) *)
Definition declared_entity (ws : wst) (n : node) : outcome (option str) :=
  match nchildren n with
  | c :: _ =>
      if is_kind KAstTypeBasic c then
        (if is_native (nident c) then Ans None else indexed_as ws (nident c))
      else if is_kind KAstTypeReference c then
        match attr_tok K_op c with
        | Some o =>
            if tt_eqb (tty o) Tokens.TRefTo then indexed_as ws (nident c)
            else if tt_eqb (tty o) Tokens.TListOf then Ans (Some s_list_of_instances)
            else Outside
        | None => Outside
        end
      else Outside
  | [] => Outside
  end.

Fixpoint lookup_idx (k : nat) (ch : list table) (id : str) : option (nat * table * asym) :=
  match ch with
  | [] => None
  | T :: r => match find_in T id with Some s => Some (k, T, s) | None => lookup_idx (S k) r id end
  end.

Definition header_entity (s : asym) : outcome (option str) :=
  if ci_eqb (a_name s) s_self then Outside else Ans (Some (a_name s)).

(* Some entity: Class / Module(entity); None: no class (native, unknown, constant, procedure) *)
Definition typed_entity (ws : wst) (a : nat) (t : node) (steps : list (nat * node)) (lft : node) : outcome (option str) :=
  if negb (is_kind KAstTerminal lft && in_method steps) then Outside else
  match chain_for t steps, lineage_t ws a with
  | Some ch, Ans (false, path) =>
      let L := nident lft in
      let full := ch ++ tl (tables_along ws a path) in
      let before (s : asym) := pos_leb (rend (a_range s)) (rstart (nrange lft)) in
      if negb (forallb (fun T => forallb (fun s => negb (ci_eqb (a_name s) L) || before s) (t_syms T)) ch) then Outside else
      match lookup_idx 0 full L with
      | Some (k, _, s) =>
          match a_kind s with
          | KConstant | KProc => Ans None
          | KClass | KModule => header_entity s
          | KVariable | KField =>
              match (if Nat.ltb k (length ch) then Some a else nth_error path (S (k - length ch))) with
              | Some j =>
                  match nth_error ws j with
                  | Some dj => match decl_node (snd dj) s with Some n => declared_entity ws n | None => Outside end
                  | None => Outside
                  end
              | None => Outside
              end
          | _ => Outside
          end
      | None =>
          match find_doc ws L with
          | None => Ans None
          | Some (j, _) =>
              if Nat.eqb j a then Outside else
              match other_chain ws a j with
              | Outside => Outside
              | Ans chj =>
                  match lookup chj L with
                  | Some (_, s) => match a_kind s with KClass | KModule => header_entity s | _ => Outside end
                  | None => Ans None
                  end
              end
          end
      end
  | _, _ => Outside
  end.

(* ---------- get_definition ---------- *)

Definition wdef_rhs (ws : wst) (a : nat) (t : node) (steps : list (nat * node)) (full : list table)
                    (q enc : node) (p : pos) : outcome (list wlink) :=
  match first_child q with
  | Some lft =>
      match own_entity t lft with
      | Some ent =>
          if in_method steps then
            match entity_chain ws a full ent with
            | Outside => Outside
            | Ans None => Ans []
            | Ans (Some ch) => Ans (wdef_all ws ch (get_id enc p))
            end
          else Outside
      | None =>
          match typed_entity ws a t steps lft with
          | Outside => Outside
          | Ans None => Ans []
          | Ans (Some ent) =>
              match entity_chain ws a full ent with
              | Outside => Outside
              | Ans None => Ans []
              | Ans (Some ch) => Ans (wdef_all ws ch (get_id enc p))
              end
          end
      end
  | None => Outside
  end.

Definition wdefinition (ws : wst) (a : nat) (p : pos) : outcome (list wlink) :=
  if negb (distinct_stems ws) then Outside else
  match nth_error ws a with
  | None => Outside
  | Some (_, t) =>
      if negb (flat_methods t) then Outside else
      let steps := descend p t in
      match full_chain ws a t steps, path_up p t with
      | Ans full, (idx, enc) :: up =>
          match up with
          | (_, q) :: _ =>
              if is_dot q then
                (match idx with
                 | O => wdef_single ws a full (get_id enc p)
                 | S _ => wdef_rhs ws a t steps full q enc p
                 end)
              else if is_method_node q && Nat.eqb idx 0 then Ans (wdef_all ws (class_level_t full) (get_id enc p))
              else if is_member_decl enc then Ans (wdef_all ws full (get_id enc p))
              else wdef_single ws a full (get_id enc p)
          | [] =>
              if is_member_decl enc then Ans (wdef_all ws full (get_id enc p)) else wdef_single ws a full (get_id enc p)
          end
      | _, _ => Outside
      end
  end.

(* ---------- generate_completion_proposals ---------- *)

Definition wcompl_rhs (ws : wst) (a : nat) (t : node) (steps : list (nat * node)) (full : list table)
                      (lft : option node) : outcome (list str) :=
  match lft with
  | Some l =>
      match own_entity t l with
      | Some ent =>
          if in_method steps then
            match entity_chain ws a full ent with
            | Outside => Outside
            | Ans None => Ans []
            | Ans (Some ch) => Ans (labels_rhs ch)
            end
          else Outside
      | None =>
          match typed_entity ws a t steps l with
          | Outside => Outside
          | Ans None => Ans []
          | Ans (Some ent) =>
              match entity_chain ws a full ent with
              | Outside => Outside
              | Ans None => Ans []
              | Ans (Some ch) => Ans (labels_rhs ch)
              end
          end
      end
  | None => Outside
  end.

Definition wcompletion (ws : wst) (a : nat) (p : pos) : outcome (list str) :=
  if negb (distinct_stems ws) then Outside else
  match nth_error ws a with
  | None => Outside
  | Some (_, t) =>
      if negb (flat_methods t) then Outside else
      let steps := descend p t in
      match full_chain ws a t steps, path_up p t with
      | Ans full, (idx, enc) :: up =>
          if is_dot enc then
            (match attr_tok K_op enc with
             | Some o => if pos_leb (rend (trange o)) p then wcompl_rhs ws a t steps full (first_child enc)
                         else Ans (labels_lhs full)
             | None => Outside
             end)
          else
            match up with
            | (_, q) :: _ =>
                if is_dot q then
                  (match idx with O => Ans (labels_lhs full) | S _ => wcompl_rhs ws a t steps full (first_child q) end)
                else Ans (labels_lhs full)
            | [] => Ans (labels_lhs full)
            end
      | _, _ => Outside
      end
  end.
