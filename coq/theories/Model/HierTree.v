(* The type hierarchy at TREE level: from a workspace = list of (file stem, real syntax tree as dumped
   by harness/src/treedump.rs), what
     /repo/src/manager/document_service.rs     parse_content (entity_info), index_files / get_uri_for_class
     /repo/src/manager/entity_tree_service.rs  build_tree / build_tree_parallel
     /repo/src/manager/type_hierarchy_service.rs
         prepare_type_hierarchy, generate_entity_type_hierarchy_item, type_hierarchy_supertypes / _subtypes,
         generate_method_supertypes(_for_entity), generate_class_member_subtypes(_for_entity)
     /repo/src/manager/utils.rs                search_encasing_node, search_sym_info_for_node
   compute, in terms of Model/Forest.v (the class tree and the walkers, over an abstract input) and
   Model/Annot.v (the symbol tables AstAnnotator builds from a tree).

   What the code does, and the model follows:
   * the ENTITY of a document (parse_content): the FIRST child of the root that is an AstClass or an
     AstModule, wherever it stands among the children (after other declarations, after methods);
     a class gives (identifier, parent_class as written), a module (id, None); a document without
     such a child gives no entity and the tree builders skip it.  A second header is ignored HERE
     (but not by the annotator: for_class_or_module of the tables is the LAST header's name).
     The builders make a node for a module exactly as for a class.
   * the class tree: Forest.build over the entities in workspace order (for forests every order, chunking
     and schedule gives the same relation: Proofs/ForestProofs.v; the engines compare children sorted).
   * a class NAME is turned into a document through the file STEM (class_uri_map: upper-cased stem ->
     uri; get_symbol_table_for_class_def_only, get_uri_for_class), never through the headers.
   * the walkers look a member up with search_symbol_info(id) in the ROOT table of that document:
     hash_map.get(upper id), i.e. ANY symbol of that name whatever its type -- the header's own name,
     `self`, constants, types, fields, procedures, functions -- the latest insertion winning; the item
     is made from that symbol (name as declared, selection range, range), its kind is the kind of the
     item asked about, its uri is get_uri_for_class(for_class_or_module of that table) (no item when
     that is not a stem of the workspace).
   * generate_entity_type_hierarchy_item (class items of supertypes / subtypes): the document of the
     node's name by stem; get_symbol_info(name) on its root table -- which falls back to the PARENT
     class's table when the name is missing: Outside here when the document names a parent class.
   * prepare_type_hierarchy: the smallest node encasing the position (Model/Encase.v, the way down by
     DefTree.descend), ITS get_identifier() (any node kind), looked up from the nearest table (the
     method's table, then the root table, then the parent classes' and the `uses` tables: a miss is
     Outside when the document has a parent or a `uses`); under a dot: the left operand as above, the
     right operand needs the eval type of the left one: Outside.  The item's uri is ALWAYS
     get_uri_for_class(for_class_or_module of the table the symbol was found in): Class symbol -> a CLASS
     item (the requested document when that name is not a stem -- the code since 6242e0e; before, always
     the requested document, also for a class found in another file's table); Func / Proc -> FUNCTION,
     Field -> FIELD (an ERROR when that is not a stem); any other symbol type, or no symbol: no item.
     `self` is a Class symbol: a cursor on `self` prepares a class item called "self".
   The tables are those of the full annotation (root_table_of false): prepare_type_hierarchy analyses
   the document in full and stores the table in the document info, where the walkers find it (the
   harness prepares at every position of every file before it asks the walkers).
   Executable; no property proofs in this file. *)
From GoldV Require Import Base Tokens Lexer AstKinds Tree Encase SymTab Scoping Annot DefTree.
From GoldV Require Forest.

Definition doc := (str * node)%type.           (* file stem, tree *)
Definition wsT := list doc.

(* ---------- (a) what the tree builders and the walkers read off a document ---------- *)

(* parse_content: the first AstClass / AstModule child of the root.  (treedump never gives a module
   the attribute K_parent, so reading it for both kinds is reading parent_class of a class, None of a module) *)
Definition entity_info (t : node) : option Forest.file :=
  match find is_header_node (nchildren t) with
  | Some h => Some (nident h, option_map tval (attr_tok K_parent h))
  | None => None
  end.

Definition root_of (d : doc) : table := root_table_of false (snd d).

(* the names search_symbol_info can find in the root table, in insertion order, as declared *)
Definition member_names (t : node) : list str := map a_name (t_syms (root_table_of false t)).

(* the abstract input of Forest.v the code derives: (class name, parent reference, member names) *)
Definition hfile := (str * option str * list str)%type.
Definition forest_input_of_ws (ws : wsT) : list hfile :=
  flat_map (fun d => match entity_info (snd d) with
                     | Some (c, p) => [(c, p, member_names (snd d))]
                     | None => []
                     end) ws.

Definition file_of (h : hfile) : Forest.file := (fst (fst h), snd (fst h)).
Definition files_of_ws (ws : wsT) : list Forest.file := map file_of (forest_input_of_ws ws).

(* EntityTreeService after the build *)
Definition class_tree (ws : wsT) : Forest.tree := Forest.build (files_of_ws ws).

(* class_uri_map.get(upper name): the document with that stem (stems pairwise distinct ignoring case) *)
Definition doc_of (ws : wsT) (k : str) : option doc := find (fun d => str_eqb (upper (fst d)) k) ws.

(* the `decls` of Forest.v's walkers: keyed by upper-cased class name = upper-cased stem *)
Definition decls_of_ws (ws : wsT) : Forest.decls :=
  fun k => match doc_of ws k with
           | Some d => Some (map upper (member_names (snd d)))
           | None => None
           end.

(* ---------- items ---------- *)

Inductive ikind := IClass | IFunc | IField.      (* SymbolKind::CLASS / FUNCTION / FIELD *)
Record item := mkItem {
  i_name : str;         (* TypeHierarchyItem.name *)
  i_kind : ikind;
  i_uri : str;          (* TypeHierarchyItem.uri, as the file stem of the document it names *)
  i_sel : range;        (* selection_range *)
  i_range : range       (* range *)
}.

(* a request's result: Err(..) / the walkers' recursion did not end within the model's fuel / Ok(items) *)
Inductive res := RErr | RFuel | ROk (l : list item).

(* ---------- (b) prepare_type_hierarchy ---------- *)

(* get_uri_for_class(cls).unwrap_or(requested uri) *)
Definition class_uri (ws : wsT) (stem cls : str) : str :=
  match doc_of ws (upper cls) with Some d => fst d | None => stem end.

Definition item_for (ws : wsT) (stem cls : str) (a : asym) : res :=
  match a_kind a with
  | KClass =>
      (* since 6242e0e: get_uri_for_class(class) -- the file that declares the class --, the requested
         document when the class is not indexed by name *)
      ROk [mkItem (a_name a) IClass (class_uri ws stem cls) (a_sel a) (a_range a)]
  | KFunc | KProc =>
      match doc_of ws (upper cls) with
      | Some d => ROk [mkItem (a_name a) IFunc (fst d) (a_sel a) (a_range a)]
      | None => RErr
      end
  | KField =>
      match doc_of ws (upper cls) with
      | Some d => ROk [mkItem (a_name a) IField (fst d) (a_sel a) (a_range a)]
      | None => RErr
      end
  | _ => ROk []
  end.

(* the encasing node is the right operand of a dot *)
Definition right_of_dot (idx : nat) (up : list (nat * node)) : bool :=
  match up with
  | (_, q) :: _ => is_dot q && negb (Nat.eqb idx 0)
  | [] => false
  end.

Definition prepare (ws : wsT) (d : doc) (p : pos) : outcome res :=
  let t := snd d in
  if negb (flat_methods t) then Outside else
  match chain_for t (descend p t), path_up p t with
  | Some ch, (idx, enc) :: up =>
      if right_of_dot idx up then Outside
      else match lookup ch (nident enc) with
           | Some (T, a) => Ans (item_for ws (fst d) (cls_str T) a)
           | None => if foreign t then Outside else Ans (ROk [])
           end
  | _, _ => Outside
  end.

(* ---------- the walkers ---------- *)

(* generate_entity_type_hierarchy_item for the node with key k *)
Definition class_item (ws : wsT) (k : str) : outcome (list item) :=
  match doc_of ws k with
  | None => Ans []
  | Some d =>
      match find_in (root_of d) k with
      | Some a => Ans [mkItem (a_name a) IClass (fst d) (a_sel a) (a_range a)]
      | None => if foreign_parent (snd d) then Outside else Ans []
      end
  end.

Fixpoint class_items (ws : wsT) (ks : list str) : outcome (list item) :=
  match ks with
  | [] => Ans []
  | k :: r => match class_item ws k, class_items ws r with
              | Ans a, Ans b => Ans (a ++ b)
              | _, _ => Outside
              end
  end.

(* the item a member walker makes at the node with key k, for the item `it` *)
Definition member_item (ws : wsT) (it : item) (k : str) : list item :=
  match doc_of ws k with
  | None => []
  | Some d =>
      match find_in (root_of d) (i_name it) with
      | None => []
      | Some a =>
          match doc_of ws (upper (cls_str (root_of d))) with
          | Some d' => [mkItem (a_name a) (i_kind it) (fst d') (a_sel a) (a_range a)]
          | None => []
          end
      end
  end.

(* get_symbol_table_for_uri_def_only(item.uri) . get_class() *)
Definition class_of_item (ws : wsT) (it : item) : option str :=
  match doc_of ws (upper (i_uri it)) with
  | Some d => t_cls (root_of d)
  | None => None
  end.

Definition supertypes_of (ws : wsT) (tr : Forest.tree) (it : item) : outcome res :=
  match i_kind it with
  | IClass =>
      match class_items ws (Forest.supertypes tr (i_name it)) with
      | Ans l => Ans (ROk l)
      | Outside => Outside
      end
  | _ =>
      match class_of_item ws it with
      | None => Ans RErr
      | Some c =>
          match Forest.member_supertypes tr (decls_of_ws ws) c (i_name it) with
          | Forest.Ok (Some p) => Ans (ROk (member_item ws it (Forest.key_of tr p)))
          | Forest.Ok None => Ans (ROk [])
          | _ => Ans RFuel
          end
      end
  end.

Definition subtypes_of (ws : wsT) (tr : Forest.tree) (it : item) : outcome res :=
  match i_kind it with
  | IClass =>
      match class_items ws (Forest.subtypes tr (i_name it)) with
      | Ans l => Ans (ROk l)
      | Outside => Outside
      end
  | _ =>
      match class_of_item ws it with
      | None => Ans RErr
      | Some c =>
          match Forest.member_subtypes tr (decls_of_ws ws) c (i_name it) with
          | Forest.Ok ps => Ans (ROk (flat_map (fun p => member_item ws it (Forest.key_of tr p)) ps))
          | _ => Ans RFuel
          end
      end
  end.

(* ---------- (c) the ranges of a prepared item, from the tree ----------
   selection range = the range of the declared name (the token K_ident; the name node of a method),
   range = the range of the declaring node: Annot.name_range / nrange of the node (sym_of);
   Proofs/HierTreeProofs.v hier_item_ranges. *)
Definition item_of_node (k : ikind) (stem : str) (n : node) : item :=
  mkItem (nident n) k stem (name_range n) (nrange n).
