(* A printer for token lists: the inverse direction of Model/Lexer.v.
   A lexeme is a (token type, token value) pair as GoldLexer::lex reports it; `spell` is its
   canonical spelling in source text and `unlex` writes a list of lexemes separated by one blank
   (a line feed after a comment, which runs to the end of its line).  `printable` is the boolean
   side condition: the pair is one the lexer can produce for that spelling.  Executable; the
   round-trip theorem (lex (unlex ts) gives ts back, with no lexical error) is in
   Proofs/UnlexProofs.v.  This is what carries the token-level theorems of C06 / C09 / C12 over
   to TEXTS. *)
From GoldV Require Import Base Tokens Keywords Lexer.

Definition lexeme := (ttype * str)%type.

Definition tt_idx_eqb (a b : ttype) : bool := N.eqb (tt_idx a) (tt_idx b).

(* a quote inside a single-quoted literal is written twice *)
Fixpoint esc (v : str) : str :=
  match v with
  | [] => []
  | c :: r => if c =? 39 then 39 :: 39 :: esc r else c :: esc r
  end.

Definition lx_is_string (ty : ttype) : bool := tt_idx_eqb ty TStringLiteral.
Definition lx_is_comment (ty : ttype) : bool := tt_idx_eqb ty TComment.

Definition spell (t : lexeme) : str :=
  if lx_is_string (fst t) then 39 :: esc (snd t) ++ [39]
  else if lx_is_comment (fst t) then 59 :: snd t
  else snd t.

Definition lx_sep (t : lexeme) : N := if lx_is_comment (fst t) then 10 else 32.

(* the pairs the lexer produces for a word / number / operator spelling v *)
Definition plain_ok (ty : ttype) (v : str) : bool :=
  match v with
  | [] => false
  | c :: r =>
      if is_word_start c then forallb is_word_char r && tt_idx_eqb (classify v) ty
      else if is_digit c then forallb is_num_char r && tt_idx_eqb ty TNumericLiteral
      else
        match single_op c with
        | Some ty' => match r with [] => tt_idx_eqb ty' ty | _ => false end
        | None =>
            if c =? 35 then match r with [] => tt_idx_eqb ty TPound | _ => false end
            else
              match r with
              | [] => match double_op c (Some 32) with
                      | Some (ty', v', false) => tt_idx_eqb ty' ty && str_eqb v' v
                      | _ => false
                      end
              | [x] => match double_op c (Some x) with
                       | Some (ty', v', true) => tt_idx_eqb ty' ty && str_eqb v' v
                       | _ => false
                       end
              | _ => false
              end
        end
  end.

Definition printable (t : lexeme) : bool :=
  if lx_is_string (fst t) then true
  else if lx_is_comment (fst t) then forallb not_eol (snd t)
  else plain_ok (fst t) (snd t).

Definition unlex (ts : list lexeme) : str := flat_map (fun t => spell t ++ [lx_sep t]) ts.

(* what the lexer reports of a token, positions aside *)
Definition lx_obs (t : tok) : lexeme := (tty t, tval t).

(* the lx_offsets (in scalar values) at which the lexemes of `unlex ts` start, from `off` on *)
Fixpoint lx_offsets (off : N) (ts : list lexeme) : list N :=
  match ts with
  | [] => []
  | t :: r => off :: lx_offsets (off + lenN (spell t) + 1) r
  end.
