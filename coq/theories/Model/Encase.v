(* Model of manager/utils.rs:search_encasing_node on the tree interchange format (Tree.node):
   descend into the FIRST child whose range contains the position (Range::contains_pos:
   start <= pos <= end, both ends inclusive), else the node itself.  No property proofs here
   (Proofs/RangeEnc.v). *)
From GoldV Require Import Base Tokens Lexer AstKinds Tree.

(* Range::contains_pos: start <= pos <= end *)
Definition contains (r : range) (p : pos) : bool := pos_leb (rstart r) p && pos_leb p (rend r).

(* ---------- search_encasing_node (manager/utils.rs:14-27) on Tree.node ---------- *)

Fixpoint search (p : pos) (n : node) : node :=
  match n with
  | Node _ _ _ _ _ ch =>
      match (fix go (l : list node) : option node :=
               match l with
               | [] => None
               | c :: l' => if contains (nrange c) p then Some (search p c) else go l'
               end) ch with
      | Some r => r
      | None => n
      end
  end.

Definition search_go (p : pos) : list node -> option node :=
  fix go (l : list node) : option node :=
    match l with
    | [] => None
    | c :: l' => if contains (nrange c) p then Some (search p c) else go l'
    end.

