(* String constants of the parser model as code-point lists, computed once at definition time so that
   neither vm_compute nor the extracted code ever sees Coq's `string` type. *)
From Coq Require Import String Ascii.
From GoldV Require Import Base.

Definition s2l (s : string) : str :=
  map (fun a => N.of_nat (nat_of_ascii a)) (list_ascii_of_string s).

Definition S_Annotation_is_not_closed : str := Eval vm_compute in s2l "Annotation is not closed".
Definition S_Cannot_parse_constant_decl : str := Eval vm_compute in s2l "Cannot parse constant decl: ".
Definition S_Empty_list : str := Eval vm_compute in s2l "Empty list".
Definition S_Failed_parsing_parameter_decl : str := Eval vm_compute in s2l "Failed parsing parameter decl: ".
Definition S_Failed_to_parse_param_list_decl : str := Eval vm_compute in s2l "Failed to parse param list decl: ".
Definition S_Unexpected : str := Eval vm_compute in s2l "Unexpected ".
Definition S_Unexpected_EOF : str := Eval vm_compute in s2l "Unexpected EOF".
Definition S_Unexpected_value_token_found : str := Eval vm_compute in s2l "Unexpected value token found".
Definition S_comment : str := Eval vm_compute in s2l "comment".
Definition S_cond_block : str := Eval vm_compute in s2l "cond_block".
Definition S_empty_node : str := Eval vm_compute in s2l "empty_node".
Definition S_error_while_parsing_if_something_went_wrong : str := Eval vm_compute in s2l "error while parsing if, something went wrong".
Definition S_failed_to_parse_proc_type : str := Eval vm_compute in s2l "failed to parse proc type: ".
Definition S_for : str := Eval vm_compute in s2l "for".
Definition S_foreach : str := Eval vm_compute in s2l "foreach".
Definition S_fullouterjoinon : str := Eval vm_compute in s2l "fullouterjoinon".
Definition S_func_end_token_not_found : str := Eval vm_compute in s2l "func end token not found".
Definition S_if : str := Eval vm_compute in s2l "if".
Definition S_leftouterjoinon : str := Eval vm_compute in s2l "leftouterjoinon".
Definition S_loop : str := Eval vm_compute in s2l "loop".
Definition S_method_body : str := Eval vm_compute in s2l "method_body".
Definition S_no_end_token_found : str := Eval vm_compute in s2l "no end token found".
Definition S_oql_fetch : str := Eval vm_compute in s2l "oql_fetch".
Definition S_oql_order_by_node : str := Eval vm_compute in s2l "oql_order_by_node".
Definition S_oql_select : str := Eval vm_compute in s2l "oql_select".
Definition S_outerjoinon : str := Eval vm_compute in s2l "outerjoinon".
Definition S_param_decls : str := Eval vm_compute in s2l "param_decls".
Definition S_proc_end_token_not_found : str := Eval vm_compute in s2l "proc end token not found".
Definition S_repeat : str := Eval vm_compute in s2l "repeat".
Definition S_return : str := Eval vm_compute in s2l "return".
Definition S_rightouterjoinon : str := Eval vm_compute in s2l "rightouterjoinon".
Definition S_set_literal : str := Eval vm_compute in s2l "set_literal".
Definition S_switch : str := Eval vm_compute in s2l "switch".
Definition S_token_found : str := Eval vm_compute in s2l " token found".
Definition S_type_array : str := Eval vm_compute in s2l "type_array".
Definition S_type_enum : str := Eval vm_compute in s2l "type_enum".
Definition S_type_func : str := Eval vm_compute in s2l "type_func".
Definition S_type_pointer : str := Eval vm_compute in s2l "type_pointer".
Definition S_type_proc : str := Eval vm_compute in s2l "type_proc".
Definition S_type_range : str := Eval vm_compute in s2l "type_range".
Definition S_type_record : str := Eval vm_compute in s2l "type_record".
Definition S_uses : str := Eval vm_compute in s2l "uses".
Definition S_when_block : str := Eval vm_compute in s2l "when_block".
Definition S_while : str := Eval vm_compute in s2l "while".
