(* Body-level entry point of the parser model for property C07: the statements of one method body
   parsed the way parse_method_body does it (cache cleared, parse_repeat_w_context over
   parse_statement_v2), with memoisation on or off; the context carries the diagnostics and the
   log of cache evaluations.  No property proofs here. *)
From GoldV Require Import Base Tokens Lexer AstKinds Tree Strings PComb Grammar.

Definition parse_body_with (memo : bool) (fuel : nat) (toks : input) : res (list node) * ctx :=
  repeat_w_ctx (g_stmt (gram fuel)) toks (clear_cache (ctx0 memo)).

Definition body_fuel (toks : input) : nat := S (S (length toks)).

(* the un-memoised body of parse_method_call (parse_method_call_uncached) *)
Definition method_call_body (re : P node) : P node :=
  id <- parse_identifier ;;
  _ <- exp_token TOBracket ;;
  ps <- sep_list re TComma ;;
  cb <- exp_token TCBracket ;;
  ret (Node KAstMethodCall (nident id) (nraw id) (mkRange (rstart (nrange id)) (rend (trange cb))) [] ps).

(* parse_method_call as it was before /repo commit c0beeea: successes only were stored *)
Definition old_parse_method_call (re : P node) : P node :=
  memo_ok_only CACHE_METHOD_CALL (method_call_body re).

(* two consecutive calls of a method-call parser on the same input in a memoising context: the results,
   whether the cache holds an entry for that position after the first call, and the evaluation log *)
Definition call_twice (pmc : P node) (toks : input) : res node * option (res node) * res node * list (N * N) :=
  let c0 := clear_cache (ctx0 true) in
  let '(r1, c1) := pmc toks c0 in
  let '(r2, c2) := pmc toks c1 in
  (r1, get_cache CACHE_METHOD_CALL (ilen toks) c1, r2, cevals c2).
Definition method_call_twice (fuel : nat) (toks : input) := call_twice (parse_method_call (g_expr (gram fuel))) toks.
Definition old_method_call_twice (fuel : nat) (toks : input) := call_twice (old_parse_method_call (g_expr (gram fuel))) toks.
