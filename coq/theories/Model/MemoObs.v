(* Body-level entry point of the parser model for property C07: the statements of one method body
   parsed the way parse_method_body does it (cache cleared, parse_repeat_w_context over
   parse_statement_v2), with memoisation on or off; the context carries the diagnostics and the
   log of cache evaluations.  No property proofs here. *)
From GoldV Require Import Base Tokens Lexer AstKinds Tree Strings PComb Grammar.

Definition parse_body_with (memo : bool) (fuel : nat) (toks : input) : res (list node) * ctx :=
  repeat_w_ctx (g_stmt (gram fuel)) toks (clear_cache (ctx0 memo)).

Definition body_fuel (toks : input) : nat := S (S (length toks)).

(* two consecutive calls of parse_method_call on the same input in a memoising context: the results
   and whether the cache holds an entry for that position after the first call *)
Definition method_call_twice (fuel : nat) (toks : input) : res node * option (res node) * res node * list (N * N) :=
  let c0 := clear_cache (ctx0 true) in
  let '(r1, c1) := parse_method_call (g_expr (gram fuel)) toks c0 in
  let '(r2, c2) := parse_method_call (g_expr (gram fuel)) toks c1 in
  (r1, get_cache CACHE_METHOD_CALL (ilen toks) c1, r2, cevals c2).
