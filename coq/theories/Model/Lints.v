(* C16: executable models of the four rule-based checkers and of the two walkers they run in.
     /repo/src/analyzers/function_return_type_checker.rs      (v1 AstWalker, manager::analyze_ast)
     /repo/src/analyzers_v2/unpurged_varbytearray_checker.rs
     /repo/src/analyzers_v2/naming_convention_checker.rs
     /repo/src/analyzers_v2/inherited_checker.rs               (v2 AnnotatedAstWalkerPreOrder + context)
     /repo/src/manager/mod.rs  generate_diagnostics / get_analyzer_diagnostics / generate_diags_on_annotated_ast
   on the interchange tree (Model/Tree.v): children = get_children_ref = get_children_arc (the annotated
   tree mirrors them, with parent links), nident = get_identifier().
   A diagnostic is (rule class, severity, range, key); the three v2 checkers share one append-only
   collector and nothing else, so the report is modelled as the concatenation of four separate walks
   and compared as a multiset (the interleaving is not observable).
   The purge and inherited checkers settle the verdict on a method when the walker visits the method
   node, by a scan of that node's own subtree (/repo fix of D15-D19); nothing is pending at notify_end.
   The checkers as they were before that repair (streaming state, flushed at the next method node or
   at the end of the walk; purge map with key function keyf) are kept at the end of the file under
   the names *_old / unpurged_lint_k for the regression theorems.
   No property proofs here. *)
From GoldV Require Import Base Tokens Lexer AstKinds Tree.

(* ---- strings the checkers compare against (upper-cased by the code before comparing) ---- *)
Definition s_TVARBYTEARRAY : str := [84;86;65;82;66;89;84;69;65;82;82;65;89].
Definition s_ALISTOFINSTANCES : str := [65;76;73;83;84;79;70;73;78;83;84;65;78;67;69;83].
Definition s_TEXT : str := [84;69;88;84].
Definition s_PASS : str := [80;65;83;83].
Definition s_PURGE : str := [80;85;82;71;69].
Definition s_SELF : str := [83;69;76;70].
Definition s_INIT : str := [73;78;73;84].
Definition s_TERMINATE : str := [84;69;82;77;73;78;65;84;69].
Definition s_NOTIFYINIT : str := [78;79;84;73;70;89;73;78;73;84].
Definition s_NOTIFYTERMINATE : str := [78;79;84;73;70;89;84;69;82;77;73;78;65;84;69].
(* the type word each return-type message starts with (the diagnostic's key) *)
Definition s_tVarByteArray : str := [116;86;97;114;66;121;116;101;65;114;114;97;121].
Definition s_aListOfInstances : str := [97;76;105;115;116;79;102;73;110;115;116;97;110;99;101;115].
Definition s_Text : str := [84;101;120;116].

(* str::to_uppercase as far as a comparison with an ASCII word can observe it.  Identifiers are ASCII
   (Base.upper), but a string literal's content reaches two comparisons (the PASS test and the right
   operand of `inherited`): besides ASCII letters, exactly ten non-ASCII scalar values have an ASCII
   full upper-casing (Unicode SpecialCasing: sharp s, dotless i, long s, the ff/fi/fl/ffi/ffl/st
   ligatures); every other scalar value upper-cases to a non-ASCII string and is kept as it is. *)
Definition upc_rs (c : N) : str :=
  if is_lower c then [c - 32]
  else if c =? 223 then [83;83]
  else if c =? 305 then [73]
  else if c =? 383 then [83]
  else if c =? 64256 then [70;70]
  else if c =? 64257 then [70;73]
  else if c =? 64258 then [70;76]
  else if c =? 64259 then [70;70;73]
  else if c =? 64260 then [70;70;76]
  else if c =? 64261 then [83;84]
  else if c =? 64262 then [83;84]
  else [c].
Definition upper_rs (s : str) : str := flat_map upc_rs s.

Inductive dclass := RET | INH | PURGE | NPROC | NFUNC | NFIELD | NPARAM | NLOCAL | NTYPE | NCONST.
Record diag := mkDiag { dcls : dclass; dsev : N; drng : range; dkey : str }.
Definition WARNING : N := 2.      (* lsp_types::DiagnosticSeverity::WARNING *)

Definition child (i : nat) (n : node) : option node := nth_error (nchildren n) i.

(* token-valued identifier field .identifier.get_range() (AstGlobalVariableDeclaration,
   AstParameterDeclaration, AstLocalVariableDeclaration, AstTypeDeclaration, AstConstantDeclaration) *)
Definition ident_range (n : node) : range :=
  match attr_tok K_ident n with Some t => trange t | None => nrange n end.

(* AstProcedure / AstFunction .identifier is a node: the first child *)
Definition name_range (n : node) : range :=
  match child 0 n with Some c => nrange c | None => nrange n end.

Definition is_method (n : node) : bool := is_kind KAstProcedure n || is_kind KAstFunction n.

(* utils::is_overriding_member: data.get_member_modifiers().map(is_override); the trait default
   is None, implemented by the five kinds below (dumped as bit 3 of K_flags) *)
Definition has_modifiers (n : node) : bool :=
  is_kind KAstProcedure n || is_kind KAstFunction n || is_kind KAstGlobalVariableDeclaration n ||
  is_kind KAstMemberModifiers n || is_kind KAstMethodModifiers n.
Definition is_override (n : node) : bool := has_modifiers n && N.testbit (attr_flags n) 3.

(* ------------------------------------------------------------------------------------------ *)
(* v1: analyzers::ast_walker::AstWalker::run (recursive = true): visits every node BELOW the root,
   pre-order. *)
Section Walk1.
  Context {S : Type} (visit : node -> S -> S).
  Fixpoint walk1 (n : node) (s : S) : S :=
    match n with
    | Node _ _ _ _ _ ch =>
      (fix go (l : list node) (acc : S) : S :=
         match l with [] => acc | c :: l' => go l' (walk1 c acc) end) ch (visit n s)
    end.
  Definition run1 (ast : node) (s : S) : S :=
    fold_left (fun acc c => walk1 c acc) (nchildren ast) s.
End Walk1.

(* FunctionReturnTypeChecker::visit / notify_param_decl_node *)
Definition ret_visit (n : node) (out : list diag) : list diag :=
  if is_kind KAstFunction n then
    match child 1 n with                      (* func_node.return_type: children = [identifier, return_type, ...] *)
    | Some rt =>
      if is_kind KAstTypeBasic rt then
        match attr_tok K_token rt with
        | Some t =>
          if tt_eqb (tty t) TIdentifier then
            let u := upper (tval t) in
            if str_eqb u s_TVARBYTEARRAY then out ++ [mkDiag RET WARNING (nrange rt) s_tVarByteArray]
            else if str_eqb u s_ALISTOFINSTANCES then out ++ [mkDiag RET WARNING (nrange rt) s_aListOfInstances]
            else if str_eqb u s_TEXT then out ++ [mkDiag RET WARNING (nrange rt) s_Text]
            else out
          else out
        | None => out
        end
      else out
    | None => out
    end
  else out.

Definition ret_type_lint (ast : node) : list diag := run1 ret_visit ast [].

(* ------------------------------------------------------------------------------------------ *)
(* v2: AnnotatedAstWalkerPreOrder::walk: visits the ROOT and every node below it, pre-order; the
   context is updated before the visitors see the node; notify_end afterwards.  `anc` is the chain
   of parent links, nearest first (AnnotatedNode::get_parent). *)
Record wctx := mkCtx { cx_class : option node; cx_method : option node }.
Definition ctx0 : wctx := mkCtx None None.

Definition ctx_notify (c : wctx) (n : node) : wctx :=
  let c1 := if is_kind KAstClass n then mkCtx (Some n) (cx_method c) else c in
  let c2 := if is_kind KAstModule n then mkCtx (Some n) (cx_method c1) else c1 in
  let c3 := if is_kind KAstProcedure n then mkCtx (cx_class c2) (Some n) else c2 in
  if is_kind KAstFunction n then mkCtx (cx_class c3) (Some n) else c3.

Section Walk2.
  Context {S : Type} (visit : wctx -> list node -> node -> S -> S).
  Fixpoint walk2 (anc : list node) (n : node) (cs : wctx * S) : wctx * S :=
    match n with
    | Node _ _ _ _ _ ch =>
      let c1 := ctx_notify (fst cs) n in
      (fix go (l : list node) (acc : wctx * S) : wctx * S :=
         match l with [] => acc | c :: l' => go l' (walk2 (n :: anc) c acc) end)
        ch (c1, visit c1 anc n (snd cs))
    end.
  Definition run2 (finish : S -> S) (ast : node) (s : S) : S :=
    finish (snd (walk2 [] ast (ctx0, s))).
End Walk2.

(* ---- UnpurgedVarByteArrayChecker ---- *)
Definition is_tvba_local (n : node) : bool :=
  is_kind KAstLocalVariableDeclaration n &&
  match child 0 n with                       (* node.type_node *)
  | Some ty => str_eqb (upper (nident ty)) s_TVARBYTEARRAY
  | None => false
  end.

Definition is_purge_call (n : node) : bool :=
  is_kind KAstMethodCall n && str_eqb (upper (nident n)) s_PURGE.

(* an AstTerminal whose token is an Identifier (not a literal, call, index ...) *)
Definition is_ident_terminal (a : node) : bool :=
  is_kind KAstTerminal a &&
  match attr_tok K_token a with Some t => tt_eqb (tty t) TIdentifier | None => false end.

(* byte_array_seen : Vec<Info{id, range}> in declaration order; purged_names : HashSet<String> *)
Definition pscan := (list (str * range) * list str)%type.
Definition pscan0 : pscan := ([], []).

Definition unp_local (n : node) (s : pscan) : pscan :=
  if is_tvba_local n then (fst s ++ [(nident n, ident_range n)], snd s) else s.

Definition unp_call (n : node) (s : pscan) : pscan :=
  if is_purge_call n then
    match child 0 n with                     (* children.first(): the first PARAMETER *)
    | Some a => if is_ident_terminal a then (fst s, upper (nident a) :: snd s) else s
    | None => s
    end
  else s.

(* scan_method: every node BELOW the method node, pre-order *)
Fixpoint unp_scan (n : node) (s : pscan) : pscan :=
  match n with
  | Node _ _ _ _ _ ch =>
    (fix go (l : list node) (acc : pscan) : pscan :=
       match l with [] => acc | c :: l' => go l' (unp_scan c (unp_call c (unp_local c acc))) end) ch s
  end.

Definition is_purged_name (names : list str) (id : str) : bool := existsb (str_eqb (upper id)) names.

(* generate_diags_for_unpurged: one diagnostic per registered declaration, the message prints info.id *)
Definition unpurged_diags (s : pscan) : list diag :=
  flat_map (fun e : str * range =>
              if is_purged_name (snd s) (fst e) then [] else [mkDiag PURGE WARNING (snd e) (fst e)]) (fst s).

Definition unp_visit (_ : wctx) (_ : list node) (n : node) (out : list diag) : list diag :=
  if is_method n then out ++ unpurged_diags (unp_scan n pscan0) else out.

Definition unpurged_lint (ast : node) : list diag := run2 unp_visit (fun s => s) ast [].

(* ---- NamingConventionChecker ---- *)
Definition first_is (c : N) (id : str) : bool := match id with x :: _ => x =? c | [] => false end.
Definition upper_first (id : str) : bool := match id with x :: _ => is_upper x | [] => false end.
Definition underscore_first (id : str) : bool := first_is 95 id.
Fixpoint starts_with (p s : str) : bool :=
  match p, s with
  | [], _ => true
  | x :: p', y :: s' => (x =? y) && starts_with p' s'
  | _ :: _, [] => false
  end.

Definition check_upper (cls : dclass) (id : str) (r : range) (out : list diag) : list diag :=
  if negb (underscore_first id) && negb (upper_first id) then out ++ [mkDiag cls WARNING r []] else out.

Definition name_member_param (anc : list node) (n : node) (out : list diag) : list diag :=
  let o1 := if is_kind KAstProcedure n then
              (if negb (is_override n) then check_upper NPROC (nident n) (name_range n) out else out)
            else out in
  let o2 := if is_kind KAstFunction n then
              (if negb (is_override n) then check_upper NFUNC (nident n) (name_range n) o1 else o1)
            else o1 in
  let o3 := if is_kind KAstGlobalVariableDeclaration n then
              (if negb (is_override n) then check_upper NFIELD (nident n) (ident_range n) o2 else o2)
            else o2 in
  if is_kind KAstParameterDeclaration n then
    match anc with
    | _ :: g :: _ =>                          (* parent = the list, grandparent = the method *)
      if negb (is_override g) then check_upper NPARAM (nident n) (ident_range n) o3 else o3
    | _ => o3
    end
  else o3.

Definition name_local (n : node) (out : list diag) : list diag :=
  if is_kind KAstLocalVariableDeclaration n then
    (if negb (underscore_first (nident n)) && upper_first (nident n)
     then out ++ [mkDiag NLOCAL WARNING (ident_range n) []] else out)
  else out.

Definition name_type (n : node) (out : list diag) : list diag :=
  if is_kind KAstTypeDeclaration n then
    (if negb (first_is 116 (nident n)) then out ++ [mkDiag NTYPE WARNING (ident_range n) []] else out)
  else out.

Definition name_const (n : node) (out : list diag) : list diag :=
  if is_kind KAstConstantDeclaration n then
    (if negb (first_is 99 (nident n)) && negb (starts_with [109;108] (nident n))
     then out ++ [mkDiag NCONST WARNING (ident_range n) []] else out)
  else out.

Definition name_visit (_ : wctx) (anc : list node) (n : node) (out : list diag) : list diag :=
  name_const n (name_type n (name_local n (name_member_param anc n out))).

Definition naming_lint (ast : node) : list diag := run2 name_visit (fun s => s) ast [].

(* ---- InheritedChecker ---- *)
Definition in_check_set (u : str) : bool :=
  str_eqb u s_INIT || str_eqb u s_TERMINATE || str_eqb u s_NOTIFYINIT || str_eqb u s_NOTIFYTERMINATE.

(* sel_range: the node's range, replaced by identifier.get_range() for AstProcedure / AstFunction *)
Definition inh_sel_range (m : node) : range :=
  let r1 := if is_kind KAstProcedure m then name_range m else nrange m in
  if is_kind KAstFunction m then name_range m else r1.

(* any AstTerminal whose token is not a string literal (since 44578d5) and whose value upper-cases to PASS *)
Definition is_pass_terminal (n : node) : bool :=
  is_kind KAstTerminal n &&
  match attr_tok K_token n with
  | Some t => negb (tt_eqb (tty t) TStringLiteral) && str_eqb (upper_rs (tval t)) s_PASS
  | None => false
  end.

Definition is_inherited_op (n : node) : bool :=
  is_kind KAstUnaryOp n &&
  match attr_tok K_op n with Some t => tt_eqb (tty t) TInherited | None => false end.

(* the receiver: an AstTerminal, Identifier token, spelled self *)
Definition is_self_terminal (l : node) : bool :=
  is_kind KAstTerminal l &&
  match attr_tok K_token l with
  | Some t => tt_eqb (tty t) TIdentifier && str_eqb (upper_rs (tval t)) s_SELF
  | None => false
  end.

(* is_inherited_self_call: `inherited` applied to an AstBinaryOp whose operator is the dot, whose left
   node is `self` and whose right node is an AstTerminal or an AstMethodCall named like the method
   (u = the method's identifier upper-cased) *)
Definition inh_self_call (u : str) (x : node) : bool :=
  is_inherited_op x &&
  match child 0 x with
  | Some e =>
    is_kind KAstBinaryOp e &&
    match attr_tok K_op e with Some t => tt_eqb (tty t) TDot | None => false end &&
    match child 0 e, child 1 e with
    | Some l, Some r =>
      is_self_terminal l && (is_kind KAstTerminal r || is_kind KAstMethodCall r) &&
      str_eqb (upper_rs (nident r)) u
    | _, _ => false
    end
  | None => false
  end.

(* calls_inherited: some node BELOW the method node is `pass` or `inherited self.<method>` *)
Fixpoint inh_scan (u : str) (n : node) : bool :=
  match n with
  | Node _ _ _ _ _ ch =>
    (fix go (l : list node) : bool :=
       match l with
       | [] => false
       | c :: l' => (is_pass_terminal c || inh_self_call u c || inh_scan u c) || go l'
       end) ch
  end.

Definition inh_visit (_ : wctx) (_ : list node) (n : node) (out : list diag) : list diag :=
  if is_method n then
    let u := upper_rs (nident n) in
    if in_check_set u && negb (inh_scan u n)
    then out ++ [mkDiag INH WARNING (inh_sel_range n) (nident n)] else out
  else out.

Definition inherited_lint (ast : node) : list diag := run2 inh_visit (fun s => s) ast [].

(* ------------------------------------------------------------------------------------------ *)
(* the report (rule classes of C16 only; parser and unused-variable diagnostics belong to other
   properties): v1 list, then the v2 collector in registration order unpurged, naming, inherited *)
Definition lints_v2 (ast : node) : list diag :=
  unpurged_lint ast ++ naming_lint ast ++ inherited_lint ast.

Definition lints (ast : node) : list diag := ret_type_lint ast ++ lints_v2 ast.

(* generate_diagnostics on a document: the v1 list is computed once per document version and cached
   on the Document (get_analyzer_diagnostics / set_analyzer_diagnostics); the v2 list is recomputed
   on every request from the (cached) annotated tree, which mirrors the same syntax tree. *)
Record doc := mkDoc { d_ast : node; d_cache : option (list diag) }.
Definition fresh_doc (ast : node) : doc := mkDoc ast None.

Definition request (d : doc) : list diag * doc :=
  let v1 := match d_cache d with Some l => l | None => ret_type_lint (d_ast d) end in
  (v1 ++ lints_v2 (d_ast d), mkDoc (d_ast d) (Some v1)).

(* ---- canonical observation of the engine: sort key ---- *)
Definition dclass_idx (c : dclass) : N :=
  match c with RET => 0 | INH => 1 | PURGE => 2 | NPROC => 3 | NFUNC => 4 | NFIELD => 5
             | NPARAM => 6 | NLOCAL => 7 | NTYPE => 8 | NCONST => 9 end.

(* ========================================================================================== *)
(* The two stateful checkers as they were BEFORE the repair of D15-D19 (regression theorems    *)
(* C16_old_*_refuted are about these steps; nothing else uses them).                           *)
(* ========================================================================================== *)

(* ---- UnpurgedVarByteArrayChecker, old: a map filled while walking, flushed at the next method node
        and at notify_end; keyf = the map's key function (upper since ef936ba, before: the spelling) ---- *)
Definition pinfo := ((str * range) * bool)%type.        (* Info{id, range, is_purged} *)
Definition pmap := list (str * pinfo).                 (* HashMap<String, Info> *)

Definition amark (k : str) (m : pmap) : pmap :=
  map (fun e : str * pinfo => if str_eqb k (fst e) then (fst e, (fst (snd e), true)) else e) m.

Definition unpurged_diags_old (m : pmap) : list diag :=
  flat_map (fun e : str * pinfo =>
              if snd (snd e) then []
              else [mkDiag PURGE WARNING (snd (fst (snd e))) (fst (fst (snd e)))]) m.

Section UnpurgedOld.
  Context (keyf : str -> str).

  Definition unp_state := (pmap * list diag)%type.

  Definition unp_method_decl_old (n : node) (st : unp_state) : unp_state :=
    let st1 : unp_state := if is_kind KAstProcedure n then (([] : pmap), snd st ++ unpurged_diags_old (fst st)) else st in
    if is_kind KAstFunction n then (([] : pmap), snd st1 ++ unpurged_diags_old (fst st1)) else st1.

  Definition unp_local_old (n : node) (st : unp_state) : unp_state :=
    if is_tvba_local n then (ainsert (keyf (nident n)) ((nident n, ident_range n), false) (fst st), snd st) else st.

  Definition unp_call_old (n : node) (st : unp_state) : unp_state :=
    if is_purge_call n then
      match child 0 n with
      | Some a => (amark (keyf (nident a)) (fst st), snd st)    (* get_mut: no effect if not a key *)
      | None => st
      end
    else st.

  Definition unp_visit_old (_ : wctx) (_ : list node) (n : node) (st : unp_state) : unp_state :=
    unp_call_old n (unp_local_old n (unp_method_decl_old n st)).

  Definition unp_end_old (st : unp_state) : unp_state := (fst st, snd st ++ unpurged_diags_old (fst st)).

  Definition unpurged_lint_k (ast : node) : list diag := snd (run2 unp_visit_old unp_end_old ast ([], [])).
End UnpurgedOld.

Definition key_exact (s : str) : str := s.      (* the key before ef936ba *)

(* ---- InheritedChecker, old: a flag set while walking, reset at method nodes only ---- *)
Record inh_state := mkInh { ih_called : bool; ih_cur : option node; ih_out : list diag }.

Definition inh_check_old (st : inh_state) : inh_state :=
  match ih_cur st with
  | Some m =>
    if in_check_set (upper (nident m)) && negb (ih_called st)
    then mkInh (ih_called st) (ih_cur st) (ih_out st ++ [mkDiag INH WARNING (inh_sel_range m) (nident m)])
    else st
  | None => st
  end.

Definition inh_method_node_old (n : node) (st : inh_state) : inh_state :=
  let st1 := inh_check_old st in mkInh false (Some n) (ih_out st1).

(* the operand is an AstBinaryOp (ANY operator) whose RIGHT node's identifier equals the context's
   current method's identifier, both upper-cased; the left node is not looked at *)
Definition inh_names_old (cm n : node) : bool :=
  match child 0 n with
  | Some e =>
    is_kind KAstBinaryOp e &&
    match child 1 e with Some r => str_eqb (upper_rs (nident r)) (upper_rs (nident cm)) | None => false end
  | None => false
  end.

Definition inh_visit_old (c : wctx) (_ : list node) (n : node) (st : inh_state) : inh_state :=
  let st1 := if is_kind KAstProcedure n then inh_method_node_old n st else st in
  let st2 := if is_kind KAstFunction n then inh_method_node_old n st1 else st1 in
  let st3 := if is_pass_terminal n then mkInh true (ih_cur st2) (ih_out st2) else st2 in
  if is_inherited_op n then
    match cx_method c with
    | Some cm => if inh_names_old cm n then mkInh true (ih_cur st3) (ih_out st3) else st3
    | None => st3
    end
  else st3.

Definition inherited_lint_old (ast : node) : list diag :=
  ih_out (run2 inh_visit_old inh_check_old ast (mkInh false None [])).

Definition lints_old_k (keyf : str -> str) (ast : node) : list diag :=
  ret_type_lint ast ++ unpurged_lint_k keyf ast ++ naming_lint ast ++ inherited_lint_old ast.

Definition lints_old : node -> list diag := lints_old_k upper.
