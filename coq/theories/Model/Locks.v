(* Lock-aware model of the symbol-table chains for C14:
   /repo/src/analyzers_v2/symbol_table.rs   (a look-up locks each table along the parent chain and
                                             keeps the lock while it recurses into the parent),
   /repo/src/analyzers_v2/ast_annotator.rs  (annotate_doc publishes the new root table BEFORE the
                                             walk that links it to the parent class's table;
                                             handle_class: self-parent guard, get the parent's table
                                             (analysing the parent def-only when it has none yet),
                                             is_own_table_reachable_from, set_parent_symbol_table),
   /repo/src/manager/semantic_analysis_service.rs (get_symbol_table_for_class_def_only: the table
                                             cached in the DocumentInfo, else analyse).
   Tables are heap objects (every analysis creates a new root table; a full analysis after a
   def-only one replaces the cached table while children still point to the old one).
   `nr = true` is the code as repaired by 03f6c4d; `nr = false` the rules before it
   (case-sensitive self-parent guard, unconditional link).
   Executable; no property proofs in this file. *)
From GoldV Require Import Base Forest.
Local Open Scope nat_scope.

Record tbl := mkTbl {
  tstem : str;             (* the file the table belongs to (upper-cased stem) *)
  tpar  : option nat       (* parent_symbol_table *)
}.

(* a workspace file as the annotator sees it; a class is found through its file stem
   (DocumentService::get_uri_for_class), stems are stored upper-cased *)
Record cfile := mkCF {
  cstem : str;
  chead : option (str * option str);    (* class name and parent-class name as spelled *)
  cuses : list str                      (* `uses` entities, as spelled *)
}.

Record ast := mkAst {
  tabs  : list tbl;              (* every root table ever created; pointer = index *)
  cur   : list (str * nat);      (* DocumentInfo.symbol_table per file *)
  fullk : list str               (* files whose cached document is fully annotated *)
}.
Definition ast0 : ast := mkAst [] [] [].

Definition tpar_of (tb : list tbl) (n : nat) : option nat :=
  match nth_error tb n with Some x => tpar x | None => None end.

Fixpoint find_file (fs : list cfile) (s : str) : option cfile :=
  match fs with
  | [] => None
  | f :: r => if str_eqb s (cstem f) then Some f else find_file r s
  end.

(* is_own_table_reachable_from(st): walk the parent links from `cur`; `fuel` genuine comparisons,
   then `true` (steps > 10_000) *)
Fixpoint reach (fuel : nat) (tb : list tbl) (own cur : nat) : bool :=
  match fuel with
  | O => true
  | S f => if Nat.eqb cur own then true
           else match tpar_of tb cur with
                | None => false
                | Some q => reach f tb own q
                end
  end.
Definition reach_bound : nat := N.to_nat 10001%N.

Definition self_guard (nr : bool) (c p : str) : bool :=
  if nr then str_eqb (upper p) (upper c) else str_eqb p c.

Definition set_tpar (a : ast) (n m : nat) : ast :=
  mkAst (upd n (fun x => mkTbl (tstem x) (Some m)) (tabs a)) (cur a) (fullk a).

(* the link rule of handle_class: table n (being filled) gets parent table m *)
Definition link_rule (nr : bool) (a : ast) (n m : nat) : ast :=
  if nr && reach reach_bound (tabs a) n m then a else set_tpar a n m.

(* annotate_doc + handle_class for the file with stem s.  The new table is visible to everybody
   (cur) BEFORE its parent link is set; the parent is analysed (def-only) in between when it has no
   table yet: that nested analysis may see, and link to, the half-filled table. *)
Fixpoint analyse (fuel : nat) (nr : bool) (fs : list cfile) (full : bool) (a : ast) (s : str) : out ast :=
  match fuel with
  | O => OutOfFuel
  | S f =>
      let n := length (tabs a) in
      let a1 := mkAst (tabs a ++ [mkTbl s None]) (ainsert s n (cur a))
                      (if full then s :: fullk a else fullk a) in
      match find_file fs s with
      | None => Ok a1
      | Some cf =>
          match chead cf with
          | Some (c, Some p) =>
              if self_guard nr c p then Ok a1            (* "Parent class cannot be itself" *)
              else match find_file fs (upper p) with
                   | None => Ok a1                       (* "Parent class not defined" *)
                   | Some _ =>
                       match alookup (upper p) (cur a1) with
                       | Some m => Ok (link_rule nr a1 n m)
                       | None =>
                           match analyse f nr fs false a1 (upper p) with
                           | Ok a2 =>
                               match alookup (upper p) (cur a2) with
                               | Some m => Ok (link_rule nr a2 n m)
                               | None => Ok a2
                               end
                           | Deadlock l => Deadlock l
                           | OutOfFuel => OutOfFuel
                           end
                       end
                   end
          | _ => Ok a1
          end
      end
  end.

(* enough for every nesting: one level per file that has no table yet, plus the request itself *)
Definition analyse_fuel (fs : list cfile) : nat := S (length fs).

(* get_symbol_table_for_class_def_only *)
Definition get_table (nr : bool) (fs : list cfile) (a : ast) (s : str) : out (ast * option nat) :=
  match find_file fs s with
  | None => Ok (a, None)
  | Some _ =>
      match alookup s (cur a) with
      | Some m => Ok (a, Some m)
      | None => match analyse (analyse_fuel fs) nr fs false a s with
                | Ok a2 => Ok (a2, alookup s (cur a2))
                | Deadlock l => Deadlock l
                | OutOfFuel => OutOfFuel
                end
      end
  end.

(* ---- look-ups: get_symbol_info / search_symbol_info_wparent / collect_unique_symbols_w_parents ----
   lock the table; if the name is not there, (still holding the lock) look in the parent; the guard
   is dropped when the call returns.  `held` = the locks of this thread, `log` = every acquisition.
   Taking a lock the thread already holds never returns (std::sync::Mutex is not re-entrant). *)
Definition release (n : nat) (h : list nat) : list nat := filter (fun x => negb (Nat.eqb x n)) h.

Fixpoint tlookup (fuel : nat) (tb : list tbl) (hit : nat -> bool) (held log : list nat) (n : nat)
  : out (option nat) * list nat * list nat :=
  match fuel with
  | O => (OutOfFuel, held, log)
  | S f =>
      if existsb (Nat.eqb n) held then (Deadlock n, held, log)
      else if hit n then (Ok (Some n), held, n :: log)
      else match tpar_of tb n with
           | None => (Ok None, held, n :: log)
           | Some m =>
               let '(r, h2, l2) := tlookup f tb hit (n :: held) (n :: log) m in
               match r with
               | Ok x => (Ok x, release n h2, l2)
               | _ => (r, h2, l2)
               end
           end
  end.

(* a look-up that misses everywhere walks, and locks, the whole chain *)
Definition miss : nat -> bool := fun _ => false.

Definition lookup_from (a : ast) (n : nat) : out (option nat) * list nat * list nat :=
  tlookup (S (length (tabs a))) (tabs a) miss [] [] n.

(* ---- one request on file s (diagnostics / definition / completion / prepare):
   full analysis unless cached, look-ups from the file's table, then for every `uses` entity its
   table (def-only analysis when missing) and a look-up there ---- *)
Definition bind {A B} (x : out A) (k : A -> out B) : out B :=
  match x with Ok a => k a | Deadlock l => Deadlock l | OutOfFuel => OutOfFuel end.

Definition lookup_ok (a : ast) (n : nat) : out unit :=
  match lookup_from a n with
  | (Ok _, [], _) => Ok tt
  | (Ok _, h :: _, _) => Deadlock h           (* a lock left held *)
  | (Deadlock l, _, _) => Deadlock l
  | (OutOfFuel, _, _) => OutOfFuel
  end.

Definition use_entity (nr : bool) (fs : list cfile) (a : ast) (u : str) : out ast :=
  bind (get_table nr fs a (upper u)) (fun r =>
    match snd r with
    | Some m => bind (lookup_ok (fst r) m) (fun _ => Ok (fst r))
    | None => Ok (fst r)
    end).

Fixpoint use_all (nr : bool) (fs : list cfile) (a : ast) (us : list str) : out ast :=
  match us with
  | [] => Ok a
  | u :: r => bind (use_entity nr fs a u) (fun a' => use_all nr fs a' r)
  end.

Definition request (nr : bool) (fs : list cfile) (a : ast) (s : str) : out ast :=
  match find_file fs s with
  | None => Ok a
  | Some cf =>
      bind (if memb s (fullk a) then Ok a else analyse (analyse_fuel fs) nr fs true a s) (fun a1 =>
      bind (match alookup s (cur a1) with Some n => lookup_ok a1 n | None => Ok tt end) (fun _ =>
      (* the parent token and every used entity are resolved through their own tables *)
      use_all nr fs a1 (match chead cf with Some (_, Some p) => [p] | _ => [] end ++ cuses cf)))
  end.

Fixpoint requests (nr : bool) (fs : list cfile) (a : ast) (l : list str) : list bool * ast :=
  match l with
  | [] => ([], a)
  | s :: r =>
      match request nr fs a s with
      | Ok a' => let '(bs, a'') := requests nr fs a' r in (true :: bs, a'')
      | _ => let '(bs, a'') := requests nr fs a r in (false :: bs, a'')
      end
  end.

(* ---- analysers running concurrently (requests are served by pool threads) ----
   Every thread annotates one class file whose parent class has a file: publish the new table,
   fetch the parent's table, check and link.  `atomic = true`: the code as it is (2465f70: the
   reachability check and the link run under one process-wide lock, LINK_LOCK, so they are ONE
   step); `atomic = false`: the code before it (two steps, nothing orders them between threads). *)
Inductive apc := ANew | ACheck (n : nat) | ALink (n m : nat) | ADone.
Record athread := mkAT { astem : str; apar : str; apos : apc }.

Definition astep (atomic : bool) (a : ast) (th : athread) : ast * athread :=
  match apos th with
  | ANew => let n := length (tabs a) in
            (mkAst (tabs a ++ [mkTbl (astem th) None]) (ainsert (astem th) n (cur a)) (fullk a),
             mkAT (astem th) (apar th) (ACheck n))
  | ACheck n =>
      match alookup (apar th) (cur a) with
      | Some m =>
          if atomic then (link_rule true a n m, mkAT (astem th) (apar th) ADone)
          else if reach reach_bound (tabs a) n m then (a, mkAT (astem th) (apar th) ADone)
               else (a, mkAT (astem th) (apar th) (ALink n m))
      | None => (a, th)           (* the other file has no table yet: it is being analysed *)
      end
  | ALink n m => (set_tpar a n m, mkAT (astem th) (apar th) ADone)
  | ADone => (a, th)
  end.

Fixpoint arun (atomic : bool) (sched : list nat) (a : ast) (ths : list athread) : ast * list athread :=
  match sched with
  | [] => (a, ths)
  | i :: r => match nth_error ths i with
              | None => arun atomic r a ths
              | Some th => let '(a', th') := astep atomic a th in
                           arun atomic r a' (upd i (fun _ => th') ths)
              end
  end.

(* ---- several threads, each doing one chain look-up that misses everywhere (the worst case:
   the whole chain is locked) ----
   thread state: the table it started from, how many locks of the chain it holds (the first
   `lcount` tables of the chain), whether it has returned (everything released). *)
Record lthread := mkLT { lstart : nat; lcount : nat; lret : bool }.

Fixpoint tanc (tb : list tbl) (k : nat) (p : nat) : option nat :=
  match k with
  | O => Some p
  | S k' => match tpar_of tb p with Some q => tanc tb k' q | None => None end
  end.

Definition lheld (tb : list tbl) (th : lthread) : list nat :=
  if lret th then []
  else flat_map (fun j => match tanc tb j (lstart th) with Some x => [x] | None => [] end)
                (seq 0 (lcount th)).

Definition all_held (tb : list tbl) (ths : list lthread) : list nat := flat_map (lheld tb) ths.

(* one step of thread i; None = it cannot move now (blocked on a held lock, or it has returned) *)
Definition lstep (tb : list tbl) (ths : list lthread) (i : nat) : option (list lthread) :=
  match nth_error ths i with
  | None => None
  | Some th =>
      if lret th then None
      else match tanc tb (lcount th) (lstart th) with
           | Some n => if existsb (Nat.eqb n) (all_held tb ths) then None
                       else Some (upd i (fun _ => mkLT (lstart th) (S (lcount th)) false) ths)
           | None => Some (upd i (fun _ => mkLT (lstart th) (lcount th) true) ths)
           end
  end.

Fixpoint lrun (tb : list tbl) (ths : list lthread) (sched : list nat) : list lthread :=
  match sched with
  | [] => ths
  | i :: r => match lstep tb ths i with
              | Some ths' => lrun tb ths' r
              | None => lrun tb ths r
              end
  end.

Definition linit (starts : list nat) : list lthread := map (fun s => mkLT s 0 false) starts.
Definition lall_returned (ths : list lthread) : bool := forallb lret ths.

(* ---- threads that take a given sequence of table locks and keep what they took until they are through
   (a look-up: child, parent, grandparent ...; manager/utils.rs::class_level_table before d98ed2d: the PARENT table and,
   still holding it, the child) ---- *)
Record qthread := mkQ { qtodo : list nat; qheld : list nat }.
Definition qall_held (ths : list qthread) : list nat := flat_map qheld ths.

Definition qstep (ths : list qthread) (i : nat) : option (list qthread) :=
  match nth_error ths i with
  | None => None
  | Some th =>
      match qtodo th with
      | n :: r => if existsb (Nat.eqb n) (qall_held ths) then None
                  else Some (upd i (fun _ => mkQ r (n :: qheld th)) ths)
      | [] => match qheld th with
              | [] => None
              | _ => Some (upd i (fun _ => mkQ [] []) ths)
              end
      end
  end.

Definition qdone (th : qthread) : bool :=
  match qtodo th, qheld th with [], [] => true | _, _ => false end.

Fixpoint qrun (ths : list qthread) (sched : list nat) : list qthread :=
  match sched with
  | [] => ths
  | i :: r => match qstep ths i with Some ths' => qrun ths' r | None => qrun ths r end
  end.
