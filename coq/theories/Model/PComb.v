(* Model of /repo/src/parser/utils.rs (the combinators that are actually used) and of the
   parser context of /repo/src/parser/mod.rs (diagnostics + the three memo caches).
   A parser is a function of the remaining tokens and the context; the context is threaded
   through failures as well, because the code keeps diagnostics and cache entries added by an
   alternative that later fails.  Partial operations of the Rust code (unwrap, index, remove)
   are explicit `Panic` outcomes; running out of the model's fuel is `NoFuel`.
   No property proofs here. *)
From GoldV Require Import Base Tokens Lexer AstKinds Tree Strings.


Definition input := list tok.
Definition ilen (i : input) : N := N.of_nat (length i).

Inductive res (A : Type) :=
| Ok (rest : input) (a : A)
| Err (at_ : input) (msg : str)          (* ParseError { input, msg } *)
| Panic (site : N)
| NoFuel.
Arguments Ok {A}. Arguments Err {A}. Arguments Panic {A}. Arguments NoFuel {A}.

Record pdiag := mkDiag { drange : range; dmsg : str }.

Record ctx := mkCtx {
  cdiags : list pdiag;                       (* most recent first *)
  ccache : list (N * N * res node);          (* (cache number, remaining length) -> stored result *)
  cmemo  : bool;                             (* model switch: memoisation on / off *)
  cevals : list (N * N)                      (* model-only log of cache misses, most recent first *)
}.

Definition ctx0 (memo : bool) : ctx := mkCtx [] [] memo [].

Definition add_diag (d : pdiag) (c : ctx) : ctx :=
  mkCtx (d :: cdiags c) (ccache c) (cmemo c) (cevals c).
Definition clear_cache (c : ctx) : ctx := mkCtx (cdiags c) [] (cmemo c) (cevals c).

Fixpoint cache_find (k n : N) (l : list (N * N * res node)) : option (res node) :=
  match l with
  | [] => None
  | (k', n', r) :: l' => if (k =? k') && (n =? n') then Some r else cache_find k n l'
  end.
Definition get_cache (k n : N) (c : ctx) : option (res node) :=
  if cmemo c then cache_find k n (ccache c) else None.
Definition set_cache (k n : N) (r : res node) (c : ctx) : ctx :=
  mkCtx (cdiags c) (if cmemo c then (k, n, r) :: ccache c else ccache c) (cmemo c) ((k, n) :: cevals c).

Definition P (A : Type) := input -> ctx -> res A * ctx.

Definition ret {A} (a : A) : P A := fun i c => (Ok i a, c).
Definition fail {A} (m : str) : P A := fun i c => (Err i m, c).
Definition bind {A B} (p : P A) (k : A -> P B) : P B :=
  fun i c =>
    match p i c with
    | (Ok r a, c') => k a r c'
    | (Err e m, c') => (Err e m, c')
    | (Panic s, c') => (Panic s, c')
    | (NoFuel, c') => (NoFuel, c')
    end.
Notation "x <- p ;; k" := (bind p (fun x => k)) (at level 61, p at next level, right associativity).
Notation "' pat <- p ;; k" := (bind p (fun x => match x with pat => k end))
  (at level 61, pat pattern, p at next level, right associativity).

Definition pmap {A B} (f : A -> B) (p : P A) : P B := a <- p ;; ret (f a).

(* `?` after map_err(prepend_msg_to_error) *)
Definition prepend {A} (pre : str) (p : P A) : P A :=
  fun i c => match p i c with
             | (Err e m, c') => (Err e (pre ++ m), c')
             | r => r
             end.

(* the current remaining input *)
Definition peek_input : P input := fun i c => (Ok i i, c).
(* continue from an explicitly given input *)
Definition set_input (j : input) : P unit := fun _ c => (Ok j tt, c).
Definition with_ctx (f : ctx -> ctx) : P unit := fun i c => (Ok i tt, f c).

(* `match p(next) { Ok(r) => Some, Err(e) => (e.input, None) }`: continue at the ERROR position *)
Definition recover_at_error {A} (p : P A) : P (option A) :=
  fun i c => match p i c with
             | (Ok r a, c') => (Ok r (Some a), c')
             | (Err e _, c') => (Ok e None, c')
             | (Panic s, c') => (Panic s, c')
             | (NoFuel, c') => (NoFuel, c')
             end.

(* opt_parse / opt_parse_w_context: continue at the ORIGINAL input *)
Definition opt {A} (p : P A) : P (option A) :=
  fun i c => match p i c with
             | (Ok r a, c') => (Ok r (Some a), c')
             | (Err _ _, c') => (Ok i None, c')
             | (Panic s, c') => (Panic s, c')
             | (NoFuel, c') => (NoFuel, c')
             end.

Definition msg_unexpected (t : ttype) : str := S_Unexpected ++ tt_name t ++ S_token_found.
Definition msg_eof : str := S_Unexpected_EOF.

Definition is_comment (t : tok) : bool := tt_eqb (tty t) TComment.

(* exp_token: skips comments in front of the expected token; the error points at the ORIGINAL input *)
Fixpoint exp_token_go (ty : ttype) (orig : input) (l : input) : res tok :=
  match l with
  | [] => Err orig msg_eof
  | t :: l' =>
      if tt_eqb (tty t) ty then Ok l' t
      else if is_comment t then exp_token_go ty orig l'
      else Err orig (msg_unexpected (tty t))
  end.
Definition exp_token (ty : ttype) : P tok := fun i c => (exp_token_go ty i i, c).

(* exp_ident_with_value (message content is never observable: its only caller's errors are dropped) *)
Fixpoint exp_ident_val_go (v : str) (orig : input) (l : input) : res tok :=
  match l with
  | [] => Err orig msg_eof
  | t :: l' =>
      if tt_eqb (tty t) TIdentifier && str_eqb (upper (tval t)) (upper v) then Ok l' t
      else if is_comment t then exp_ident_val_go v orig l'
      else Err orig S_Unexpected_value_token_found
  end.
Definition exp_ident_with_value (v : str) : P tok := fun i c => (exp_ident_val_go v i i, c).

(* take_until(types): (rest after the terminator, body slice, terminator).  The delimiting token
   is not part of the slice; without a delimiter the slice is the whole input. *)
Fixpoint take_until_go (tys : list ttype) (l : input) (acc : list tok) : input * list tok * option tok :=
  match l with
  | [] => ([], rev acc, None)
  | t :: l' =>
      if existsb (tt_eqb (tty t)) tys then (l', rev acc, Some t)
      else take_until_go tys l' (t :: acc)
  end.
Definition take_until (tys : list ttype) : P (list tok * option tok) :=
  fun i c => let '(rest, body, term) := take_until_go tys i [] in (Ok rest (body, term), c).

(* alt_parse / alt_parse_w_context: first success; otherwise the error that got furthest
   (strictly shorter remaining input replaces; ties keep the earlier one); no parser: unwrap panics *)
Fixpoint alt_go {A} (ps : list (P A)) (best : option (input * str)) : P A :=
  fun i c =>
    match ps with
    | [] => match best with
            | Some (e, m) => (Err e m, c)
            | None => (Panic 1, c)
            end
    | p :: ps' =>
        match p i c with
        | (Ok r a, c') => (Ok r a, c')
        | (Err e m, c') =>
            let best' := match best with
                         | Some (be, bm) => if ilen e <? ilen be then Some (e, m) else Some (be, bm)
                         | None => Some (e, m)
                         end in
            alt_go ps' best' i c'
        | (Panic s, c') => (Panic s, c')
        | (NoFuel, c') => (NoFuel, c')
        end
    end.
Definition alt {A} (ps : list (P A)) : P A := alt_go ps None.

(* seq_parse over token parsers *)
Fixpoint seq_tokens (tys : list ttype) : P (list tok) :=
  match tys with
  | [] => ret []
  | ty :: tys' => t <- exp_token ty ;; ts <- seq_tokens tys' ;; ret (t :: ts)
  end.

(* parse_separated_list_token(item, sep): at least one item *)
Fixpoint sep_tokens_go (fuel : nat) (item sep : ttype) (acc : list tok) : P (list tok) :=
  fun i c =>
    match fuel with
    | O => (NoFuel, c)
    | S f =>
        match exp_token item i c with
        | (Ok r t, c1) =>
            match exp_token sep r c1 with
            | (Ok r2 _, c2) => sep_tokens_go f item sep (t :: acc) r2 c2
            | (Err e _, c2) => (Ok e (rev (t :: acc)), c2)
            | (Panic s, c2) => (Panic s, c2)
            | (NoFuel, c2) => (NoFuel, c2)
            end
        | (Err e m, c1) => (Err e m, c1)
        | (Panic s, c1) => (Panic s, c1)
        | (NoFuel, c1) => (NoFuel, c1)
        end
    end.
Definition sep_tokens (item sep : ttype) : P (list tok) :=
  fun i c => sep_tokens_go (S (length i)) item sep [] i c.

Definition range_default : range := mkRange (mkPos 0 0) (mkPos 0 0).
Definition new_range (a b : range) : range := mkRange (rstart a) (rend b).      (* create_new_range *)
Definition first_range (i : input) : range :=
  match i with t :: _ => trange t | [] => range_default end.
(* `i.first()` with an explicit fall-back range for the empty slice *)
Definition range_or (i : input) (fb : range) : range :=
  match i with t :: _ => trange t | [] => fb end.
(* `i.last()`: the default range only for the empty slice *)
Definition last_tok_range (i : input) : range :=
  match i with t :: l => trange (last l t) | [] => range_default end.
(* where the recovering loops report an item error `e` of the iteration input `i`
   (`e.input.first().or(next.last())`): at the error position, and for an error at the very END of
   the input at the last token the item parser was given; `i` is never empty at the call sites *)
Definition err_range (i e : input) : range :=
  match e with t :: _ => trange t | [] => last_tok_range i end.

(* _parse_seperated_list_recursive_w_context: a failing item is reported and skipped.
   `prev` is the separator in front of `i`: an item missing at the very end of the input
   (`i` empty) is reported there *)
Fixpoint sep_list_rec (fuel : nat) {A} (p : P A) (sep : ttype) (prev : tok) (acc : list A) : P (list A) :=
  fun i c =>
    match fuel with
    | O => (NoFuel, c)
    | S f =>
        let after :=
          match p i c with
          | (Ok r a, c1) => (Ok r (a :: acc), c1)
          | (Err e m, c1) =>
              let start := range_or i (trange prev) in
              let end_ := range_or e start in
              (Ok e acc, add_diag (mkDiag (new_range start end_) m) c1)
          | (Panic s, c1) => (Panic s, c1)
          | (NoFuel, c1) => (NoFuel, c1)
          end in
        match after with
        | (Ok r acc', c1) =>
            match exp_token sep r c1 with
            | (Ok r2 st, c2) => sep_list_rec f p sep st acc' r2 c2
            | (Err e _, c2) => (Ok e (rev acc'), c2)
            | (Panic s, c2) => (Panic s, c2)
            | (NoFuel, c2) => (NoFuel, c2)
            end
        | (Err e m, c1) => (Err e m, c1)
        | (Panic s, c1) => (Panic s, c1)
        | (NoFuel, c1) => (NoFuel, c1)
        end
    end.

(* parse_separated_list_w_context: an empty list when the first item does not parse *)
Definition sep_list {A} (p : P A) (sep : ttype) : P (list A) :=
  fun i c =>
    match p i c with
    | (Ok r a, c1) =>
        match exp_token sep r c1 with
        | (Ok r2 st, c2) => sep_list_rec (S (length r2)) p sep st [a] r2 c2
        | (Err e _, c2) => (Ok e [a], c2)
        | (Panic s, c2) => (Panic s, c2)
        | (NoFuel, c2) => (NoFuel, c2)
        end
    | (Err e _, c1) => (Ok e [], c1)
    | (Panic s, c1) => (Panic s, c1)
    | (NoFuel, c1) => (NoFuel, c1)
    end.

(* error recovery shared by the loops: report at the error position (err_range), skip one token
   when the failing parser did not move *)
Definition skip_after_error (next e : input) : input :=
  if ilen e =? ilen next then tl e else e.
Definition diag_at (i e : input) (m : str) : pdiag := mkDiag (err_range i e) m.

(* parse_repeat_w_context *)
Fixpoint repeat_go (fuel : nat) {A} (p : P A) (acc : list A) : P (list A) :=
  fun i c =>
    match fuel with
    | O => (NoFuel, c)
    | S f =>
        match i with
        | [] => (Ok i (rev acc), c)
        | _ =>
            match p i c with
            | (Ok r a, c1) => repeat_go f p (a :: acc) r c1
            | (Err e m, c1) => repeat_go f p acc (skip_after_error i e) (add_diag (diag_at i e m) c1)
            | (Panic s, c1) => (Panic s, c1)
            | (NoFuel, c1) => (NoFuel, c1)
            end
        end
    end.
Definition repeat_w_ctx {A} (p : P A) : P (list A) :=
  fun i c => repeat_go (S (length i)) p [] i c.

(* parse_until_w_context(stop, p): (items, Some stop token | None at end of input) *)
Fixpoint until_go (fuel : nat) {A} (stop : P tok) (p : P A) (acc : list A) : P (list A * option tok) :=
  fun i c =>
    match fuel with
    | O => (NoFuel, c)
    | S f =>
        match i with
        | [] => (Ok i (rev acc, None), c)
        | _ =>
            match stop i c with
            | (Ok r t, c0) => (Ok r (rev acc, Some t), c0)
            | (Err _ _, c0) =>
                match p i c0 with
                | (Ok r a, c1) => until_go f stop p (a :: acc) r c1
                | (Err e m, c1) => until_go f stop p acc (skip_after_error i e) (add_diag (diag_at i e m) c1)
                | (Panic s, c1) => (Panic s, c1)
                | (NoFuel, c1) => (NoFuel, c1)
                end
            | (Panic s, c0) => (Panic s, c0)
            | (NoFuel, c0) => (NoFuel, c0)
            end
        end
    end.
Definition until_w_ctx {A} (stop : P tok) (p : P A) : P (list A * option tok) :=
  fun i c => until_go (S (length i)) stop p [] i c.

(* parse_until_strict_w_context: an item error aborts *)
Fixpoint until_strict_go (fuel : nat) {A} (stop : P tok) (p : P A) (acc : list A) : P (list A * option tok) :=
  fun i c =>
    match fuel with
    | O => (NoFuel, c)
    | S f =>
        match i with
        | [] => (Ok i (rev acc, None), c)
        | _ =>
            match stop i c with
            | (Ok r t, c0) => (Ok r (rev acc, Some t), c0)
            | (Err _ _, c0) =>
                match p i c0 with
                | (Ok r a, c1) => until_strict_go f stop p (a :: acc) r c1
                | (Err e m, c1) => (Err e m, c1)
                | (Panic s, c1) => (Panic s, c1)
                | (NoFuel, c1) => (NoFuel, c1)
                end
            | (Panic s, c0) => (Panic s, c0)
            | (NoFuel, c0) => (NoFuel, c0)
            end
        end
    end.
Definition until_strict {A} (stop : P tok) (p : P A) : P (list A * option tok) :=
  fun i c => until_strict_go (S (length i)) stop p [] i c.

(* parse_until_no_match_w_context: stop (without error) at the first item that does not parse.
   NOTE the Rust loop has no progress guard: an item parser that succeeds without consuming
   would spin forever; the model's local fuel turns that into NoFuel. *)
Fixpoint until_no_match_go (fuel : nat) {A} (p : P A) (acc : list A) : P (list A) :=
  fun i c =>
    match fuel with
    | O => (NoFuel, c)
    | S f =>
        match i with
        | [] => (Ok i (rev acc), c)
        | _ =>
            match p i c with
            | (Ok r a, c1) => until_no_match_go f p (a :: acc) r c1
            | (Err _ _, c1) => (Ok i (rev acc), c1)
            | (Panic s, c1) => (Panic s, c1)
            | (NoFuel, c1) => (NoFuel, c1)
            end
        end
    end.
Definition until_no_match {A} (p : P A) : P (list A) :=
  fun i c => until_no_match_go (S (length i)) p [] i c.

(* the memoisation pattern of parse_primary / parse_expr / parse_method_call:
   get_cache hit -> stored result; else evaluate, set_cache, and read it back (unwrap) *)
Definition memo (k : N) (p : P node) : P node :=
  fun i c =>
    let n := ilen i in
    match get_cache k n c with
    | Some r => (r, c)
    | None =>
        let '(r, c1) := p i c in
        match r with
        | Panic _ | NoFuel => (r, c1)
        | _ => (r, set_cache k n r c1)
        end
    end.

(* parse_method_call cached successes only before /repo c0beeea (every `?` before set_cache returned early);
   kept for the regression theorems about the old step *)
Definition memo_ok_only (k : N) (p : P node) : P node :=
  fun i c =>
    let n := ilen i in
    match get_cache k n c with
    | Some r => (r, c)
    | None =>
        let '(r, c1) := p i c in
        match r with
        | Ok _ _ => (r, set_cache k n r c1)
        | _ => (r, c1)
        end
    end.

(* ---- the error recovery as it was before the repair of finding eof-diagnostic-at-origin
   (tools/c09_proposed_fix.diff): an error at the very end of the input was reported with
   Range::default().  Kept only for the regression theorems of Properties/C09.v. ---- *)
Definition diag_at_old (e : input) (m : str) : pdiag := mkDiag (first_range e) m.

Fixpoint repeat_go_old (fuel : nat) {A} (p : P A) (acc : list A) : P (list A) :=
  fun i c =>
    match fuel with
    | O => (NoFuel, c)
    | S f =>
        match i with
        | [] => (Ok i (rev acc), c)
        | _ =>
            match p i c with
            | (Ok r a, c1) => repeat_go_old f p (a :: acc) r c1
            | (Err e m, c1) => repeat_go_old f p acc (skip_after_error i e) (add_diag (diag_at_old e m) c1)
            | (Panic s, c1) => (Panic s, c1)
            | (NoFuel, c1) => (NoFuel, c1)
            end
        end
    end.
Definition repeat_w_ctx_old {A} (p : P A) : P (list A) :=
  fun i c => repeat_go_old (S (length i)) p [] i c.

Fixpoint until_go_old (fuel : nat) {A} (stop : P tok) (p : P A) (acc : list A) : P (list A * option tok) :=
  fun i c =>
    match fuel with
    | O => (NoFuel, c)
    | S f =>
        match i with
        | [] => (Ok i (rev acc, None), c)
        | _ =>
            match stop i c with
            | (Ok r t, c0) => (Ok r (rev acc, Some t), c0)
            | (Err _ _, c0) =>
                match p i c0 with
                | (Ok r a, c1) => until_go_old f stop p (a :: acc) r c1
                | (Err e m, c1) => until_go_old f stop p acc (skip_after_error i e) (add_diag (diag_at_old e m) c1)
                | (Panic s, c1) => (Panic s, c1)
                | (NoFuel, c1) => (NoFuel, c1)
                end
            | (Panic s, c0) => (Panic s, c0)
            | (NoFuel, c0) => (NoFuel, c0)
            end
        end
    end.
Definition until_w_ctx_old {A} (stop : P tok) (p : P A) : P (list A * option tok) :=
  fun i c => until_go_old (S (length i)) stop p [] i c.

Fixpoint sep_list_rec_old (fuel : nat) {A} (p : P A) (sep : ttype) (acc : list A) : P (list A) :=
  fun i c =>
    match fuel with
    | O => (NoFuel, c)
    | S f =>
        let after :=
          match p i c with
          | (Ok r a, c1) => (Ok r (a :: acc), c1)
          | (Err e m, c1) =>
              let start := first_range i in
              let end_ := match e with t :: _ => trange t | [] => first_range i end in
              (Ok e acc, add_diag (mkDiag (new_range start end_) m) c1)
          | (Panic s, c1) => (Panic s, c1)
          | (NoFuel, c1) => (NoFuel, c1)
          end in
        match after with
        | (Ok r acc', c1) =>
            match exp_token sep r c1 with
            | (Ok r2 _, c2) => sep_list_rec_old f p sep acc' r2 c2
            | (Err e _, c2) => (Ok e (rev acc'), c2)
            | (Panic s, c2) => (Panic s, c2)
            | (NoFuel, c2) => (NoFuel, c2)
            end
        | (Err e m, c1) => (Err e m, c1)
        | (Panic s, c1) => (Panic s, c1)
        | (NoFuel, c1) => (NoFuel, c1)
        end
    end.
Definition sep_list_old {A} (p : P A) (sep : ttype) : P (list A) :=
  fun i c =>
    match p i c with
    | (Ok r a, c1) =>
        match exp_token sep r c1 with
        | (Ok r2 _, c2) => sep_list_rec_old (S (length r2)) p sep [a] r2 c2
        | (Err e _, c2) => (Ok e [a], c2)
        | (Panic s, c2) => (Panic s, c2)
        | (NoFuel, c2) => (NoFuel, c2)
        end
    | (Err e _, c1) => (Ok e [], c1)
    | (Panic s, c1) => (Panic s, c1)
    | (NoFuel, c1) => (NoFuel, c1)
    end.
