(* C08 at tree level for EVERY response kind.
     (a) the assembled diagnostics response  Report.report t pd
     (b) definition links                    DefTree.definition / WsTree.wdefinition
     (c) hierarchy items                     HierTree.prepare / supertypes / subtypes
     (d) composition with the parser: the statements about parsed texts
     (e) the rule of a seeded defect (merging two consecutive parser diagnostics), for the regression
         statement C08_old_merged_run_refuted
   Hypothesis throughout: `Forall_nodes (NodeWf L) t`, the invariant the parser establishes for every token
   list of the lexer (C08_parse_gold_wf).  No further invariant on token-valued attributes is needed: every
   range a response item carries is a node range, the range of a procedure's / function's name node (first
   child), or the K_ident token of a DECLARATION node, which SelOK covers (the only unguarded K_ident token,
   the counter of a `for` block without end token, is never used as a response range). *)
From GoldV Require Import Base Tokens Keywords Lexer AstKinds Tree Strings PComb Grammar Outline
                          LexerProofs ParserWF GrammarWF OutlineProofs
                          RangeBase RangeRel RangeComb RangeGrammar RangeTop.
From GoldV Require UnusedVar Lints UnusedVarProofs LintsProofs Report ReportProofs.
From Coq Require Import Sorted Lia.

Module U := UnusedVar.
Module Li := Lints.
Module UP := UnusedVarProofs.
Module LP := LintsProofs.
Module R := Report.

(* ========================================================================================== *)
(* 0. ranges within a document of L line feeds; the nodes of a tree                            *)
(* ========================================================================================== *)

(* start <= end, both lines exist *)
Definition RangeIn (L : N) (r : range) : Prop := range_wf r /\ lines_le L r.

Definition WfTree (L : N) (t : node) : Prop := Forall_nodes (NodeWf L) t.

Lemma child_in_nodes n c : In c (nchildren n) -> In c (LP.nodes n).
Proof.
  intro H. rewrite LP.nodes_eq. right. apply in_flat_map. exists c. split; [exact H|].
  rewrite LP.nodes_eq. left. reflexivity.
Qed.

(* the invariant holds on every subtree *)
Lemma Forall_nodes_sub (P : node -> Prop) t :
  Forall_nodes P t -> forall n, In n (LP.nodes t) -> Forall_nodes P n.
Proof.
  induction t as [k i r rg a ch IH] using LP.node_ind2. intros H n Hn.
  rewrite LP.nodes_eq in Hn. destruct Hn as [<-|Hn]; [exact H|].
  apply Forall_nodes_unfold in H as [_ Hch]. cbn [nchildren] in *.
  apply in_flat_map in Hn as (c & Hc & Hn). rewrite Forall_forall in IH, Hch.
  exact (IH c Hc (Hch c Hc) n Hn).
Qed.

Lemma Forall_nodes_child (P : node -> Prop) t c : Forall_nodes P t -> In c (nchildren t) -> Forall_nodes P c.
Proof. intros H Hc. apply (Forall_nodes_sub P t H). apply child_in_nodes. exact Hc. Qed.

Lemma Forall_nodes_here (P : node -> Prop) t : Forall_nodes P t -> P t.
Proof. intro H. apply Forall_nodes_unfold in H. apply H. Qed.

(* the two pre-order listings of the checker models are the same list *)
Lemma subnodes_nodes n : U.subnodes n = LP.nodes n.
Proof.
  induction n as [k i r rg a ch IH] using LP.node_ind2.
  rewrite UP.subnodes_eq, LP.nodes_eq. f_equal. cbn [nchildren].
  apply LP.flat_map_ext_in. intros c Hc. rewrite Forall_forall in IH. apply IH. exact Hc.
Qed.

Lemma Forall_nodes_subnodes (P : node -> Prop) t n : Forall_nodes P t -> In n (U.subnodes t) -> Forall_nodes P n.
Proof. intros H Hn. rewrite subnodes_nodes in Hn. exact (Forall_nodes_sub P t H n Hn). Qed.

Lemma Forall_nodes_below (P : node -> Prop) t n :
  Forall_nodes P t -> In n (flat_map U.subnodes (nchildren t)) -> Forall_nodes P n.
Proof.
  intros H Hn. apply in_flat_map in Hn as (c & Hc & Hn).
  eapply Forall_nodes_subnodes; [eapply Forall_nodes_child; eassumption|exact Hn].
Qed.

Lemma Forall_nodes_body (P : node -> Prop) t n : Forall_nodes P t -> In n (LP.body t) -> Forall_nodes P n.
Proof. intros H Hn. apply (Forall_nodes_sub P t H). rewrite LP.nodes_body. right. exact Hn. Qed.

(* ---- the three kinds of range a response item carries ---- *)

Lemma node_range_in L n : NodeWf L n -> RangeIn L (nrange n).
Proof. intros (A & B & _). split; assumption. Qed.

(* the identifier token of a declaration (or the node's own range when the token is absent) *)
Lemma ident_range_in L n : NodeWf L n -> nkind n <> KAstForBlock -> RangeIn L (Li.ident_range n).
Proof.
  intros (A & B & [Sel _] & _) Hk. unfold Li.ident_range.
  destruct (attr_tok K_ident n) as [t|] eqn:E; [|split; assumption].
  destruct (Sel t eq_refl (fun X => False_ind _ (Hk X))) as (_ & C & D). split; assumption.
Qed.

Lemma ident_range_inside L n : NodeWf L n -> nkind n <> KAstForBlock -> inside (Li.ident_range n) (nrange n).
Proof.
  intros (A & B & [Sel _] & _) Hk. unfold Li.ident_range.
  destruct (attr_tok K_ident n) as [t|] eqn:E; [|apply inside_refl].
  destruct (Sel t eq_refl (fun X => False_ind _ (Hk X))) as (C & _). exact C.
Qed.

(* the name node of a procedure / function (first child; the node's own range when there is none) *)
Lemma name_range_in L n : WfTree L n -> RangeIn L (Li.name_range n).
Proof.
  intro H. unfold Li.name_range, Li.child.
  destruct (nth_error (nchildren n) 0) as [c|] eqn:E.
  - apply nth_error_In in E. apply node_range_in. apply Forall_nodes_here. eapply Forall_nodes_child; eassumption.
  - apply node_range_in. apply Forall_nodes_here. exact H.
Qed.

Lemma kind_ne k1 k2 n : nkind n = k1 -> k1 <> k2 -> nkind n <> k2.
Proof. intros -> H. exact H. Qed.

(* ========================================================================================== *)
(* (a) the assembled diagnostics response                                                      *)
(* ========================================================================================== *)

(* the shape C08_diag_wf gives, on the response's own record *)
Definition PdWf (L : N) (pd : list R.pdiag) : Prop := Forall (fun p => RangeIn L (R.pd_range p)) pd.

(* ---- UnusedVarAnalyzer: "Unused var" and "Var name already declared" sit on the declared name ---- *)
Lemma unused_items_in L t : WfTree L t -> forall keyf d, In d (U.analyze keyf t) -> RangeIn L (U.drange d).
Proof.
  intros H keyf d Hd. pose proof (UP.placement keyf t) as P. rewrite Forall_forall in P.
  destruct (P d Hd) as (m & n & Hm & Hn & (Hl & Er & _)). rewrite Er.
  unfold UP.all_methods in Hm. apply filter_In in Hm as [Hm _].
  pose proof (Forall_nodes_below _ t m H Hm) as Wm.
  unfold UP.local_decls in Hn. apply filter_In in Hn as [Hn _].
  unfold UP.stmts in Hn. destruct (U.method_body m) as [b|] eqn:Eb; [|destruct Hn].
  unfold U.method_body in Eb. apply find_some in Eb as [Hb _].
  pose proof (Forall_nodes_child _ m b Wm Hb) as Wb.
  pose proof (Forall_nodes_below _ b n Wb Hn) as Wn.
  change (U.ident_range n) with (Li.ident_range n). apply ident_range_in; [apply Forall_nodes_here; exact Wn|].
  unfold UP.is_lvar in Hl. apply LP.is_kind_true in Hl. rewrite Hl. discriminate.
Qed.

(* ---- FunctionReturnTypeChecker: on the return type node ---- *)
Lemma ret_items_in L t : WfTree L t -> forall d, In d (Li.ret_type_lint t) -> RangeIn L (Li.drng d).
Proof.
  intros H d Hd. rewrite LP.ret_type_lint_body in Hd. apply in_flat_map in Hd as (f & Hf & Hd).
  apply LP.ret_verdict_spec in Hd as (_ & rt & tk & key & Hc & _ & _ & _ & _ & ->). cbn [Li.drng].
  unfold Li.child in Hc. apply nth_error_In in Hc.
  apply node_range_in. apply Forall_nodes_here. eapply Forall_nodes_child; [|exact Hc].
  eapply Forall_nodes_body; eassumption.
Qed.

(* ---- UnpurgedVarByteArrayChecker: on the local's name ---- *)
Lemma unp_items_in L n : WfTree L n -> forall d, In d (LP.unp_verdict n) -> RangeIn L (Li.drng d).
Proof.
  intros H d Hd. unfold LP.unp_verdict in Hd. destruct (Li.is_method n); [|destruct Hd].
  rewrite LP.unp_scan_spec in Hd. apply LP.spec_purge_in in Hd as (v & (Hv & Hk & _) & ->).
  unfold LP.purge_diag. cbn [Li.drng]. apply ident_range_in.
  - apply Forall_nodes_here. eapply Forall_nodes_body; eassumption.
  - unfold Li.is_tvba_local in Hk. apply andb_true_iff in Hk as [Hk _]. apply LP.is_kind_true in Hk.
    rewrite Hk. discriminate.
Qed.

(* ---- NamingConventionChecker: on the name ---- *)
Lemma name_items_in L anc n : WfTree L n -> forall d, In d (LP.name_verdict anc n) -> RangeIn L (Li.drng d).
Proof.
  intros H d Hd. apply LP.name_verdict_in in Hd as (cls & HR & ->). cbn [Li.drng].
  pose proof (Forall_nodes_here _ _ H) as Hn.
  destruct cls; cbn [LP.R_name LP.name_rng] in *; try contradiction;
    try (apply name_range_in; exact H);
    (apply ident_range_in; [exact Hn|]; destruct HR as [Hk _]; rewrite Hk; discriminate).
Qed.

(* ---- InheritedChecker: on the method name ---- *)
Lemma inh_items_in L n : WfTree L n -> forall d, In d (LP.inh_verdict n) -> RangeIn L (Li.drng d).
Proof.
  intros H d Hd. rewrite LP.inh_verdict_spec in Hd. destruct (Li.is_method n); [|destruct Hd].
  apply LP.spec_inh_in in Hd as [_ ->]. unfold LP.inh_diag. cbn [Li.drng]. apply name_range_in. exact H.
Qed.

(* ---- the shared collector ---- *)
Lemma v2_items_in L t : WfTree L t -> forall d, In d (R.v2_walk t) -> RangeIn L (Li.drng d).
Proof.
  intros H d Hd. rewrite ReportProofs.v2_walk_eq in Hd. apply in_flat_map in Hd as ([anc n] & Hp & Hd).
  assert (In n (LP.nodes t)) as Hn.
  { rewrite <- (LP.map_snd_pre t []). apply in_map_iff. exists (anc, n). split; [reflexivity|exact Hp]. }
  pose proof (Forall_nodes_sub _ t H n Hn) as Wn.
  unfold ReportProofs.node_verdicts in Hd. cbn [fst snd] in Hd.
  apply in_app_or in Hd as [Hd|Hd]; [exact (unp_items_in L n Wn d Hd)|].
  apply in_app_or in Hd as [Hd|Hd]; [exact (name_items_in L anc n Wn d Hd)|exact (inh_items_in L n Wn d Hd)].
Qed.

(* report_items_wf: every item of the diagnostics response *)
Theorem report_items_wf L t pd :
  WfTree L t -> PdWf L pd ->
  Forall (fun d => range_wf (R.d_range d) /\ lines_le L (R.d_range d)) (R.report t pd).
Proof.
  intros H Hpd. apply Forall_forall. intros d Hd. unfold R.report, R.v1_report in Hd.
  apply in_app_or in Hd as [Hd|Hd].
  { apply in_map_iff in Hd as (p & <- & Hp). unfold PdWf in Hpd. rewrite Forall_forall in Hpd. exact (Hpd p Hp). }
  apply in_app_or in Hd as [Hd|Hd].
  { apply in_app_or in Hd as [Hd|Hd]; apply in_map_iff in Hd as (x & <- & Hx).
    - exact (unused_items_in L t H U.key_today x Hx).
    - exact (ret_items_in L t H x Hx). }
  apply in_map_iff in Hd as (x & <- & Hx). exact (v2_items_in L t H x Hx).
Qed.

(* the same for every request on a document (the cached v1 list is the one computed first) *)
Theorem request_items_wf L d :
  ReportProofs.rdoc_ok d -> WfTree L (R.r_ast d) -> PdWf L (R.r_pd d) ->
  Forall (fun x => range_wf (R.d_range x) /\ lines_le L (R.d_range x)) (fst (R.request d)).
Proof.
  intros Hok H Hpd. rewrite (proj1 (ReportProofs.request_ok d Hok)). apply report_items_wf; assumption.
Qed.

(* ========================================================================================== *)
(* (b) definition links                                                                        *)
(* ========================================================================================== *)
From GoldV Require Import Encase SymTab Scoping Annot DefTree AnnotProofs DefTreeProofs.
From GoldV Require WsTree WsTreeProofs HierTree HierTreeProofs.

Module W := WsTree.
Module WP := WsTreeProofs.
Module H := HierTree.
Module HP := HierTreeProofs.

(* a symbol whose two ranges are well formed within a document of L line feeds, the selection inside the range *)
Definition SymWf (L : N) (a : asym) : Prop :=
  RangeIn L (a_sel a) /\ RangeIn L (a_range a) /\ inside (a_sel a) (a_range a).

Lemma Forall_nodes_idem (P : node -> Prop) t : Forall_nodes P t -> Forall_nodes (Forall_nodes P) t.
Proof.
  induction t as [k i r rg a ch IH] using LP.node_ind2. intro Ht.
  apply Forall_nodes_unfold. split; [exact Ht|]. cbn [nchildren].
  apply Forall_nodes_unfold in Ht as [_ Hch]. cbn [nchildren] in Hch.
  rewrite Forall_forall in *. intros c Hc. exact (IH c Hc (Hch c Hc)).
Qed.

(* the name range the annotator stores: the K_ident token of a declaration, the name node of a method *)
Lemma annot_name_range_in L p : WfTree L (snd p) -> decl_syms p <> [] -> RangeIn L (Annot.name_range (snd p)).
Proof.
  destruct p as [g n]. cbn [snd]. intros HW Hd.
  pose proof (Forall_nodes_here _ _ HW) as (Hwf & Hl & [Hsel Hneed] & Hname).
  unfold decl_syms, dkind_at in Hd. cbn [fst snd] in Hd. unfold Annot.name_range. unfold dkind_of in *.
  destruct g; destruct (nkind n) eqn:Ek; try (exfalso; apply Hd; reflexivity);
  try (destruct (attr_tok K_ident n) as [tk|] eqn:Ea;
       [cbn [tok_range]; destruct (Hsel tk eq_refl) as (_ & Hi1 & Hi2); [intro Hc; discriminate|split; assumption]
       |exfalso; apply Hneed; reflexivity]).
  all: try (specialize (Hname (or_introl Ek))); try (specialize (Hname (or_intror Ek)));
    destruct (nchildren n) as [|c l] eqn:Ec; try contradiction;
    apply node_range_in; apply Forall_nodes_here; eapply Forall_nodes_child; [exact HW|rewrite Ec; left; reflexivity].
Qed.

(* every symbol of every table the annotator builds from a well-formed tree *)
Theorem table_syms_wf L b t T a : WfTree L t -> In T (tables_of b t) -> In a (t_syms T) -> SymWf L a.
Proof.
  intros HW HT Ha.
  assert (Hin : In a (flat_map t_syms (tables_of b t))) by (apply in_flat_map; exists T; auto).
  apply (Permutation.Permutation_in _ (annot_one_symbol_per_declaration_all b t)) in Hin.
  apply in_flat_map in Hin as (n & Hn & Hsn).
  destruct (decl_syms_declares n a Hsn) as (_ & E1 & E2 & _).
  pose proof (visit_seq_sub (Forall_nodes (NodeWf L)) b t (Forall_nodes_idem _ _ HW)) as Hall.
  rewrite Forall_forall in Hall. specialize (Hall n Hn). cbv beta in Hall.
  assert (decl_syms n <> []) as Hne by (intro E; rewrite E in Hsn; destruct Hsn).
  unfold SymWf. rewrite E1, E2. split; [apply annot_name_range_in; assumption|].
  split; [apply node_range_in; apply Forall_nodes_here; exact Hall|].
  apply (name_range_inside L n); [apply Forall_nodes_here; exact Hall|exact Hne].
Qed.

(* ---- look-ups return symbols of the tables of the chain ---- *)
Lemma find_in_In T id a : find_in T id = Some a -> In a (t_syms T).
Proof.
  unfold find_in, sym_at. destruct (scope_find (scope_of T) id); [|discriminate]. apply nth_error_In.
Qed.

Lemma lookup_In ch id T a : lookup ch id = Some (T, a) -> In T ch /\ In a (t_syms T).
Proof.
  induction ch as [|U ch IH]; cbn [lookup]; [discriminate|].
  destruct (find_in U id) as [x|] eqn:E.
  - intro Hx. inversion Hx; subst. split; [left; reflexivity|apply (find_in_In _ _ _ E)].
  - intro Hx. destruct (IH Hx) as [A B]. split; [right; exact A|exact B].
Qed.

Lemma lookup_all_In ch id h : In h (lookup_all ch id) -> In (fst h) ch /\ In (snd h) (t_syms (fst h)).
Proof.
  induction ch as [|U ch IH]; cbn [lookup_all]; [intros []|]. intro Hh. apply in_app_or in Hh as [Hh|Hh].
  - destruct (find_in U id) as [x|] eqn:E; [|destruct Hh]. destruct Hh as [<-|[]]. cbn [fst snd].
    split; [left; reflexivity|apply (find_in_In _ _ _ E)].
  - destruct (IH Hh) as [A B]. split; [right; exact A|exact B].
Qed.

Lemma class_level_t_incl ch : forall T, In T (class_level_t ch) -> In T ch.
Proof.
  induction ch as [|U ch IH]; intros T HT; [exact HT|]. cbn [class_level_t] in HT.
  destruct ch as [|P r]; [exact HT|]. destruct (opt_str_eqb (t_cls P) (t_cls U)); [right; apply IH; exact HT|exact HT].
Qed.

(* ---- one document: DefTree.definition ---- *)

(* every link is (selection range, range) of a symbol of a table of the document *)
Definition LinkOfDoc (t : node) (l : link) : Prop :=
  exists T a, In T (tables_of false t) /\ In a (t_syms T) /\ l = link_of a.

Lemma def_single_from t stem ch oid ls :
  (forall U, In U ch -> In U (tables_of false t)) -> def_single t stem ch oid = Ans ls -> Forall (LinkOfDoc t) ls.
Proof.
  intros Hch. unfold def_single. destruct oid as [id|]; [|intro E; inversion E; constructor].
  destruct (lookup ch id) as [[T a]|] eqn:El.
  - destruct (lookup_In _ _ _ _ El) as [A B]. destruct (indexed1 stem (cls_str T)); intro E; inversion E; [|constructor].
    constructor; [|constructor]. exists T, a. auto.
  - destruct (foreign t); [discriminate|]. intro E; inversion E. constructor.
Qed.

Lemma def_all_from t stem ch oid ls :
  (forall U, In U ch -> In U (tables_of false t)) -> def_all t stem ch oid = Ans ls -> Forall (LinkOfDoc t) ls.
Proof.
  intros Hch. unfold def_all. destruct oid as [id|]; [|intro E; inversion E; constructor].
  destruct (foreign_parent t); [discriminate|]. cbv zeta.
  destruct (forallb _ _); intro E; inversion E; [|constructor].
  apply Forall_forall. intros l Hl. apply in_map_iff in Hl as (h & <- & Hh).
  destruct (lookup_all_In _ _ _ Hh) as [A B]. exists (fst h), (snd h). auto.
Qed.

Theorem definition_links_from t stem p ls : definition t stem p = Ans ls -> Forall (LinkOfDoc t) ls.
Proof.
  unfold definition. destruct (negb (flat_methods t)); [discriminate|]. cbv zeta.
  destruct (chain_for t (descend p t)) as [ch|] eqn:Ec; [|discriminate].
  pose proof (chain_for_tables _ _ _ Ec) as Hch.
  assert (Hcl : forall U, In U (class_level_t ch) -> In U (tables_of false t)) by (intros U HU; apply Hch, class_level_t_incl, HU).
  destruct (path_up p t) as [|[idx enc] up]; [discriminate|].
  destruct up as [|[i q] up'].
  - destruct (is_member_decl enc); [apply def_all_from|apply def_single_from]; assumption.
  - destruct (is_dot q).
    + destruct idx as [|idx]; [apply def_single_from; assumption|].
      destruct (first_child q) as [lft|]; [|discriminate]. destruct (own_entity t lft) as [ent|]; [|discriminate].
      destruct (in_method _); [|discriminate]. destruct (indexed1 stem ent); [apply def_all_from; assumption|].
      intro E; inversion E; constructor.
    + destruct (is_method_node q && Nat.eqb idx 0); [apply def_all_from; assumption|].
      destruct (is_member_decl enc); [apply def_all_from|apply def_single_from]; assumption.
Qed.

(* definition_links_wf, one document: both ranges of every link are well formed within the document, the
   selection range inside the range *)
Theorem definition_links_wf_doc L t stem p ls :
  WfTree L t -> definition t stem p = Ans ls ->
  Forall (fun l => RangeIn L (fst l) /\ RangeIn L (snd l) /\ inside (fst l) (snd l)) ls.
Proof.
  intros HW Hd. eapply Forall_impl; [|exact (definition_links_from t stem p ls Hd)].
  intros l (T & a & HT & Ha & ->). exact (table_syms_wf L false t T a HW HT Ha).
Qed.

(* ---- a workspace: WsTree.wdefinition ---- *)

(* the table T belongs to document number j of the workspace (either annotation mode) *)
Definition TableOf (ws : W.wst) (j : nat) (T : table) : Prop :=
  exists d b, nth_error ws j = Some d /\ In T (tables_of b (snd d)).

Definition ChainOf (ws : W.wst) (ch : list table) : Prop := forall T, In T ch -> exists j, TableOf ws j T.

(* a hit: a symbol of a table of document number j *)
Definition HitOf (ws : W.wst) (j : nat) (h : table * asym) : Prop := TableOf ws j (fst h) /\ In (snd h) (t_syms (fst h)).

(* a link made from a hit of SOURCE document j; its target document is the one the class index gives for the
   for_class_or_module of the hit's table *)
Definition LinkFrom (ws : W.wst) (l : W.wlink) : Prop :=
  exists j h, HitOf ws j h /\ W.target_of ws h = Some l.

Lemma root_table_in b t : In (root_table_of b t) (tables_of b t).
Proof. left. reflexivity. Qed.

Lemma tables_along_of ws a path : ChainOf ws (W.tables_along ws a path).
Proof.
  intros T HT. unfold W.tables_along in HT. apply in_flat_map in HT as (j & _ & HT). unfold W.root_of in HT.
  destruct (nth_error ws j) as [d|] eqn:E; [|destruct HT]. destruct HT as [<-|[]].
  exists j, d, (negb (Nat.eqb j a)). split; [exact E|apply root_table_in].
Qed.

Lemma own_chain_of ws a ch : W.own_chain ws a = Ans ch -> ChainOf ws ch.
Proof.
  unfold W.own_chain. destruct (W.lineage_t ws a) as [|[c path]]; [discriminate|].
  intro E; inversion E. apply tables_along_of.
Qed.

Lemma other_chain_of ws a j ch : W.other_chain ws a j = Ans ch -> ChainOf ws ch.
Proof.
  unfold W.other_chain. destruct (Nat.eqb j a); [apply own_chain_of|].
  destruct (W.lineage_t ws j) as [|[[|] path]]; try discriminate. intro E; inversion E. apply tables_along_of.
Qed.

Lemma ChainOf_app ws c1 c2 : ChainOf ws c1 -> ChainOf ws c2 -> ChainOf ws (c1 ++ c2).
Proof. intros H1 H2 T HT. apply in_app_or in HT as [HT|HT]; auto. Qed.

Lemma ChainOf_tl ws c : ChainOf ws c -> ChainOf ws (tl c).
Proof. intros Hc T HT. apply Hc. destruct c; [destruct HT|right; exact HT]. Qed.

Lemma ChainOf_class_level ws c : ChainOf ws c -> ChainOf ws (class_level_t c).
Proof. intros Hc T HT. apply Hc. apply class_level_t_incl. exact HT. Qed.

Lemma full_chain_of ws a d steps full :
  nth_error ws a = Some d -> W.full_chain ws a (snd d) steps = Ans full -> ChainOf ws full.
Proof.
  intros Hn. unfold W.full_chain. destruct (chain_for (snd d) steps) as [ch|] eqn:Ec; [|discriminate].
  destruct (W.own_chain ws a) as [|oc] eqn:Eo; [discriminate|]. intro E; inversion E.
  apply ChainOf_app; [|apply ChainOf_tl; eapply own_chain_of; exact Eo].
  intros T HT. exists a, d, false. split; [exact Hn|]. exact (chain_for_tables _ _ _ Ec T HT).
Qed.

Lemma lookup_hit ws ch id h : ChainOf ws ch -> lookup ch id = Some h -> exists j, HitOf ws j h.
Proof.
  intros Hc El. destruct h as [T a]. destruct (lookup_In _ _ _ _ El) as [A B].
  destruct (Hc T A) as [j Hj]. exists j. split; assumption.
Qed.

Lemma uses_search_hit ws a id : forall us h, W.uses_search ws a us id = Ans (Some h) -> exists j, HitOf ws j h.
Proof.
  induction us as [|u r IH]; intros h; cbn [W.uses_search]; [discriminate|].
  destruct (W.find_doc ws u) as [[j dj]|]; [|apply IH].
  destruct (W.other_chain ws a j) as [|ch] eqn:Eo; [discriminate|].
  destruct (lookup ch id) as [h'|] eqn:El; [|apply IH].
  intro E; inversion E; subst h'. eapply lookup_hit; [eapply other_chain_of; exact Eo|exact El].
Qed.

Lemma wsearch_hit ws a ch id h : ChainOf ws ch -> W.wsearch ws a ch id = Ans (Some h) -> exists j, HitOf ws j h.
Proof.
  intros Hc. unfold W.wsearch. destruct (lookup ch id) as [h'|] eqn:El.
  - intro E; inversion E; subst h'. eapply lookup_hit; eassumption.
  - apply uses_search_hit.
Qed.

Lemma wdef_single_from ws a ch oid ls : ChainOf ws ch -> W.wdef_single ws a ch oid = Ans ls -> Forall (LinkFrom ws) ls.
Proof.
  intros Hc. unfold W.wdef_single. destruct oid as [id|]; [|intro E; inversion E; constructor].
  destruct (W.wsearch ws a ch id) as [|[h|]] eqn:Es; [discriminate| |intro E; inversion E; constructor].
  destruct (wsearch_hit _ _ _ _ _ Hc Es) as [j Hj].
  destruct (W.target_of ws h) as [l|] eqn:Et; intro E; inversion E; [|constructor].
  constructor; [|constructor]. exists j, h. auto.
Qed.

Lemma wdef_all_from ws ch oid : ChainOf ws ch -> Forall (LinkFrom ws) (W.wdef_all ws ch oid).
Proof.
  intros Hc. unfold W.wdef_all. destruct oid as [id|]; [|constructor]. cbv zeta.
  destruct (forallb _ _); [|constructor]. apply Forall_forall. intros l Hl.
  apply in_flat_map in Hl as (o & Ho & Hl). apply in_map_iff in Ho as (h & <- & Hh).
  destruct (W.target_of ws h) as [l'|] eqn:Et; [|destruct Hl]. destruct Hl as [<-|[]].
  destruct (lookup_all_In _ _ _ Hh) as [A B]. destruct (Hc _ A) as [j Hj]. exists j, h. split; [split; assumption|exact Et].
Qed.

Lemma entity_chain_of ws a full ent ch :
  ChainOf ws full -> W.entity_chain ws a full ent = Ans (Some ch) -> ChainOf ws ch.
Proof.
  intros Hc. unfold W.entity_chain. destruct (W.find_doc ws ent) as [[j dj]|]; [|discriminate].
  destruct (Nat.eqb j a).
  - intro E; inversion E. apply ChainOf_class_level. exact Hc.
  - destruct (W.other_chain ws a j) as [|c] eqn:Eo; [discriminate|]. intro E; inversion E; subst c. eapply other_chain_of; exact Eo.
Qed.

Lemma wdef_rhs_from ws a t steps full q enc p ls :
  ChainOf ws full -> W.wdef_rhs ws a t steps full q enc p = Ans ls -> Forall (LinkFrom ws) ls.
Proof.
  intros Hc. unfold W.wdef_rhs. destruct (first_child q) as [lft|]; [|discriminate].
  destruct (own_entity t lft) as [ent|].
  - destruct (in_method steps); [|discriminate].
    destruct (W.entity_chain ws a full ent) as [|[ch|]] eqn:Ee; [discriminate| |intro E; inversion E; constructor].
    intro E; inversion E. apply wdef_all_from. eapply entity_chain_of; eassumption.
  - destruct (W.typed_entity ws a t steps lft) as [|[ent|]]; [discriminate| |intro E; inversion E; constructor].
    destruct (W.entity_chain ws a full ent) as [|[ch|]] eqn:Ee; [discriminate| |intro E; inversion E; constructor].
    intro E; inversion E. apply wdef_all_from. eapply entity_chain_of; eassumption.
Qed.

(* every link answered comes from a symbol of a table of some document of the workspace *)
Theorem wdefinition_links_from ws a p ls : W.wdefinition ws a p = Ans ls -> Forall (LinkFrom ws) ls.
Proof.
  unfold W.wdefinition. destruct (negb (W.distinct_stems ws)); [discriminate|].
  destruct (nth_error ws a) as [[stem t]|] eqn:En; [|discriminate].
  destruct (negb (flat_methods t)); [discriminate|]. cbv zeta.
  destruct (W.full_chain ws a t (descend p t)) as [|full] eqn:Ef; [discriminate|].
  pose proof (full_chain_of ws a (stem, t) _ _ En Ef) as Hc.
  destruct (path_up p t) as [|[idx enc] up]; [discriminate|].
  destruct up as [|[i q] up'].
  - destruct (is_member_decl enc); [intro E; inversion E; apply wdef_all_from; exact Hc|apply wdef_single_from; exact Hc].
  - destruct (is_dot q).
    + destruct idx as [|idx]; [apply wdef_single_from; exact Hc|apply wdef_rhs_from; exact Hc].
    + destruct (is_method_node q && Nat.eqb idx 0);
        [intro E; inversion E; apply wdef_all_from; apply ChainOf_class_level; exact Hc|].
      destruct (is_member_decl enc); [intro E; inversion E; apply wdef_all_from; exact Hc|apply wdef_single_from; exact Hc].
Qed.

(* ---- the class index ---- *)
Lemma find_doc_from_nth ws name : forall k j d, W.find_doc_from k ws name = Some (j, d) ->
  (k <= j)%nat /\ nth_error ws (j - k) = Some d /\ ci_eqb (fst d) name = true.
Proof.
  induction ws as [|x ws IH]; intros k j d; cbn [W.find_doc_from]; [discriminate|].
  destruct (ci_eqb (fst x) name) eqn:E.
  - intro Hx; inversion Hx; subst. split; [lia|]. replace (j - j)%nat with O by lia. split; [reflexivity|exact E].
  - intro Hx. destruct (IH _ _ _ Hx) as (A & B & C). split; [lia|]. replace (j - k)%nat with (S (j - S k)) by lia.
    split; [exact B|exact C].
Qed.

Lemma find_doc_nth ws name j d : W.find_doc ws name = Some (j, d) -> nth_error ws j = Some d /\ ci_eqb (fst d) name = true.
Proof.
  intro Hf. destruct (find_doc_from_nth ws name 0 j d Hf) as (_ & B & C). replace (j - 0)%nat with j in B by lia. auto.
Qed.

(* the line counts of the documents of a workspace, document by document *)
Definition WsWf (ws : W.wst) (Ls : list N) : Prop := Forall2 (fun d L => WfTree L (snd d)) ws Ls.

Lemma WsWf_nth ws Ls j d : WsWf ws Ls -> nth_error ws j = Some d -> exists L, nth_error Ls j = Some L /\ WfTree L (snd d).
Proof.
  intro Hw. revert j. induction Hw as [|x L ws Ls Hx _ IH]; intros [|j] Hn; try discriminate.
  - inversion Hn; subst. exists L. auto.
  - apply IH. exact Hn.
Qed.

(* the general statement, no guard: both ranges of a link are well formed within its SOURCE document (the one
   whose table holds the symbol), the selection range inside the range; the link names a document of the workspace *)
Theorem definition_links_source_wf ws Ls a p ls :
  WsWf ws Ls -> W.wdefinition ws a p = Ans ls ->
  Forall (fun l : W.wlink =>
            let '(stem, sel, rng) := l in
            (exists k dt, W.find_doc ws stem = Some (k, dt) /\ fst dt = stem) /\
            exists j L, (j < length ws)%nat /\ nth_error Ls j = Some L /\
                        RangeIn L sel /\ RangeIn L rng /\ inside sel rng) ls.
Proof.
  intros Hw Hd.
  assert (Hds : W.distinct_stems ws = true).
  { unfold W.wdefinition in Hd. destruct (W.distinct_stems ws); [reflexivity|discriminate]. }
  eapply Forall_impl; [|exact (wdefinition_links_from ws a p ls Hd)].
  intros [[stem sel] rng] (j & [T s] & [(d & b & Hn & HT) Hs] & Ht). cbn [fst snd] in *.
  unfold W.target_of in Ht. cbn [fst snd] in Ht.
  destruct (W.find_doc ws (cls_str T)) as [[k dt]|] eqn:Ef; [|discriminate]. inversion Ht; subst stem sel rng.
  destruct (find_doc_nth _ _ _ _ Ef) as [Hk _]. split.
  - exists k, dt. split; [apply WP.find_doc_self; assumption|reflexivity].
  - destruct (WsWf_nth _ _ _ _ Hw Hn) as (L & HL & HW). exists j, L.
    split; [apply nth_error_Some; congruence|]. split; [exact HL|]. exact (table_syms_wf L b (snd d) T s HW HT Hs).
Qed.

(* the guard: the class index sends the for_class_or_module of every table of document j back to document j,
   or nowhere.  (It holds when every document is named after the class / module it declares, stems distinct:
   WsTreeProofs.ws_ok; it fails for a file A.god that declares class B next to a file B.god.) *)
Definition TablesAtHome (ws : W.wst) : Prop :=
  forall j d b T k dt, nth_error ws j = Some d -> In T (tables_of b (snd d)) -> t_syms T <> [] ->
    W.find_doc ws (cls_str T) = Some (k, dt) -> k = j.

(* definition_links_wf: every link names a document of the workspace, both ranges are well formed within THAT
   document, and the selection range lies inside the range *)
Theorem definition_links_wf ws Ls a p ls :
  WsWf ws Ls -> TablesAtHome ws -> W.wdefinition ws a p = Ans ls ->
  Forall (fun l : W.wlink =>
            let '(stem, sel, rng) := l in
            exists k dt L, W.find_doc ws stem = Some (k, dt) /\ fst dt = stem /\ nth_error Ls k = Some L /\
                           RangeIn L sel /\ RangeIn L rng /\ inside sel rng) ls.
Proof.
  intros Hw Hg Hd.
  assert (Hds : W.distinct_stems ws = true).
  { unfold W.wdefinition in Hd. destruct (W.distinct_stems ws); [reflexivity|discriminate]. }
  eapply Forall_impl; [|exact (wdefinition_links_from ws a p ls Hd)].
  intros [[stem sel] rng] (j & [T s] & [(d & b & Hn & HT) Hs] & Ht). cbn [fst snd] in *.
  unfold W.target_of in Ht. cbn [fst snd] in Ht.
  destruct (W.find_doc ws (cls_str T)) as [[k dt]|] eqn:Ef; [|discriminate]. inversion Ht; subst stem sel rng.
  destruct (find_doc_nth _ _ _ _ Ef) as [Hk _].
  assert (k = j) as -> by (eapply Hg; try eassumption; intro E; rewrite E in Hs; destruct Hs).
  rewrite Hn in Hk. inversion Hk; subst dt.
  destruct (WsWf_nth _ _ _ _ Hw Hn) as (L & HL & HW). exists j, d, L.
  split; [apply WP.find_doc_self; assumption|]. split; [reflexivity|]. split; [exact HL|].
  exact (table_syms_wf L b (snd d) T s HW HT Hs).
Qed.

(* ========================================================================================== *)
(* (c) hierarchy items                                                                         *)
(* ========================================================================================== *)

(* the item names a document of the workspace (its uri is that document's stem), both ranges are well formed
   within that document's line count, the selection range lies inside the range *)
Definition ItemWf (ws : H.wsT) (Ls : list N) (it : H.item) : Prop :=
  exists d' L, H.doc_of ws (upper (H.i_uri it)) = Some d' /\ fst d' = H.i_uri it /\ In (d', L) (combine ws Ls) /\
    RangeIn L (H.i_sel it) /\ RangeIn L (H.i_range it) /\ inside (H.i_sel it) (H.i_range it).

Lemma WsWf_in ws Ls d : WsWf ws Ls -> In d ws -> exists L, In (d, L) (combine ws Ls) /\ WfTree L (snd d).
Proof.
  intro Hw. induction Hw as [|x L ws Ls Hx _ IH]; intro Hd; [destruct Hd|]. cbn [combine]. destruct Hd as [->|Hd].
  - exists L. split; [left; reflexivity|exact Hx].
  - destruct (IH Hd) as (L' & A & B). exists L'. split; [right; exact A|exact B].
Qed.

(* the guard, as for links: the class index sends the for_class_or_module of every (non-empty) table of a
   document back to that document, or nowhere *)
Definition TablesAtHomeH (ws : H.wsT) : Prop :=
  forall d T d', In d ws -> In T (tables_of false (snd d)) -> t_syms T <> [] ->
    H.doc_of ws (upper (cls_str T)) = Some d' -> d' = d.

Lemma doc_of_found ws k d : H.doc_of ws k = Some d -> In d ws /\ k = upper (fst d) /\ H.doc_of ws (upper (fst d)) = Some d.
Proof.
  intro Hf. pose proof Hf as Hf'. unfold H.doc_of in Hf. apply find_some in Hf as [A B]. apply str_eqb_eq in B.
  split; [exact A|]. split; [symmetry; exact B|]. rewrite B. exact Hf'.
Qed.

Lemma item_for_shape ws stem cls a l : H.item_for ws stem cls a = H.ROk l ->
  l = [] \/ exists it, l = [it] /\ H.i_sel it = a_sel a /\ H.i_range it = a_range a /\
    ((H.i_uri it = stem /\ H.doc_of ws (upper cls) = None) \/ exists d', H.doc_of ws (upper cls) = Some d' /\ H.i_uri it = fst d').
Proof.
  unfold H.item_for, H.class_uri.
  destruct (a_kind a); destruct (H.doc_of ws (upper cls)) as [d'|]; intro E; inversion E; subst; auto;
    right; eexists; (split; [reflexivity|]); cbn [H.i_sel H.i_range H.i_uri]; (split; [reflexivity|]); (split; [reflexivity|]); eauto.
Qed.

(* items of prepare_type_hierarchy *)
Theorem prepare_items_wf ws Ls d p l :
  WsWf ws Ls -> In d ws -> HP.distinct_stems ws -> TablesAtHomeH ws ->
  H.prepare ws d p = Ans (H.ROk l) -> Forall (ItemWf ws Ls) l.
Proof.
  intros Hw Hd Hnd Hg. unfold H.prepare. cbv zeta. destruct (negb (flat_methods (snd d))); [discriminate|].
  destruct (chain_for (snd d) (descend p (snd d))) as [ch|] eqn:Ec; [|discriminate].
  destruct (path_up p (snd d)) as [|[idx enc] up]; [discriminate|].
  destruct (H.right_of_dot idx up); [discriminate|].
  destruct (lookup ch (nident enc)) as [[T a]|] eqn:El;
    [|destruct (foreign (snd d)); [discriminate|intro E; inversion E; constructor]].
  intro E. assert (Hi : H.item_for ws (fst d) (cls_str T) a = H.ROk l) by congruence. clear E.
  destruct (lookup_In _ _ _ _ El) as [HT Ha]. apply (chain_for_tables _ _ _ Ec) in HT.
  destruct (item_for_shape _ _ _ _ _ Hi) as [->|(it & -> & E1 & E2 & Hu)]; [constructor|].
  constructor; [|constructor].
  destruct (WsWf_in _ _ _ Hw Hd) as (L & HL & HW).
  destruct (table_syms_wf L false (snd d) T a HW HT Ha) as (S1 & S2 & S3).
  assert (H.doc_of ws (upper (H.i_uri it)) = Some d /\ fst d = H.i_uri it) as [U1 U2].
  { destruct Hu as [[Eu _]|(d' & Hd' & Eu)].
    - rewrite Eu. split; [apply HP.doc_of_unique; assumption|reflexivity].
    - assert (d' = d) as -> by (eapply Hg; try eassumption; intro X; rewrite X in Ha; destruct Ha).
      rewrite Eu. split; [apply HP.doc_of_unique; assumption|reflexivity]. }
  exists d, L. rewrite E1, E2. auto 10.
Qed.

(* class items of the walkers: no guard (the document is found by the class name and the item carries its stem) *)
Lemma class_item_wf ws Ls k l : WsWf ws Ls -> H.class_item ws k = Ans l -> Forall (ItemWf ws Ls) l.
Proof.
  intros Hw. unfold H.class_item. destruct (H.doc_of ws k) as [d|] eqn:Ed; [|intro E; inversion E; constructor].
  destruct (doc_of_found _ _ _ Ed) as (Hd & _ & Hu).
  destruct (find_in (H.root_of d) k) as [a|] eqn:Ef;
    [|destruct (foreign_parent (snd d)); [discriminate|intro E; inversion E; constructor]].
  intro E; inversion E. constructor; [|constructor].
  destruct (WsWf_in _ _ _ Hw Hd) as (L & HL & HW).
  destruct (table_syms_wf L false (snd d) (H.root_of d) a HW (root_table_in false (snd d)) (find_in_In _ _ _ Ef)) as (S1 & S2 & S3).
  exists d, L. cbn [H.i_uri H.i_sel H.i_range]. auto 10.
Qed.

Lemma class_items_wf ws Ls : WsWf ws Ls -> forall ks l, H.class_items ws ks = Ans l -> Forall (ItemWf ws Ls) l.
Proof.
  intros Hw. induction ks as [|k r IH]; intros l; cbn [H.class_items]; [intro E; inversion E; constructor|].
  destruct (H.class_item ws k) as [|x] eqn:E1; [discriminate|]. destruct (H.class_items ws r) as [|y]; [discriminate|].
  intro E; inversion E. apply Forall_app. split; [eapply class_item_wf; eassumption|apply IH; reflexivity].
Qed.

(* member items of the walkers: the uri is the document of the root table's for_class_or_module *)
Lemma member_item_wf ws Ls it k : WsWf ws Ls -> TablesAtHomeH ws -> Forall (ItemWf ws Ls) (H.member_item ws it k).
Proof.
  intros Hw Hg. unfold H.member_item. destruct (H.doc_of ws k) as [d|] eqn:Ed; [|constructor].
  destruct (doc_of_found _ _ _ Ed) as (Hd & _ & _).
  destruct (find_in (H.root_of d) (H.i_name it)) as [a|] eqn:Ef; [|constructor].
  destruct (H.doc_of ws (upper (cls_str (H.root_of d)))) as [d'|] eqn:Ed'; [|constructor].
  pose proof (find_in_In _ _ _ Ef) as Ha.
  assert (d' = d) as ->.
  { eapply Hg; [exact Hd|apply (root_table_in false (snd d))| |exact Ed']. intro X. unfold H.root_of in Ha. rewrite X in Ha. destruct Ha. }
  destruct (doc_of_found _ _ _ Ed') as (_ & _ & Hu).
  constructor; [|constructor].
  destruct (WsWf_in _ _ _ Hw Hd) as (L & HL & HW).
  destruct (table_syms_wf L false (snd d) (H.root_of d) a HW (root_table_in false (snd d)) Ha) as (S1 & S2 & S3).
  exists d, L. cbn [H.i_uri H.i_sel H.i_range]. auto 10.
Qed.

Theorem supertypes_items_wf ws Ls tr it l :
  WsWf ws Ls -> TablesAtHomeH ws -> H.supertypes_of ws tr it = Ans (H.ROk l) -> Forall (ItemWf ws Ls) l.
Proof.
  intros Hw Hg. unfold H.supertypes_of. destruct (H.i_kind it).
  - destruct (H.class_items ws _) as [|x] eqn:E1; [discriminate|]. intro E; inversion E; subst x. eapply class_items_wf; eassumption.
  - destruct (H.class_of_item ws it) as [c|]; [|discriminate].
    destruct (Forest.member_supertypes _ _ _ _) as [[q|]| |]; intro E; inversion E; try constructor. apply member_item_wf; assumption.
  - destruct (H.class_of_item ws it) as [c|]; [|discriminate].
    destruct (Forest.member_supertypes _ _ _ _) as [[q|]| |]; intro E; inversion E; try constructor. apply member_item_wf; assumption.
Qed.

Theorem subtypes_items_wf ws Ls tr it l :
  WsWf ws Ls -> TablesAtHomeH ws -> H.subtypes_of ws tr it = Ans (H.ROk l) -> Forall (ItemWf ws Ls) l.
Proof.
  intros Hw Hg. unfold H.subtypes_of.
  assert (G : forall ps, Forall (ItemWf ws Ls) (flat_map (fun q => H.member_item ws it (Forest.key_of tr q)) ps)).
  { intro ps. apply ReportProofs.Forall_flat_map. intros q _. apply member_item_wf; assumption. }
  destruct (H.i_kind it).
  - destruct (H.class_items ws _) as [|x] eqn:E1; [discriminate|]. intro E; inversion E; subst x. eapply class_items_wf; eassumption.
  - destruct (H.class_of_item ws it) as [c|]; [|discriminate].
    destruct (Forest.member_subtypes _ _ _ _) as [ps| |]; intro E; inversion E. apply G.
  - destruct (H.class_of_item ws it) as [c|]; [|discriminate].
    destruct (Forest.member_subtypes _ _ _ _) as [ps| |]; intro E; inversion E. apply G.
Qed.

(* hierarchy_items_wf: the three requests in one statement *)
Theorem hierarchy_items_wf ws Ls :
  WsWf ws Ls -> HP.distinct_stems ws -> TablesAtHomeH ws ->
  (forall d p l, In d ws -> H.prepare ws d p = Ans (H.ROk l) -> Forall (ItemWf ws Ls) l) /\
  (forall tr it l, H.supertypes_of ws tr it = Ans (H.ROk l) -> Forall (ItemWf ws Ls) l) /\
  (forall tr it l, H.subtypes_of ws tr it = Ans (H.ROk l) -> Forall (ItemWf ws Ls) l).
Proof.
  intros Hw Hnd Hg. split; [|split].
  - intros d p l Hd Hp. eapply prepare_items_wf; eassumption.
  - intros tr it l. apply supertypes_items_wf; assumption.
  - intros tr it l. apply subtypes_items_wf; assumption.
Qed.

(* ========================================================================================== *)
(* a boolean checker of the premise, for the non-vacuity examples on real dumps                *)
(* ========================================================================================== *)

Definition range_in_b (L : N) (r : range) : bool :=
  pos_leb' (rstart r) (rend r) && (pline (rstart r) <=? L) && (pline (rend r) <=? L).

Lemma range_in_b_ok L r : range_in_b L r = true -> RangeIn L r.
Proof.
  unfold range_in_b, RangeIn, range_wf, lines_le. rewrite !andb_true_iff, pos_leb'_le, !N.leb_le. tauto.
Qed.

Definition sel_ok_b (L : N) (n : node) : bool :=
  match attr_tok K_ident n with
  | Some t =>
      (is_kind KAstForBlock n && match attr_tok K_end n with None => true | Some _ => false end) ||
      (insideb (trange t) (nrange n) && range_in_b L (trange t))
  | None => negb (needs_ident (nkind n))
  end.

Definition name_inside_b (n : node) : bool :=
  if is_kind KAstProcedure n || is_kind KAstFunction n
  then match nchildren n with c :: _ => insideb (nrange c) (nrange n) | [] => false end
  else true.

Definition node_wf_b (L : N) (n : node) : bool := range_in_b L (nrange n) && sel_ok_b L n && name_inside_b n.

Lemma node_wf_b_ok L n : node_wf_b L n = true -> NodeWf L n.
Proof.
  unfold node_wf_b. rewrite !andb_true_iff. intros [[H1 H2] H3]. apply range_in_b_ok in H1 as [A B].
  split; [exact A|]. split; [exact B|]. split.
  - unfold sel_ok_b in H2. split.
    + intros t Ht Hfor. rewrite Ht in H2. apply orb_true_iff in H2 as [H2|H2].
      * apply andb_true_iff in H2 as [K E]. apply LP.is_kind_true in K. specialize (Hfor K).
        destruct (attr_tok K_end n); [discriminate|congruence].
      * apply andb_true_iff in H2 as [I1 I2]. apply insideb_spec in I1. apply range_in_b_ok in I2 as [C D]. auto.
    + intros Hn E. rewrite E in H2. rewrite Hn in H2. discriminate.
  - unfold name_inside_b in H3. intros Hk.
    assert (is_kind KAstProcedure n || is_kind KAstFunction n = true) as E.
    { apply orb_true_iff. destruct Hk as [Hk|Hk]; [left|right]; apply LP.is_kind_true; exact Hk. }
    rewrite E in H3. destruct (nchildren n) as [|c l]; [discriminate|]. apply insideb_spec. exact H3.
Qed.

Lemma all_nodes_b_to (P : node -> Prop) (p : node -> bool) : (forall n, p n = true -> P n) ->
  forall n, all_nodes_b p n = true -> Forall_nodes P n.
Proof.
  intro Hp. fix IH 1. intros [k id raw rng at_ ch] Hb. cbn [all_nodes_b] in Hb. apply andb_true_iff in Hb as [H1 H2].
  split; [apply Hp; exact H1|]. clear H1.
  induction ch as [|c ch IHc]; [exact I|]. apply andb_true_iff in H2 as [A B]. split; [apply IH; exact A|apply IHc; exact B].
Qed.

Theorem wf_tree_b_ok L t : all_nodes_b (node_wf_b L) t = true -> WfTree L t.
Proof. apply all_nodes_b_to. apply node_wf_b_ok. Qed.

(* boolean forms of the conclusions *)
Definition diag_in_b (L : N) (d : R.diag) : bool := range_in_b L (R.d_range d).

(* the guards, decidable on a given workspace *)
Definition tables_at_home_b (ws : W.wst) : bool :=
  forallb (fun jd : nat * W.doc =>
             forallb (fun T => match t_syms T with [] => true | _ =>
                                 match W.find_doc ws (cls_str T) with Some (k, _) => Nat.eqb k (fst jd) | None => true end end)
                     (tables_of false (snd (snd jd)) ++ tables_of true (snd (snd jd))))
          (combine (seq 0 (length ws)) ws).

Lemma nth_error_combine_seq {A} (l : list A) : forall s j x, nth_error l j = Some x -> In ((s + j)%nat, x) (combine (seq s (length l)) l).
Proof.
  induction l as [|y l IH]; intros s [|j] x Hx; try discriminate; cbn [length seq combine].
  - inversion Hx; subst. left. f_equal. lia.
  - right. replace (s + S j)%nat with (S s + j)%nat by lia. apply IH. exact Hx.
Qed.

Theorem tables_at_home_b_ok ws : tables_at_home_b ws = true -> TablesAtHome ws.
Proof.
  intros Hb j d b T k dt Hn HT Hne Hf. unfold tables_at_home_b in Hb. rewrite forallb_forall in Hb.
  specialize (Hb (j, d) (nth_error_combine_seq ws 0 j d Hn)). cbn [fst snd] in Hb. rewrite forallb_forall in Hb.
  assert (In T (tables_of false (snd d) ++ tables_of true (snd d))) as HT'.
  { apply in_or_app. destruct b; [right|left]; exact HT. }
  specialize (Hb T HT'). destruct (t_syms T); [congruence|]. rewrite Hf in Hb. apply Nat.eqb_eq in Hb. exact Hb.
Qed.

Definition doc_eqb_stem (a b : H.doc) : bool := str_eqb (fst a) (fst b).

(* for workspaces with distinct stems a document is identified by its stem *)
Definition tables_at_home_hb (ws : H.wsT) : bool :=
  forallb (fun d : H.doc =>
             forallb (fun T => match t_syms T with [] => true | _ =>
                                 match H.doc_of ws (upper (cls_str T)) with
                                 | Some d' => str_eqb (upper (fst d')) (upper (fst d))
                                 | None => true end end)
                     (tables_of false (snd d))) ws.

Theorem tables_at_home_hb_ok ws : HP.distinct_stems ws -> tables_at_home_hb ws = true -> TablesAtHomeH ws.
Proof.
  intros Hnd Hb d T d' Hd HT Hne Hf. unfold tables_at_home_hb in Hb. rewrite forallb_forall in Hb.
  specialize (Hb d Hd). rewrite forallb_forall in Hb. specialize (Hb T HT). destruct (t_syms T); [congruence|].
  rewrite Hf in Hb. apply str_eqb_eq in Hb. destruct (doc_of_found _ _ _ Hf) as (Hd' & _ & Hu).
  rewrite Hb, (HP.doc_of_unique ws d Hnd Hd) in Hu. congruence.
Qed.

(* ========================================================================================== *)
(* (d) composition with the lexer and the parser: statements about TEXTS                       *)
(* ========================================================================================== *)

(* the tree parse_content gets for a text (parse_gold is total: C04; the last arm is never taken) *)
Definition root_of_text (text : str) : node :=
  match fst (parse_gold (fst (lex text))) with
  | Ok _ root => root
  | _ => Node KAstRoot [] 0 range0 [] []
  end.

(* Document::get_parser_diagnostics(): the parser's diagnostics (in report order), then the lexer's errors;
   `emsg` = the text the server prints for a lexer error (any function) *)
Definition pd_of_parse (ds : list PComb.pdiag) (errs : list lexerr) (emsg : lexerr -> str) : list R.pdiag :=
  map (fun d => R.mkPD (drange d) (dmsg d)) (rev ds) ++ map (fun e => R.mkPD (erange e) (emsg e)) errs.

Definition pd_of_text (text : str) (emsg : lexerr -> str) : list R.pdiag :=
  pd_of_parse (cdiags (snd (parse_gold (fst (lex text))))) (snd (lex text)) emsg.

Lemma pd_of_parse_wf L ds errs emsg :
  Forall (DiagWf L) ds -> Forall (fun e => range_wf (erange e) /\ lines_le L (erange e)) errs ->
  PdWf L (pd_of_parse ds errs emsg).
Proof.
  intros Hd He. unfold PdWf, pd_of_parse. apply Forall_app. split.
  - apply Forall_forall. intros p Hp. apply in_map_iff in Hp as (d & <- & Hin). apply in_rev in Hin.
    rewrite Forall_forall in Hd. exact (Hd d Hin).
  - apply Forall_forall. intros p Hp. apply in_map_iff in Hp as (e & <- & Hin).
    rewrite Forall_forall in He. exact (He e Hin).
Qed.

(* C08_parse_gold_wf (Properties/C08.v), restated here to be used below *)
Lemma parse_gold_wf_ex L ts : TokSorted L ts ->
  exists root c, parse_gold ts = (Ok [] root, c) /\ Forall_nodes (NodeWf L) root /\ Forall (DiagWf L) (cdiags c).
Proof.
  intros Hs. unfold parse_gold.
  destruct (parse_gold_total true (default_fuel ts) ts) as [root Hr]; [unfold default_fuel; lia|].
  pose proof (parse_gold_wf L ts true (default_fuel ts) Hs) as HW.
  destruct (parse_gold_with true (default_fuel ts) ts) as [r c]. cbn [fst] in Hr. subst r.
  exists root, c. split; [reflexivity|exact HW].
Qed.

Lemma parsed_text_facts text :
  exists root c, parse_gold (fst (lex text)) = (Ok [] root, c) /\ root_of_text text = root /\
    WfTree (lf_count text) root /\ Forall (DiagWf (lf_count text)) (cdiags c).
Proof.
  destruct (parse_gold_wf_ex (lf_count text) (fst (lex text)) (lex_TokSorted text)) as (root & c & E & Hn & Hd).
  exists root, c. split; [exact E|]. split; [unfold root_of_text; rewrite E; reflexivity|]. split; assumption.
Qed.

(* the hypothesis of (a)-(c) holds for the tree of ANY text *)
Theorem root_of_text_wf text : WfTree (lf_count text) (root_of_text text).
Proof. destruct (parsed_text_facts text) as (root & c & _ & -> & Hn & _). exact Hn. Qed.

Theorem pd_of_text_wf text emsg : PdWf (lf_count text) (pd_of_text text emsg).
Proof.
  destruct (parsed_text_facts text) as (root & c & E & _ & _ & Hd). unfold pd_of_text. rewrite E. cbn [snd].
  apply pd_of_parse_wf; [exact Hd|apply lex_errors_wf].
Qed.

(* response_of_parsed_text: for ANY text, every item of the diagnostics response assembled for its tree and its
   parser / lexer diagnostics has start <= end on lines of the text *)
Theorem response_of_parsed_text text emsg :
  Forall (fun d => range_wf (R.d_range d) /\ lines_le (lf_count text) (R.d_range d))
         (R.report (root_of_text text) (pd_of_text text emsg)).
Proof. apply report_items_wf; [apply root_of_text_wf|apply pd_of_text_wf]. Qed.

(* a workspace of texts *)
Definition ws_of_texts (tx : list (str * str)) : W.wst := map (fun st => (fst st, root_of_text (snd st))) tx.
Definition lines_of_texts (tx : list (str * str)) : list N := map (fun st => lf_count (snd st)) tx.

Theorem ws_of_texts_wf tx : WsWf (ws_of_texts tx) (lines_of_texts tx).
Proof.
  unfold WsWf, ws_of_texts, lines_of_texts. induction tx as [|st tx IH]; [constructor|].
  cbn [map]. constructor; [apply root_of_text_wf|exact IH].
Qed.

(* one parsed document: every definition link is well formed within the text *)
Theorem links_of_parsed_text text stem p ls :
  definition (root_of_text text) stem p = Ans ls ->
  Forall (fun l => RangeIn (lf_count text) (fst l) /\ RangeIn (lf_count text) (snd l) /\ inside (fst l) (snd l)) ls.
Proof. apply definition_links_wf_doc. apply root_of_text_wf. Qed.

(* a workspace of parsed documents: links and hierarchy items *)
Theorem links_of_parsed_texts tx a p ls :
  TablesAtHome (ws_of_texts tx) -> W.wdefinition (ws_of_texts tx) a p = Ans ls ->
  Forall (fun l : W.wlink =>
            let '(stem, sel, rng) := l in
            exists k dt L, W.find_doc (ws_of_texts tx) stem = Some (k, dt) /\ fst dt = stem /\
                           nth_error (lines_of_texts tx) k = Some L /\
                           RangeIn L sel /\ RangeIn L rng /\ inside sel rng) ls.
Proof. apply definition_links_wf. apply ws_of_texts_wf. Qed.

Theorem items_of_parsed_texts tx :
  HP.distinct_stems (ws_of_texts tx) -> TablesAtHomeH (ws_of_texts tx) ->
  (forall d p l, In d (ws_of_texts tx) -> H.prepare (ws_of_texts tx) d p = Ans (H.ROk l) ->
                 Forall (ItemWf (ws_of_texts tx) (lines_of_texts tx)) l) /\
  (forall tr it l, H.supertypes_of (ws_of_texts tx) tr it = Ans (H.ROk l) -> Forall (ItemWf (ws_of_texts tx) (lines_of_texts tx)) l) /\
  (forall tr it l, H.subtypes_of (ws_of_texts tx) tr it = Ans (H.ROk l) -> Forall (ItemWf (ws_of_texts tx) (lines_of_texts tx)) l).
Proof. apply hierarchy_items_wf. apply ws_of_texts_wf. Qed.
