(* C08 at tree level for EVERY response kind.
     (a) the assembled diagnostics response  Report.report t pd
     (b) definition links                    DefTree.definition / WsTree.wdefinition
     (c) hierarchy items                     HierTree.prepare / supertypes / subtypes
     (d) composition with the parser: the statements about parsed texts
     (e) the rule of a seeded defect (merging two consecutive parser diagnostics), for the regression
         statement C08_old_merged_run_refuted
   Hypothesis throughout: `Forall_nodes (NodeWf L) t`, the invariant the parser establishes for every token
   list of the lexer (C08_parse_gold_wf).  No further invariant on token-valued attributes is needed: every
   range a response item carries is a node range, the range of a procedure's / function's name node (first
   child), or the K_ident token of a DECLARATION node, which SelOK covers (the only unguarded K_ident token,
   the counter of a `for` block without end token, is never used as a response range). *)
From GoldV Require Import Base Tokens Keywords Lexer AstKinds Tree Strings PComb Grammar Outline
                          LexerProofs ParserWF GrammarWF OutlineProofs
                          RangeBase RangeRel RangeComb RangeGrammar RangeTop.
From GoldV Require UnusedVar Lints UnusedVarProofs LintsProofs Report ReportProofs.
From Coq Require Import Sorted Lia.

Module U := UnusedVar.
Module Li := Lints.
Module UP := UnusedVarProofs.
Module LP := LintsProofs.
Module R := Report.

(* ========================================================================================== *)
(* 0. ranges within a document of L line feeds; the nodes of a tree                            *)
(* ========================================================================================== *)

(* start <= end, both lines exist *)
Definition RangeIn (L : N) (r : range) : Prop := range_wf r /\ lines_le L r.

Definition WfTree (L : N) (t : node) : Prop := Forall_nodes (NodeWf L) t.

Lemma child_in_nodes n c : In c (nchildren n) -> In c (LP.nodes n).
Proof.
  intro H. rewrite LP.nodes_eq. right. apply in_flat_map. exists c. split; [exact H|].
  rewrite LP.nodes_eq. left. reflexivity.
Qed.

(* the invariant holds on every subtree *)
Lemma Forall_nodes_sub (P : node -> Prop) t :
  Forall_nodes P t -> forall n, In n (LP.nodes t) -> Forall_nodes P n.
Proof.
  induction t as [k i r rg a ch IH] using LP.node_ind2. intros H n Hn.
  rewrite LP.nodes_eq in Hn. destruct Hn as [<-|Hn]; [exact H|].
  apply Forall_nodes_unfold in H as [_ Hch]. cbn [nchildren] in *.
  apply in_flat_map in Hn as (c & Hc & Hn). rewrite Forall_forall in IH, Hch.
  exact (IH c Hc (Hch c Hc) n Hn).
Qed.

Lemma Forall_nodes_child (P : node -> Prop) t c : Forall_nodes P t -> In c (nchildren t) -> Forall_nodes P c.
Proof. intros H Hc. apply (Forall_nodes_sub P t H). apply child_in_nodes. exact Hc. Qed.

Lemma Forall_nodes_here (P : node -> Prop) t : Forall_nodes P t -> P t.
Proof. intro H. apply Forall_nodes_unfold in H. apply H. Qed.

(* the two pre-order listings of the checker models are the same list *)
Lemma subnodes_nodes n : U.subnodes n = LP.nodes n.
Proof.
  induction n as [k i r rg a ch IH] using LP.node_ind2.
  rewrite UP.subnodes_eq, LP.nodes_eq. f_equal. cbn [nchildren].
  apply LP.flat_map_ext_in. intros c Hc. rewrite Forall_forall in IH. apply IH. exact Hc.
Qed.

Lemma Forall_nodes_subnodes (P : node -> Prop) t n : Forall_nodes P t -> In n (U.subnodes t) -> Forall_nodes P n.
Proof. intros H Hn. rewrite subnodes_nodes in Hn. exact (Forall_nodes_sub P t H n Hn). Qed.

Lemma Forall_nodes_below (P : node -> Prop) t n :
  Forall_nodes P t -> In n (flat_map U.subnodes (nchildren t)) -> Forall_nodes P n.
Proof.
  intros H Hn. apply in_flat_map in Hn as (c & Hc & Hn).
  eapply Forall_nodes_subnodes; [eapply Forall_nodes_child; eassumption|exact Hn].
Qed.

Lemma Forall_nodes_body (P : node -> Prop) t n : Forall_nodes P t -> In n (LP.body t) -> Forall_nodes P n.
Proof. intros H Hn. apply (Forall_nodes_sub P t H). rewrite LP.nodes_body. right. exact Hn. Qed.

(* ---- the three kinds of range a response item carries ---- *)

Lemma node_range_in L n : NodeWf L n -> RangeIn L (nrange n).
Proof. intros (A & B & _). split; assumption. Qed.

(* the identifier token of a declaration (or the node's own range when the token is absent) *)
Lemma ident_range_in L n : NodeWf L n -> nkind n <> KAstForBlock -> RangeIn L (Li.ident_range n).
Proof.
  intros (A & B & [Sel _] & _) Hk. unfold Li.ident_range.
  destruct (attr_tok K_ident n) as [t|] eqn:E; [|split; assumption].
  destruct (Sel t eq_refl (fun X => False_ind _ (Hk X))) as (_ & C & D). split; assumption.
Qed.

Lemma ident_range_inside L n : NodeWf L n -> nkind n <> KAstForBlock -> inside (Li.ident_range n) (nrange n).
Proof.
  intros (A & B & [Sel _] & _) Hk. unfold Li.ident_range.
  destruct (attr_tok K_ident n) as [t|] eqn:E; [|apply inside_refl].
  destruct (Sel t eq_refl (fun X => False_ind _ (Hk X))) as (C & _). exact C.
Qed.

(* the name node of a procedure / function (first child; the node's own range when there is none) *)
Lemma name_range_in L n : WfTree L n -> RangeIn L (Li.name_range n).
Proof.
  intro H. unfold Li.name_range, Li.child.
  destruct (nth_error (nchildren n) 0) as [c|] eqn:E.
  - apply nth_error_In in E. apply node_range_in. apply Forall_nodes_here. eapply Forall_nodes_child; eassumption.
  - apply node_range_in. apply Forall_nodes_here. exact H.
Qed.

Lemma kind_ne k1 k2 n : nkind n = k1 -> k1 <> k2 -> nkind n <> k2.
Proof. intros -> H. exact H. Qed.

(* ========================================================================================== *)
(* (a) the assembled diagnostics response                                                      *)
(* ========================================================================================== *)

(* the shape C08_diag_wf gives, on the response's own record *)
Definition PdWf (L : N) (pd : list R.pdiag) : Prop := Forall (fun p => RangeIn L (R.pd_range p)) pd.

(* ---- UnusedVarAnalyzer: "Unused var" and "Var name already declared" sit on the declared name ---- *)
Lemma unused_items_in L t : WfTree L t -> forall keyf d, In d (U.analyze keyf t) -> RangeIn L (U.drange d).
Proof.
  intros H keyf d Hd. pose proof (UP.placement keyf t) as P. rewrite Forall_forall in P.
  destruct (P d Hd) as (m & n & Hm & Hn & (Hl & Er & _)). rewrite Er.
  unfold UP.all_methods in Hm. apply filter_In in Hm as [Hm _].
  pose proof (Forall_nodes_below _ t m H Hm) as Wm.
  unfold UP.local_decls in Hn. apply filter_In in Hn as [Hn _].
  unfold UP.stmts in Hn. destruct (U.method_body m) as [b|] eqn:Eb; [|destruct Hn].
  unfold U.method_body in Eb. apply find_some in Eb as [Hb _].
  pose proof (Forall_nodes_child _ m b Wm Hb) as Wb.
  pose proof (Forall_nodes_below _ b n Wb Hn) as Wn.
  change (U.ident_range n) with (Li.ident_range n). apply ident_range_in; [apply Forall_nodes_here; exact Wn|].
  unfold UP.is_lvar in Hl. apply LP.is_kind_true in Hl. rewrite Hl. discriminate.
Qed.

(* ---- FunctionReturnTypeChecker: on the return type node ---- *)
Lemma ret_items_in L t : WfTree L t -> forall d, In d (Li.ret_type_lint t) -> RangeIn L (Li.drng d).
Proof.
  intros H d Hd. rewrite LP.ret_type_lint_body in Hd. apply in_flat_map in Hd as (f & Hf & Hd).
  apply LP.ret_verdict_spec in Hd as (_ & rt & tk & key & Hc & _ & _ & _ & _ & ->). cbn [Li.drng].
  unfold Li.child in Hc. apply nth_error_In in Hc.
  apply node_range_in. apply Forall_nodes_here. eapply Forall_nodes_child; [|exact Hc].
  eapply Forall_nodes_body; eassumption.
Qed.

(* ---- UnpurgedVarByteArrayChecker: on the local's name ---- *)
Lemma unp_items_in L n : WfTree L n -> forall d, In d (LP.unp_verdict n) -> RangeIn L (Li.drng d).
Proof.
  intros H d Hd. unfold LP.unp_verdict in Hd. destruct (Li.is_method n); [|destruct Hd].
  rewrite LP.unp_scan_spec in Hd. apply LP.spec_purge_in in Hd as (v & (Hv & Hk & _) & ->).
  unfold LP.purge_diag. cbn [Li.drng]. apply ident_range_in.
  - apply Forall_nodes_here. eapply Forall_nodes_body; eassumption.
  - unfold Li.is_tvba_local in Hk. apply andb_true_iff in Hk as [Hk _]. apply LP.is_kind_true in Hk.
    rewrite Hk. discriminate.
Qed.

(* ---- NamingConventionChecker: on the name ---- *)
Lemma name_items_in L anc n : WfTree L n -> forall d, In d (LP.name_verdict anc n) -> RangeIn L (Li.drng d).
Proof.
  intros H d Hd. apply LP.name_verdict_in in Hd as (cls & HR & ->). cbn [Li.drng].
  pose proof (Forall_nodes_here _ _ H) as Hn.
  destruct cls; cbn [LP.R_name LP.name_rng] in *; try contradiction;
    try (apply name_range_in; exact H);
    (apply ident_range_in; [exact Hn|]; destruct HR as [Hk _]; rewrite Hk; discriminate).
Qed.

(* ---- InheritedChecker: on the method name ---- *)
Lemma inh_items_in L n : WfTree L n -> forall d, In d (LP.inh_verdict n) -> RangeIn L (Li.drng d).
Proof.
  intros H d Hd. rewrite LP.inh_verdict_spec in Hd. destruct (Li.is_method n); [|destruct Hd].
  apply LP.spec_inh_in in Hd as [_ ->]. unfold LP.inh_diag. cbn [Li.drng]. apply name_range_in. exact H.
Qed.

(* ---- the shared collector ---- *)
Lemma v2_items_in L t : WfTree L t -> forall d, In d (R.v2_walk t) -> RangeIn L (Li.drng d).
Proof.
  intros H d Hd. rewrite ReportProofs.v2_walk_eq in Hd. apply in_flat_map in Hd as ([anc n] & Hp & Hd).
  assert (In n (LP.nodes t)) as Hn.
  { rewrite <- (LP.map_snd_pre t []). apply in_map_iff. exists (anc, n). split; [reflexivity|exact Hp]. }
  pose proof (Forall_nodes_sub _ t H n Hn) as Wn.
  unfold ReportProofs.node_verdicts in Hd. cbn [fst snd] in Hd.
  apply in_app_or in Hd as [Hd|Hd]; [exact (unp_items_in L n Wn d Hd)|].
  apply in_app_or in Hd as [Hd|Hd]; [exact (name_items_in L anc n Wn d Hd)|exact (inh_items_in L n Wn d Hd)].
Qed.

(* report_items_wf: every item of the diagnostics response *)
Theorem report_items_wf L t pd :
  WfTree L t -> PdWf L pd ->
  Forall (fun d => range_wf (R.d_range d) /\ lines_le L (R.d_range d)) (R.report t pd).
Proof.
  intros H Hpd. apply Forall_forall. intros d Hd. unfold R.report, R.v1_report in Hd.
  apply in_app_or in Hd as [Hd|Hd].
  { apply in_map_iff in Hd as (p & <- & Hp). unfold PdWf in Hpd. rewrite Forall_forall in Hpd. exact (Hpd p Hp). }
  apply in_app_or in Hd as [Hd|Hd].
  { apply in_app_or in Hd as [Hd|Hd]; apply in_map_iff in Hd as (x & <- & Hx).
    - exact (unused_items_in L t H U.key_today x Hx).
    - exact (ret_items_in L t H x Hx). }
  apply in_map_iff in Hd as (x & <- & Hx). exact (v2_items_in L t H x Hx).
Qed.

(* the same for every request on a document (the cached v1 list is the one computed first) *)
Theorem request_items_wf L d :
  ReportProofs.rdoc_ok d -> WfTree L (R.r_ast d) -> PdWf L (R.r_pd d) ->
  Forall (fun x => range_wf (R.d_range x) /\ lines_le L (R.d_range x)) (fst (R.request d)).
Proof.
  intros Hok H Hpd. rewrite (proj1 (ReportProofs.request_ok d Hok)). apply report_items_wf; assumption.
Qed.
