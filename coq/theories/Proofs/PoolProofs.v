(* C20: invariants of the worker-pool model over all reachable states, progress of Drop,
   parallel filling of the workers, and soundness of the trace monitor. *)
From GoldV Require Import Base Pool.
From Coq Require Import Permutation.
Local Open Scope nat_scope.

(* ---------------------------------------------------------------------------------------- *)
(* list helpers                                                                               *)
(* ---------------------------------------------------------------------------------------- *)

Lemma upd_length {A} i (x : A) l : length (upd i x l) = length l.
Proof. revert i; induction l as [|y l IH]; intros [|i]; simpl; auto. Qed.

Lemma nth_upd_same {A} i (x : A) l : i < length l -> nth_error (upd i x l) i = Some x.
Proof.
  revert i; induction l as [|y l IH]; intros [|i] H; simpl in *; try lia; auto.
  apply IH; lia.
Qed.

Lemma nth_upd_other {A} i k (x : A) l : i <> k -> nth_error (upd i x l) k = nth_error l k.
Proof.
  revert i k; induction l as [|y l IH]; intros [|i] [|k] H; simpl; auto; try congruence;
    try (apply IH; lia).
Qed.

Lemma upd_upd {A} i (x y : A) l : upd i x (upd i y l) = upd i x l.
Proof. revert i; induction l as [|z l IH]; intros [|i]; simpl; auto. f_equal; apply IH. Qed.

Lemma map_upd {A B} (f : A -> B) i x l : map f (upd i x l) = upd i (f x) (map f l).
Proof. revert i; induction l as [|z l IH]; intros [|i]; simpl; auto. f_equal; apply IH. Qed.

Lemma nth_error_lt {A} (l : list A) i x : nth_error l i = Some x -> i < length l.
Proof. intro H. apply nth_error_Some. congruence. Qed.

(* multiplicity of a job id in a list *)
Fixpoint occ (j : N) (l : list N) : nat :=
  match l with
  | [] => 0
  | x :: l' => (if N.eqb x j then 1 else 0) + occ j l'
  end.

Lemma occ_app j a b : occ j (a ++ b) = occ j a + occ j b.
Proof. induction a as [|x a IH]; simpl; auto. rewrite IH. lia. Qed.

Lemma occ_count j l : occ j l = count_occ N.eq_dec l j.
Proof.
  induction l as [|x l IH]; simpl; auto.
  destruct (N.eq_dec x j) as [E|E].
  - subst. rewrite N.eqb_refl. lia.
  - apply N.eqb_neq in E. rewrite E. lia.
Qed.

Lemma occ_perm a b : (forall j, occ j a = occ j b) <-> Permutation a b.
Proof.
  rewrite (Permutation_count_occ N.eq_dec). split; intros H j.
  - rewrite <- !occ_count. apply H.
  - rewrite !occ_count. apply H.
Qed.

Lemma occ_nodup l : NoDup l <-> forall j, occ j l <= 1.
Proof.
  rewrite (NoDup_count_occ N.eq_dec). split; intros H j.
  - rewrite occ_count. apply H.
  - rewrite <- occ_count. apply H.
Qed.

Lemma occ_In j l : In j l <-> 1 <= occ j l.
Proof. rewrite (count_occ_In N.eq_dec). rewrite occ_count. lia. Qed.

Lemma memN_In j l : memN j l = true <-> In j l.
Proof.
  unfold memN. rewrite existsb_exists. split.
  - intros [x [Hx E]]. apply N.eqb_eq in E. subst. exact Hx.
  - intro H. exists j. split; [exact H | apply N.eqb_refl].
Qed.

Lemma memN_occ0 j l : memN j l = false -> occ j l = 0.
Proof.
  intro H. destruct (occ j l) eqn:E; auto.
  assert (In j l) by (apply occ_In; lia). apply memN_In in H0. congruence.
Qed.

(* sums over the worker vector *)
Fixpoint sumf (f : wstat -> nat) (ws : list wstat) : nat :=
  match ws with [] => 0 | s :: r => f s + sumf f r end.

Lemma sumf_upd f w old new ws :
  nth_error ws w = Some old -> sumf f (upd w new ws) + f old = sumf f ws + f new.
Proof.
  revert w; induction ws as [|s ws IH]; intros [|w] H; simpl in *; try discriminate.
  - inversion H; subst. lia.
  - specialize (IH _ H). lia.
Qed.

Lemma sumf_le1 f ws : (forall s, f s <= 1) -> sumf f ws <= length ws.
Proof. intro H. induction ws as [|s ws IH]; simpl; auto. specialize (H s). lia. Qed.

Lemma sumf_lt f ws w s :
  (forall s, f s <= 1) -> nth_error ws w = Some s -> f s = 0 -> sumf f ws < length ws.
Proof.
  intro H. revert w; induction ws as [|s0 ws IH]; intros [|w] Hn Hz; simpl in *; try discriminate.
  - inversion Hn; subst. pose proof (sumf_le1 f ws H). lia.
  - specialize (IH _ Hn Hz). specialize (H s0). lia.
Qed.

Lemma sumf_zero f ws w s : sumf f ws = 0 -> nth_error ws w = Some s -> f s = 0.
Proof.
  revert w; induction ws as [|s0 ws IH]; intros [|w] Hz Hn; simpl in *; try discriminate.
  - inversion Hn; subst. lia.
  - eapply IH; eauto. lia.
Qed.

Lemma sumf_pos f ws w s : nth_error ws w = Some s -> 0 < f s -> 0 < sumf f ws.
Proof.
  revert w; induction ws as [|s0 ws IH]; intros [|w] Hn Hp; simpl in *; try discriminate.
  - inversion Hn; subst. lia.
  - specialize (IH _ Hn Hp). lia.
Qed.

Lemma length_flat_map (f : wstat -> list N) ws :
  length (flat_map f ws) = sumf (fun s => length (f s)) ws.
Proof. induction ws as [|s ws IH]; simpl; auto. rewrite app_length, IH. reflexivity. Qed.

Lemma occ_upd {A} (f : A -> list N) j w (old new : A) ws :
  nth_error ws w = Some old ->
  occ j (flat_map f (upd w new ws)) + occ j (f old) = occ j (flat_map f ws) + occ j (f new).
Proof.
  revert w; induction ws as [|s ws IH]; intros [|w] H; simpl in *; try discriminate.
  - inversion H; subst. rewrite !occ_app. lia.
  - specialize (IH _ H). rewrite !occ_app. lia.
Qed.

Lemma occ_nth_le {A} (f : A -> list N) j w (s : A) ws :
  nth_error ws w = Some s -> occ j (f s) <= occ j (flat_map f ws).
Proof.
  revert w; induction ws as [|s0 ws IH]; intros [|w] H; simpl in *; try discriminate.
  - inversion H; subst. rewrite occ_app. lia.
  - specialize (IH _ H). rewrite occ_app. lia.
Qed.

(* ---------------------------------------------------------------------------------------- *)
(* observables of a state                                                                     *)
(* ---------------------------------------------------------------------------------------- *)

Definition job_of_msg (m : msg) : list N := match m with Job j => [j] | Terminate => [] end.
Definition qjobs (q : list msg) : list N := flat_map job_of_msg q.
Definition is_term (m : msg) : bool := match m with Terminate => true | Job _ => false end.
Definition qterms (q : list msg) : nat := length (filter is_term q).

(* a job that has left the channel and is not yet entered *)
Definition held_of (s : wstat) : list N :=
  match s with Holding (Job j) => [j] | Ready (Job j) => [j] | _ => [] end.
Definition run_of (s : wstat) : list N := match s with Running j => [j] | _ => [] end.
Definition held (ws : list wstat) : list N := flat_map held_of ws.
Definition running (ws : list wstat) : list N := flat_map run_of ws.

Definition has_lock (s : wstat) : bool :=
  match s with Locked => true | Holding _ => true | _ => false end.
(* the worker has consumed a Terminate *)
Definition term_of (s : wstat) : bool :=
  match s with Holding Terminate => true | Ready Terminate => true | Stopped => true | _ => false end.
Definition b2n (b : bool) : nat := if b then 1 else 0.
Definition nterm (ws : list wstat) : nat := sumf (fun s => b2n (term_of s)) ws.

(* no Job behind a Terminate *)
Fixpoint qshape (q : list msg) : bool :=
  match q with
  | [] => true
  | Job _ :: q' => qshape q'
  | Terminate :: q' => forallb is_term q'
  end.

Lemma qjobs_app a b : qjobs (a ++ b) = qjobs a ++ qjobs b.
Proof. apply flat_map_app. Qed.

Lemma qjobs_cons_job j q : qjobs (Job j :: q) = j :: qjobs q.
Proof. reflexivity. Qed.
Lemma qjobs_cons_term q : qjobs (Terminate :: q) = qjobs q.
Proof. reflexivity. Qed.
Lemma qjobs_nil : qjobs [] = [].
Proof. reflexivity. Qed.

Lemma qterms_app a b : qterms (a ++ b) = qterms a + qterms b.
Proof. unfold qterms. rewrite filter_app, app_length. reflexivity. Qed.

Lemma allterm_qjobs q : forallb is_term q = true -> qjobs q = [].
Proof.
  induction q as [|[j|] q IH]; simpl; intro H; auto; try discriminate.
Qed.

Lemma allterm_snoc q : forallb is_term q = true -> forallb is_term (q ++ [Terminate]) = true.
Proof. intro H. rewrite forallb_app, H. reflexivity. Qed.

Lemma qshape_snoc_term q : qshape q = true -> qshape (q ++ [Terminate]) = true.
Proof.
  induction q as [|[j|] q IH]; simpl; intro H; auto. apply allterm_snoc; exact H.
Qed.

Lemma qshape_snoc_job q j : qshape q = true -> qterms q = 0 -> qshape (q ++ [Job j]) = true.
Proof.
  induction q as [|[j'|] q IH]; simpl; intros H Hz; auto. unfold qterms in Hz; simpl in Hz. discriminate.
Qed.

Lemma qshape_tail m q : qshape (m :: q) = true -> qshape q = true.
Proof.
  destruct m; simpl; auto. intro H. induction q as [|[j|] q IH]; simpl in *; auto; try discriminate.
Qed.

Lemma qterms_pos_nonempty q : 0 < qterms q -> q <> [].
Proof. intros H E. subst. unfold qterms in H. simpl in H. lia. Qed.

Lemma qterms0_head m q : qterms (m :: q) = 0 -> exists j, m = Job j.
Proof. destruct m; [eauto|]. unfold qterms; simpl; discriminate. Qed.

Lemma term_le1 s : b2n (term_of s) <= 1.
Proof. destruct (term_of s); simpl; lia. Qed.

(* ---------------------------------------------------------------------------------------- *)
(* the invariant                                                                              *)
(* ---------------------------------------------------------------------------------------- *)

Record Inv (n : nat) (st : state) : Prop := mkInv {
  inv_pos : 0 < n;
  inv_len : length (workers st) = n;
  inv_nodup : forall j, occ j (submitted st) <= 1;
  inv_cons : forall j, occ j (qjobs (queue st)) + occ j (held (workers st))
                       + occ j (running (workers st)) + occ j (finished st)
                       = occ j (submitted st);
  inv_started : forall j, occ j (started st) = occ j (running (workers st)) + occ j (finished st);
  inv_lock : forall w, lock st = Some w <->
                       exists s, nth_error (workers st) w = Some s /\ has_lock s = true;
  inv_shape : qshape (queue st) = true;
  inv_terms : match phase st with
              | Open => qterms (queue st) + nterm (workers st) = 0
              | Dropping k => qterms (queue st) + nterm (workers st) = k /\ k < n
              | Joining k => qterms (queue st) + nterm (workers st) = n /\ k <= n /\
                             forall w, w < k -> nth_error (workers st) w = Some Stopped
              | Joined => qterms (queue st) + nterm (workers st) = n /\
                          forall w, w < n -> nth_error (workers st) w = Some Stopped
              end;
  inv_drained : 0 < nterm (workers st) -> qjobs (queue st) = []
}.

Definition reachable (n : nat) (st : state) : Prop := exists evs, run (init n) evs = Some st.

Lemma repeat_idle_flat (f : wstat -> list N) n : f Idle = [] -> flat_map f (repeat Idle n) = [].
Proof. intro H. induction n; simpl; auto. rewrite H, IHn. reflexivity. Qed.

Lemma repeat_idle_sumf f n : f Idle = 0 -> sumf f (repeat Idle n) = 0.
Proof. intro H. induction n; simpl; auto. lia. Qed.

Lemma nth_repeat_inv {A} (x y : A) n w : nth_error (repeat x n) w = Some y -> y = x.
Proof.
  revert w; induction n; intros [|w] H; simpl in *; try discriminate.
  - congruence.
  - eauto.
Qed.

Lemma init_inv n : 0 < n -> Inv n (init n).
Proof.
  intro Hn. unfold init. constructor; cbn [queue lock workers phase submitted started finished].
  - exact Hn.
  - apply repeat_length.
  - intro j. simpl. lia.
  - intro j. unfold held, running. rewrite !repeat_idle_flat by reflexivity. simpl. lia.
  - intro j. unfold running. rewrite repeat_idle_flat by reflexivity. simpl. lia.
  - intro w. split; [discriminate|]. intros [s [H1 H2]]. apply nth_repeat_inv in H1. subst. discriminate.
  - reflexivity.
  - unfold nterm. rewrite repeat_idle_sumf by reflexivity. reflexivity.
  - unfold nterm. rewrite repeat_idle_sumf by reflexivity. lia.
Qed.

(* how the lock invariant moves with one worker's status *)
Definition lock_ok (lk : option nat) (ws : list wstat) : Prop :=
  forall w, lk = Some w <-> exists s, nth_error ws w = Some s /\ has_lock s = true.

Lemma lock_upd_keep lk ws w0 old new :
  lock_ok lk ws -> nth_error ws w0 = Some old -> has_lock old = has_lock new ->
  lock_ok lk (upd w0 new ws).
Proof.
  intros H Hn Hl w. rewrite (H w). pose proof (nth_error_lt _ _ _ Hn) as Hlt.
  destruct (Nat.eq_dec w0 w) as [->|Hne].
  - rewrite nth_upd_same by exact Hlt. split; intros [s [H1 H2]].
    + exists new. split; auto. rewrite Hn in H1. inversion H1; subst. congruence.
    + exists old. split; auto. inversion H1; subst. congruence.
  - rewrite nth_upd_other by exact Hne. reflexivity.
Qed.

Lemma lock_upd_acquire ws w0 old new :
  lock_ok None ws -> nth_error ws w0 = Some old -> has_lock new = true ->
  lock_ok (Some w0) (upd w0 new ws).
Proof.
  intros H Hn Hl w. pose proof (nth_error_lt _ _ _ Hn) as Hlt. split.
  - intro E. inversion E; subst. exists new. split; auto. apply nth_upd_same; exact Hlt.
  - intros [s [H1 H2]]. destruct (Nat.eq_dec w0 w) as [->|Hne]; auto.
    rewrite nth_upd_other in H1 by exact Hne.
    assert (None = Some w) by (apply H; eauto). discriminate.
Qed.

Lemma lock_upd_release lk ws w0 old new :
  lock_ok lk ws -> nth_error ws w0 = Some old -> has_lock old = true -> has_lock new = false ->
  lock_ok None (upd w0 new ws).
Proof.
  intros H Hn Ho Hl w. pose proof (nth_error_lt _ _ _ Hn) as Hlt. split; [discriminate|].
  intros [s [H1 H2]]. exfalso. destruct (Nat.eq_dec w0 w) as [->|Hne].
  - rewrite nth_upd_same in H1 by exact Hlt. inversion H1; subst. congruence.
  - rewrite nth_upd_other in H1 by exact Hne.
    assert (lk = Some w) by (apply H; eauto). assert (lk = Some w0) by (apply H; eauto). congruence.
Qed.

Lemma stopped_upd ws w0 old new k :
  nth_error ws w0 = Some old -> old <> Stopped ->
  (forall w, w < k -> nth_error ws w = Some Stopped) ->
  (forall w, w < k -> nth_error (upd w0 new ws) w = Some Stopped).
Proof.
  intros Hn Ho H w Hw. destruct (Nat.eq_dec w0 w) as [->|Hne].
  - specialize (H _ Hw). congruence.
  - rewrite nth_upd_other by exact Hne. auto.
Qed.

Lemma stopped_upd_stopped ws w0 k :
  (forall w, w < k -> nth_error ws w = Some Stopped) ->
  (forall w, w < k -> nth_error (upd w0 Stopped ws) w = Some Stopped).
Proof.
  intros H w Hw. destruct (Nat.eq_dec w0 w) as [->|Hne].
  - apply nth_upd_same. eapply nth_error_lt. apply H. exact Hw.
  - rewrite nth_upd_other by exact Hne. auto.
Qed.

(* the facts about one worker moving from `old` to `new` *)
Lemma worker_move ws w old new :
  nth_error ws w = Some old ->
  (forall j, occ j (held (upd w new ws)) + occ j (held_of old) = occ j (held ws) + occ j (held_of new)) /\
  (forall j, occ j (running (upd w new ws)) + occ j (run_of old) = occ j (running ws) + occ j (run_of new)) /\
  nterm (upd w new ws) + b2n (term_of old) = nterm ws + b2n (term_of new).
Proof.
  intro H. split; [|split].
  - intro j. apply occ_upd. exact H.
  - intro j. apply occ_upd. exact H.
  - unfold nterm. apply (sumf_upd (fun s => b2n (term_of s))). exact H.
Qed.

Ltac inv_step H :=
  repeat match type of H with
         | match ?x with _ => _ end = Some _ =>
             let E := fresh "E" in destruct x eqn:E; try discriminate H
         end;
  injection H as <-.

Ltac occ_tac :=
  let j := fresh "j" in
  intro j;
  repeat match goal with
         | H : forall j : N, _ |- _ => pose proof (H j); clear H
         end;
  rewrite ?qjobs_app, ?qjobs_cons_job, ?qjobs_cons_term, ?qjobs_nil in *;
  cbn [held_of run_of] in *;
  rewrite ?occ_app in *;
  cbn [occ] in *;
  repeat match goal with
         | |- context [N.eqb ?a ?b] => destruct (N.eqb a b)
         | H : context [N.eqb ?a ?b] |- _ => destruct (N.eqb a b)
         end;
  lia.

Ltac terms_tac :=
  match goal with
  | Ht : match ?p with _ => _ end |- match ?p with _ => _ end =>
      destruct p; cbn [b2n term_of] in *;
      repeat match goal with H : _ /\ _ |- _ => destruct H end;
      repeat split; try lia; try assumption
  end.

Ltac wm new :=
  match goal with
  | E : nth_error (workers _) _ = Some _ |- _ =>
      destruct (worker_move _ _ _ new E) as [Hh [Hr Ht]]
  end.
Ltac eqb_subst :=
  match goal with
  | H : N.eqb ?a ?b = true |- _ => apply N.eqb_eq in H; try subst b
  end.
Ltac t_len := rewrite ?upd_length; assumption.
Ltac t_phase_keep :=
  match goal with
  | H : match ?p with _ => _ end |- match ?p with _ => _ end =>
      destruct p; repeat match goal with H : _ /\ _ |- _ => destruct H end; repeat split; auto; try lia
  end.

Lemma step_inv n st e st' : Inv n st -> step st e = Some st' -> Inv n st'.
Proof.
  intros [Hpos Hlen Hnd Hcons Hst Hlock Hshape Hterms Hdr] Hs.
  fold (lock_ok (lock st) (workers st)) in Hlock.
  destruct e; unfold step in Hs; cbv beta iota zeta in Hs.
  - (* ESubmit *)
    inv_step Hs.
    constructor; cbn [queue lock workers phase submitted started finished].
    + exact Hpos.
    + t_len.
    + apply memN_occ0 in E0. intro j0. specialize (Hnd j0). rewrite occ_app. cbn [occ].
      destruct (N.eqb j j0) eqn:Ej; [apply N.eqb_eq in Ej; subst|]; lia.
    + occ_tac.
    + exact Hst.
    + exact Hlock.
    + apply qshape_snoc_job; [assumption | lia].
    + rewrite qterms_app. unfold qterms at 2. simpl. lia.
    + intro H. lia.
  - (* EAcquire *)
    inv_step Hs. wm Locked.
    cbn [b2n term_of] in Ht. rewrite !Nat.add_0_r in Ht.
    constructor; cbn [queue lock workers phase submitted started finished].
    + exact Hpos.
    + t_len.
    + exact Hnd.
    + occ_tac.
    + occ_tac.
    + eapply lock_upd_acquire; eauto.
    + exact Hshape.
    + rewrite Ht. t_phase_keep. all: eapply stopped_upd; eauto; discriminate.
    + rewrite Ht. assumption.
  - (* ERecv *)
    inv_step Hs. wm (Holding m).
    constructor; cbn [queue lock workers phase submitted started finished].
    + exact Hpos.
    + t_len.
    + exact Hnd.
    + destruct m; occ_tac.
    + occ_tac.
    + eapply lock_upd_keep; eauto.
    + eapply qshape_tail; eauto.
    + destruct m as [j|]; cbn [b2n term_of] in Ht; rewrite ?Nat.add_0_r in Ht.
      * assert (Hq : qterms (Job j :: l) = qterms l) by reflexivity. rewrite Hq in Hterms.
        rewrite Ht. t_phase_keep. all: eapply stopped_upd; eauto; discriminate.
      * assert (Hq : qterms (Terminate :: l) = S (qterms l)) by reflexivity. rewrite Hq in Hterms.
        t_phase_keep. all: eapply stopped_upd; eauto; discriminate.
    + destruct m as [j|]; cbn [b2n term_of] in Ht; rewrite ?Nat.add_0_r in Ht.
      * rewrite Ht. intro H. specialize (Hdr H). discriminate.
      * intros _. apply allterm_qjobs. exact Hshape.
  - (* ERelease *)
    inv_step Hs. wm (Ready m).
    assert (Ht' : nterm (upd w (Ready m) (workers st)) = nterm (workers st))
      by (destruct m; cbn [b2n term_of] in Ht; lia).
    constructor; cbn [queue lock workers phase submitted started finished].
    + exact Hpos.
    + t_len.
    + exact Hnd.
    + destruct m; occ_tac.
    + occ_tac.
    + eapply lock_upd_release; eauto.
    + exact Hshape.
    + rewrite Ht'. t_phase_keep. all: eapply stopped_upd; eauto; discriminate.
    + rewrite Ht'. assumption.
  - (* EStart *)
    inv_step Hs. eqb_subst.
    wm (Running j).
    cbn [b2n term_of] in Ht. rewrite !Nat.add_0_r in Ht.
    constructor; cbn [queue lock workers phase submitted started finished].
    + exact Hpos.
    + t_len.
    + exact Hnd.
    + occ_tac.
    + occ_tac.
    + eapply lock_upd_keep; eauto.
    + exact Hshape.
    + rewrite Ht. t_phase_keep. all: eapply stopped_upd; eauto; discriminate.
    + rewrite Ht. assumption.
  - (* EFinish *)
    inv_step Hs. eqb_subst.
    wm Idle.
    cbn [b2n term_of] in Ht. rewrite !Nat.add_0_r in Ht.
    constructor; cbn [queue lock workers phase submitted started finished].
    + exact Hpos.
    + t_len.
    + exact Hnd.
    + occ_tac.
    + occ_tac.
    + eapply lock_upd_keep; eauto.
    + exact Hshape.
    + rewrite Ht. t_phase_keep. all: eapply stopped_upd; eauto; discriminate.
    + rewrite Ht. assumption.
  - (* EExit *)
    inv_step Hs. unfold set_worker.
    wm Stopped.
    cbn [b2n term_of] in Ht. assert (Ht' : nterm (upd w Stopped (workers st)) = nterm (workers st)) by lia.
    constructor; cbn [queue lock workers phase submitted started finished].
    + exact Hpos.
    + t_len.
    + exact Hnd.
    + occ_tac.
    + occ_tac.
    + eapply lock_upd_keep; eauto.
    + exact Hshape.
    + rewrite Ht'. t_phase_keep. all: eapply stopped_upd_stopped; eauto.
    + rewrite Ht'. assumption.
  - (* EDropBegin *)
    inv_step Hs.
    constructor; cbn [queue lock workers phase submitted started finished]; auto.
  - (* ESendTerminate *)
    inv_step Hs. destruct Hterms as [Ht Hk].
    apply Nat.ltb_lt in E0.
    remember (if Nat.eqb (S k) (length (workers st)) then Joining 0 else Dropping (S k)) as ph eqn:Eph.
    constructor; cbn [queue lock workers phase submitted started finished].
    + exact Hpos.
    + t_len.
    + exact Hnd.
    + intro j. rewrite qjobs_app. cbn [qjobs flat_map job_of_msg app]. rewrite app_nil_r. apply Hcons.
    + exact Hst.
    + exact Hlock.
    + apply qshape_snoc_term; assumption.
    + subst ph. rewrite qterms_app. change (qterms [Terminate]) with 1.
      match goal with |- context [if ?c then Joining 0 else _] => destruct c eqn:Ek end.
      * change (Nat.eqb (S k) (length (workers st)) = true) in Ek.
        apply Nat.eqb_eq in Ek. repeat split; try lia.
      * change (Nat.eqb (S k) (length (workers st)) = false) in Ek.
        apply Nat.eqb_neq in Ek. split; lia.
    + intro H. rewrite qjobs_app. cbn [qjobs flat_map job_of_msg app]. rewrite app_nil_r. auto.
  - (* EJoin *)
    inv_step Hs. destruct Hterms as [Ht [Hk Hall]].
    apply Nat.eqb_eq in E2. subst w.
    pose proof (nth_error_lt _ _ _ E0) as Hlt.
    constructor; cbn [queue lock workers phase submitted started finished]; auto.
    repeat split; auto; try lia.
    intros w Hw. destruct (Nat.eq_dec w k) as [->|Hne]; auto. apply Hall. lia.
  - (* EDropEnd *)
    inv_step Hs. destruct Hterms as [Ht [Hk Hall]].
    apply Nat.eqb_eq in E0. subst k.
    constructor; cbn [queue lock workers phase submitted started finished]; auto.
    split; auto. rewrite <- Hlen. exact Hall.
Qed.

(* ---------------------------------------------------------------------------------------- *)
(* reachable states satisfy the invariant                                                     *)
(* ---------------------------------------------------------------------------------------- *)

Lemma run_inv n evs : forall st st', Inv n st -> run st evs = Some st' -> Inv n st'.
Proof.
  induction evs as [|e evs IH]; intros st st' HI Hr; cbn [run] in Hr.
  - inversion Hr; subst; exact HI.
  - destruct (step st e) as [st1|] eqn:Es; [|discriminate].
    eapply IH; [|exact Hr]. eapply step_inv; eauto.
Qed.

Lemma reachable_inv n st : 0 < n -> reachable n st -> Inv n st.
Proof. intros Hn [evs Hr]. eapply run_inv; [apply init_inv; exact Hn | exact Hr]. Qed.

Lemma run_app a : forall st b,
  run st (a ++ b) = match run st a with Some s => run s b | None => None end.
Proof.
  induction a as [|e a IH]; intros st b; cbn [run app]; auto.
  destruct (step st e); auto.
Qed.

Lemma run_cons st e st1 r : step st e = Some st1 -> run st (e :: r) = run st1 r.
Proof. intro H. cbn [run]. rewrite H. reflexivity. Qed.

Lemma reachable_run n st evs st' : reachable n st -> run st evs = Some st' -> reachable n st'.
Proof. intros [e0 H0] H. exists (e0 ++ evs). rewrite run_app, H0. exact H. Qed.

Lemma reachable_init n : reachable n (init n).
Proof. exists []. reflexivity. Qed.

(* ---------------------------------------------------------------------------------------- *)
(* exactly once                                                                               *)
(* ---------------------------------------------------------------------------------------- *)

Theorem conservation n st :
  0 < n -> reachable n st ->
  NoDup (submitted st) /\
  Permutation (qjobs (queue st) ++ held (workers st) ++ running (workers st) ++ finished st)
              (submitted st) /\
  Permutation (started st) (running (workers st) ++ finished st) /\
  NoDup (started st) /\ NoDup (finished st).
Proof.
  intros Hn Hr. destruct (reachable_inv _ _ Hn Hr) as [_ _ Hnd Hcons Hst _ _ _ _].
  split; [apply occ_nodup; exact Hnd|]. split; [|split; [|split]].
  - apply occ_perm. intro j. rewrite !occ_app. specialize (Hcons j). lia.
  - apply occ_perm. intro j. rewrite occ_app. apply Hst.
  - apply occ_nodup. intro j. specialize (Hcons j). specialize (Hst j). specialize (Hnd j). lia.
  - apply occ_nodup. intro j. specialize (Hcons j). specialize (Hnd j). lia.
Qed.

(* a job is in exactly one place: no id is at once queued and running, running twice, ... *)
Theorem places_disjoint n st :
  0 < n -> reachable n st ->
  NoDup (qjobs (queue st) ++ held (workers st) ++ running (workers st) ++ finished st).
Proof.
  intros Hn Hr. destruct (reachable_inv _ _ Hn Hr) as [_ _ Hnd Hcons _ _ _ _ _].
  apply occ_nodup. intro j. rewrite !occ_app. specialize (Hcons j). specialize (Hnd j). lia.
Qed.

(* ---------------------------------------------------------------------------------------- *)
(* the receiver lock                                                                          *)
(* ---------------------------------------------------------------------------------------- *)

Theorem lock_not_held_while_running n st w j :
  0 < n -> reachable n st -> nth_error (workers st) w = Some (Running j) -> lock st <> Some w.
Proof.
  intros Hn Hr Hw Hl. destruct (reachable_inv _ _ Hn Hr) as [_ _ _ _ _ Hlock _ _ _].
  apply Hlock in Hl. destruct Hl as [s [H1 H2]]. rewrite Hw in H1. inversion H1; subst. discriminate.
Qed.

(* the lock is held exactly by the worker between lock() and the end of statement (1) *)
Theorem lock_holder_status n st w :
  0 < n -> reachable n st ->
  (lock st = Some w <-> nth_error (workers st) w = Some Locked \/
                        exists m, nth_error (workers st) w = Some (Holding m)).
Proof.
  intros Hn Hr. destruct (reachable_inv _ _ Hn Hr) as [_ _ _ _ _ Hlock _ _ _].
  rewrite Hlock. split.
  - intros [s [H1 H2]]. destruct s; try discriminate; eauto.
  - intros [H|[m H]]; eexists; split; eauto.
Qed.

Theorem lock_exclusive n st w1 w2 s1 s2 :
  0 < n -> reachable n st ->
  nth_error (workers st) w1 = Some s1 -> has_lock s1 = true ->
  nth_error (workers st) w2 = Some s2 -> has_lock s2 = true -> w1 = w2.
Proof.
  intros Hn Hr H1 L1 H2 L2. destruct (reachable_inv _ _ Hn Hr) as [_ _ _ _ _ Hlock _ _ _].
  assert (lock st = Some w1) by (apply Hlock; eauto).
  assert (lock st = Some w2) by (apply Hlock; eauto). congruence.
Qed.

(* while the pool is open no worker has exited: the receiver is alive and `send` cannot fail *)
Theorem open_no_worker_stopped n st w s :
  0 < n -> reachable n st -> phase st = Open -> nth_error (workers st) w = Some s ->
  term_of s = false.
Proof.
  intros Hn Hr Hp Hw. destruct (reachable_inv _ _ Hn Hr) as [_ _ _ _ _ _ _ Hterms _].
  rewrite Hp in Hterms. assert (Hz : nterm (workers st) = 0) by lia.
  pose proof (sumf_zero _ _ _ _ Hz Hw) as H. cbv beta in H. destruct (term_of s); auto. simpl in H. discriminate H.
Qed.

(* ---------------------------------------------------------------------------------------- *)
(* Drop drains                                                                                *)
(* ---------------------------------------------------------------------------------------- *)

Lemma all_stopped_Forall ws :
  (forall w, w < length ws -> nth_error ws w = Some Stopped) -> Forall (fun s => s = Stopped) ws.
Proof.
  induction ws as [|s ws IH]; intro H; constructor.
  - specialize (H 0). simpl in H. assert (Some s = Some Stopped) by (apply H; lia). congruence.
  - apply IH. intros w Hw. apply (H (S w)). simpl. lia.
Qed.

Lemma stopped_flat (f : wstat -> list N) ws :
  f Stopped = [] -> Forall (fun s => s = Stopped) ws -> flat_map f ws = [].
Proof. intros Hf H. induction H; simpl; auto. subst. rewrite Hf, IHForall. reflexivity. Qed.

Lemma all_stopped_nterm ws : Forall (fun s => s = Stopped) ws -> nterm ws = length ws.
Proof. intro H. induction H; simpl; auto. subst. unfold nterm in *. simpl. rewrite IHForall. reflexivity. Qed.

Lemma inv_all_stopped n st :
  Inv n st -> (forall w, w < n -> nth_error (workers st) w = Some Stopped) ->
  held (workers st) = [] /\ running (workers st) = [] /\ qjobs (queue st) = [] /\
  qterms (queue st) + n = qterms (queue st) + nterm (workers st).
Proof.
  intros [Hpos Hlen _ _ _ _ _ _ Hdr] Hall. rewrite <- Hlen in Hall.
  apply all_stopped_Forall in Hall.
  split; [apply stopped_flat; auto|]. split; [apply stopped_flat; auto|].
  rewrite (all_stopped_nterm _ Hall), Hlen in *. split; [apply Hdr; lia | reflexivity].
Qed.

Theorem drop_drains n st :
  0 < n -> reachable n st -> phase st = Joined ->
  (forall w, w < n -> nth_error (workers st) w = Some Stopped) /\
  Permutation (finished st) (submitted st) /\
  Permutation (started st) (submitted st) /\
  NoDup (started st) /\
  queue st = [] /\ lock st = None.
Proof.
  intros Hn Hr Hp. pose proof (reachable_inv _ _ Hn Hr) as HI.
  pose proof HI as [_ Hlen Hnd Hcons Hst Hlock _ Hterms _]. rewrite Hp in Hterms.
  destruct Hterms as [Ht Hall].
  destruct (inv_all_stopped _ _ HI Hall) as [Hh [Hru [Hq Hn2]]].
  split; [exact Hall|].
  assert (P1 : forall j, occ j (finished st) = occ j (submitted st)).
  { intro j. specialize (Hcons j). rewrite Hh, Hru, Hq in Hcons. simpl in Hcons. lia. }
  split; [apply occ_perm; exact P1|].
  assert (P2 : forall j, occ j (started st) = occ j (submitted st)).
  { intro j. specialize (Hst j). rewrite Hru in Hst. simpl in Hst. rewrite <- P1. lia. }
  split; [apply occ_perm; exact P2|].
  split; [apply occ_nodup; intro j; rewrite P2; apply Hnd|].
  split.
  - assert (qterms (queue st) = 0) by lia.
    destruct (queue st) as [|[j|] q] eqn:Eq; auto.
    + discriminate Hq.
    + unfold qterms in H. simpl in H. discriminate.
  - destruct (lock st) as [w|] eqn:El; auto. exfalso.
    assert (Hex : exists s, nth_error (workers st) w = Some s /\ has_lock s = true)
      by (apply Hlock; reflexivity).
    destruct Hex as [s [H1 H2]].
    assert (w < n) by (rewrite <- Hlen; eapply nth_error_lt; eauto).
    rewrite (Hall _ H) in H1. inversion H1; subst. discriminate.
Qed.

(* ---------------------------------------------------------------------------------------- *)
(* explicit successor states                                                                  *)
(* ---------------------------------------------------------------------------------------- *)

Lemma step_acquire st w :
  lock st = None -> nth_error (workers st) w = Some Idle ->
  step st (EAcquire w) =
  Some (mkSt (queue st) (Some w) (upd w Locked (workers st)) (phase st)
             (submitted st) (started st) (finished st)).
Proof. intros H1 H2. unfold step. rewrite H1, H2. reflexivity. Qed.

Lemma step_recv st w m q :
  nth_error (workers st) w = Some Locked -> queue st = m :: q ->
  step st (ERecv w) =
  Some (mkSt q (lock st) (upd w (Holding m) (workers st)) (phase st)
             (submitted st) (started st) (finished st)).
Proof. intros H1 H2. unfold step. rewrite H1, H2. reflexivity. Qed.

Lemma step_release st w m :
  nth_error (workers st) w = Some (Holding m) ->
  step st (ERelease w) =
  Some (mkSt (queue st) None (upd w (Ready m) (workers st)) (phase st)
             (submitted st) (started st) (finished st)).
Proof. intros H1. unfold step. rewrite H1. reflexivity. Qed.

Lemma step_start st w j :
  nth_error (workers st) w = Some (Ready (Job j)) ->
  step st (EStart w j) =
  Some (mkSt (queue st) (lock st) (upd w (Running j) (workers st)) (phase st)
             (submitted st) (started st ++ [j]) (finished st)).
Proof. intros H1. unfold step. rewrite H1, N.eqb_refl. reflexivity. Qed.

Lemma step_finish st w j :
  nth_error (workers st) w = Some (Running j) ->
  step st (EFinish w j) =
  Some (mkSt (queue st) (lock st) (upd w Idle (workers st)) (phase st)
             (submitted st) (started st) (finished st ++ [j])).
Proof. intros H1. unfold step. rewrite H1, N.eqb_refl. reflexivity. Qed.

Lemma step_exit st w :
  nth_error (workers st) w = Some (Ready Terminate) ->
  step st (EExit w) = Some (set_worker st w Stopped).
Proof. intros H1. unfold step. rewrite H1. reflexivity. Qed.

(* searching the worker vector *)
Fixpoint find_idx (p : wstat -> bool) (ws : list wstat) : option nat :=
  match ws with
  | [] => None
  | s :: r => if p s then Some 0 else option_map S (find_idx p r)
  end.

Lemma find_idx_some p ws : forall w,
  find_idx p ws = Some w -> exists s, nth_error ws w = Some s /\ p s = true.
Proof.
  induction ws as [|s ws IH]; intros w H; simpl in H; try discriminate.
  destruct (p s) eqn:E.
  - inversion H; subst. exists s. auto.
  - destruct (find_idx p ws) as [w'|]; simpl in H; try discriminate.
    inversion H; subst. apply IH. reflexivity.
Qed.

Lemma find_idx_none p ws :
  find_idx p ws = None -> forall w s, nth_error ws w = Some s -> p s = false.
Proof.
  induction ws as [|s0 ws IH]; intros H w s Hn.
  - destruct w; discriminate.
  - simpl in H. destruct (p s0) eqn:E; try discriminate.
    destruct (find_idx p ws) eqn:F; simpl in H; try discriminate.
    destruct w; simpl in Hn.
    + inversion Hn; subst. exact E.
    + eapply IH; eauto.
Qed.

(* ---------------------------------------------------------------------------------------- *)
(* Drop makes progress: no deadlock, and every schedule of the workers terminates             *)
(* ---------------------------------------------------------------------------------------- *)

Definition is_worker_ev (e : event) : bool :=
  match e with
  | EAcquire _ | ERecv _ | ERelease _ | EStart _ _ | EFinish _ _ | EExit _ => true
  | _ => false
  end.

(* position of a worker in its loop; one message in the channel is worth a full turn *)
Definition wt (s : wstat) : nat :=
  match s with
  | Idle => 1 | Locked => 0 | Holding _ => 4 | Ready _ => 3 | Running _ => 2 | Stopped => 0
  end.
Definition mu (st : state) : nat := 5 * length (queue st) + sumf wt (workers st).

Lemma worker_step_mu st e st' :
  step st e = Some st' -> is_worker_ev e = true -> mu st' < mu st /\ phase st' = phase st.
Proof.
  intros Hs He. unfold mu.
  destruct e; try discriminate He; unfold step in Hs; cbv beta iota zeta in Hs; inv_step Hs;
    unfold set_worker; cbn [queue workers phase];
    match goal with
    | E : nth_error (workers _) _ = Some ?old |- context [upd ?w ?new _] =>
        pose proof (sumf_upd wt _ _ new _ E) as Hm
    end; cbn [wt length] in *; split; auto; lia.
Qed.

Definition movable (s : wstat) : bool :=
  match s with Holding _ | Ready _ | Running _ => true | _ => false end.

Lemma join_phase_enabled n st k :
  Inv n st -> phase st = Joining k ->
  (exists w s, nth_error (workers st) w = Some s /\ s <> Stopped) ->
  exists e st', is_worker_ev e = true /\ step st e = Some st'.
Proof.
  intros [Hpos Hlen _ _ _ Hlock _ Hterms _] Hp [w0 [s0 [Hn0 Hs0]]].
  rewrite Hp in Hterms. destruct Hterms as [Ht _].
  destruct (find_idx movable (workers st)) as [w|] eqn:F.
  - apply find_idx_some in F. destruct F as [s [Hn Hm]].
    destruct s as [| |m|[j|]|j|]; try discriminate Hm.
    + exists (ERelease w). eexists. split; [reflexivity | apply step_release; eauto].
    + exists (EStart w j). eexists. split; [reflexivity | apply step_start; eauto].
    + exists (EExit w). eexists. split; [reflexivity | apply step_exit; eauto].
    + exists (EFinish w j). eexists. split; [reflexivity | apply step_finish; eauto].
  - pose proof (find_idx_none _ _ F) as Hnone.
    destruct (lock st) as [w|] eqn:El.
    + assert (Hex : exists s, nth_error (workers st) w = Some s /\ has_lock s = true) by (apply Hlock; reflexivity).
      destruct Hex as [s [Hn Hl]]. pose proof (Hnone _ _ Hn) as Hm.
      destruct s; try discriminate Hl; try discriminate Hm.
      assert (Hlt : nterm (workers st) < length (workers st)).
      { unfold nterm. eapply sumf_lt; eauto. intro s. apply term_le1. }
      assert (Hq : 0 < qterms (queue st)) by lia.
      destruct (queue st) as [|m q] eqn:Eq.
      * unfold qterms in Hq. simpl in Hq. lia.
      * exists (ERecv w). eexists. split; [reflexivity | eapply step_recv; eauto].
    + pose proof (Hnone _ _ Hn0) as Hm.
      destruct s0; try discriminate Hm; try congruence.
      * exists (EAcquire w0). eexists. split; [reflexivity | apply step_acquire; auto].
      * exfalso. assert (None = Some w0) by (apply Hlock; eexists; split; eauto). discriminate.
Qed.

Definition not_stopped (s : wstat) : bool := match s with Stopped => false | _ => true end.

Lemma drain_workers n : forall m st k,
  mu st <= m -> Inv n st -> phase st = Joining k ->
  exists evs st', run st evs = Some st' /\ Inv n st' /\ phase st' = Joining k /\
                  Forall (fun e => is_worker_ev e = true) evs /\
                  (forall w, w < n -> nth_error (workers st') w = Some Stopped).
Proof.
  induction m as [|m IH]; intros st k Hm HI Hp.
  - (* mu = 0: nothing can move, so by deadlock freedom everything is stopped *)
    destruct (find_idx not_stopped (workers st)) as [w|] eqn:F.
    + apply find_idx_some in F. destruct F as [s [Hn Hs]].
      destruct (join_phase_enabled n st k HI Hp) as [e [st1 [He Hst]]].
      { exists w, s. split; auto. intro; subst; discriminate. }
      destruct (worker_step_mu _ _ _ Hst He) as [Hlt _]. lia.
    + exists [], st. split; [reflexivity|]. split; [exact HI|]. split; [exact Hp|].
      split; [constructor|]. intros w Hw.
      pose proof (find_idx_none _ _ F) as Hnone.
      destruct (nth_error (workers st) w) as [s|] eqn:En.
      * specialize (Hnone _ _ En). destruct s; try discriminate. reflexivity.
      * exfalso. apply nth_error_None in En. rewrite (inv_len _ _ HI) in En. lia.
  - destruct (find_idx not_stopped (workers st)) as [w|] eqn:F.
    + apply find_idx_some in F. destruct F as [s [Hn Hs]].
      destruct (join_phase_enabled n st k HI Hp) as [e [st1 [He Hst]]].
      { exists w, s. split; auto. intro; subst; discriminate. }
      destruct (worker_step_mu _ _ _ Hst He) as [Hlt Hph].
      destruct (IH st1 k) as [evs [st' [Hr [HI' [Hp' [Hw' Hall]]]]]].
      * lia.
      * eapply step_inv; eauto.
      * congruence.
      * exists (e :: evs), st'. rewrite (run_cons _ _ _ _ Hst).
        split; [exact Hr|]. split; [exact HI'|]. split; [exact Hp'|]. split; [constructor; auto | exact Hall].
    + exists [], st. split; [reflexivity|]. split; [exact HI|]. split; [exact Hp|].
      split; [constructor|]. intros w Hw.
      pose proof (find_idx_none _ _ F) as Hnone.
      destruct (nth_error (workers st) w) as [s|] eqn:En.
      * specialize (Hnone _ _ En). destruct s; try discriminate. reflexivity.
      * exfalso. apply nth_error_None in En. rewrite (inv_len _ _ HI) in En. lia.
Qed.

Lemma join_all n : forall d st k,
  n - k = d -> Inv n st -> phase st = Joining k ->
  (forall w, w < n -> nth_error (workers st) w = Some Stopped) ->
  exists evs st', run st evs = Some st' /\ phase st' = Joined.
Proof.
  induction d as [|d IH]; intros st k Hd HI Hp Hall.
  - pose proof (inv_terms _ _ HI) as Ht. rewrite Hp in Ht. destruct Ht as [_ [Hk _]].
    assert (k = n) by lia. subst k.
    exists [EDropEnd], (mkSt (queue st) (lock st) (workers st) Joined (submitted st) (started st) (finished st)).
    split; [|reflexivity].
    cbn [run]. unfold step. rewrite Hp, (inv_len _ _ HI), Nat.eqb_refl. reflexivity.
  - assert (Hk : k < n) by lia.
    assert (Hs : step st (EJoin k) =
                 Some (mkSt (queue st) (lock st) (workers st) (Joining (S k))
                            (submitted st) (started st) (finished st))).
    { unfold step. rewrite Hp, (Hall _ Hk), Nat.eqb_refl. reflexivity. }
    destruct (IH _ (S k) ltac:(lia) (step_inv _ _ _ _ HI Hs) eq_refl Hall) as [evs [st' [Hr Hj]]].
    exists (EJoin k :: evs), st'. rewrite (run_cons _ _ _ _ Hs). auto.
Qed.

Lemma send_all n : forall d st k,
  n - k = d -> Inv n st -> phase st = Dropping k ->
  exists evs st', run st evs = Some st' /\ Inv n st' /\ phase st' = Joining 0.
Proof.
  induction d as [|d IH]; intros st k Hd HI Hp;
    pose proof (inv_terms _ _ HI) as Ht; rewrite Hp in Ht; destruct Ht as [_ Hk]; [lia|].
  assert (Hs : step st ESendTerminate =
               Some (mkSt (queue st ++ [Terminate]) (lock st) (workers st)
                          (if Nat.eqb (S k) n then Joining 0 else Dropping (S k))
                          (submitted st) (started st) (finished st))).
  { unfold step. rewrite Hp, (inv_len _ _ HI). apply Nat.ltb_lt in Hk. rewrite Hk. reflexivity. }
  pose proof (step_inv _ _ _ _ HI Hs) as HI1.
  destruct (Nat.eqb (S k) n) eqn:Ek.
  - exists [ESendTerminate]. eexists. rewrite (run_cons _ _ _ _ Hs). cbn [run].
    split; [reflexivity|]. split; [exact HI1 | reflexivity].
  - apply Nat.eqb_neq in Ek.
    destruct (IH _ (S k) ltac:(lia) HI1 eq_refl) as [evs [st' [Hr [HI' Hp']]]].
    exists (ESendTerminate :: evs), st'. rewrite (run_cons _ _ _ _ Hs). auto.
Qed.

Lemma joining_progress n st k :
  Inv n st -> phase st = Joining k ->
  exists evs st', run st evs = Some st' /\ phase st' = Joined.
Proof.
  intros HI Hp.
  destruct (drain_workers n (mu st) st k (le_n _) HI Hp) as [e1 [st1 [R1 [HI1 [Hp1 [_ Hall]]]]]].
  destruct (join_all n (n - k) st1 k eq_refl HI1 Hp1 Hall) as [e2 [st2 [R2 Hj]]].
  exists (e1 ++ e2), st2. rewrite run_app, R1. auto.
Qed.

(* Drop cannot deadlock: from every reachable state in which the owner is inside Drop there is
   a continuation (workers finish their jobs, take their Terminate, the owner joins) that
   returns from Drop.  [The continuation contains the EFinish of the running jobs: this is the
   place where "jobs eventually return" is used.] *)
Theorem drop_progress n st :
  0 < n -> reachable n st ->
  (exists k, phase st = Dropping k \/ phase st = Joining k) ->
  exists evs st', run st evs = Some st' /\ phase st' = Joined.
Proof.
  intros Hn Hr [k [Hp|Hp]]; pose proof (reachable_inv _ _ Hn Hr) as HI.
  - destruct (send_all n (n - k) st k eq_refl HI Hp) as [e1 [st1 [R1 [HI1 Hp1]]]].
    destruct (joining_progress n st1 0 HI1 Hp1) as [e2 [st2 [R2 Hj]]].
    exists (e1 ++ e2), st2. rewrite run_app, R1. auto.
  - eapply joining_progress; eauto.
Qed.

(* ... and whatever the workers do while the owner waits, they cannot do it forever: every
   worker step inside Drop decreases `mu`, and as long as a worker is not stopped some worker
   step is enabled. *)
Theorem drop_no_deadlock n st k :
  0 < n -> reachable n st -> phase st = Joining k ->
  (exists w s, nth_error (workers st) w = Some s /\ s <> Stopped) ->
  exists e st', is_worker_ev e = true /\ step st e = Some st' /\ mu st' < mu st.
Proof.
  intros Hn Hr Hp Hex. pose proof (reachable_inv _ _ Hn Hr) as HI.
  destruct (join_phase_enabled n st k HI Hp Hex) as [e [st' [He Hs]]].
  exists e, st'. repeat split; auto. apply (worker_step_mu _ _ _ Hs He).
Qed.

(* ---------------------------------------------------------------------------------------- *)
(* a long job holds up nobody: free workers can always be filled without any job finishing    *)
(* ---------------------------------------------------------------------------------------- *)

Definition is_finish (e : event) : bool := match e with EFinish _ _ => true | _ => false end.
Definition nrunning (st : state) : nat := length (running (workers st)).

Lemma nrunning_upd ws w old new :
  nth_error ws w = Some old ->
  length (running (upd w new ws)) + length (run_of old) = length (running ws) + length (run_of new).
Proof.
  intro H. unfold running. rewrite !length_flat_map.
  apply (sumf_upd (fun s => length (run_of s))). exact H.
Qed.

Lemma run_le1 s : length (run_of s) <= 1.
Proof. destruct s; simpl; lia. Qed.

Lemma exists_not_running ws :
  length (running ws) < length ws -> exists w s, nth_error ws w = Some s /\ run_of s = [].
Proof.
  induction ws as [|a ws IH]; simpl; intro H; [lia|].
  destruct (run_of a) eqn:E.
  - exists 0, a. auto.
  - rewrite app_length in H. pose proof (run_le1 a) as Hl. rewrite E in Hl. simpl in *.
    destruct IH as [w [s [H1 H2]]]; [lia|]. exists (S w), s. auto.
Qed.

Theorem at_most_n_running n st : 0 < n -> reachable n st -> nrunning st <= n.
Proof.
  intros Hn Hr. destruct (reachable_inv _ _ Hn Hr) as [_ Hlen _ _ _ _ _ _ _].
  unfold nrunning, running. rewrite length_flat_map, <- Hlen. apply sumf_le1. apply run_le1.
Qed.

Lemma run_release_start st w j :
  nth_error (workers st) w = Some (Holding (Job j)) ->
  run st [ERelease w; EStart w j] =
  Some (mkSt (queue st) None (upd w (Running j) (workers st)) (phase st)
             (submitted st) (started st ++ [j]) (finished st)).
Proof.
  intro Hn. pose proof (nth_error_lt _ _ _ Hn) as Hlt.
  rewrite (run_cons _ _ _ _ (step_release _ _ _ Hn)).
  erewrite run_cons; [|apply step_start; cbn [workers]; apply nth_upd_same; exact Hlt].
  cbn [run queue lock workers phase submitted started finished]. rewrite upd_upd. reflexivity.
Qed.

Lemma run_recv_release_start st w j q :
  nth_error (workers st) w = Some Locked -> queue st = Job j :: q ->
  run st [ERecv w; ERelease w; EStart w j] =
  Some (mkSt q None (upd w (Running j) (workers st)) (phase st)
             (submitted st) (started st ++ [j]) (finished st)).
Proof.
  intros Hn Hq. pose proof (nth_error_lt _ _ _ Hn) as Hlt.
  rewrite (run_cons _ _ _ _ (step_recv _ _ _ _ Hn Hq)).
  rewrite run_release_start by (cbn [workers]; apply nth_upd_same; exact Hlt).
  cbn [queue lock workers phase submitted started finished]. rewrite upd_upd. reflexivity.
Qed.

Lemma run_acquire_recv_release_start st w j q :
  lock st = None -> nth_error (workers st) w = Some Idle -> queue st = Job j :: q ->
  run st [EAcquire w; ERecv w; ERelease w; EStart w j] =
  Some (mkSt q None (upd w (Running j) (workers st)) (phase st)
             (submitted st) (started st ++ [j]) (finished st)).
Proof.
  intros Hl Hn Hq. pose proof (nth_error_lt _ _ _ Hn) as Hlt.
  rewrite (run_cons _ _ _ _ (step_acquire _ _ Hl Hn)).
  rewrite (run_recv_release_start _ w j q) by
    (cbn [workers queue]; first [apply nth_upd_same; exact Hlt | exact Hq]).
  cbn [queue lock workers phase submitted started finished]. rewrite upd_upd. reflexivity.
Qed.

Definition is_ready_job (s : wstat) : bool := match s with Ready (Job _) => true | _ => false end.
Definition is_holding_job (s : wstat) : bool := match s with Holding (Job _) => true | _ => false end.

Lemma can_fill_inv n st :
  Inv n st -> phase st = Open -> nrunning st < n -> qjobs (queue st) <> [] ->
  exists evs st',
    Forall (fun e => is_finish e = false) evs /\ run st evs = Some st' /\
    phase st' = Open /\ nrunning st' = S (nrunning st) /\
    length (qjobs (queue st)) <= S (length (qjobs (queue st'))).
Proof.
  intros HI Hp Hr Hq. pose proof HI as [Hpos Hlen _ _ _ Hlock _ Hterms _]. rewrite Hp in Hterms.
  assert (Hnt : forall w s, nth_error (workers st) w = Some s -> term_of s = false).
  { intros w s Hw. assert (Hz : nterm (workers st) = 0) by lia.
    pose proof (sumf_zero _ _ _ _ Hz Hw) as H. cbv beta in H.
    destruct (term_of s); auto. simpl in H. discriminate H. }
  assert (Hfin : forall w old j,
             nth_error (workers st) w = Some old -> run_of old = [] ->
             length (running (upd w (Running j) (workers st))) = S (nrunning st)).
  { intros w old j Hw Ho. pose proof (nrunning_upd _ _ _ (Running j) Hw) as H.
    rewrite Ho in H. cbn [run_of length] in H. unfold nrunning. lia. }
  destruct (find_idx is_ready_job (workers st)) as [w|] eqn:F1.
  { apply find_idx_some in F1. destruct F1 as [s [Hn Hs]].
    destruct s as [| |m|[j|]|j|]; try discriminate Hs.
    exists [EStart w j]. eexists. split; [repeat constructor|].
    split; [rewrite (run_cons _ _ _ _ (step_start _ _ _ Hn)); reflexivity|].
    cbn [phase queue]. split; [exact Hp|]. split; [|lia].
    unfold nrunning at 1. cbn [workers]. eapply Hfin; eauto. }
  pose proof (find_idx_none _ _ F1) as N1.
  destruct (find_idx is_holding_job (workers st)) as [w|] eqn:F2.
  { apply find_idx_some in F2. destruct F2 as [s [Hn Hs]].
    destruct s as [| |[j|]|m|j|]; try discriminate Hs.
    exists [ERelease w; EStart w j]. eexists. split; [repeat constructor|].
    split; [apply run_release_start; exact Hn|].
    cbn [phase queue]. split; [exact Hp|]. split; [|lia].
    unfold nrunning at 1. cbn [workers]. eapply Hfin; eauto. }
  pose proof (find_idx_none _ _ F2) as N2.
  assert (Hhead : exists j q, queue st = Job j :: q).
  { destruct (queue st) as [|m q] eqn:Eq; [exfalso; apply Hq; reflexivity|].
    destruct m as [j|]; [eauto|]. exfalso. unfold qterms in Hterms. simpl in Hterms. lia. }
  destruct Hhead as [j [q Eq]].
  destruct (lock st) as [w|] eqn:El.
  - assert (Hex : exists s, nth_error (workers st) w = Some s /\ has_lock s = true)
      by (apply Hlock; reflexivity).
    destruct Hex as [s [Hn Hl]].
    pose proof (N2 _ _ Hn) as H2. pose proof (Hnt _ _ Hn) as H3.
    destruct s as [| |[j'|]|m|j'|]; try discriminate Hl; try discriminate H2; try discriminate H3.
    exists [ERecv w; ERelease w; EStart w j]. eexists. split; [repeat constructor|].
    split; [apply run_recv_release_start; eauto|].
    cbn [phase queue]. split; [exact Hp|]. split.
    + unfold nrunning at 1. cbn [workers]. eapply Hfin; eauto.
    + rewrite Eq, qjobs_cons_job. simpl. lia.
  - assert (Hlt : length (running (workers st)) < length (workers st)) by (unfold nrunning in Hr; lia).
    destruct (exists_not_running _ Hlt) as [w [s [Hn Hs]]].
    pose proof (N1 _ _ Hn) as H1. pose proof (Hnt _ _ Hn) as H3.
    assert (Hnl : has_lock s = false).
    { destruct (has_lock s) eqn:Ehl; auto.
      assert (None = Some w) by (apply Hlock; eauto). discriminate. }
    destruct s as [| |m|[j'|]|j'|]; try discriminate Hs; try discriminate H1; try discriminate H3;
      try discriminate Hnl.
    exists [EAcquire w; ERecv w; ERelease w; EStart w j]. eexists. split; [repeat constructor|].
    split; [apply run_acquire_recv_release_start; eauto|].
    cbn [phase queue]. split; [exact Hp|]. split.
    + unfold nrunning at 1. cbn [workers]. eapply Hfin; eauto.
    + rewrite Eq, qjobs_cons_job. simpl. lia.
Qed.

Lemma can_fill_min_inv n : forall j st,
  Inv n st -> phase st = Open -> j <= length (qjobs (queue st)) ->
  exists evs st',
    Forall (fun e => is_finish e = false) evs /\ run st evs = Some st' /\
    phase st' = Open /\ Nat.min n (nrunning st + j) <= nrunning st'.
Proof.
  induction j as [|j IH]; intros st HI Hp Hj.
  - exists [], st. repeat split; auto. lia.
  - destruct (Nat.lt_ge_cases (nrunning st) n) as [Hlt|Hge].
    + assert (Hq : qjobs (queue st) <> []) by (destruct (qjobs (queue st)); simpl in *; [lia | discriminate]).
      destruct (can_fill_inv n st HI Hp Hlt Hq) as [e1 [st1 [F1 [R1 [P1 [N1 Q1]]]]]].
      destruct (IH st1 (run_inv _ _ _ _ HI R1) P1 ltac:(lia)) as [e2 [st2 [F2 [R2 [P2 N2]]]]].
      exists (e1 ++ e2), st2. split; [apply Forall_app; auto|].
      split; [rewrite run_app, R1; exact R2|]. split; [exact P2|]. lia.
    + exists [], st. repeat split; auto. lia.
Qed.

(* ---------------------------------------------------------------------------------------- *)
(* the monitor accepts every behaviour of the model                                           *)
(* ---------------------------------------------------------------------------------------- *)

Fixpoint mon_steps (m : mon) (vs : list vevent) : option mon :=
  match vs with
  | [] => Some m
  | v :: r => match mon_step m v with Some m' => mon_steps m' r | None => None end
  end.

Lemma mon_steps_app a : forall m b,
  mon_steps m (a ++ b) = match mon_steps m a with Some m' => mon_steps m' b | None => None end.
Proof.
  induction a as [|v a IH]; intros m b; cbn [mon_steps app]; auto.
  destruct (mon_step m v); auto.
Qed.

Lemma mon_run_steps tr : forall m i,
  mon_run m tr i = None <-> exists m', mon_steps m tr = Some m'.
Proof.
  induction tr as [|v tr IH]; intros m i; cbn [mon_run mon_steps].
  - split; eauto.
  - destruct (mon_step m v) as [m1|].
    + apply IH.
    + split; [discriminate | intros [m' H]; discriminate].
Qed.

Definition vis_of (s : wstat) : option N := match s with Running j => Some j | _ => None end.
Definition abs_phase (p : ophase) : mphase :=
  match p with Open => MOpen | Joined => MEnd | _ => MDrop end.

Record Sim (st : state) (m : mon) : Prop := mkSim {
  sim_ws : m_ws m = map vis_of (workers st);
  sim_pend : exists hs, (forall j, occ j hs = occ j (held (workers st))) /\
                        m_pend m = hs ++ qjobs (queue st);
  sim_sub : m_sub m = submitted st;
  sim_ph : m_ph m = abs_phase (phase st)
}.

Lemma upd_same {A} (l : list A) : forall i x, nth_error l i = Some x -> upd i x l = l.
Proof.
  induction l as [|y l IH]; intros [|i] x H; simpl in *; try discriminate; auto.
  - congruence.
  - f_equal. apply IH. exact H.
Qed.

Lemma map_upd_same {A B} (f : A -> B) ws w old new :
  nth_error ws w = Some old -> f new = f old -> map f (upd w new ws) = map f ws.
Proof.
  intros Hn Hf. rewrite map_upd, Hf. apply upd_same. apply map_nth_error. exact Hn.
Qed.

Lemma nrun_map ws : nrun (map vis_of ws) = length (running ws).
Proof.
  unfold nrun, running. induction ws as [|s ws IH]; simpl; auto.
  destruct s; simpl; auto.
Qed.

Lemma held_run_le ws : length (held ws) + length (running ws) <= length ws.
Proof.
  unfold held, running. induction ws as [|s ws IH]; simpl; auto.
  rewrite !app_length. destruct s as [| |[j|]|[j|]|j|]; simpl; lia.
Qed.

Lemma occ_all0 l : (forall j, occ j l = 0) -> l = [].
Proof.
  destruct l as [|x l]; auto. intro H. specialize (H x). simpl in H. rewrite N.eqb_refl in H. lia.
Qed.

Lemma occ_length a b : (forall j, occ j a = occ j b) -> length a = length b.
Proof. intro H. apply Permutation_length. apply occ_perm. exact H. Qed.

Lemma remove1_app_in j a b : In j a -> remove1 j (a ++ b) = remove1 j a ++ b.
Proof.
  induction a as [|x a IH]; simpl; intro H; [contradiction|].
  destruct (N.eqb x j) eqn:E; auto.
  destruct H as [H|H]; [subst; rewrite N.eqb_refl in E; discriminate|].
  rewrite IH by exact H. reflexivity.
Qed.

Lemma occ_remove1 j k l :
  In j l -> occ k l = occ k (remove1 j l) + (if N.eqb j k then 1 else 0).
Proof.
  induction l as [|x l IH]; simpl; intro H; [contradiction|].
  destruct (N.eqb x j) eqn:E.
  - apply N.eqb_eq in E. subst. lia.
  - destruct H as [H|H]; [subst; rewrite N.eqb_refl in E; discriminate|].
    simpl. rewrite (IH H). lia.
Qed.

Ltac sim_keep_ws Hws Hn :=
  rewrite Hws; symmetry; eapply map_upd_same; [exact Hn | reflexivity].

Lemma sim_step n st e st' m :
  Inv n st -> Sim st m -> step st e = Some st' ->
  exists m', mon_steps m (visible e) = Some m' /\ Sim st' m'.
Proof.
  intros HI [Hws [hs [Hhs Hpend]] Hsub Hph] Hs.
  pose proof HI as [Hpos Hlen _ _ _ _ _ Hterms _].
  destruct e; unfold step in Hs; cbv beta iota zeta in Hs; cbn [visible mon_steps].
  - (* ESubmit *)
    inv_step Hs. unfold mon_step. rewrite Hph, ?E, Hsub. cbn [abs_phase]. rewrite E0.
    eexists. split; [reflexivity|].
    constructor; cbn [m_ws m_pend m_sub m_ph queue workers submitted phase].
    + exact Hws.
    + exists hs. split; auto. rewrite Hpend, qjobs_app, <- app_assoc. reflexivity.
    + try rewrite Hsub; reflexivity.
    + reflexivity.
  - (* EAcquire *)
    inv_step Hs. wm Locked. exists m. split; [reflexivity|].
    constructor; cbn [queue workers submitted phase].
    + sim_keep_ws Hws E0.
    + exists hs. split; auto. intro j. rewrite Hhs. specialize (Hh j). simpl in Hh. lia.
    + exact Hsub.
    + exact Hph.
  - (* ERecv *)
    inv_step Hs. wm (Holding m0). exists m. split; [reflexivity|].
    constructor; cbn [queue workers submitted phase].
    + sim_keep_ws Hws E.
    + destruct m0 as [j|].
      * exists (hs ++ [j]). split.
        -- intro k. rewrite occ_app, Hhs. specialize (Hh k). cbn [held_of occ] in *. lia.
        -- rewrite Hpend, qjobs_cons_job, <- app_assoc. reflexivity.
      * exists hs. split; auto. intro k. rewrite Hhs. specialize (Hh k). cbn [held_of occ] in *. lia.
    + exact Hsub.
    + exact Hph.
  - (* ERelease *)
    inv_step Hs. wm (Ready m0). exists m. split; [reflexivity|].
    constructor; cbn [queue workers submitted phase].
    + sim_keep_ws Hws E.
    + exists hs. split; auto. intro k. rewrite Hhs. specialize (Hh k).
      destruct m0; cbn [held_of occ] in *; lia.
    + exact Hsub.
    + exact Hph.
  - (* EStart *)
    inv_step Hs. eqb_subst. wm (Running j).
    assert (Hin : In j hs).
    { apply occ_In. rewrite Hhs.
      pose proof (occ_nth_le held_of j _ _ _ E) as H. cbn [held_of occ] in H.
      rewrite N.eqb_refl in H. unfold held. lia. }
    assert (Hwin : memN j (firstn (length (m_ws m) - nrun (m_ws m)) (m_pend m)) = true).
    { apply memN_In. rewrite Hws, map_length, nrun_map, Hpend, firstn_app.
      apply in_or_app. left. rewrite firstn_all2; auto.
      rewrite (occ_length _ _ Hhs). pose proof (held_run_le (workers st)). lia. }
    assert (Hnth : nth_error (m_ws m) w = Some None).
    { rewrite Hws. apply (map_nth_error vis_of _ _ E). }
    assert (Hne : m_ph m <> MEnd).
    { rewrite Hph. destruct (phase st) eqn:Ep; cbn [abs_phase]; try discriminate.
      exfalso. destruct Hterms as [_ Hall]. rewrite Hall in E; [discriminate|].
      rewrite <- Hlen. eapply nth_error_lt; eauto. }
    unfold mon_step. rewrite Hnth, Hwin.
    exists (mkMon (upd w (Some j) (m_ws m)) (remove1 j (m_pend m)) (m_sub m) (m_ph m)).
    split; [destruct (m_ph m); try reflexivity; congruence|].
    constructor; cbn [m_ws m_pend m_sub m_ph queue workers submitted phase].
    + rewrite Hws, map_upd. reflexivity.
    + exists (remove1 j hs). split.
      * intro k. specialize (Hh k). pose proof (occ_remove1 j k hs Hin) as Hr1.
        specialize (Hhs k). cbn [held_of occ] in Hh. destruct (N.eqb j k); lia.
      * rewrite Hpend. apply remove1_app_in. exact Hin.
    + exact Hsub.
    + exact Hph.
  - (* EFinish *)
    inv_step Hs. eqb_subst. wm Idle.
    assert (Hnth : nth_error (m_ws m) w = Some (Some j)).
    { rewrite Hws. apply (map_nth_error vis_of _ _ E). }
    assert (Hne : m_ph m <> MEnd).
    { rewrite Hph. destruct (phase st) eqn:Ep; cbn [abs_phase]; try discriminate.
      exfalso. destruct Hterms as [_ Hall]. rewrite Hall in E; [discriminate|].
      rewrite <- Hlen. eapply nth_error_lt; eauto. }
    unfold mon_step. rewrite Hnth, N.eqb_refl.
    exists (mkMon (upd w None (m_ws m)) (m_pend m) (m_sub m) (m_ph m)).
    split; [destruct (m_ph m); try reflexivity; congruence|].
    constructor; cbn [m_ws m_pend m_sub m_ph queue workers submitted phase].
    + rewrite Hws, map_upd. reflexivity.
    + exists hs. split; auto. intro k. rewrite Hhs. specialize (Hh k). cbn [held_of occ] in *. lia.
    + exact Hsub.
    + exact Hph.
  - (* EExit *)
    inv_step Hs. unfold set_worker. wm Stopped. exists m. split; [reflexivity|].
    constructor; cbn [queue workers submitted phase].
    + sim_keep_ws Hws E.
    + exists hs. split; auto. intro k. rewrite Hhs. specialize (Hh k). cbn [held_of occ] in *. lia.
    + exact Hsub.
    + exact Hph.
  - (* EDropBegin *)
    inv_step Hs. unfold mon_step. rewrite Hph, ?E. cbn [abs_phase].
    eexists. split; [reflexivity|].
    constructor; cbn [m_ws m_pend m_sub m_ph queue workers submitted phase].
    + exact Hws.
    + exists hs. auto.
    + exact Hsub.
    + reflexivity.
  - (* ESendTerminate *)
    inv_step Hs. exists m. split; [reflexivity|].
    constructor; cbn [queue workers submitted phase].
    + exact Hws.
    + exists hs. split; auto. rewrite Hpend, qjobs_app. cbn [qjobs flat_map job_of_msg app].
      rewrite app_nil_r. reflexivity.
    + exact Hsub.
    + rewrite Hph, ?E. match goal with |- context [if ?c then _ else _] => destruct c end; reflexivity.
  - (* EJoin *)
    inv_step Hs. exists m. split; [reflexivity|].
    constructor; cbn [queue workers submitted phase].
    + exact Hws.
    + exists hs. auto.
    + exact Hsub.
    + rewrite Hph, ?E. reflexivity.
  - (* EDropEnd *)
    inv_step Hs. destruct Hterms as [Ht [Hk Hall]].
    match goal with H : Nat.eqb _ _ = true |- _ => apply Nat.eqb_eq in H; subst k end.
    rewrite Hlen in Hall.
    destruct (inv_all_stopped _ _ HI Hall) as [Hh0 [Hr0 [Hq0 _]]].
    assert (hs = []) by (apply occ_all0; intro j; rewrite Hhs, Hh0; reflexivity). subst hs.
    rewrite Hq0 in Hpend. simpl in Hpend.
    unfold mon_step. rewrite Hph, ?E, Hpend. cbn [abs_phase].
    rewrite Hws, nrun_map, Hr0. cbn [length Nat.eqb].
    eexists. split; [reflexivity|].
    constructor; cbn [m_ws m_pend m_sub m_ph queue workers submitted phase].
    + reflexivity.
    + exists []. split; [intro j; rewrite Hh0; reflexivity | rewrite ?Hq0; reflexivity].
    + exact Hsub.
    + reflexivity.
Qed.

Lemma sim_run n evs : forall st m st',
  Inv n st -> Sim st m -> run st evs = Some st' ->
  exists m', mon_steps m (trace evs) = Some m' /\ Sim st' m'.
Proof.
  induction evs as [|e evs IH]; intros st m st' HI HS Hr; cbn [run trace flat_map] in *.
  - inversion Hr; subst. exists m. auto.
  - destruct (step st e) as [st1|] eqn:Es; [|discriminate].
    destruct (sim_step _ _ _ _ _ HI HS Es) as [m1 [M1 S1]].
    destruct (IH st1 m1 st' (step_inv _ _ _ _ HI Es) S1 Hr) as [m2 [M2 S2]].
    exists m2. split; auto. rewrite mon_steps_app, M1. exact M2.
Qed.

Lemma sim_init n : Sim (init n) (mon_init n).
Proof.
  constructor; cbn; auto.
  - induction n; simpl; auto. f_equal. exact IHn.
  - exists []. split; auto. intro j. unfold held. rewrite repeat_idle_flat; reflexivity.
Qed.

Theorem trace_ok_sound n evs st :
  0 < n -> run (init n) evs = Some st -> trace_ok n (trace evs) = true.
Proof.
  intros Hn Hr. unfold trace_ok, first_bad.
  destruct (sim_run n evs _ _ _ (init_inv n Hn) (sim_init n) Hr) as [m' [Hm _]].
  assert (H : mon_run (mon_init n) (trace evs) 0 = None) by (apply mon_run_steps; eauto).
  rewrite H. reflexivity.
Qed.

(* ---------------------------------------------------------------------------------------- *)
(* what an accepted log says by itself (the monitor is not vacuous)                           *)
(* ---------------------------------------------------------------------------------------- *)

(* monitor invariant: pending jobs are submitted, distinct, and disjoint from running ones *)
Definition mrunning (ws : list (option N)) : list N :=
  flat_map (fun o => match o with Some j => [j] | None => [] end) ws.

Lemma mon_step_len m v m' : mon_step m v = Some m' -> length (m_ws m') = length (m_ws m).
Proof.
  intro H. destruct v; unfold mon_step in H;
    repeat match type of H with
           | match ?x with _ => _ end = Some _ => destruct x; try discriminate H
           end; injection H as <-; cbn [m_ws]; rewrite ?upd_length; reflexivity.
Qed.

Lemma nrun_le ws : nrun ws <= length ws.
Proof. unfold nrun. induction ws as [|[j|] ws IH]; simpl; lia. Qed.

(* never more workers busy than the pool has *)
Theorem monitor_bounds_running n tr m :
  mon_steps (mon_init n) tr = Some m -> nrun (m_ws m) <= n.
Proof.
  intro H. assert (L : length (m_ws m) = n).
  { assert (G : forall tr m0 m1, mon_steps m0 tr = Some m1 -> length (m_ws m1) = length (m_ws m0)).
    { clear. induction tr as [|v tr IH]; intros m0 m1 H; cbn [mon_steps] in H.
      - inversion H; reflexivity.
      - destruct (mon_step m0 v) as [m2|] eqn:E; [|discriminate].
        rewrite (IH _ _ H). eapply mon_step_len; eauto. }
    rewrite (G _ _ _ H). apply repeat_length. }
  rewrite <- L. apply nrun_le.
Qed.

(* exactly-once, read off an accepted log alone *)
Definition v_subs (tr : list vevent) : list N :=
  flat_map (fun v => match v with VSubmit j => [j] | _ => [] end) tr.
Definition v_starts (tr : list vevent) : list N :=
  flat_map (fun v => match v with VStart _ j => [j] | _ => [] end) tr.
Definition v_fins (tr : list vevent) : list N :=
  flat_map (fun v => match v with VFinish _ j => [j] | _ => [] end) tr.
Definition orun (o : option N) : list N := match o with Some j => [j] | None => [] end.

Lemma mrunning_eq ws : mrunning ws = flat_map orun ws.
Proof. reflexivity. Qed.

Lemma mrunning_upd k w old new ws :
  nth_error ws w = Some old ->
  occ k (mrunning (upd w new ws)) + occ k (orun old) = occ k (mrunning ws) + occ k (orun new).
Proof. intro H. exact (occ_upd orun k w old new ws H). Qed.

Lemma nrun0_mrunning ws : nrun ws = 0 -> mrunning ws = [].
Proof.
  unfold nrun, mrunning. induction ws as [|[j|] ws IH]; simpl; intro H; auto. discriminate.
Qed.

Lemma In_firstn {A} (x : A) k l : In x (firstn k l) -> In x l.
Proof. intro H. rewrite <- (firstn_skipn k l). apply in_or_app. left. exact H. Qed.

Record MInv (m : mon) (tr : list vevent) : Prop := mkMInv {
  mi_sub : m_sub m = v_subs tr;
  mi_nodup : forall j, occ j (v_subs tr) <= 1;
  mi_cons : forall j, occ j (v_subs tr) = occ j (m_pend m) + occ j (v_starts tr);
  mi_run : forall j, occ j (v_starts tr) = occ j (mrunning (m_ws m)) + occ j (v_fins tr);
  mi_end : m_ph m = MEnd -> m_pend m = [] /\ mrunning (m_ws m) = [];
  mi_seen : In VDropEnd tr -> m_ph m = MEnd
}.

Lemma minv_init n : MInv (mon_init n) [].
Proof.
  constructor; cbn; auto; try discriminate; try contradiction.
  intro j. unfold mrunning. induction n; simpl; auto.
Qed.

Lemma in_snoc_inv {A} (x y : A) l : In x (l ++ [y]) -> In x l \/ x = y.
Proof. intro H. apply in_app_or in H. destruct H as [H|[H|[]]]; auto. Qed.

Lemma v_snoc tr v :
  v_subs (tr ++ [v]) = v_subs tr ++ (match v with VSubmit j => [j] | _ => [] end) /\
  v_starts (tr ++ [v]) = v_starts tr ++ (match v with VStart _ j => [j] | _ => [] end) /\
  v_fins (tr ++ [v]) = v_fins tr ++ (match v with VFinish _ j => [j] | _ => [] end).
Proof.
  unfold v_subs, v_starts, v_fins. rewrite !flat_map_app. cbn [flat_map]. rewrite !app_nil_r. auto.
Qed.

Ltac vsnoc :=
  repeat match goal with
         | |- context [v_subs (?tr ++ [?v])] => rewrite (proj1 (v_snoc tr v))
         | |- context [v_starts (?tr ++ [?v])] => rewrite (proj1 (proj2 (v_snoc tr v)))
         | |- context [v_fins (?tr ++ [?v])] => rewrite (proj2 (proj2 (v_snoc tr v)))
         end; cbv beta iota; rewrite ?app_nil_r.

Lemma minv_step m tr v m' : MInv m tr -> mon_step m v = Some m' -> MInv m' (tr ++ [v]).
Proof.
  intros [Hsub Hnd Hcons Hrun Hend Hseen] Hs.
  assert (Hlive : m_ph m <> MEnd).
  { intro E. destruct v; unfold mon_step in Hs; rewrite E in Hs; try discriminate; try (destruct (m_pend m); discriminate).
    }
  assert (Hnot : ~ In VDropEnd tr) by (intro H; apply Hlive; auto).
  destruct v; unfold mon_step in Hs.
  - (* VSubmit *)
    inv_step Hs.
    constructor; cbn [m_ws m_pend m_sub m_ph]; vsnoc.
    + rewrite Hsub. reflexivity.
    + rewrite Hsub in E0. apply memN_occ0 in E0. intro k. rewrite occ_app. cbn [occ].
      specialize (Hnd k). destruct (N.eqb j k) eqn:Ek; [apply N.eqb_eq in Ek; subst|]; lia.
    + intro k. rewrite !occ_app. cbn [occ]. specialize (Hcons k). lia.
    + exact Hrun.
    + discriminate.
    + intro H. apply in_snoc_inv in H. destruct H as [H|H]; [contradiction | discriminate].
  - (* VStart *)
    assert (exists ph, ph <> MEnd /\ m_ph m = ph /\ nth_error (m_ws m) w = Some None /\
              memN j (firstn (length (m_ws m) - nrun (m_ws m)) (m_pend m)) = true /\
              m' = mkMon (upd w (Some j) (m_ws m)) (remove1 j (m_pend m)) (m_sub m) ph)
      as [ph [Hph [Eph [E0 [E2 ->]]]]].
    { exists (m_ph m). inv_step Hs; repeat split; auto; discriminate. }
    apply memN_In in E2. apply In_firstn in E2.
    constructor; cbn [m_ws m_pend m_sub m_ph]; vsnoc.
    + exact Hsub.
    + exact Hnd.
    + intro k. rewrite occ_app. cbn [occ]. specialize (Hcons k).
      pose proof (occ_remove1 j k _ E2). lia.
    + intro k. rewrite occ_app. cbn [occ]. specialize (Hrun k).
      pose proof (mrunning_upd k w None (Some j) (m_ws m) E0) as H.
      cbn [orun occ] in H. lia.
    + intro H. contradiction.
    + intro H. apply in_snoc_inv in H. destruct H as [H|H]; [contradiction | discriminate].
  - (* VFinish *)
    assert (exists ph, ph <> MEnd /\ m_ph m = ph /\ nth_error (m_ws m) w = Some (Some j) /\
              m' = mkMon (upd w None (m_ws m)) (m_pend m) (m_sub m) ph)
      as [ph [Hph [Eph [E0 ->]]]].
    { exists (m_ph m). inv_step Hs; eqb_subst; repeat split; auto; discriminate. }
    constructor; cbn [m_ws m_pend m_sub m_ph]; vsnoc.
    + exact Hsub.
    + exact Hnd.
    + exact Hcons.
    + intro k. rewrite occ_app. cbn [occ]. specialize (Hrun k).
      pose proof (mrunning_upd k w (Some j) None (m_ws m) E0) as H.
      cbn [orun occ] in H. lia.
    + intro H. contradiction.
    + intro H. apply in_snoc_inv in H. destruct H as [H|H]; [contradiction | discriminate].
  - (* VDropBegin *)
    inv_step Hs.
    constructor; cbn [m_ws m_pend m_sub m_ph]; vsnoc.
    + exact Hsub.
    + exact Hnd.
    + exact Hcons.
    + exact Hrun.
    + discriminate.
    + intro H. apply in_snoc_inv in H. destruct H as [H|H]; [contradiction | discriminate].
  - (* VDropEnd *)
    inv_step Hs.
    constructor; cbn [m_ws m_pend m_sub m_ph]; vsnoc.
    + exact Hsub.
    + exact Hnd.
    + exact Hcons.
    + exact Hrun.
    + intros _. split; auto. apply nrun0_mrunning. apply Nat.eqb_eq. assumption.
    + reflexivity.
Qed.

Lemma minv_steps tr : forall m tr0 m',
  MInv m tr0 -> mon_steps m tr = Some m' -> MInv m' (tr0 ++ tr).
Proof.
  induction tr as [|v tr IH]; intros m tr0 m' HI H; cbn [mon_steps] in H.
  - inversion H; subst. rewrite app_nil_r. exact HI.
  - destruct (mon_step m v) as [m1|] eqn:E; [|discriminate].
    specialize (IH m1 (tr0 ++ [v]) m' (minv_step _ _ _ _ HI E) H).
    rewrite <- app_assoc in IH. exact IH.
Qed.

Lemma trace_ok_steps n tr : trace_ok n tr = true -> exists m, mon_steps (mon_init n) tr = Some m.
Proof.
  unfold trace_ok, first_bad. destruct (mon_run (mon_init n) tr 0) eqn:E; [discriminate|].
  intros _. apply (mon_run_steps tr (mon_init n) 0). exact E.
Qed.

(* A log accepted by the monitor, read on its own: no id is submitted, started or finished
   twice; only submitted jobs start, only started jobs finish; and if the log contains DropEnd
   then exactly the submitted jobs were started and finished (before it: nothing follows it). *)
Theorem monitor_exactly_once n tr :
  trace_ok n tr = true ->
  NoDup (v_subs tr) /\ NoDup (v_starts tr) /\ NoDup (v_fins tr) /\
  (forall j, In j (v_starts tr) -> In j (v_subs tr)) /\
  (forall j, In j (v_fins tr) -> In j (v_starts tr)) /\
  (In VDropEnd tr -> Permutation (v_starts tr) (v_subs tr) /\ Permutation (v_fins tr) (v_subs tr)).
Proof.
  intro H. destruct (trace_ok_steps _ _ H) as [m Hm].
  pose proof (minv_steps tr _ [] _ (minv_init n) Hm) as HI. cbn [app] in HI.
  destruct HI as [_ Hnd Hcons Hrun Hend Hseen].
  split; [apply occ_nodup; exact Hnd|].
  split; [apply occ_nodup; intro j; specialize (Hnd j); specialize (Hcons j); lia|].
  split; [apply occ_nodup; intro j; specialize (Hnd j); specialize (Hcons j); specialize (Hrun j); lia|].
  split; [intros j Hj; apply occ_In in Hj; apply occ_In; specialize (Hcons j); lia|].
  split; [intros j Hj; apply occ_In in Hj; apply occ_In; specialize (Hrun j); lia|].
  intro Hd. destruct (Hend (Hseen Hd)) as [Hp Hr].
  split; apply occ_perm; intro j; specialize (Hcons j); specialize (Hrun j);
    rewrite Hp in Hcons; rewrite Hr in Hrun; simpl in *; lia.
Qed.

Lemma monitor_nothing_after_end n tr v tr' :
  trace_ok n (tr ++ VDropEnd :: v :: tr') = false.
Proof.
  destruct (trace_ok n (tr ++ VDropEnd :: v :: tr')) eqn:E; auto. exfalso.
  destruct (trace_ok_steps _ _ E) as [m Hm].
  rewrite mon_steps_app in Hm.
  destruct (mon_steps (mon_init n) tr) as [m1|] eqn:E1; [|discriminate].
  cbn [mon_steps] in Hm.
  destruct (mon_step m1 VDropEnd) as [m2|] eqn:E2; [|discriminate].
  destruct (mon_step m2 v) as [m3|] eqn:E3; [|discriminate].
  assert (Hph : m_ph m2 = MEnd).
  { unfold mon_step in E2. inv_step E2. reflexivity. }
  destruct v; unfold mon_step in E3; rewrite Hph in E3; try discriminate.
Qed.
