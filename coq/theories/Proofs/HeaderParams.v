(* Method headers with a list of SIMPLE parameters
     "(" [const|var|inout] Name [":" TypeName] { "," ... } ")"
   satisfy [pl_good], hence [is_header], for the real grammar (any fuel level >= 1): a type that is a
   plain identifier followed by `,` or `)` is parsed as AstTypeBasic without looking further. *)
From GoldV Require Import Base Tokens Lexer AstKinds Tree Strings PComb Grammar ParserWF GrammarWF LocalitySpan HeaderShape.
From Coq Require Import Lia.

Definition type_basic_ok (ptype : P node) : Prop :=
  forall ty rest c, tty ty = TIdentifier ->
    next_is_not TOBracket rest = true -> next_is_not TPlus rest = true ->
    ptype (ty :: rest) c = (Ok rest (basic_type_node ty), c).

Lemma gram_type_basic_ok f : type_basic_ok (g_type (gram (S f))).
Proof.
  intros ty rest c Hty Hob Hpl. cbn [gram g_type]. unfold parse_type_body, alt. cbn [alt_go].
  assert (is_comment ty = false) as Hc by (eapply not_comment_of_ty; eauto).
  (* parse_type_sized: Name then `(` expected *)
  unfold parse_type_sized at 1. unfold bind at 1. rewrite exp_token_hit by exact Hty.
  unfold bind at 1. rewrite exp_token_miss_next by (reflexivity || exact Hob).
  (* parse_type_composed: a basic type, then no `+` *)
  unfold parse_type_composed, binops. unfold alt at 1. cbn [alt_go].
  unfold parse_type_basic at 1. unfold bind at 1.
  rewrite tok_alt_hit; [|rewrite Hty; reflexivity|exact Hc].
  unfold ret. cbn [binops_go]. rewrite exp_token_miss_next by (reflexivity || exact Hpl). reflexivity.
Qed.

(* ---------- one parameter ---------- *)

Record sparam := mkSP { sp_mod : option tok; sp_name : tok; sp_type : option (tok * tok) }.

Definition sp_ok (p : sparam) : Prop :=
  match sp_mod p with Some m => existsb (tt_eqb (tty m)) [TConst; TVar; TInOut] = true | None => True end /\
  tty (sp_name p) = TIdentifier /\
  match sp_type p with Some (col, ty) => tty col = TColon /\ tty ty = TIdentifier | None => True end.

Definition sp_toks (p : sparam) : list tok :=
  opt_list (sp_mod p) ++ sp_name p :: match sp_type p with Some (col, ty) => [col; ty] | None => [] end.

Definition sp_node (p : sparam) : node :=
  let id := sp_name p in
  let first := match sp_mod p with Some t => t | None => id end in
  match sp_type p with
  | Some (_, ty) =>
      Node KAstParameterDeclaration (tval id) (traw first) (mkRange (tpos first) (rend (nrange (basic_type_node ty))))
           [(K_ident, AT id); (K_value, opt_toks (sp_mod p))] [basic_type_node ty]
  | None =>
      Node KAstParameterDeclaration (tval id) (traw first) (mkRange (tpos first) (rend (trange id)))
           [(K_ident, AT id); (K_value, opt_toks (sp_mod p))] []
  end.

Definition is_sep (s : tok) : Prop := tty s = TComma \/ tty s = TCBracket.

Lemma sep_not_comment s : is_sep s -> is_comment s = false.
Proof. intros [H|H]; eapply not_comment_of_ty; eauto. Qed.

Lemma sep_next ty s l : is_sep s -> tt_eqb TComma ty = false -> tt_eqb TCBracket ty = false ->
  next_is_not ty (s :: l) = true.
Proof.
  intros Hs H1 H2. rewrite next_is_not_cons by (apply sep_not_comment; exact Hs).
  destruct Hs as [H|H]; rewrite H; [rewrite H1|rewrite H2]; reflexivity.
Qed.

Lemma parse_ident_token_hit n l c : tty n = TIdentifier -> parse_ident_token (n :: l) c = (Ok l n, c).
Proof.
  intro H. unfold parse_ident_token. rewrite tok_alt_hit; [reflexivity| |].
  - rewrite H. reflexivity.
  - eapply not_comment_of_ty; eauto.
Qed.

Lemma param_ok ptype p s rest c : type_basic_ok ptype -> sp_ok p -> is_sep s ->
  parse_parameter_declaration ptype (sp_toks p ++ s :: rest) c = (Ok (s :: rest) (sp_node p), c).
Proof.
  intros Hpt (Hm & Hn & Ht) Hs. destruct p as [md nm tp]. cbn [sp_mod sp_name sp_type] in *.
  unfold sp_toks, sp_node. cbn [sp_mod sp_name sp_type].
  assert (is_comment nm = false) as Hnc by (eapply not_comment_of_ty; eauto).
  unfold parse_parameter_declaration. unfold bind at 1. unfold recover_at_error at 1.
  destruct md as [m|]; cbn [opt_list app].
  - assert (is_comment m = false) as Hmc.
    { unfold is_comment. destruct (tt_eqb (tty m) TComment) eqn:E; [|reflexivity].
      apply tt_eqb_eq in E. rewrite E in Hm. discriminate. }
    rewrite tok_alt_hit by assumption.
    unfold bind at 1. rewrite parse_ident_token_hit by exact Hn.
    unfold bind at 1. unfold recover_at_error.
    destruct tp as [[col ty]|]; cbn [app].
    + destruct Ht as [Hcol Hty]. rewrite exp_token_hit by exact Hcol.
      unfold bind, prepend. rewrite Hpt; [reflexivity|exact Hty| |]; apply sep_next; auto.
    + rewrite exp_token_miss_next; [reflexivity|reflexivity|apply sep_next; auto].
  - destruct (tok_alt_miss [TConst; TVar; TInOut] (nm :: match tp with Some (col, ty) => [col; ty] | None => [] end ++ s :: rest) c)
      as [m1 E1]; [discriminate| |].
    { simpl. rewrite !next_is_not_cons, Hn by exact Hnc. reflexivity. }
    rewrite E1.
    unfold bind at 1. rewrite parse_ident_token_hit by exact Hn.
    unfold bind at 1. unfold recover_at_error.
    destruct tp as [[col ty]|]; cbn [app].
    + destruct Ht as [Hcol Hty]. rewrite exp_token_hit by exact Hcol.
      unfold bind, prepend. rewrite Hpt; [reflexivity|exact Hty| |]; apply sep_next; auto.
    + rewrite exp_token_miss_next; [reflexivity|reflexivity|apply sep_next; auto].
Qed.

(* ---------- the list ---------- *)

Fixpoint plist_toks (p : sparam) (more : list (tok * sparam)) : list tok :=
  sp_toks p ++ match more with [] => [] | (cm, q) :: more' => cm :: plist_toks q more' end.

Definition more_ok (more : list (tok * sparam)) : Prop :=
  Forall (fun cq => tty (fst cq) = TComma /\ sp_ok (snd cq)) more.

Lemma sep_list_rec_params ptype cb y c : type_basic_ok ptype -> tty cb = TCBracket ->
  forall more q fuel prev acc, sp_ok q -> more_ok more -> (length more < fuel)%nat ->
  sep_list_rec fuel (parse_parameter_declaration ptype) TComma prev acc (plist_toks q more ++ cb :: y) c =
  (Ok (cb :: y) (rev acc ++ sp_node q :: map (fun cq => sp_node (snd cq)) more), c).
Proof.
  intros Hpt Hcb. induction more as [|[cm q'] more IH]; intros q fuel prev acc Hq Hm Hf;
    (destruct fuel as [|f]; [simpl in Hf; lia|]); cbn [sep_list_rec plist_toks].
  - rewrite app_nil_r. rewrite param_ok; [|assumption|assumption|right; exact Hcb].
    rewrite exp_token_miss_next; [|reflexivity|].
    + cbn [rev map]. reflexivity.
    + rewrite next_is_not_cons by (eapply not_comment_of_ty; eauto). rewrite Hcb. reflexivity.
  - inversion Hm as [|? ? [Hcm Hq'] Hm']; subst. cbn [fst snd] in *.
    rewrite <- app_assoc. cbn [app].
    rewrite param_ok; [|assumption|assumption|left; exact Hcm].
    rewrite exp_token_hit by exact Hcm.
    rewrite IH; [|assumption|assumption|simpl in Hf; lia].
    cbn [rev map snd]. rewrite <- app_assoc. reflexivity.
Qed.

Lemma sep_list_params ptype cb y c q more : type_basic_ok ptype -> tty cb = TCBracket ->
  sp_ok q -> more_ok more ->
  sep_list (parse_parameter_declaration ptype) TComma (plist_toks q more ++ cb :: y) c =
  (Ok (cb :: y) (sp_node q :: map (fun cq => sp_node (snd cq)) more), c).
Proof.
  intros Hpt Hcb Hq Hm. unfold sep_list. destruct more as [|[cm q'] more]; cbn [plist_toks].
  - rewrite app_nil_r. rewrite param_ok; [|assumption|assumption|right; exact Hcb].
    rewrite exp_token_miss_next; [reflexivity|reflexivity|].
    rewrite next_is_not_cons by (eapply not_comment_of_ty; eauto). rewrite Hcb. reflexivity.
  - inversion Hm as [|? ? [Hcm Hq'] Hm']; subst. cbn [fst snd] in *.
    rewrite <- app_assoc. cbn [app].
    rewrite param_ok; [|assumption|assumption|left; exact Hcm].
    rewrite exp_token_hit by exact Hcm.
    rewrite (sep_list_rec_params ptype cb y c Hpt Hcb more q' _ cm [sp_node q] Hq' Hm').
    + reflexivity.
    + rewrite app_length. simpl. pose proof (app_length (plist_toks q' more) (cb :: y)).
      assert (length more <= length (plist_toks q' more))%nat.
      { clear. revert q'. induction more as [|[cm q''] more IH]; intro q'; simpl; [lia|].
        rewrite app_length. simpl. specialize (IH q''). lia. }
      lia.
Qed.

Definition params_node (ob cb : tok) (q : sparam) (more : list (tok * sparam)) : node :=
  Node KAstParameterDeclarationList S_param_decls (traw ob) (mkRange (tpos ob) (rend (trange cb))) []
       (sp_node q :: map (fun cq => sp_node (snd cq)) more).

Theorem params_good ptype ob cb q more : type_basic_ok ptype ->
  tty ob = TOBracket -> tty cb = TCBracket -> sp_ok q -> more_ok more ->
  pl_good ptype (ob :: plist_toks q more ++ [cb]) (Some (params_node ob cb q more)).
Proof.
  intros Hpt Hob Hcb Hq Hm. split; [right; eauto|].
  intros y c _. cbn [app]. rewrite <- app_assoc. cbn [app].
  unfold parse_parameter_declaration_list. unfold bind at 1. unfold recover_at_error.
  rewrite exp_token_hit by exact Hob. unfold bind at 1. unfold prepend at 1.
  rewrite sep_list_params by assumption.
  unfold bind, prepend. rewrite exp_token_hit by exact Hcb. reflexivity.
Qed.
