(* C16: specification of the four lint rules as predicates on ONE declaration and its own method
   subtree, and the proofs that the checker models (Model/Lints.v) flag exactly the declarations
   satisfying their rule, each once -- for ALL trees whose root is not itself a function (the only
   hypothesis; the parser's root is an AstRoot).  The inherited and the purge rule are exact
   characterisations with no guard on the shape of methods, statements or declarations: both
   checkers decide a method on the method node's own subtree. *)
From GoldV Require Import Base Tokens Lexer AstKinds Tree Lints.
From Coq Require Import Permutation.

(* ========================================================================================== *)
(* 1. trees: induction principle, pre-order listings                                          *)
(* ========================================================================================== *)

Lemma node_ind2 (P : node -> Prop) :
  (forall k i r rg a ch, Forall P ch -> P (Node k i r rg a ch)) -> forall n, P n.
Proof.
  intro H. fix IH 1. intros [k i r rg a ch]. apply H.
  induction ch as [|c ch IHch]; constructor; [apply IH | exact IHch].
Qed.

(* pre-order listing of a subtree, each node with its chain of parents (nearest first) *)
Fixpoint pre (anc : list node) (n : node) : list (list node * node) :=
  match n with
  | Node _ _ _ _ _ ch =>
    (anc, n) :: (fix go (l : list node) : list (list node * node) :=
                   match l with [] => [] | c :: l' => pre (n :: anc) c ++ go l' end) ch
  end.

Fixpoint nodes (n : node) : list node :=
  match n with
  | Node _ _ _ _ _ ch =>
    n :: (fix go (l : list node) : list node :=
            match l with [] => [] | c :: l' => nodes c ++ go l' end) ch
  end.

Lemma pre_eq anc n : pre anc n = (anc, n) :: flat_map (pre (n :: anc)) (nchildren n).
Proof.
  destruct n as [k i r rg a ch]. reflexivity.
Qed.

Lemma nodes_eq n : nodes n = n :: flat_map nodes (nchildren n).
Proof.
  destruct n as [k i r rg a ch]. reflexivity.
Qed.

(* the proper descendants of a node, pre-order: what the walker visits after the node itself *)
Definition body (m : node) : list node := flat_map nodes (nchildren m).

Lemma nodes_body n : nodes n = n :: body n.
Proof. apply nodes_eq. Qed.

Lemma map_flat_map {A B C} (f : B -> C) (g : A -> list B) l :
  map f (flat_map g l) = flat_map (fun x => map f (g x)) l.
Proof. induction l as [|x l IH]; [reflexivity|]. cbn [flat_map]. rewrite map_app, IH. reflexivity. Qed.

Lemma flat_map_ext_in {A B} (f g : A -> list B) l :
  (forall x, In x l -> f x = g x) -> flat_map f l = flat_map g l.
Proof.
  induction l as [|x l IH]; intro H; [reflexivity|]. cbn [flat_map].
  rewrite (H x (or_introl eq_refl)), IH; [reflexivity|]. intros y Hy. apply H. right. exact Hy.
Qed.

Lemma map_snd_pre n : forall anc, map snd (pre anc n) = nodes n.
Proof.
  induction n as [k i r rg a ch IH] using node_ind2. intro anc.
  rewrite pre_eq, nodes_eq. cbn [map snd nchildren]. f_equal.
  rewrite map_flat_map. apply flat_map_ext_in. intros c Hc.
  rewrite Forall_forall in IH. apply IH. exact Hc.
Qed.

(* ---- the walkers are folds over the pre-order listings ---- *)
Definition step2 {S} (visit : wctx -> list node -> node -> S -> S) (cs : wctx * S) (p : list node * node) : wctx * S :=
  let c1 := ctx_notify (fst cs) (snd p) in (c1, visit c1 (fst p) (snd p) (snd cs)).

Lemma fold_left_flat_map {A B S} (f : S -> B -> S) (g : A -> list B) (h : S -> A -> S) l :
  (forall x s, In x l -> h s x = fold_left f (g x) s) ->
  forall s, fold_left h l s = fold_left f (flat_map g l) s.
Proof.
  induction l as [|x l IH]; intros H s; [reflexivity|]. cbn [fold_left flat_map].
  rewrite fold_left_app, <- (H x s (or_introl eq_refl)). apply IH.
  intros y s' Hy. apply H. right. exact Hy.
Qed.

Lemma walk2_fold {S} (visit : wctx -> list node -> node -> S -> S) n :
  forall anc cs, walk2 visit anc n cs = fold_left (step2 visit) (pre anc n) cs.
Proof.
  induction n as [k i r rg a ch IH] using node_ind2. intros anc cs.
  rewrite pre_eq. cbn [walk2 fold_left nchildren]. unfold step2 at 2. cbn [fst snd].
  set (n := Node k i r rg a ch). set (acc0 := (ctx_notify (fst cs) n, _)).
  rewrite <- (fold_left_flat_map (step2 visit) (pre (n :: anc)) (fun acc c => walk2 visit (n :: anc) c acc)).
  - reflexivity.
  - intros c s Hc. rewrite Forall_forall in IH. apply IH. exact Hc.
Qed.

Lemma walk1_fold {S} (visit : node -> S -> S) n :
  forall s, walk1 visit n s = fold_left (fun acc x => visit x acc) (nodes n) s.
Proof.
  induction n as [k i r rg a ch IH] using node_ind2. intro s.
  rewrite nodes_eq. cbn [walk1 fold_left nchildren].
  set (n := Node k i r rg a ch).
  rewrite <- (fold_left_flat_map (fun acc x => visit x acc) nodes (fun acc c => walk1 visit c acc)).
  - reflexivity.
  - intros c s' Hc. rewrite Forall_forall in IH. apply IH. exact Hc.
Qed.

Lemma run1_fold {S} (visit : node -> S -> S) ast s :
  run1 visit ast s = fold_left (fun acc x => visit x acc) (body ast) s.
Proof.
  unfold run1, body. apply fold_left_flat_map. intros c s' _. apply walk1_fold.
Qed.

(* a visitor that ignores context and parents is a fold over the plain node list *)
Lemma fold_step2_plain {S} (visit : wctx -> list node -> node -> S -> S) (f : S -> node -> S) :
  (forall c anc n s, visit c anc n s = f s n) ->
  forall l cs, snd (fold_left (step2 visit) l cs) = fold_left f (map snd l) (snd cs).
Proof.
  intros H l. induction l as [|p l IH]; intro cs; [reflexivity|].
  cbn [fold_left map]. rewrite IH. unfold step2. cbn [snd]. rewrite H. reflexivity.
Qed.

(* ---- visitors that only append ---- *)
Definition app_like {A} (f : list A -> list A) : Prop := forall out, f out = out ++ f [].

Lemma app_like_id {A} : app_like (fun o : list A => o).
Proof. intro out. rewrite app_nil_r. reflexivity. Qed.

Lemma app_like_push {A} (l : list A) : app_like (fun o => o ++ l).
Proof. intro out. reflexivity. Qed.

Lemma app_like_if {A} (b : bool) (f g : list A -> list A) :
  app_like f -> app_like g -> app_like (fun o => if b then f o else g o).
Proof. intros Hf Hg out. destruct b; [apply Hf | apply Hg]. Qed.

Lemma app_like_comp {A} (f g : list A -> list A) :
  app_like f -> app_like g -> app_like (fun o => g (f o)).
Proof.
  intros Hf Hg out. rewrite (Hg (f out)), (Hf out), (Hg (f [])), app_assoc. reflexivity.
Qed.

Lemma comp_nil {A} (f g : list A -> list A) : app_like g -> g (f []) = f [] ++ g [].
Proof. intro Hg. apply Hg. Qed.

Lemma fold_app_like {A B} (v : B -> list A -> list A) :
  (forall x, app_like (v x)) ->
  forall l out, fold_left (fun acc x => v x acc) l out = out ++ flat_map (fun x => v x []) l.
Proof.
  intros H l. induction l as [|x l IH]; intro out; cbn [fold_left flat_map].
  - rewrite app_nil_r. reflexivity.
  - rewrite IH, (H x out), app_assoc. reflexivity.
Qed.

(* ========================================================================================== *)
(* 2. kinds                                                                                   *)
(* ========================================================================================== *)

Lemma is_kind_true k n : is_kind k n = true <-> nkind n = k.
Proof. unfold is_kind. apply ak_eqb_eq. Qed.

Lemma is_kind_excl k1 k2 n : is_kind k1 n = true -> k1 <> k2 -> is_kind k2 n = false.
Proof.
  intros H Hne. destruct (is_kind k2 n) eqn:E; [|reflexivity].
  apply is_kind_true in H. apply is_kind_true in E. congruence.
Qed.

Ltac kind_excl H :=
  repeat match goal with
  | |- context [is_kind ?k ?n] =>
    lazymatch type of H with
    | is_kind ?k0 n = true =>
      lazymatch k with
      | k0 => rewrite H
      | _ => rewrite (is_kind_excl k0 k n H) by discriminate
      end
    end
  end.

(* ========================================================================================== *)
(* 3. return-type rule                                                                        *)
(* ========================================================================================== *)

(* R_ret f: f is a function whose declared return type is the basic type Text, tVarByteArray or
   aListOfInstances (identifier, letter case ignored) *)
Definition ret_key (u : str) : option str :=
  if str_eqb u s_TVARBYTEARRAY then Some s_tVarByteArray
  else if str_eqb u s_ALISTOFINSTANCES then Some s_aListOfInstances
  else if str_eqb u s_TEXT then Some s_Text else None.

Definition R_ret (f : node) (d : diag) : Prop :=
  is_kind KAstFunction f = true /\
  exists rt t key, child 1 f = Some rt /\ is_kind KAstTypeBasic rt = true /\
                   attr_tok K_token rt = Some t /\ tty t = TIdentifier /\
                   ret_key (upper (tval t)) = Some key /\
                   d = mkDiag RET WARNING (nrange rt) key.

Definition ret_verdict (f : node) : list diag :=
  if is_kind KAstFunction f then
    match child 1 f with
    | Some rt =>
      if is_kind KAstTypeBasic rt then
        match attr_tok K_token rt with
        | Some t => if tt_eqb (tty t) TIdentifier then
                      match ret_key (upper (tval t)) with
                      | Some key => [mkDiag RET WARNING (nrange rt) key]
                      | None => []
                      end
                    else []
        | None => []
        end
      else []
    | None => []
    end
  else [].

Lemma ret_verdict_spec f d : In d (ret_verdict f) <-> R_ret f d.
Proof.
  unfold ret_verdict, R_ret. split.
  - intro H. destruct (is_kind KAstFunction f); [|destruct H]. split; [reflexivity|].
    destruct (child 1 f) as [rt|] eqn:Ec; [|destruct H].
    destruct (is_kind KAstTypeBasic rt) eqn:Ek; [|destruct H].
    destruct (attr_tok K_token rt) as [t|] eqn:Ea; [|destruct H].
    destruct (tt_eqb (tty t) TIdentifier) eqn:Et; [|destruct H].
    destruct (ret_key (upper (tval t))) as [key|] eqn:Er; [|destruct H].
    destruct H as [H|[]]. exists rt, t, key. apply tt_eqb_eq in Et. repeat split; auto.
  - intros [Hf (rt & t & key & Hc & Hk & Ha & Ht & Hr & Hd)].
    rewrite Hf, Hc, Hk, Ha, Ht, Hr. replace (tt_eqb TIdentifier TIdentifier) with true by reflexivity.
    left. symmetry. exact Hd.
Qed.

Lemma ret_verdict_once f : (length (ret_verdict f) <= 1)%nat.
Proof.
  unfold ret_verdict.
  repeat match goal with |- context [match ?x with _ => _ end] => destruct x end; cbn; lia.
Qed.

Lemma ret_visit_verdict n out : ret_visit n out = out ++ ret_verdict n.
Proof.
  unfold ret_visit, ret_verdict, ret_key.
  repeat match goal with |- context [match ?x with _ => _ end] => destruct x end;
    rewrite ?app_nil_r; reflexivity.
Qed.

Definition spec_ret (file : node) : list diag := flat_map ret_verdict (nodes file).

Lemma ret_type_lint_body ast : ret_type_lint ast = flat_map ret_verdict (body ast).
Proof.
  unfold ret_type_lint. rewrite run1_fold.
  rewrite (fold_app_like ret_visit) by (intros x out; rewrite !ret_visit_verdict; reflexivity).
  cbn [app]. apply flat_map_ext_in. intros x _. apply ret_visit_verdict.
Qed.

Lemma ret_type_lint_spec ast :
  is_kind KAstFunction ast = false -> ret_type_lint ast = spec_ret ast.
Proof.
  intro H. rewrite ret_type_lint_body. unfold spec_ret. rewrite nodes_body. cbn [flat_map].
  unfold ret_verdict at 2. rewrite H. reflexivity.
Qed.

(* ========================================================================================== *)
(* 4. naming rule                                                                             *)
(* ========================================================================================== *)

Definition not_capital (id : str) : bool := negb (underscore_first id) && negb (upper_first id).

(* R_name anc d cls: declaration d (with parent chain anc) breaks the convention of class cls *)
Definition R_nameb (anc : list node) (d : node) (cls : dclass) : bool :=
  match cls with
  | NPROC => is_kind KAstProcedure d && negb (is_override d) && not_capital (nident d)
  | NFUNC => is_kind KAstFunction d && negb (is_override d) && not_capital (nident d)
  | NFIELD => is_kind KAstGlobalVariableDeclaration d && negb (is_override d) && not_capital (nident d)
  | NPARAM => is_kind KAstParameterDeclaration d &&
              match anc with _ :: g :: _ => negb (is_override g) && not_capital (nident d) | _ => false end
  | NLOCAL => is_kind KAstLocalVariableDeclaration d && negb (underscore_first (nident d)) && upper_first (nident d)
  | NTYPE => is_kind KAstTypeDeclaration d && negb (first_is 116 (nident d))
  | NCONST => is_kind KAstConstantDeclaration d && negb (first_is 99 (nident d)) && negb (starts_with [109;108] (nident d))
  | _ => false
  end.

Definition R_name (anc : list node) (d : node) (cls : dclass) : Prop :=
  match cls with
  | NPROC => nkind d = KAstProcedure /\ is_override d = false /\ underscore_first (nident d) = false /\ upper_first (nident d) = false
  | NFUNC => nkind d = KAstFunction /\ is_override d = false /\ underscore_first (nident d) = false /\ upper_first (nident d) = false
  | NFIELD => nkind d = KAstGlobalVariableDeclaration /\ is_override d = false /\ underscore_first (nident d) = false /\ upper_first (nident d) = false
  | NPARAM => nkind d = KAstParameterDeclaration /\
              exists p g rest, anc = p :: g :: rest /\ is_override g = false /\
                               underscore_first (nident d) = false /\ upper_first (nident d) = false
  | NLOCAL => nkind d = KAstLocalVariableDeclaration /\ underscore_first (nident d) = false /\ upper_first (nident d) = true
  | NTYPE => nkind d = KAstTypeDeclaration /\ first_is 116 (nident d) = false
  | NCONST => nkind d = KAstConstantDeclaration /\ first_is 99 (nident d) = false /\ starts_with [109;108] (nident d) = false
  | _ => False
  end.

Lemma R_nameb_spec anc d cls : R_nameb anc d cls = true <-> R_name anc d cls.
Proof.
  destruct cls; cbn [R_nameb R_name]; unfold not_capital;
    rewrite ?andb_true_iff, ?negb_true_iff, ?is_kind_true; try tauto; try (split; [discriminate|tauto]).
  destruct anc as [|p [|g rest]].
  - split; [intros [_ H]; discriminate | intros [_ (p & g & rest & H & _)]; discriminate].
  - split; [intros [_ H]; discriminate | intros [_ (p' & g & rest & H & _)]; discriminate].
  - rewrite ?andb_true_iff, ?negb_true_iff. split.
    + intros [Hk [Ho [H1 H2]]]. split; [exact Hk|]. exists p, g, rest. auto.
    + intros [Hk (p' & g' & rest' & E & Ho & H1 & H2)]. inversion E; subst. auto.
Qed.

Definition name_rng (d : node) (cls : dclass) : range :=
  match cls with NPROC | NFUNC => name_range d | _ => ident_range d end.

Definition name_classes : list dclass := [NPROC; NFUNC; NFIELD; NPARAM; NLOCAL; NTYPE; NCONST].

Definition name_verdict (anc : list node) (d : node) : list diag :=
  flat_map (fun cls => if R_nameb anc d cls then [mkDiag cls WARNING (name_rng d cls) []] else []) name_classes.

Lemma check_upper_app cls id r : app_like (check_upper cls id r).
Proof. intro out. unfold check_upper. destruct (_ && _); [reflexivity | rewrite app_nil_r; reflexivity]. Qed.

Definition nm1 (n : node) (o : list diag) :=
  if is_kind KAstProcedure n then (if negb (is_override n) then check_upper NPROC (nident n) (name_range n) o else o) else o.
Definition nm2 (n : node) (o : list diag) :=
  if is_kind KAstFunction n then (if negb (is_override n) then check_upper NFUNC (nident n) (name_range n) o else o) else o.
Definition nm3 (n : node) (o : list diag) :=
  if is_kind KAstGlobalVariableDeclaration n then (if negb (is_override n) then check_upper NFIELD (nident n) (ident_range n) o else o) else o.
Definition nm4 (anc : list node) (n : node) (o : list diag) :=
  if is_kind KAstParameterDeclaration n then
    match anc with
    | _ :: g :: _ => if negb (is_override g) then check_upper NPARAM (nident n) (ident_range n) o else o
    | _ => o
    end
  else o.

Lemma name_member_param_eq anc n out : name_member_param anc n out = nm4 anc n (nm3 n (nm2 n (nm1 n out))).
Proof. reflexivity. Qed.

Lemma nm1_app n : app_like (nm1 n).
Proof. unfold nm1. repeat apply app_like_if; try apply app_like_id; try apply app_like_push. Qed.
Lemma nm2_app n : app_like (nm2 n).
Proof. unfold nm2. repeat apply app_like_if; try apply app_like_id; try apply app_like_push. Qed.
Lemma nm3_app n : app_like (nm3 n).
Proof. unfold nm3. repeat apply app_like_if; try apply app_like_id; try apply app_like_push. Qed.
Lemma nm4_app anc n : app_like (nm4 anc n).
Proof.
  unfold nm4. destruct anc as [|p [|g rest]]; repeat apply app_like_if; try apply app_like_id; try apply app_like_push.
Qed.
Lemma name_local_app n : app_like (name_local n).
Proof. unfold name_local. repeat apply app_like_if; try apply app_like_id. apply app_like_push. Qed.
Lemma name_type_app n : app_like (name_type n).
Proof. unfold name_type. repeat apply app_like_if; try apply app_like_id. apply app_like_push. Qed.
Lemma name_const_app n : app_like (name_const n).
Proof. unfold name_const. repeat apply app_like_if; try apply app_like_id. apply app_like_push. Qed.

Lemma name_visit_app c anc n : app_like (name_visit c anc n).
Proof.
  unfold name_visit. intro out. rewrite !name_member_param_eq.
  pose proof (nm1_app n) as H1. pose proof (nm2_app n) as H2. pose proof (nm3_app n) as H3.
  pose proof (nm4_app anc n) as H4. pose proof (name_local_app n) as H5.
  pose proof (name_type_app n) as H6. pose proof (name_const_app n) as H7.
  pose proof (app_like_comp _ _ H1 H2) as C2. pose proof (app_like_comp _ _ C2 H3) as C3.
  pose proof (app_like_comp _ _ C3 H4) as C4. pose proof (app_like_comp _ _ C4 H5) as C5.
  pose proof (app_like_comp _ _ C5 H6) as C6. pose proof (app_like_comp _ _ C6 H7) as C7.
  apply (C7 out).
Qed.

Lemma name_visit_verdict c anc n : name_visit c anc n [] = name_verdict anc n.
Proof.
  unfold name_visit. rewrite name_member_param_eq.
  rewrite (name_const_app n), (name_type_app n), (name_local_app n), (nm4_app anc n), (nm3_app n), (nm2_app n).
  unfold name_verdict, name_classes. cbn [flat_map R_nameb name_rng]. rewrite app_nil_r.
  unfold nm1, nm2, nm3, nm4, name_local, name_type, name_const, check_upper, not_capital.
  rewrite <- !app_assoc.
  repeat f_equal.
  all: try (destruct (is_kind _ n); cbn [andb app]; try reflexivity;
            repeat match goal with |- context [negb ?b] => destruct b; cbn [negb andb app] end; reflexivity).
  destruct (is_kind KAstParameterDeclaration n); cbn [andb app]; [|reflexivity].
  destruct anc as [|p [|g rest]]; try reflexivity.
  repeat match goal with |- context [negb ?b] => destruct b; cbn [negb andb app] end; reflexivity.
Qed.

Definition spec_name (file : node) : list diag :=
  flat_map (fun p => name_verdict (fst p) (snd p)) (pre [] file).

Lemma naming_lint_spec ast : naming_lint ast = spec_name ast.
Proof.
  unfold naming_lint, run2, spec_name. rewrite walk2_fold.
  assert (G : forall l cs, snd (fold_left (step2 name_visit) l cs) =
                           snd cs ++ flat_map (fun p => name_verdict (fst p) (snd p)) l).
  { induction l as [|p l IH]; intro cs; cbn [fold_left flat_map].
    - rewrite app_nil_r. reflexivity.
    - rewrite IH. unfold step2 at 1. cbn [snd]. rewrite name_visit_app, name_visit_verdict, app_assoc. reflexivity. }
  rewrite G. reflexivity.
Qed.

(* ========================================================================================== *)
(* 5. the walk seen as a sequence of methods and of nodes outside any method                  *)
(* ========================================================================================== *)

Inductive item := Gap (x : node) | Meth (m : node).

(* top-most method subtrees and the nodes outside them, in pre-order *)
Fixpoint items (n : node) : list item :=
  match n with
  | Node _ _ _ _ _ ch =>
    if is_method n then [Meth n]
    else Gap n :: (fix go (l : list node) : list item :=
                     match l with [] => [] | c :: l' => items c ++ go l' end) ch
  end.

Lemma items_eq n : items n = if is_method n then [Meth n] else Gap n :: flat_map items (nchildren n).
Proof. destruct n as [k i r rg a ch]. reflexivity. Qed.

Definition expand (it : item) : list node :=
  match it with Gap x => [x] | Meth m => nodes m end.

Lemma nodes_items n : nodes n = flat_map expand (items n).
Proof.
  induction n as [k i r rg a ch IH] using node_ind2.
  rewrite items_eq. destruct (is_method _).
  - cbn [flat_map expand]. rewrite app_nil_r. reflexivity.
  - cbn [flat_map expand app]. rewrite nodes_eq. f_equal. cbn [nchildren].
    induction ch as [|c ch IHc]; [reflexivity|]. cbn [flat_map]. inversion IH; subst.
    rewrite flat_map_app, <- IHc by assumption. f_equal. assumption.
Qed.

Definition item_shape (it : item) : Prop :=
  match it with Gap x => is_method x = false | Meth m => is_method m = true end.

Lemma items_shape n : Forall item_shape (items n).
Proof.
  induction n as [k i r rg a ch IH] using node_ind2.
  rewrite items_eq. destruct (is_method _) eqn:E.
  - constructor; [exact E | constructor].
  - constructor; [exact E|]. cbn [nchildren]. induction ch as [|c ch IHc]; [constructor|].
    cbn [flat_map]. inversion IH; subst. apply Forall_app. split; [assumption | apply IHc; assumption].
Qed.

Definition meths (its : list item) : list node :=
  flat_map (fun it => match it with Gap _ => [] | Meth m => [m] end) its.

Definition methods (file : node) : list node := filter is_method (nodes file).

Definition no_nested (m : node) : bool := forallb (fun x => negb (is_method x)) (body m).

Lemma filter_flat_map {A B} (p : B -> bool) (g : A -> list B) l :
  filter p (flat_map g l) = flat_map (fun x => filter p (g x)) l.
Proof.
  induction l as [|x l IH]; [reflexivity|]. cbn [flat_map]. rewrite filter_app, IH. reflexivity.
Qed.

Lemma filter_none {A} (p : A -> bool) l : forallb (fun x => negb (p x)) l = true -> filter p l = [].
Proof.
  induction l as [|x l IH]; [reflexivity|]. cbn [forallb filter]. intro H.
  apply andb_true_iff in H as [H1 H2]. apply negb_true_iff in H1. rewrite H1. apply IH. exact H2.
Qed.

Lemma methods_meths file :
  Forall (fun it => match it with Gap _ => True | Meth m => no_nested m = true end) (items file) ->
  methods file = meths (items file).
Proof.
  intro H. unfold methods, meths. rewrite nodes_items, filter_flat_map.
  pose proof (items_shape file) as Hs.
  induction (items file) as [|it its IH]; [reflexivity|].
  inversion H; subst. inversion Hs; subst. cbn [flat_map]. rewrite IH by assumption. f_equal.
  destruct it as [x|m]; cbn [expand item_shape] in *.
  - cbn [filter]. rewrite H4. reflexivity.
  - rewrite nodes_body. cbn [filter]. rewrite H4. f_equal. apply filter_none. exact H2.
Qed.

(* ========================================================================================== *)
(* 6. the two stateful checkers report when they visit a method node                          *)
(* ========================================================================================== *)

(* a v2 visitor that appends a list depending on the visited node alone: the walk is a flat_map over
   the pre-order listing, whatever the context and the parents are *)
Lemma run2_append (v : wctx -> list node -> node -> list diag -> list diag) (f : node -> list diag) :
  (forall c anc n out, v c anc n out = out ++ f n) ->
  forall ast, run2 v (fun s => s) ast [] = flat_map f (nodes ast).
Proof.
  intros H ast. unfold run2. rewrite walk2_fold.
  rewrite (fold_step2_plain v (fun s n => s ++ f n)) by (intros; apply H).
  rewrite map_snd_pre. cbn [snd].
  rewrite (fold_app_like (fun x o => o ++ f x)) by (intros x out; reflexivity).
  reflexivity.
Qed.

Lemma flat_map_filter {A B} (p : A -> bool) (g : A -> list B) l :
  flat_map (fun x => if p x then g x else []) l = flat_map g (filter p l).
Proof.
  induction l as [|x l IH]; [reflexivity|]. cbn [flat_map filter].
  destruct (p x); cbn [flat_map app]; rewrite IH; reflexivity.
Qed.

Lemma existsb_false {A} (p : A -> bool) l : existsb p l = false <-> forall x, In x l -> p x = false.
Proof.
  induction l as [|y l IH]; cbn [existsb In].
  - split; [intros _ x [] | reflexivity].
  - rewrite orb_false_iff, IH. split.
    + intros [H1 H2] x [->|Hx]; auto.
    + intro H. split; [apply H; left; reflexivity | intros x Hx; apply H; right; exact Hx].
Qed.

Lemma existsb_ext_in {A} (p q : A -> bool) l : (forall x, In x l -> p x = q x) -> existsb p l = existsb q l.
Proof.
  induction l as [|x l IH]; intro H; [reflexivity|]. cbn [existsb].
  rewrite (H x (or_introl eq_refl)), IH; [reflexivity|]. intros y Hy. apply H. right. exact Hy.
Qed.

Lemma existsb_orb {A} (p q : A -> bool) l : existsb (fun x => p x || q x) l = existsb p l || existsb q l.
Proof.
  induction l as [|x l IH]; [reflexivity|]. cbn [existsb]. rewrite IH.
  destruct (p x), (q x), (existsb p l), (existsb q l); reflexivity.
Qed.

Lemma existsb_flat_map {A B} (p : B -> bool) (g : A -> list B) l :
  existsb p (flat_map g l) = existsb (fun x => existsb p (g x)) l.
Proof.
  induction l as [|x l IH]; [reflexivity|]. cbn [flat_map existsb]. rewrite existsb_app, IH. reflexivity.
Qed.

(* ========================================================================================== *)
(* 7. inherited rule                                                                          *)
(* ========================================================================================== *)

(* the method's name as the checker compares it *)
Definition mname (m : node) : str := upper_rs (nident m).

(* the `pass` statement: a token that is not a string literal and is spelled pass, any letter case
   (`pass` is lexed as an identifier; since 44578d5 the checker's test is this very predicate) *)
Definition is_pass_stmt (x : node) : bool := is_pass_terminal x.

(* `inherited self.<name>` / `inherited self.<name>(...)`, spelled out *)
Definition InhSelfCall (u : str) (x : node) : Prop :=
  exists top e tdot l tl r,
    nkind x = KAstUnaryOp /\ attr_tok K_op x = Some top /\ tty top = TInherited /\
    child 0 x = Some e /\ nkind e = KAstBinaryOp /\ attr_tok K_op e = Some tdot /\ tty tdot = TDot /\
    child 0 e = Some l /\ nkind l = KAstTerminal /\ attr_tok K_token l = Some tl /\ tty tl = TIdentifier /\
    upper_rs (tval tl) = s_SELF /\
    child 1 e = Some r /\ (nkind r = KAstTerminal \/ nkind r = KAstMethodCall) /\ upper_rs (nident r) = u.

Lemma inh_self_call_iff u x : inh_self_call u x = true <-> InhSelfCall u x.
Proof.
  unfold inh_self_call, InhSelfCall, is_inherited_op, is_self_terminal. split.
  - intro H. apply andb_true_iff in H as [H1 H2]. apply andb_true_iff in H1 as [K1 K2].
    destruct (attr_tok K_op x) as [top|] eqn:Eop; [|discriminate K2].
    destruct (child 0 x) as [e|] eqn:Ee; [|discriminate H2].
    apply andb_true_iff in H2 as [H2 H3]. apply andb_true_iff in H2 as [K3 K4].
    destruct (attr_tok K_op e) as [tdot|] eqn:Ed; [|discriminate K4].
    destruct (child 0 e) as [l|] eqn:El; [|discriminate H3].
    destruct (child 1 e) as [r|] eqn:Er; [|discriminate H3].
    apply andb_true_iff in H3 as [H3 K7]. apply andb_true_iff in H3 as [K5 K6].
    apply andb_true_iff in K5 as [K5 K8].
    destruct (attr_tok K_token l) as [tl|] eqn:Etl; [|discriminate K8].
    apply andb_true_iff in K8 as [K8 K9].
    exists top, e, tdot, l, tl, r.
    apply is_kind_true in K1, K3, K5. apply tt_eqb_eq in K2, K4, K8. apply str_eqb_eq in K7, K9.
    repeat split; auto.
    apply orb_true_iff in K6 as [K6|K6]; apply is_kind_true in K6; auto.
  - intros (top & e & tdot & l & tl & r & K1 & Eop & K2 & Ee & K3 & Ed & K4 & El & K5 & Etl & K8 & K9 & Er & K6 & K7).
    rewrite Eop, Ee, Ed, El, Er, Etl, K2, K4, K8, K9, K7.
    apply is_kind_true in K1, K3, K5. rewrite K1, K3, K5, !str_eqb_refl.
    replace (is_kind KAstTerminal r || is_kind KAstMethodCall r) with true; [reflexivity|].
    symmetry. apply orb_true_iff. destruct K6 as [K6|K6]; apply is_kind_true in K6; auto.
Qed.

Definition R_inh (m : node) : Prop :=
  is_method m = true /\ in_check_set (mname m) = true /\
  (forall x, In x (body m) -> is_pass_stmt x = false) /\
  (forall x, In x (body m) -> inh_self_call (mname m) x = false).

Definition R_inhb (m : node) : bool :=
  is_method m && in_check_set (mname m) &&
  negb (existsb is_pass_stmt (body m)) && negb (existsb (inh_self_call (mname m)) (body m)).

Lemma R_inhb_spec m : R_inhb m = true <-> R_inh m.
Proof.
  unfold R_inhb, R_inh. rewrite !andb_true_iff, !negb_true_iff, !existsb_false. tauto.
Qed.

Definition inh_diag (m : node) : diag := mkDiag INH WARNING (name_range m) (nident m).
Definition spec_inh (m : node) : list diag := if R_inhb m then [inh_diag m] else [].

(* calls_inherited is a search through the proper descendants *)
Definition inh_trig (u : str) (x : node) : bool := is_pass_terminal x || inh_self_call u x.

Lemma inh_scan_eq u n :
  inh_scan u n = existsb (fun c => inh_trig u c || inh_scan u c) (nchildren n).
Proof.
  destruct n as [k i r rg a ch]. cbn [inh_scan nchildren]. unfold inh_trig.
  induction ch as [|c ch IH]; [reflexivity|]. cbn [existsb]. rewrite IH. reflexivity.
Qed.

Lemma inh_scan_body u m : inh_scan u m = existsb (inh_trig u) (body m).
Proof.
  induction m as [k i r rg a ch IH] using node_ind2.
  rewrite inh_scan_eq. unfold body. cbn [nchildren]. rewrite existsb_flat_map.
  apply existsb_ext_in. intros c Hc. rewrite Forall_forall in IH. rewrite (IH c Hc), nodes_body.
  reflexivity.
Qed.

(* what the visitor appends at a node *)
Definition inh_verdict (n : node) : list diag :=
  if is_method n then
    (if in_check_set (mname n) && negb (inh_scan (mname n) n)
     then [mkDiag INH WARNING (inh_sel_range n) (nident n)] else [])
  else [].

Lemma inh_visit_verdict c anc n out : inh_visit c anc n out = out ++ inh_verdict n.
Proof.
  unfold inh_visit, inh_verdict, mname. cbv zeta.
  destruct (is_method n); [|rewrite app_nil_r; reflexivity].
  destruct (in_check_set _ && negb _); [reflexivity | rewrite app_nil_r; reflexivity].
Qed.

Lemma inh_sel_range_method m : is_method m = true -> inh_sel_range m = name_range m.
Proof.
  unfold is_method, inh_sel_range. intro H. apply orb_true_iff in H as [H|H].
  - rewrite H, (is_kind_excl _ KAstFunction _ H) by discriminate. reflexivity.
  - rewrite H. reflexivity.
Qed.

Lemma inh_verdict_spec m : inh_verdict m = if is_method m then spec_inh m else [].
Proof.
  unfold inh_verdict, spec_inh, R_inhb, inh_diag. destruct (is_method m) eqn:Hm; [|reflexivity].
  rewrite (inh_sel_range_method m Hm), inh_scan_body. cbn [andb].
  rewrite <- andb_assoc, <- negb_orb, <- existsb_orb. reflexivity.
Qed.

Theorem inherited_lint_spec file : inherited_lint file = flat_map spec_inh (methods file).
Proof.
  unfold inherited_lint. rewrite (run2_append inh_visit inh_verdict inh_visit_verdict).
  unfold methods. rewrite <- flat_map_filter. apply flat_map_ext_in. intros m _. apply inh_verdict_spec.
Qed.

(* ========================================================================================== *)
(* 8. unpurged tVarByteArray rule                                                             *)
(* ========================================================================================== *)

Definition locals (l : list node) : list node := filter is_tvba_local l.

(* the first arguments of the calls named Purge (any receiver, any letter case) *)
Definition purge_args (l : list node) : list node :=
  flat_map (fun c => if is_purge_call c then match child 0 c with Some a => [a] | None => [] end else []) l.

(* the argument is a reference to variable v: a plain identifier spelled like v, letter case ignored *)
Definition arg_refers (a v : node) : bool := is_ident_terminal a && ci_eqb (nident a) (nident v).

Definition purged_in (l : list node) (v : node) : bool := existsb (fun a => arg_refers a v) (purge_args l).

Definition R_purge (m v : node) : Prop :=
  In v (body m) /\ is_tvba_local v = true /\
  forall c a, In c (body m) -> is_purge_call c = true -> child 0 c = Some a -> arg_refers a v = false.

Lemma in_purge_args a l :
  In a (purge_args l) <-> exists c, In c l /\ is_purge_call c = true /\ child 0 c = Some a.
Proof.
  unfold purge_args. rewrite in_flat_map. split.
  - intros (c & Hc & Ha). exists c. destruct (is_purge_call c); [|destruct Ha].
    destruct (child 0 c) as [a'|]; [|destruct Ha]. destruct Ha as [->|[]]. auto.
  - intros (c & Hc & Hp & Ha). exists c. split; [exact Hc|]. rewrite Hp, Ha. left. reflexivity.
Qed.

Lemma R_purge_spec m v :
  R_purge m v <-> In v (locals (body m)) /\ purged_in (body m) v = false.
Proof.
  unfold R_purge, locals, purged_in. rewrite filter_In, existsb_false. split.
  - intros (H1 & H2 & H3). split; [auto|]. intros a Ha. apply in_purge_args in Ha as (c & Hc & Hp & Hch).
    eapply H3; eauto.
  - intros ((H1 & H2) & H3). repeat split; auto. intros c a Hc Hp Hch. apply H3.
    apply in_purge_args. exists c. auto.
Qed.

Definition purge_diag (v : node) : diag := mkDiag PURGE WARNING (ident_range v) (nident v).   (* the declared spelling *)

(* one diagnostic per DECLARATION (position in the method's pre-order listing), not per name *)
Definition spec_purge (m : node) : list diag :=
  flat_map (fun v => if purged_in (body m) v then [] else [purge_diag v]) (locals (body m)).

(* scan_method is a fold over the proper descendants *)
Definition pstep (s : pscan) (c : node) : pscan := unp_call c (unp_local c s).

Lemma unp_scan_eq n s :
  unp_scan n s = fold_left (fun acc c => unp_scan c (pstep acc c)) (nchildren n) s.
Proof.
  destruct n as [k i r rg a ch]. cbn [unp_scan nchildren]. unfold pstep. revert s.
  induction ch as [|c ch IH]; intro s; [reflexivity|]. cbn [fold_left]. apply IH.
Qed.

Lemma unp_scan_body m : forall s, unp_scan m s = fold_left pstep (body m) s.
Proof.
  induction m as [k i r rg a ch IH] using node_ind2. intro s.
  rewrite unp_scan_eq. unfold body. cbn [nchildren].
  apply (fold_left_flat_map pstep nodes). intros c s' Hc. rewrite Forall_forall in IH.
  rewrite (IH c Hc), nodes_body. reflexivity.
Qed.

Lemma tvba_not_call x : is_tvba_local x = true -> is_purge_call x = false.
Proof.
  unfold is_tvba_local, is_purge_call. intro H. apply andb_true_iff in H as [H _].
  rewrite (is_kind_excl _ KAstMethodCall _ H) by discriminate. reflexivity.
Qed.

Definition local_info (v : node) : str * range := (nident v, ident_range v).

Lemma pfold_fst l : forall s, fst (fold_left pstep l s) = fst s ++ map local_info (locals l).
Proof.
  induction l as [|x l IH]; intro s; cbn [fold_left locals filter map].
  - rewrite app_nil_r. reflexivity.
  - rewrite IH. fold (locals l). unfold pstep, unp_local, unp_call.
    destruct (is_tvba_local x) eqn:Et.
    + rewrite (tvba_not_call x Et). cbn [fst map]. rewrite <- app_assoc. reflexivity.
    + destruct (is_purge_call x); [|reflexivity].
      destruct (child 0 x) as [a|]; [|reflexivity]. destruct (is_ident_terminal a); reflexivity.
Qed.

Definition names_arg (k : str) (a : node) : bool := is_ident_terminal a && str_eqb k (upper (nident a)).

Lemma pfold_snd k l : forall s,
  existsb (str_eqb k) (snd (fold_left pstep l s)) =
  existsb (str_eqb k) (snd s) || existsb (names_arg k) (purge_args l).
Proof.
  induction l as [|x l IH]; intro s; cbn [fold_left].
  - cbn. rewrite orb_false_r. reflexivity.
  - rewrite IH. unfold purge_args at 2. cbn [flat_map]. fold (purge_args l). rewrite existsb_app, orb_assoc. f_equal.
    unfold pstep, unp_local, unp_call.
    destruct (is_tvba_local x) eqn:Et.
    + rewrite (tvba_not_call x Et). cbn [snd existsb]. rewrite orb_false_r. reflexivity.
    + destruct (is_purge_call x); [|cbn [existsb]; rewrite orb_false_r; reflexivity].
      destruct (child 0 x) as [a|]; [|cbn [existsb]; rewrite orb_false_r; reflexivity].
      unfold names_arg. cbn [existsb]. destruct (is_ident_terminal a); cbn [snd existsb andb].
      * rewrite orb_false_r. apply orb_comm.
      * rewrite orb_false_r. reflexivity.
Qed.

Lemma str_eqb_sym a b : str_eqb a b = str_eqb b a.
Proof.
  destruct (str_eqb a b) eqn:E.
  - apply str_eqb_eq in E. subst. symmetry. apply str_eqb_refl.
  - symmetry. apply str_eqb_neq. apply str_eqb_neq in E. congruence.
Qed.

Lemma flat_map_map {A B C} (f : A -> B) (g : B -> list C) l : flat_map g (map f l) = flat_map (fun x => g (f x)) l.
Proof. induction l as [|x l IH]; [reflexivity|]. cbn [map flat_map]. rewrite IH. reflexivity. Qed.

Lemma purged_name_spec l v : is_purged_name (snd (fold_left pstep l pscan0)) (nident v) = purged_in l v.
Proof.
  unfold is_purged_name, purged_in. rewrite pfold_snd. cbn [pscan0 snd existsb orb].
  apply existsb_ext_in. intros a _. unfold names_arg, arg_refers, ci_eqb. rewrite str_eqb_sym. reflexivity.
Qed.

Definition unp_verdict (n : node) : list diag :=
  if is_method n then unpurged_diags (unp_scan n pscan0) else [].

Lemma unp_visit_verdict c anc n out : unp_visit c anc n out = out ++ unp_verdict n.
Proof.
  unfold unp_visit, unp_verdict. destruct (is_method n); [reflexivity | rewrite app_nil_r; reflexivity].
Qed.

Lemma unp_scan_spec m : unpurged_diags (unp_scan m pscan0) = spec_purge m.
Proof.
  rewrite unp_scan_body. unfold unpurged_diags, spec_purge. rewrite pfold_fst. cbn [pscan0 fst app].
  rewrite flat_map_map. apply flat_map_ext_in. intros v _. unfold local_info. cbn [fst snd].
  rewrite purged_name_spec. reflexivity.
Qed.

Theorem unpurged_lint_spec file : unpurged_lint file = flat_map spec_purge (methods file).
Proof.
  unfold unpurged_lint. rewrite (run2_append unp_visit unp_verdict unp_visit_verdict).
  unfold methods. rewrite <- flat_map_filter. apply flat_map_ext_in. intros m _.
  unfold unp_verdict. rewrite unp_scan_spec. reflexivity.
Qed.

(* ========================================================================================== *)
(* 9. the exactness theorem: no guard on methods, declarations or statements                  *)
(* ========================================================================================== *)

(* one diagnostic per declaration satisfying its rule *)
Definition lints_spec (file : node) : list diag :=
  spec_ret file ++ flat_map spec_purge (methods file) ++ spec_name file ++ flat_map spec_inh (methods file).

(* the only structural hypothesis: the v1 walker does not visit the root, so the root must not be a
   function itself (the parser's root is an AstRoot) *)
Definition RootNotFunction (file : node) : bool := negb (is_kind KAstFunction file).

Theorem lints_exact_eq file : RootNotFunction file = true -> lints file = lints_spec file.
Proof.
  unfold RootNotFunction. intro H. apply negb_true_iff in H.
  unfold lints, lints_v2, lints_spec.
  rewrite (ret_type_lint_spec file H), naming_lint_spec, unpurged_lint_spec, inherited_lint_spec. reflexivity.
Qed.

Theorem lints_exact file : RootNotFunction file = true -> Permutation (lints file) (lints_spec file).
Proof. intro H. rewrite (lints_exact_eq file H). apply Permutation_refl. Qed.

(* ---- a declaration belongs to one method: when methods are not nested (the parser never nests them)
        the pre-order listing is cut into the method subtrees and the nodes outside every method ---- *)
Definition on_meths (p : node -> bool) (file : node) : bool :=
  forallb (fun it => match it with Gap _ => true | Meth m => p m end) (items file).
Definition NoNestedMethods : node -> bool := on_meths no_nested.

Lemma methods_partition file :
  NoNestedMethods file = true ->
  nodes file = flat_map expand (items file) /\ methods file = meths (items file).
Proof.
  intro H. split; [apply nodes_items|]. apply methods_meths.
  unfold NoNestedMethods, on_meths in H. rewrite forallb_forall in H. apply Forall_forall. intros it Hit.
  specialize (H it Hit). destruct it; [exact I | exact H].
Qed.

(* ========================================================================================== *)
(* 10. locality: a top-level declaration contributes a list that depends on it alone          *)
(* ========================================================================================== *)

Lemma perm_flat_map_app {A B} (f g : A -> list B) l :
  Permutation (flat_map f l ++ flat_map g l) (flat_map (fun x => f x ++ g x) l).
Proof.
  induction l as [|x l IH]; [constructor|]. cbn [flat_map]. rewrite <- !app_assoc.
  apply Permutation_app_head.
  eapply Permutation_trans; [apply Permutation_app_swap_app|]. apply Permutation_app_head. exact IH.
Qed.

Lemma flat_map_flat_map {A B C} (f : A -> list B) (g : B -> list C) l :
  flat_map g (flat_map f l) = flat_map (fun x => flat_map g (f x)) l.
Proof. induction l as [|x l IH]; [reflexivity|]. cbn [flat_map]. rewrite flat_map_app, IH. reflexivity. Qed.

Lemma R_nameb_root a r1 r2 d cls :
  is_override r1 = is_override r2 -> R_nameb (a ++ [r1]) d cls = R_nameb (a ++ [r2]) d cls.
Proof.
  intro H. destruct cls; try reflexivity. cbn [R_nameb]. destruct a as [|p [|g a']]; cbn [app]; try reflexivity.
  rewrite H. reflexivity.
Qed.

Lemma name_verdict_root a r1 r2 d :
  is_override r1 = is_override r2 -> name_verdict (a ++ [r1]) d = name_verdict (a ++ [r2]) d.
Proof.
  intro H. unfold name_verdict. apply flat_map_ext_in. intros cls _. rewrite (R_nameb_root a r1 r2 d cls H). reflexivity.
Qed.

Definition names_in (anc : list node) (c : node) : list diag :=
  flat_map (fun p => name_verdict (fst p) (snd p)) (pre anc c).

Lemma names_in_root r1 r2 c : is_override r1 = is_override r2 ->
  forall a, names_in (a ++ [r1]) c = names_in (a ++ [r2]) c.
Proof.
  intro H. induction c as [k i r rg at' ch IH] using node_ind2. intro a. unfold names_in.
  rewrite !pre_eq. cbn [flat_map fst snd nchildren]. f_equal; [apply name_verdict_root; exact H|].
  rewrite !flat_map_flat_map. apply flat_map_ext_in. intros c Hc. rewrite Forall_forall in IH.
  apply (IH c Hc (Node k i r rg at' ch :: a)).
Qed.

Definition root_stub : node := Node KAstRoot [] 0 range0 [] [].

(* everything the rules say about one top-level declaration: a function of its subtree alone *)
Definition decl_verdicts (c : node) : list diag :=
  flat_map ret_verdict (nodes c) ++ flat_map spec_purge (methods c) ++
  names_in [root_stub] c ++ flat_map spec_inh (methods c).

Lemma root_facts i r rg a ch :
  let root := Node KAstRoot i r rg a ch in
  is_method root = false /\ ret_verdict root = [] /\ name_verdict [] root = [] /\
  is_override root = is_override root_stub /\ RootNotFunction root = true.
Proof. repeat split; reflexivity. Qed.

Lemma lints_spec_root i r rg a ch :
  Permutation (lints_spec (Node KAstRoot i r rg a ch)) (flat_map decl_verdicts ch).
Proof.
  set (root := Node KAstRoot i r rg a ch).
  destruct (root_facts i r rg a ch) as (F1 & F2 & F3 & F4 & _). fold root in F1, F2, F3, F4.
  unfold lints_spec, spec_ret, spec_name, methods.
  rewrite nodes_eq, pre_eq. cbn [filter flat_map fst snd nchildren]. rewrite F1, F2, F3. cbn [app].
  change (nchildren root) with ch. rewrite filter_flat_map, !flat_map_flat_map.
  assert (E : flat_map (fun x => flat_map (fun p => name_verdict (fst p) (snd p)) (pre [root] x)) ch =
              flat_map (names_in [root_stub]) ch).
  { apply flat_map_ext_in. intros c _. apply (names_in_root root root_stub c F4 []). }
  rewrite E. unfold decl_verdicts.
  eapply Permutation_trans; [|apply perm_flat_map_app]. apply Permutation_app_head.
  eapply Permutation_trans; [|apply perm_flat_map_app]. apply Permutation_app_head.
  apply perm_flat_map_app.
Qed.

(* the report of a file is the union of the verdicts on its top-level declarations, each computed
   from that declaration's subtree alone -- for ALL lists of declarations *)
Theorem lints_by_declaration i r rg a ch :
  Permutation (lints (Node KAstRoot i r rg a ch)) (flat_map decl_verdicts ch).
Proof.
  rewrite (lints_exact_eq (Node KAstRoot i r rg a ch)) by reflexivity. apply lints_spec_root.
Qed.

(* removing (or adding) a top-level declaration m changes the report by decl_verdicts m exactly;
   the verdicts on everything else are unaffected *)
Theorem lints_local i r rg a p m q :
  Permutation (lints (Node KAstRoot i r rg a (p ++ m :: q)))
              (lints (Node KAstRoot i r rg a (p ++ q)) ++ decl_verdicts m).
Proof.
  eapply Permutation_trans; [apply lints_by_declaration|].
  eapply Permutation_trans;
    [|apply Permutation_app_tail; apply Permutation_sym; apply lints_by_declaration].
  rewrite !flat_map_app. cbn [flat_map]. rewrite <- app_assoc. apply Permutation_app_head.
  apply Permutation_app_comm.
Qed.

(* two files that contain the same top-level declaration m agree on its verdicts *)
Corollary lints_agree i1 r1 rg1 a1 p1 q1 i2 r2 rg2 a2 p2 q2 m :
  exists rest1 rest2,
    Permutation (lints (Node KAstRoot i1 r1 rg1 a1 (p1 ++ m :: q1))) (rest1 ++ decl_verdicts m) /\
    Permutation (lints (Node KAstRoot i2 r2 rg2 a2 (p2 ++ m :: q2))) (rest2 ++ decl_verdicts m) /\
    rest1 = lints (Node KAstRoot i1 r1 rg1 a1 (p1 ++ q1)) /\
    rest2 = lints (Node KAstRoot i2 r2 rg2 a2 (p2 ++ q2)).
Proof.
  eexists _, _. split; [apply lints_local|]. split; [apply lints_local|]. split; reflexivity.
Qed.

(* permuting the top-level declarations permutes the report *)
Theorem lints_permute i r rg a ch ch' :
  Permutation ch ch' ->
  Permutation (lints (Node KAstRoot i r rg a ch)) (lints (Node KAstRoot i r rg a ch')).
Proof.
  intro Hp.
  eapply Permutation_trans; [apply lints_by_declaration|].
  eapply Permutation_trans; [apply Permutation_flat_map; exact Hp|].
  apply Permutation_sym. apply lints_by_declaration.
Qed.

(* ========================================================================================== *)
(* 11. repeating the request                                                                  *)
(* ========================================================================================== *)

Definition doc_ok (d : doc) : Prop :=
  d_cache d = None \/ d_cache d = Some (ret_type_lint (d_ast d)).

Lemma request_ok d :
  doc_ok d ->
  fst (request d) = lints (d_ast d) /\ doc_ok (snd (request d)) /\ d_ast (snd (request d)) = d_ast d.
Proof.
  intros [H|H]; unfold request; rewrite H; cbn [fst snd d_ast d_cache];
    (split; [reflexivity | split; [right; reflexivity | reflexivity]]).
Qed.

Fixpoint requests (n : nat) (d : doc) : list (list diag) :=
  match n with
  | O => []
  | S n' => fst (request d) :: requests n' (snd (request d))
  end.

Theorem lints_idempotent n ast : Forall (fun r => r = lints ast) (requests n (fresh_doc ast)).
Proof.
  assert (G : forall n d, doc_ok d -> Forall (fun r => r = lints (d_ast d)) (requests n d)).
  { clear n. induction n as [|n IH]; intros d Hd; [constructor|]. cbn [requests].
    destruct (request_ok d Hd) as (E1 & E2 & E3). constructor; [exact E1|].
    rewrite <- E3. apply IH. exact E2. }
  apply (G n (fresh_doc ast)). left. reflexivity.
Qed.

(* ========================================================================================== *)
(* 12. lints_spec lists exactly the declarations that satisfy their rule                      *)
(* ========================================================================================== *)

Lemma spec_inh_in m d : In d (spec_inh m) <-> R_inh m /\ d = inh_diag m.
Proof.
  unfold spec_inh. destruct (R_inhb m) eqn:E.
  - apply R_inhb_spec in E. split; [intros [<-|[]]; auto | intros [_ ->]; left; reflexivity].
  - split; [intros [] | intros [H _]]. apply R_inhb_spec in H. congruence.
Qed.

Lemma spec_inh_once m : (length (spec_inh m) <= 1)%nat.
Proof. unfold spec_inh. destruct (R_inhb m); cbn; lia. Qed.

Lemma spec_purge_in m d : In d (spec_purge m) <-> exists v, R_purge m v /\ d = purge_diag v.
Proof.
  unfold spec_purge. rewrite in_flat_map. split.
  - intros (v & Hv & Hd). destruct (purged_in (body m) v) eqn:E; [destruct Hd|]. destruct Hd as [<-|[]].
    exists v. split; [apply R_purge_spec; auto | reflexivity].
  - intros (v & Hv & ->). apply R_purge_spec in Hv as [H1 H2]. exists v. split; [exact H1|]. rewrite H2. left. reflexivity.
Qed.

Lemma name_verdict_in anc d x :
  In x (name_verdict anc d) <-> exists cls, R_name anc d cls /\ x = mkDiag cls WARNING (name_rng d cls) [].
Proof.
  unfold name_verdict. rewrite in_flat_map. split.
  - intros (cls & _ & H). destruct (R_nameb anc d cls) eqn:E; [|destruct H]. destruct H as [<-|[]].
    exists cls. split; [apply R_nameb_spec; exact E | reflexivity].
  - intros (cls & H & ->). exists cls. split.
    + destruct cls; cbn [R_name] in H; try destruct H; unfold name_classes; cbn; tauto.
    + apply R_nameb_spec in H. rewrite H. left. reflexivity.
Qed.

Lemma spec_purge_count m :
  length (spec_purge m) = length (filter (fun v => negb (purged_in (body m) v)) (locals (body m))).
Proof.
  unfold spec_purge. induction (locals (body m)) as [|v l IH]; [reflexivity|]. cbn [flat_map filter].
  destruct (purged_in (body m) v); cbn [negb app length]; congruence.
Qed.
