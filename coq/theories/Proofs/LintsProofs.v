(* C16: specification of the four lint rules as predicates on ONE declaration and its own method
   subtree, and the proofs that the checker models (Model/Lints.v) flag exactly the declarations
   satisfying their rule, each once -- for ALL trees satisfying the guard WF16k, which is stated
   explicitly and is refuted class by class in Properties/C16.v. *)
From GoldV Require Import Base Tokens Lexer AstKinds Tree Lints.
From Coq Require Import Permutation.

(* ========================================================================================== *)
(* 1. trees: induction principle, pre-order listings                                          *)
(* ========================================================================================== *)

Lemma node_ind2 (P : node -> Prop) :
  (forall k i r rg a ch, Forall P ch -> P (Node k i r rg a ch)) -> forall n, P n.
Proof.
  intro H. fix IH 1. intros [k i r rg a ch]. apply H.
  induction ch as [|c ch IHch]; constructor; [apply IH | exact IHch].
Qed.

(* pre-order listing of a subtree, each node with its chain of parents (nearest first) *)
Fixpoint pre (anc : list node) (n : node) : list (list node * node) :=
  match n with
  | Node _ _ _ _ _ ch =>
    (anc, n) :: (fix go (l : list node) : list (list node * node) :=
                   match l with [] => [] | c :: l' => pre (n :: anc) c ++ go l' end) ch
  end.

Fixpoint nodes (n : node) : list node :=
  match n with
  | Node _ _ _ _ _ ch =>
    n :: (fix go (l : list node) : list node :=
            match l with [] => [] | c :: l' => nodes c ++ go l' end) ch
  end.

Lemma pre_eq anc n : pre anc n = (anc, n) :: flat_map (pre (n :: anc)) (nchildren n).
Proof.
  destruct n as [k i r rg a ch]. reflexivity.
Qed.

Lemma nodes_eq n : nodes n = n :: flat_map nodes (nchildren n).
Proof.
  destruct n as [k i r rg a ch]. reflexivity.
Qed.

(* the proper descendants of a node, pre-order: what the walker visits after the node itself *)
Definition body (m : node) : list node := flat_map nodes (nchildren m).

Lemma nodes_body n : nodes n = n :: body n.
Proof. apply nodes_eq. Qed.

Lemma map_flat_map {A B C} (f : B -> C) (g : A -> list B) l :
  map f (flat_map g l) = flat_map (fun x => map f (g x)) l.
Proof. induction l as [|x l IH]; [reflexivity|]. cbn [flat_map]. rewrite map_app, IH. reflexivity. Qed.

Lemma flat_map_ext_in {A B} (f g : A -> list B) l :
  (forall x, In x l -> f x = g x) -> flat_map f l = flat_map g l.
Proof.
  induction l as [|x l IH]; intro H; [reflexivity|]. cbn [flat_map].
  rewrite (H x (or_introl eq_refl)), IH; [reflexivity|]. intros y Hy. apply H. right. exact Hy.
Qed.

Lemma map_snd_pre n : forall anc, map snd (pre anc n) = nodes n.
Proof.
  induction n as [k i r rg a ch IH] using node_ind2. intro anc.
  rewrite pre_eq, nodes_eq. cbn [map snd nchildren]. f_equal.
  rewrite map_flat_map. apply flat_map_ext_in. intros c Hc.
  rewrite Forall_forall in IH. apply IH. exact Hc.
Qed.

(* ---- the walkers are folds over the pre-order listings ---- *)
Definition step2 {S} (visit : wctx -> list node -> node -> S -> S) (cs : wctx * S) (p : list node * node) : wctx * S :=
  let c1 := ctx_notify (fst cs) (snd p) in (c1, visit c1 (fst p) (snd p) (snd cs)).

Lemma fold_left_flat_map {A B S} (f : S -> B -> S) (g : A -> list B) (h : S -> A -> S) l :
  (forall x s, In x l -> h s x = fold_left f (g x) s) ->
  forall s, fold_left h l s = fold_left f (flat_map g l) s.
Proof.
  induction l as [|x l IH]; intros H s; [reflexivity|]. cbn [fold_left flat_map].
  rewrite fold_left_app, <- (H x s (or_introl eq_refl)). apply IH.
  intros y s' Hy. apply H. right. exact Hy.
Qed.

Lemma walk2_fold {S} (visit : wctx -> list node -> node -> S -> S) n :
  forall anc cs, walk2 visit anc n cs = fold_left (step2 visit) (pre anc n) cs.
Proof.
  induction n as [k i r rg a ch IH] using node_ind2. intros anc cs.
  rewrite pre_eq. cbn [walk2 fold_left nchildren]. unfold step2 at 2. cbn [fst snd].
  set (n := Node k i r rg a ch). set (acc0 := (ctx_notify (fst cs) n, _)).
  rewrite <- (fold_left_flat_map (step2 visit) (pre (n :: anc)) (fun acc c => walk2 visit (n :: anc) c acc)).
  - reflexivity.
  - intros c s Hc. rewrite Forall_forall in IH. apply IH. exact Hc.
Qed.

Lemma walk1_fold {S} (visit : node -> S -> S) n :
  forall s, walk1 visit n s = fold_left (fun acc x => visit x acc) (nodes n) s.
Proof.
  induction n as [k i r rg a ch IH] using node_ind2. intro s.
  rewrite nodes_eq. cbn [walk1 fold_left nchildren].
  set (n := Node k i r rg a ch).
  rewrite <- (fold_left_flat_map (fun acc x => visit x acc) nodes (fun acc c => walk1 visit c acc)).
  - reflexivity.
  - intros c s' Hc. rewrite Forall_forall in IH. apply IH. exact Hc.
Qed.

Lemma run1_fold {S} (visit : node -> S -> S) ast s :
  run1 visit ast s = fold_left (fun acc x => visit x acc) (body ast) s.
Proof.
  unfold run1, body. apply fold_left_flat_map. intros c s' _. apply walk1_fold.
Qed.

(* a visitor that ignores context and parents is a fold over the plain node list *)
Lemma fold_step2_plain {S} (visit : wctx -> list node -> node -> S -> S) (f : S -> node -> S) :
  (forall c anc n s, visit c anc n s = f s n) ->
  forall l cs, snd (fold_left (step2 visit) l cs) = fold_left f (map snd l) (snd cs).
Proof.
  intros H l. induction l as [|p l IH]; intro cs; [reflexivity|].
  cbn [fold_left map]. rewrite IH. unfold step2. cbn [snd]. rewrite H. reflexivity.
Qed.

(* ---- visitors that only append ---- *)
Definition app_like {A} (f : list A -> list A) : Prop := forall out, f out = out ++ f [].

Lemma app_like_id {A} : app_like (fun o : list A => o).
Proof. intro out. rewrite app_nil_r. reflexivity. Qed.

Lemma app_like_push {A} (l : list A) : app_like (fun o => o ++ l).
Proof. intro out. reflexivity. Qed.

Lemma app_like_if {A} (b : bool) (f g : list A -> list A) :
  app_like f -> app_like g -> app_like (fun o => if b then f o else g o).
Proof. intros Hf Hg out. destruct b; [apply Hf | apply Hg]. Qed.

Lemma app_like_comp {A} (f g : list A -> list A) :
  app_like f -> app_like g -> app_like (fun o => g (f o)).
Proof.
  intros Hf Hg out. rewrite (Hg (f out)), (Hf out), (Hg (f [])), app_assoc. reflexivity.
Qed.

Lemma comp_nil {A} (f g : list A -> list A) : app_like g -> g (f []) = f [] ++ g [].
Proof. intro Hg. apply Hg. Qed.

Lemma fold_app_like {A B} (v : B -> list A -> list A) :
  (forall x, app_like (v x)) ->
  forall l out, fold_left (fun acc x => v x acc) l out = out ++ flat_map (fun x => v x []) l.
Proof.
  intros H l. induction l as [|x l IH]; intro out; cbn [fold_left flat_map].
  - rewrite app_nil_r. reflexivity.
  - rewrite IH, (H x out), app_assoc. reflexivity.
Qed.

(* ========================================================================================== *)
(* 2. kinds                                                                                   *)
(* ========================================================================================== *)

Lemma is_kind_true k n : is_kind k n = true <-> nkind n = k.
Proof. unfold is_kind. apply ak_eqb_eq. Qed.

Lemma is_kind_excl k1 k2 n : is_kind k1 n = true -> k1 <> k2 -> is_kind k2 n = false.
Proof.
  intros H Hne. destruct (is_kind k2 n) eqn:E; [|reflexivity].
  apply is_kind_true in H. apply is_kind_true in E. congruence.
Qed.

Ltac kind_excl H :=
  repeat match goal with
  | |- context [is_kind ?k ?n] =>
    lazymatch type of H with
    | is_kind ?k0 n = true =>
      lazymatch k with
      | k0 => rewrite H
      | _ => rewrite (is_kind_excl k0 k n H) by discriminate
      end
    end
  end.

(* ========================================================================================== *)
(* 3. return-type rule                                                                        *)
(* ========================================================================================== *)

(* R_ret f: f is a function whose declared return type is the basic type Text, tVarByteArray or
   aListOfInstances (identifier, letter case ignored) *)
Definition ret_key (u : str) : option str :=
  if str_eqb u s_TVARBYTEARRAY then Some s_tVarByteArray
  else if str_eqb u s_ALISTOFINSTANCES then Some s_aListOfInstances
  else if str_eqb u s_TEXT then Some s_Text else None.

Definition R_ret (f : node) (d : diag) : Prop :=
  is_kind KAstFunction f = true /\
  exists rt t key, child 1 f = Some rt /\ is_kind KAstTypeBasic rt = true /\
                   attr_tok K_token rt = Some t /\ tty t = TIdentifier /\
                   ret_key (upper (tval t)) = Some key /\
                   d = mkDiag RET WARNING (nrange rt) key.

Definition ret_verdict (f : node) : list diag :=
  if is_kind KAstFunction f then
    match child 1 f with
    | Some rt =>
      if is_kind KAstTypeBasic rt then
        match attr_tok K_token rt with
        | Some t => if tt_eqb (tty t) TIdentifier then
                      match ret_key (upper (tval t)) with
                      | Some key => [mkDiag RET WARNING (nrange rt) key]
                      | None => []
                      end
                    else []
        | None => []
        end
      else []
    | None => []
    end
  else [].

Lemma ret_verdict_spec f d : In d (ret_verdict f) <-> R_ret f d.
Proof.
  unfold ret_verdict, R_ret. split.
  - intro H. destruct (is_kind KAstFunction f); [|destruct H]. split; [reflexivity|].
    destruct (child 1 f) as [rt|] eqn:Ec; [|destruct H].
    destruct (is_kind KAstTypeBasic rt) eqn:Ek; [|destruct H].
    destruct (attr_tok K_token rt) as [t|] eqn:Ea; [|destruct H].
    destruct (tt_eqb (tty t) TIdentifier) eqn:Et; [|destruct H].
    destruct (ret_key (upper (tval t))) as [key|] eqn:Er; [|destruct H].
    destruct H as [H|[]]. exists rt, t, key. apply tt_eqb_eq in Et. repeat split; auto.
  - intros [Hf (rt & t & key & Hc & Hk & Ha & Ht & Hr & Hd)].
    rewrite Hf, Hc, Hk, Ha, Ht, Hr. replace (tt_eqb TIdentifier TIdentifier) with true by reflexivity.
    left. symmetry. exact Hd.
Qed.

Lemma ret_verdict_once f : (length (ret_verdict f) <= 1)%nat.
Proof.
  unfold ret_verdict.
  repeat match goal with |- context [match ?x with _ => _ end] => destruct x end; cbn; lia.
Qed.

Lemma ret_visit_verdict n out : ret_visit n out = out ++ ret_verdict n.
Proof.
  unfold ret_visit, ret_verdict, ret_key.
  repeat match goal with |- context [match ?x with _ => _ end] => destruct x end;
    rewrite ?app_nil_r; reflexivity.
Qed.

Definition spec_ret (file : node) : list diag := flat_map ret_verdict (nodes file).

Lemma ret_type_lint_body ast : ret_type_lint ast = flat_map ret_verdict (body ast).
Proof.
  unfold ret_type_lint. rewrite run1_fold.
  rewrite (fold_app_like ret_visit) by (intros x out; rewrite !ret_visit_verdict; reflexivity).
  cbn [app]. apply flat_map_ext_in. intros x _. apply ret_visit_verdict.
Qed.

Lemma ret_type_lint_spec ast :
  is_kind KAstFunction ast = false -> ret_type_lint ast = spec_ret ast.
Proof.
  intro H. rewrite ret_type_lint_body. unfold spec_ret. rewrite nodes_body. cbn [flat_map].
  unfold ret_verdict at 2. rewrite H. reflexivity.
Qed.

(* ========================================================================================== *)
(* 4. naming rule                                                                             *)
(* ========================================================================================== *)

Definition not_capital (id : str) : bool := negb (underscore_first id) && negb (upper_first id).

(* R_name anc d cls: declaration d (with parent chain anc) breaks the convention of class cls *)
Definition R_nameb (anc : list node) (d : node) (cls : dclass) : bool :=
  match cls with
  | NPROC => is_kind KAstProcedure d && negb (is_override d) && not_capital (nident d)
  | NFUNC => is_kind KAstFunction d && negb (is_override d) && not_capital (nident d)
  | NFIELD => is_kind KAstGlobalVariableDeclaration d && negb (is_override d) && not_capital (nident d)
  | NPARAM => is_kind KAstParameterDeclaration d &&
              match anc with _ :: g :: _ => negb (is_override g) && not_capital (nident d) | _ => false end
  | NLOCAL => is_kind KAstLocalVariableDeclaration d && negb (underscore_first (nident d)) && upper_first (nident d)
  | NTYPE => is_kind KAstTypeDeclaration d && negb (first_is 116 (nident d))
  | NCONST => is_kind KAstConstantDeclaration d && negb (first_is 99 (nident d)) && negb (starts_with [109;108] (nident d))
  | _ => false
  end.

Definition R_name (anc : list node) (d : node) (cls : dclass) : Prop :=
  match cls with
  | NPROC => nkind d = KAstProcedure /\ is_override d = false /\ underscore_first (nident d) = false /\ upper_first (nident d) = false
  | NFUNC => nkind d = KAstFunction /\ is_override d = false /\ underscore_first (nident d) = false /\ upper_first (nident d) = false
  | NFIELD => nkind d = KAstGlobalVariableDeclaration /\ is_override d = false /\ underscore_first (nident d) = false /\ upper_first (nident d) = false
  | NPARAM => nkind d = KAstParameterDeclaration /\
              exists p g rest, anc = p :: g :: rest /\ is_override g = false /\
                               underscore_first (nident d) = false /\ upper_first (nident d) = false
  | NLOCAL => nkind d = KAstLocalVariableDeclaration /\ underscore_first (nident d) = false /\ upper_first (nident d) = true
  | NTYPE => nkind d = KAstTypeDeclaration /\ first_is 116 (nident d) = false
  | NCONST => nkind d = KAstConstantDeclaration /\ first_is 99 (nident d) = false /\ starts_with [109;108] (nident d) = false
  | _ => False
  end.

Lemma R_nameb_spec anc d cls : R_nameb anc d cls = true <-> R_name anc d cls.
Proof.
  destruct cls; cbn [R_nameb R_name]; unfold not_capital;
    rewrite ?andb_true_iff, ?negb_true_iff, ?is_kind_true; try tauto; try (split; [discriminate|tauto]).
  destruct anc as [|p [|g rest]].
  - split; [intros [_ H]; discriminate | intros [_ (p & g & rest & H & _)]; discriminate].
  - split; [intros [_ H]; discriminate | intros [_ (p' & g & rest & H & _)]; discriminate].
  - rewrite ?andb_true_iff, ?negb_true_iff. split.
    + intros [Hk [Ho [H1 H2]]]. split; [exact Hk|]. exists p, g, rest. auto.
    + intros [Hk (p' & g' & rest' & E & Ho & H1 & H2)]. inversion E; subst. auto.
Qed.

Definition name_rng (d : node) (cls : dclass) : range :=
  match cls with NPROC | NFUNC => name_range d | _ => ident_range d end.

Definition name_classes : list dclass := [NPROC; NFUNC; NFIELD; NPARAM; NLOCAL; NTYPE; NCONST].

Definition name_verdict (anc : list node) (d : node) : list diag :=
  flat_map (fun cls => if R_nameb anc d cls then [mkDiag cls WARNING (name_rng d cls) []] else []) name_classes.

Lemma check_upper_app cls id r : app_like (check_upper cls id r).
Proof. intro out. unfold check_upper. destruct (_ && _); [reflexivity | rewrite app_nil_r; reflexivity]. Qed.

Definition nm1 (n : node) (o : list diag) :=
  if is_kind KAstProcedure n then (if negb (is_override n) then check_upper NPROC (nident n) (name_range n) o else o) else o.
Definition nm2 (n : node) (o : list diag) :=
  if is_kind KAstFunction n then (if negb (is_override n) then check_upper NFUNC (nident n) (name_range n) o else o) else o.
Definition nm3 (n : node) (o : list diag) :=
  if is_kind KAstGlobalVariableDeclaration n then (if negb (is_override n) then check_upper NFIELD (nident n) (ident_range n) o else o) else o.
Definition nm4 (anc : list node) (n : node) (o : list diag) :=
  if is_kind KAstParameterDeclaration n then
    match anc with
    | _ :: g :: _ => if negb (is_override g) then check_upper NPARAM (nident n) (ident_range n) o else o
    | _ => o
    end
  else o.

Lemma name_member_param_eq anc n out : name_member_param anc n out = nm4 anc n (nm3 n (nm2 n (nm1 n out))).
Proof. reflexivity. Qed.

Lemma nm1_app n : app_like (nm1 n).
Proof. unfold nm1. repeat apply app_like_if; try apply app_like_id; try apply app_like_push. Qed.
Lemma nm2_app n : app_like (nm2 n).
Proof. unfold nm2. repeat apply app_like_if; try apply app_like_id; try apply app_like_push. Qed.
Lemma nm3_app n : app_like (nm3 n).
Proof. unfold nm3. repeat apply app_like_if; try apply app_like_id; try apply app_like_push. Qed.
Lemma nm4_app anc n : app_like (nm4 anc n).
Proof.
  unfold nm4. destruct anc as [|p [|g rest]]; repeat apply app_like_if; try apply app_like_id; try apply app_like_push.
Qed.
Lemma name_local_app n : app_like (name_local n).
Proof. unfold name_local. repeat apply app_like_if; try apply app_like_id. apply app_like_push. Qed.
Lemma name_type_app n : app_like (name_type n).
Proof. unfold name_type. repeat apply app_like_if; try apply app_like_id. apply app_like_push. Qed.
Lemma name_const_app n : app_like (name_const n).
Proof. unfold name_const. repeat apply app_like_if; try apply app_like_id. apply app_like_push. Qed.

Lemma name_visit_app c anc n : app_like (name_visit c anc n).
Proof.
  unfold name_visit. intro out. rewrite !name_member_param_eq.
  pose proof (nm1_app n) as H1. pose proof (nm2_app n) as H2. pose proof (nm3_app n) as H3.
  pose proof (nm4_app anc n) as H4. pose proof (name_local_app n) as H5.
  pose proof (name_type_app n) as H6. pose proof (name_const_app n) as H7.
  pose proof (app_like_comp _ _ H1 H2) as C2. pose proof (app_like_comp _ _ C2 H3) as C3.
  pose proof (app_like_comp _ _ C3 H4) as C4. pose proof (app_like_comp _ _ C4 H5) as C5.
  pose proof (app_like_comp _ _ C5 H6) as C6. pose proof (app_like_comp _ _ C6 H7) as C7.
  apply (C7 out).
Qed.

Lemma name_visit_verdict c anc n : name_visit c anc n [] = name_verdict anc n.
Proof.
  unfold name_visit. rewrite name_member_param_eq.
  rewrite (name_const_app n), (name_type_app n), (name_local_app n), (nm4_app anc n), (nm3_app n), (nm2_app n).
  unfold name_verdict, name_classes. cbn [flat_map R_nameb name_rng]. rewrite app_nil_r.
  unfold nm1, nm2, nm3, nm4, name_local, name_type, name_const, check_upper, not_capital.
  rewrite <- !app_assoc.
  repeat f_equal.
  all: try (destruct (is_kind _ n); cbn [andb app]; try reflexivity;
            repeat match goal with |- context [negb ?b] => destruct b; cbn [negb andb app] end; reflexivity).
  destruct (is_kind KAstParameterDeclaration n); cbn [andb app]; [|reflexivity].
  destruct anc as [|p [|g rest]]; try reflexivity.
  repeat match goal with |- context [negb ?b] => destruct b; cbn [negb andb app] end; reflexivity.
Qed.

Definition spec_name (file : node) : list diag :=
  flat_map (fun p => name_verdict (fst p) (snd p)) (pre [] file).

Lemma naming_lint_spec ast : naming_lint ast = spec_name ast.
Proof.
  unfold naming_lint, run2, spec_name. rewrite walk2_fold.
  assert (G : forall l cs, snd (fold_left (step2 name_visit) l cs) =
                           snd cs ++ flat_map (fun p => name_verdict (fst p) (snd p)) l).
  { induction l as [|p l IH]; intro cs; cbn [fold_left flat_map].
    - rewrite app_nil_r. reflexivity.
    - rewrite IH. unfold step2 at 1. cbn [snd]. rewrite name_visit_app, name_visit_verdict, app_assoc. reflexivity. }
  rewrite G. reflexivity.
Qed.

(* ========================================================================================== *)
(* 5. the walk seen as a sequence of methods and of nodes outside any method                  *)
(* ========================================================================================== *)

Inductive item := Gap (x : node) | Meth (m : node).

(* top-most method subtrees and the nodes outside them, in pre-order *)
Fixpoint items (n : node) : list item :=
  match n with
  | Node _ _ _ _ _ ch =>
    if is_method n then [Meth n]
    else Gap n :: (fix go (l : list node) : list item :=
                     match l with [] => [] | c :: l' => items c ++ go l' end) ch
  end.

Lemma items_eq n : items n = if is_method n then [Meth n] else Gap n :: flat_map items (nchildren n).
Proof. destruct n as [k i r rg a ch]. reflexivity. Qed.

Definition expand (it : item) : list node :=
  match it with Gap x => [x] | Meth m => nodes m end.

Lemma nodes_items n : nodes n = flat_map expand (items n).
Proof.
  induction n as [k i r rg a ch IH] using node_ind2.
  rewrite items_eq. destruct (is_method _).
  - cbn [flat_map expand]. rewrite app_nil_r. reflexivity.
  - cbn [flat_map expand app]. rewrite nodes_eq. f_equal. cbn [nchildren].
    induction ch as [|c ch IHc]; [reflexivity|]. cbn [flat_map]. inversion IH; subst.
    rewrite flat_map_app, <- IHc by assumption. f_equal. assumption.
Qed.

Definition item_shape (it : item) : Prop :=
  match it with Gap x => is_method x = false | Meth m => is_method m = true end.

Lemma items_shape n : Forall item_shape (items n).
Proof.
  induction n as [k i r rg a ch IH] using node_ind2.
  rewrite items_eq. destruct (is_method _) eqn:E.
  - constructor; [exact E | constructor].
  - constructor; [exact E|]. cbn [nchildren]. induction ch as [|c ch IHc]; [constructor|].
    cbn [flat_map]. inversion IH; subst. apply Forall_app. split; [assumption | apply IHc; assumption].
Qed.

Definition meths (its : list item) : list node :=
  flat_map (fun it => match it with Gap _ => [] | Meth m => [m] end) its.

Definition methods (file : node) : list node := filter is_method (nodes file).

Definition no_nested (m : node) : bool := forallb (fun x => negb (is_method x)) (body m).

Lemma filter_flat_map {A B} (p : B -> bool) (g : A -> list B) l :
  filter p (flat_map g l) = flat_map (fun x => filter p (g x)) l.
Proof.
  induction l as [|x l IH]; [reflexivity|]. cbn [flat_map]. rewrite filter_app, IH. reflexivity.
Qed.

Lemma filter_none {A} (p : A -> bool) l : forallb (fun x => negb (p x)) l = true -> filter p l = [].
Proof.
  induction l as [|x l IH]; [reflexivity|]. cbn [forallb filter]. intro H.
  apply andb_true_iff in H as [H1 H2]. apply negb_true_iff in H1. rewrite H1. apply IH. exact H2.
Qed.

Lemma methods_meths file :
  Forall (fun it => match it with Gap _ => True | Meth m => no_nested m = true end) (items file) ->
  methods file = meths (items file).
Proof.
  intro H. unfold methods, meths. rewrite nodes_items, filter_flat_map.
  pose proof (items_shape file) as Hs.
  induction (items file) as [|it its IH]; [reflexivity|].
  inversion H; subst. inversion Hs; subst. cbn [flat_map]. rewrite IH by assumption. f_equal.
  destruct it as [x|m]; cbn [expand item_shape] in *.
  - cbn [filter]. rewrite H4. reflexivity.
  - rewrite nodes_body. cbn [filter]. rewrite H4. f_equal. apply filter_none. exact H2.
Qed.

(* ========================================================================================== *)
(* 6. inherited rule                                                                          *)
(* ========================================================================================== *)

(* the `pass` statement: a token that is not a string literal and is spelled pass, any letter case
   (`pass` is lexed as an identifier; since 44578d5 the checker's test is this very predicate) *)
Definition is_pass_stmt (x : node) : bool := is_pass_terminal x.

Definition s_SELF : str := [83;69;76;70].

(* `inherited self.<name of m>` (the right operand may carry arguments) *)
Definition inh_self_call (m x : node) : bool :=
  is_inherited_op x && inh_names m x &&
  match child 0 x with
  | Some e =>
    match attr_tok K_op e with Some t => tt_eqb (tty t) TDot | None => false end &&
    match child 0 e with
    | Some l => is_kind KAstTerminal l && str_eqb (upper (nident l)) s_SELF
    | None => false
    end
  | None => false
  end.

Definition R_inh (m : node) : Prop :=
  is_method m = true /\ in_check_set (upper (nident m)) = true /\
  (forall x, In x (body m) -> is_pass_stmt x = false) /\
  (forall x, In x (body m) -> inh_self_call m x = false).

Definition R_inhb (m : node) : bool :=
  is_method m && in_check_set (upper (nident m)) &&
  negb (existsb is_pass_stmt (body m)) && negb (existsb (inh_self_call m) (body m)).

Lemma existsb_false {A} (p : A -> bool) l : existsb p l = false <-> forall x, In x l -> p x = false.
Proof.
  induction l as [|y l IH]; cbn [existsb In].
  - split; [intros _ x [] | reflexivity].
  - rewrite orb_false_iff, IH. split.
    + intros [H1 H2] x [->|Hx]; auto.
    + intro H. split; [apply H; left; reflexivity | intros x Hx; apply H; right; exact Hx].
Qed.

Lemma R_inhb_spec m : R_inhb m = true <-> R_inh m.
Proof.
  unfold R_inhb, R_inh. rewrite !andb_true_iff, !negb_true_iff, !existsb_false. tauto.
Qed.

Definition inh_diag (m : node) : diag := mkDiag INH WARNING (name_range m) (nident m).
Definition spec_inh (m : node) : list diag := if R_inhb m then [inh_diag m] else [].

(* what the checker's flag records for one node, given the current method *)
Definition inh_trig (cur : option node) (x : node) : bool :=
  is_pass_terminal x ||
  (is_inherited_op x && match cur with Some cm => inh_names cm x | None => false end).

Definition inh_verdict (m : node) : list diag :=
  if in_check_set (upper (nident m)) && negb (existsb (inh_trig (Some m)) (body m))
  then [mkDiag INH WARNING (inh_sel_range m) (nident m)] else [].

(* one visitor step with the walker's context folded in *)
Definition istep (st : inh_state) (n : node) : inh_state :=
  inh_visit (mkCtx None (if is_method n then Some n else ih_cur st)) [] n st.

Lemma cx_method_notify c n :
  cx_method (ctx_notify c n) = if is_method n then Some n else cx_method c.
Proof.
  unfold ctx_notify, is_method.
  destruct (is_kind KAstClass n), (is_kind KAstModule n), (is_kind KAstProcedure n), (is_kind KAstFunction n);
    reflexivity.
Qed.

Lemma inh_visit_ctx c1 c2 a1 a2 n st :
  cx_method c1 = cx_method c2 -> inh_visit c1 a1 n st = inh_visit c2 a2 n st.
Proof. intro H. unfold inh_visit. rewrite H. reflexivity. Qed.

Lemma ih_cur_visit c anc n st :
  ih_cur (inh_visit c anc n st) = if is_method n then Some n else ih_cur st.
Proof.
  unfold inh_visit, is_method, inh_method_node.
  destruct (is_kind KAstProcedure n), (is_kind KAstFunction n), (is_pass_terminal n), (is_inherited_op n),
    (cx_method c) as [cm|]; cbn [orb ih_cur]; try reflexivity;
    destruct (inh_names cm n); reflexivity.
Qed.

Lemma inh_fold l : forall c st,
  cx_method c = ih_cur st ->
  snd (fold_left (step2 inh_visit) l (c, st)) = fold_left istep (map snd l) st.
Proof.
  induction l as [|p l IH]; intros c st Hc; [reflexivity|].
  cbn [fold_left map]. unfold step2 at 2. cbn [fst snd].
  rewrite IH.
  - f_equal. unfold istep. apply inh_visit_ctx. cbn [cx_method]. rewrite cx_method_notify, Hc. reflexivity.
  - rewrite cx_method_notify, ih_cur_visit, Hc. reflexivity.
Qed.

Lemma is_method_kinds n : is_method n = true -> is_pass_terminal n = false /\ is_inherited_op n = false.
Proof.
  unfold is_method, is_pass_terminal, is_inherited_op. intro H. apply orb_true_iff in H as [H|H].
  - rewrite (is_kind_excl _ KAstTerminal _ H), (is_kind_excl _ KAstUnaryOp _ H) by discriminate. split; reflexivity.
  - rewrite (is_kind_excl _ KAstTerminal _ H), (is_kind_excl _ KAstUnaryOp _ H) by discriminate. split; reflexivity.
Qed.

Lemma istep_method st n :
  is_method n = true -> istep st n = mkInh false (Some n) (ih_out (inh_check st)).
Proof.
  intro H. unfold istep, inh_visit. rewrite H.
  destruct (is_method_kinds n H) as [H1 H2]. rewrite H1, H2.
  unfold is_method in H. apply orb_true_iff in H as [H|H].
  - rewrite H, (is_kind_excl _ KAstFunction _ H) by discriminate. reflexivity.
  - rewrite H, (is_kind_excl _ KAstProcedure _ H) by discriminate. reflexivity.
Qed.

Lemma istep_other st n :
  is_method n = false ->
  istep st n = mkInh (ih_called st || inh_trig (ih_cur st) n) (ih_cur st) (ih_out st).
Proof.
  intro H. unfold istep, inh_visit, inh_trig. rewrite H.
  unfold is_method in H. apply orb_false_iff in H as [H1 H2]. rewrite H1, H2.
  destruct st as [f cur out]. cbn [ih_called ih_cur ih_out cx_method].
  destruct (is_pass_terminal n), (is_inherited_op n), cur as [cm|]; cbn [orb andb ih_cur ih_out];
    rewrite ?orb_true_r, ?orb_false_r; try reflexivity;
    destruct (inh_names cm n); rewrite ?orb_true_r, ?orb_false_r; reflexivity.
Qed.

Lemma ifold_method_free l : forall st,
  forallb (fun x => negb (is_method x)) l = true ->
  fold_left istep l st = mkInh (ih_called st || existsb (inh_trig (ih_cur st)) l) (ih_cur st) (ih_out st).
Proof.
  induction l as [|x l IH]; intros st H.
  - destruct st. cbn. rewrite orb_false_r. reflexivity.
  - cbn [forallb] in H. apply andb_true_iff in H as [H1 H2]. apply negb_true_iff in H1.
    cbn [fold_left existsb]. rewrite IH by exact H2. rewrite istep_other by exact H1.
    cbn [ih_called ih_cur ih_out]. rewrite orb_assoc. reflexivity.
Qed.

(* outside methods nothing may look like a trigger of a stateful rule *)
Definition gap_quiet (x : node) : bool :=
  negb (is_pass_terminal x) && negb (is_inherited_op x) && negb (is_tvba_local x) && negb (is_purge_call x).

Definition inh_item_ok (it : item) : Prop :=
  match it with Gap x => gap_quiet x = true | Meth m => no_nested m = true end.

Lemma ifold_items its : forall st,
  Forall item_shape its -> Forall inh_item_ok its ->
  ih_out (inh_check (fold_left istep (flat_map expand its) st)) =
  ih_out (inh_check st) ++ flat_map inh_verdict (meths its).
Proof.
  induction its as [|it its IH]; intros st Hs Hok.
  - cbn. rewrite app_nil_r. reflexivity.
  - inversion Hs; subst. inversion Hok; subst. cbn [flat_map]. rewrite fold_left_app, IH by assumption.
    destruct it as [x|m]; cbn [expand meths flat_map item_shape inh_item_ok app] in *.
    + cbn [fold_left]. rewrite istep_other by assumption.
      unfold gap_quiet in H3. rewrite !andb_true_iff, !negb_true_iff in H3. destruct H3 as [[[P1 P2] _] _].
      unfold inh_trig. rewrite P1, P2. cbn [orb andb]. rewrite orb_false_r. destruct st; reflexivity.
    + rewrite nodes_body. cbn [fold_left]. rewrite istep_method by assumption.
      rewrite ifold_method_free by exact H3. cbn [ih_called ih_cur ih_out orb].
      rewrite app_assoc. f_equal.
      unfold inh_check at 1. cbn [ih_cur ih_called ih_out]. unfold inh_verdict.
      destruct (in_check_set (upper (nident m)) && negb (existsb (inh_trig (Some m)) (body m)));
        cbn [ih_out]; [reflexivity | rewrite app_nil_r; reflexivity].
Qed.

Lemma inherited_lint_items file :
  Forall inh_item_ok (items file) ->
  inherited_lint file = flat_map inh_verdict (meths (items file)).
Proof.
  intro H. unfold inherited_lint, run2. rewrite walk2_fold, inh_fold by reflexivity.
  rewrite map_snd_pre, nodes_items.
  rewrite ifold_items by (try apply items_shape; assumption). reflexivity.
Qed.

(* per-method guards of the inherited rule *)
Definition inh_ok (m : node) : bool :=
  forallb (fun x => implb (is_inherited_op x && inh_names m x) (inh_self_call m x)) (body m).

Lemma inh_sel_range_method m : is_method m = true -> inh_sel_range m = name_range m.
Proof.
  unfold is_method, inh_sel_range. intro H. apply orb_true_iff in H as [H|H].
  - rewrite H, (is_kind_excl _ KAstFunction _ H) by discriminate. reflexivity.
  - rewrite H. reflexivity.
Qed.

Lemma existsb_ext_in {A} (p q : A -> bool) l : (forall x, In x l -> p x = q x) -> existsb p l = existsb q l.
Proof.
  induction l as [|x l IH]; intro H; [reflexivity|]. cbn [existsb].
  rewrite (H x (or_introl eq_refl)), IH; [reflexivity|]. intros y Hy. apply H. right. exact Hy.
Qed.

Lemma existsb_orb {A} (p q : A -> bool) l : existsb (fun x => p x || q x) l = existsb p l || existsb q l.
Proof.
  induction l as [|x l IH]; [reflexivity|]. cbn [existsb]. rewrite IH.
  destruct (p x), (q x), (existsb p l), (existsb q l); reflexivity.
Qed.

Lemma inh_verdict_spec m :
  is_method m = true -> inh_ok m = true -> inh_verdict m = spec_inh m.
Proof.
  intros Hm Hi. unfold inh_verdict, spec_inh, R_inhb, inh_diag. rewrite Hm, inh_sel_range_method by exact Hm.
  cbn [andb]. rewrite <- andb_assoc, <- negb_orb.
  replace (existsb (inh_trig (Some m)) (body m)) with (existsb is_pass_stmt (body m) || existsb (inh_self_call m) (body m));
    [reflexivity|].
  rewrite <- existsb_orb. apply existsb_ext_in. intros x Hx.
  unfold inh_ok in *. rewrite forallb_forall in Hi. specialize (Hi x Hx).
  unfold inh_trig, is_pass_stmt. unfold inh_self_call in *. cbn [inh_names] in *.
  set (B' := match child 0 x with Some e => _ && _ | None => false end) in *.
  destruct (is_pass_terminal x), (is_inherited_op x), (inh_names m x), B'; cbn in *; congruence.
Qed.

(* ========================================================================================== *)
(* 7. unpurged tVarByteArray rule                                                             *)
(* ========================================================================================== *)

Definition locals (l : list node) : list node := filter is_tvba_local l.

(* the first arguments of the calls named Purge (any receiver, any letter case) *)
Definition purge_args (l : list node) : list node :=
  flat_map (fun c => if is_purge_call c then match child 0 c with Some a => [a] | None => [] end else []) l.

Definition is_ident_terminal (a : node) : bool :=
  is_kind KAstTerminal a &&
  match attr_tok K_token a with Some t => tt_eqb (tty t) TIdentifier | None => false end.

(* the argument is a reference to variable v: an identifier spelled like v, letter case ignored *)
Definition arg_refers (a v : node) : bool := is_ident_terminal a && ci_eqb (nident a) (nident v).

Definition purged_in (l : list node) (v : node) : bool := existsb (fun a => arg_refers a v) (purge_args l).

Definition R_purge (m v : node) : Prop :=
  In v (body m) /\ is_tvba_local v = true /\
  forall c a, In c (body m) -> is_purge_call c = true -> child 0 c = Some a -> arg_refers a v = false.

Lemma in_purge_args a l :
  In a (purge_args l) <-> exists c, In c l /\ is_purge_call c = true /\ child 0 c = Some a.
Proof.
  unfold purge_args. rewrite in_flat_map. split.
  - intros (c & Hc & Ha). exists c. destruct (is_purge_call c); [|destruct Ha].
    destruct (child 0 c) as [a'|]; [|destruct Ha]. destruct Ha as [->|[]]. auto.
  - intros (c & Hc & Hp & Ha). exists c. split; [exact Hc|]. rewrite Hp, Ha. left. reflexivity.
Qed.

Lemma R_purge_spec m v :
  R_purge m v <-> In v (locals (body m)) /\ purged_in (body m) v = false.
Proof.
  unfold R_purge, locals, purged_in. rewrite filter_In, existsb_false. split.
  - intros (H1 & H2 & H3). split; [auto|]. intros a Ha. apply in_purge_args in Ha as (c & Hc & Hp & Hch).
    eapply H3; eauto.
  - intros ((H1 & H2) & H3). repeat split; auto. intros c a Hc Hp Hch. apply H3.
    apply in_purge_args. exists c. auto.
Qed.

Section Purge.
  Context (keyf : str -> str) (keyf_ci : forall a b, keyf a = keyf b -> upper a = upper b).

  Definition purge_diag (v : node) : diag := mkDiag PURGE WARNING (ident_range v) (nident v).   (* the declared spelling *)

  Definition spec_purge (m : node) : list diag :=
    flat_map (fun v => if purged_in (body m) v then [] else [purge_diag v]) (locals (body m)).

  (* the visitor restricted to its map *)
  Definition mstep (M : pmap) (n : node) : pmap :=
    let M1 := if is_tvba_local n then ainsert (keyf (nident n)) ((nident n, ident_range n), false) M else M in
    if is_purge_call n then match child 0 n with Some a => amark (keyf (nident a)) M1 | None => M1 end else M1.

  Definition ustep (st : unp_state) (n : node) : unp_state := unp_visit keyf ctx0 [] n st.

  Lemma is_method_kinds2 n : is_method n = true -> is_tvba_local n = false /\ is_purge_call n = false.
  Proof.
    unfold is_method, is_tvba_local, is_purge_call. intro H. apply orb_true_iff in H as [H|H];
      rewrite (is_kind_excl _ KAstLocalVariableDeclaration _ H), (is_kind_excl _ KAstMethodCall _ H) by discriminate;
      split; reflexivity.
  Qed.

  Lemma ustep_method st n :
    is_method n = true -> ustep st n = ([], snd st ++ unpurged_diags (fst st)).
  Proof.
    intro H. unfold ustep, unp_visit, unp_call, unp_local. destruct (is_method_kinds2 n H) as [H1 H2].
    rewrite H1, H2. unfold unp_method_decl. unfold is_method in H. apply orb_true_iff in H as [H|H].
    - rewrite H, (is_kind_excl _ KAstFunction _ H) by discriminate. reflexivity.
    - rewrite H, (is_kind_excl _ KAstProcedure _ H) by discriminate. reflexivity.
  Qed.

  Lemma ustep_other st n : is_method n = false -> ustep st n = (mstep (fst st) n, snd st).
  Proof.
    intro H. unfold ustep, unp_visit, unp_method_decl. unfold is_method in H.
    apply orb_false_iff in H as [H1 H2]. rewrite H1, H2.
    unfold unp_call, unp_local, mstep. destruct st as [M out]. cbn [fst snd].
    destruct (is_tvba_local n), (is_purge_call n); cbn [fst snd]; try reflexivity;
      destruct (child 0 n); reflexivity.
  Qed.

  Lemma ufold_method_free l : forall st,
    forallb (fun x => negb (is_method x)) l = true ->
    fold_left ustep l st = (fold_left mstep l (fst st), snd st).
  Proof.
    induction l as [|x l IH]; intros st H.
    - destruct st; reflexivity.
    - cbn [forallb] in H. apply andb_true_iff in H as [H1 H2]. apply negb_true_iff in H1.
      cbn [fold_left]. rewrite ustep_other by exact H1. rewrite IH by exact H2. reflexivity.
  Qed.

  Definition method_map (m : node) : pmap := fold_left mstep (body m) [].
  Definition unp_verdict (m : node) : list diag := unpurged_diags (method_map m).

  Lemma ufold_items its : forall st,
    Forall item_shape its -> Forall inh_item_ok its ->
    snd (unp_end (fold_left ustep (flat_map expand its) st)) =
    snd (unp_end st) ++ flat_map unp_verdict (meths its).
  Proof.
    induction its as [|it its IH]; intros st Hs Hok.
    - cbn. rewrite app_nil_r. reflexivity.
    - inversion Hs; subst. inversion Hok; subst. cbn [flat_map]. rewrite fold_left_app, IH by assumption.
      destruct it as [x|m]; cbn [expand meths flat_map item_shape inh_item_ok app] in *.
      + cbn [fold_left]. rewrite ustep_other by assumption.
        unfold gap_quiet in H3. rewrite !andb_true_iff, !negb_true_iff in H3. destruct H3 as [[_ P3] P4].
        unfold mstep. rewrite P3, P4. destruct st; reflexivity.
      + rewrite nodes_body. cbn [fold_left]. rewrite ustep_method by assumption.
        rewrite ufold_method_free by exact H3. cbn [fst snd unp_end].
        rewrite app_assoc. reflexivity.
  Qed.

  Lemma unpurged_lint_items file :
    Forall inh_item_ok (items file) ->
    unpurged_lint_k keyf file = flat_map unp_verdict (meths (items file)).
  Proof.
    intro H. unfold unpurged_lint_k, run2. rewrite walk2_fold.
    rewrite (surjective_pairing (unp_end _)). cbn [snd].
    rewrite (fold_step2_plain (unp_visit keyf) ustep) by reflexivity.
    rewrite map_snd_pre, nodes_items. cbn [snd].
    rewrite ufold_items by (try apply items_shape; assumption). reflexivity.
  Qed.

  (* ---- the map built inside one method ---- *)
  Definition spec_map (p : list node) : pmap :=
    map (fun v => (keyf (nident v), ((nident v, ident_range v), purged_in p v))) (locals p).

  Record purge_guard (l : list node) : Prop := {
    pg_nodup : NoDup (map (fun v => upper (nident v)) (locals l));
    pg_after : forall p c q a v, l = p ++ c :: q -> is_purge_call c = true -> child 0 c = Some a ->
                                 In v q -> is_tvba_local v = true -> ci_eqb (nident a) (nident v) = false;
    pg_args : forall a v, In a (purge_args l) -> In v (locals l) -> ci_eqb (nident a) (nident v) = true ->
                          keyf (nident a) = keyf (nident v) /\ is_ident_terminal a = true }.

  Lemma ainsert_fresh {V} k (v : V) M : (forall e, In e M -> fst e <> k) -> ainsert k v M = M ++ [(k, v)].
  Proof.
    induction M as [|[k' v'] M IH]; intro H; [reflexivity|]. cbn [ainsert app].
    destruct (str_eqb k k') eqn:E.
    - apply str_eqb_eq in E. exfalso. apply (H (k', v')); [left; reflexivity | symmetry; exact E].
    - rewrite IH; [reflexivity|]. intros e He. apply H. right. exact He.
  Qed.

  Lemma ci_eqb_true a b : ci_eqb a b = true <-> upper a = upper b.
  Proof. unfold ci_eqb. apply str_eqb_eq. Qed.

  Lemma locals_snoc p x : locals (p ++ [x]) = locals p ++ (if is_tvba_local x then [x] else []).
  Proof. unfold locals. rewrite filter_app. cbn [filter]. destruct (is_tvba_local x); reflexivity. Qed.

  Lemma purge_args_snoc p x :
    purge_args (p ++ [x]) =
    purge_args p ++ (if is_purge_call x then match child 0 x with Some a => [a] | None => [] end else []).
  Proof. unfold purge_args. rewrite flat_map_app. cbn [flat_map]. rewrite app_nil_r. reflexivity. Qed.

  Lemma tvba_not_call x : is_tvba_local x = true -> is_purge_call x = false.
  Proof.
    unfold is_tvba_local, is_purge_call. intro H. apply andb_true_iff in H as [H _].
    rewrite (is_kind_excl _ KAstMethodCall _ H) by discriminate. reflexivity.
  Qed.

  Lemma mstep_spec p x q :
    purge_guard (p ++ x :: q) -> mstep (spec_map p) x = spec_map (p ++ [x]).
  Proof.
    intros [Hnd Haft Harg]. unfold mstep, spec_map. rewrite locals_snoc.
    destruct (is_tvba_local x) eqn:Et.
    - (* a registration *)
      rewrite (tvba_not_call x Et). rewrite map_app. cbn [map].
      assert (Ep : forall v, purged_in (p ++ [x]) v = purged_in p v).
      { intro v. unfold purged_in. rewrite purge_args_snoc, (tvba_not_call x Et), app_nil_r. reflexivity. }
      rewrite ainsert_fresh.
      + f_equal; [apply map_ext; intro v; rewrite Ep; reflexivity|].
        rewrite Ep. replace (purged_in p x) with false; [reflexivity|]. symmetry. unfold purged_in. apply existsb_false. intros a Ha.
        apply in_purge_args in Ha as (c & Hc & Hp & Hch). apply in_split in Hc as (p1 & p2 & ->).
        unfold arg_refers. rewrite (Haft p1 c (p2 ++ x :: q) a x); [apply andb_false_r| |assumption|assumption| |assumption].
        * rewrite <- app_assoc. reflexivity.
        * apply in_or_app. right. left. reflexivity.
      + intros e He. apply in_map_iff in He as (v & <- & Hv). cbn [fst]. intro E. apply keyf_ci in E.
        unfold locals in Hnd. rewrite filter_app in Hnd. cbn [filter] in Hnd. rewrite Et in Hnd.
        rewrite map_app in Hnd. cbn [map] in Hnd. apply NoDup_remove_2 in Hnd. apply Hnd.
        apply in_or_app. left. rewrite <- E. apply in_map_iff. exists v. split; [reflexivity | exact Hv].
    - rewrite app_nil_r. destruct (is_purge_call x) eqn:Ec.
      + destruct (child 0 x) as [a|] eqn:Ech.
        * (* a purge *)
          unfold amark. rewrite map_map. apply map_ext_in. intros v Hv. cbn [fst snd].
          unfold purged_in at 2. rewrite purge_args_snoc, Ec, Ech, existsb_app. cbn [existsb]. rewrite orb_false_r.
          fold (purged_in p v).
          assert (Ha : In a (purge_args (p ++ x :: q))).
          { apply in_purge_args. exists x. split; [apply in_or_app; right; left; reflexivity | auto]. }
          assert (Hv' : In v (locals (p ++ x :: q))).
          { unfold locals in *. rewrite filter_app. apply in_or_app. left. exact Hv. }
          unfold arg_refers. destruct (ci_eqb (nident a) (nident v)) eqn:Eci.
          -- destruct (Harg a v Ha Hv' Eci) as [Ek Eid]. rewrite Ek, str_eqb_refl, Eid. cbn [andb].
             rewrite orb_true_r. reflexivity.
          -- rewrite andb_false_r, orb_false_r.
             destruct (str_eqb (keyf (nident a)) (keyf (nident v))) eqn:Ek; [|reflexivity].
             apply str_eqb_eq in Ek. apply keyf_ci in Ek. apply ci_eqb_true in Ek. congruence.
        * apply map_ext. intro v. unfold purged_in. rewrite purge_args_snoc, Ec, Ech, app_nil_r. reflexivity.
      + apply map_ext. intro v. unfold purged_in. rewrite purge_args_snoc, Ec, app_nil_r. reflexivity.
  Qed.

  Lemma mfold_spec q : forall p, purge_guard (p ++ q) -> fold_left mstep q (spec_map p) = spec_map (p ++ q).
  Proof.
    induction q as [|x q IH]; intros p H.
    - rewrite app_nil_r. reflexivity.
    - cbn [fold_left]. rewrite (mstep_spec p x q H).
      replace (p ++ x :: q) with ((p ++ [x]) ++ q) in * by (rewrite <- app_assoc; reflexivity).
      apply IH. exact H.
  Qed.

  Lemma flat_map_map {A B C} (f : A -> B) (g : B -> list C) l : flat_map g (map f l) = flat_map (fun x => g (f x)) l.
  Proof. induction l as [|x l IH]; [reflexivity|]. cbn [map flat_map]. rewrite IH. reflexivity. Qed.

  Lemma unp_verdict_spec m : purge_guard (body m) -> unp_verdict m = spec_purge m.
  Proof.
    intro H. unfold unp_verdict, method_map. change (@nil (str * pinfo)) with (spec_map []).
    rewrite (mfold_spec (body m) [] H). cbn [app]. unfold spec_map, unpurged_diags, spec_purge.
    rewrite flat_map_map. reflexivity.
  Qed.

  (* ---- the guard as a decidable check ---- *)
  Fixpoint nodupb (l : list str) : bool :=
    match l with [] => true | x :: l' => negb (existsb (str_eqb x) l') && nodupb l' end.

  Lemma nodupb_NoDup l : nodupb l = true -> NoDup l.
  Proof.
    induction l as [|x l IH]; intro H; constructor; cbn [nodupb] in H; apply andb_true_iff in H as [H1 H2].
    - intro Hin. apply negb_true_iff in H1. rewrite existsb_false in H1. specialize (H1 x Hin).
      rewrite str_eqb_refl in H1. discriminate.
    - apply IH. exact H2.
  Qed.

  (* no tVarByteArray local is declared AFTER a Purge call that names it *)
  Fixpoint padb (l : list node) : bool :=
    match l with
    | [] => true
    | c :: q =>
      (if is_purge_call c then
         match child 0 c with
         | Some a => forallb (fun v => negb (is_tvba_local v && ci_eqb (nident a) (nident v))) q
         | None => true
         end
       else true) && padb q
    end.

  Lemma padb_spec l : padb l = true ->
    forall p c q a v, l = p ++ c :: q -> is_purge_call c = true -> child 0 c = Some a ->
                      In v q -> is_tvba_local v = true -> ci_eqb (nident a) (nident v) = false.
  Proof.
    induction l as [|y l IH]; intros H p c q a v E Hc Ha Hv Ht.
    - destruct p; discriminate.
    - cbn [padb] in H. apply andb_true_iff in H as [H1 H2]. destruct p as [|y' p]; cbn [app] in E; inversion E; subst.
      + rewrite Hc, Ha in H1. rewrite forallb_forall in H1. specialize (H1 v Hv).
        rewrite Ht in H1. cbn [andb] in H1. apply negb_true_iff in H1. exact H1.
      + eapply IH; eauto.
  Qed.

  Definition nodup_locals (l : list node) : bool := nodupb (map (fun v => upper (nident v)) (locals l)).

  (* a Purge argument spelled like a local up to letter case has the same map key (R1) *)
  Definition key_consistent (l : list node) : bool :=
    forallb (fun a => forallb (fun v => implb (ci_eqb (nident a) (nident v))
                                              (str_eqb (keyf (nident a)) (keyf (nident v)))) (locals l)) (purge_args l).

  (* ... and is a plain identifier, not a string literal, call, index ... with that name *)
  Definition args_plain (l : list node) : bool :=
    forallb (fun a => forallb (fun v => implb (ci_eqb (nident a) (nident v)) (is_ident_terminal a)) (locals l)) (purge_args l).

  Lemma purge_guard_b l :
    nodup_locals l = true -> padb l = true -> key_consistent l = true -> args_plain l = true -> purge_guard l.
  Proof.
    intros H1 H2 H3 H4. constructor.
    - apply nodupb_NoDup. exact H1.
    - apply padb_spec. exact H2.
    - intros a v Ha Hv E. unfold key_consistent, args_plain in *. rewrite forallb_forall in H3, H4.
      specialize (H3 a Ha). specialize (H4 a Ha). rewrite forallb_forall in H3, H4.
      specialize (H3 v Hv). specialize (H4 v Hv). rewrite E in H3, H4. cbn [implb] in H3, H4.
      apply str_eqb_eq in H3. auto.
  Qed.

  (* ======================================================================================== *)
  (* 8. the guard WF16k and the exactness theorem                                              *)
  (* ======================================================================================== *)

  Definition method_ok (m : node) : bool :=
    no_nested m && inh_ok m &&
    nodup_locals (body m) && padb (body m) && key_consistent (body m) && args_plain (body m).

  Definition item_ok (it : item) : bool :=
    match it with Gap x => gap_quiet x | Meth m => method_ok m end.

  Definition wf16b (file : node) : bool :=
    negb (is_kind KAstFunction file) && forallb item_ok (items file).

  Definition WF16k (file : node) : Prop := wf16b file = true.

  (* one diagnostic per declaration satisfying its rule *)
  Definition lints_spec (file : node) : list diag :=
    spec_ret file ++ flat_map spec_purge (methods file) ++ spec_name file ++ flat_map spec_inh (methods file).

  Lemma item_ok_inh its : forallb item_ok its = true -> Forall inh_item_ok its.
  Proof.
    rewrite forallb_forall, Forall_forall. intros H it Hit. specialize (H it Hit).
    destruct it as [x|m]; cbn [item_ok inh_item_ok] in *; [exact H|].
    unfold method_ok in H. rewrite !andb_true_iff in H. tauto.
  Qed.

  Theorem lints_exact_eq file : WF16k file -> lints_k keyf file = lints_spec file.
  Proof.
    unfold WF16k, wf16b. intro H. apply andb_true_iff in H as [Hr Hi]. apply negb_true_iff in Hr.
    pose proof (item_ok_inh _ Hi) as Hinh.
    assert (Hm : methods file = meths (items file)).
    { apply methods_meths. rewrite Forall_forall in *. intros it Hit. specialize (Hinh it Hit).
      destruct it; [exact I | exact Hinh]. }
    unfold lints_k, lints_v2_k, lints_spec.
    rewrite (ret_type_lint_spec file Hr), naming_lint_spec, (unpurged_lint_items file Hinh),
      (inherited_lint_items file Hinh), Hm.
    pose proof (items_shape file) as Hs.
    assert (Hall : forall m, In m (meths (items file)) -> is_method m = true /\ method_ok m = true).
    { intros m Hin. unfold meths in Hin. apply in_flat_map in Hin as (it & Hit & Hin).
      destruct it as [x|m']; [destruct Hin|]. destruct Hin as [->|[]].
      rewrite Forall_forall in Hs. rewrite forallb_forall in Hi. split; [apply (Hs _ Hit) | apply (Hi _ Hit)]. }
    f_equal. f_equal; [|f_equal]; apply flat_map_ext_in; intros m Hin; destruct (Hall m Hin) as [Hmm Hok];
      unfold method_ok in Hok; rewrite !andb_true_iff in Hok;
      destruct Hok as [[[[[K1 K3] K4] K5] K6] K7].
    - apply unp_verdict_spec. apply purge_guard_b; assumption.
    - apply inh_verdict_spec; assumption.
  Qed.

  Theorem lints_exact file : WF16k file -> Permutation (lints_k keyf file) (lints_spec file).
  Proof. intro H. rewrite (lints_exact_eq file H). apply Permutation_refl. Qed.
End Purge.

(* ========================================================================================== *)
(* 9. the guard, clause by clause                                                             *)
(* ========================================================================================== *)

Lemma forallb_andb {A} (p q : A -> bool) l : forallb (fun x => p x && q x) l = forallb p l && forallb q l.
Proof.
  induction l as [|x l IH]; [reflexivity|]. cbn [forallb]. rewrite IH.
  destruct (p x), (q x), (forallb p l), (forallb q l); reflexivity.
Qed.

Lemma forallb_ext' {A} (p q : A -> bool) l : (forall x, p x = q x) -> forallb p l = forallb q l.
Proof. intro H. induction l as [|x l IH]; [reflexivity|]. cbn [forallb]. rewrite H, IH. reflexivity. Qed.

Definition on_meths (p : node -> bool) (file : node) : bool :=
  forallb (fun it => match it with Gap _ => true | Meth m => p m end) (items file).
Definition on_gaps (p : node -> bool) (file : node) : bool :=
  forallb (fun it => match it with Gap x => p x | Meth _ => true end) (items file).

(* the clauses of WF16k, named as in the report *)
Definition RootNotFunction (file : node) : bool := negb (is_kind KAstFunction file).
Definition QuietOutsideMethods : node -> bool := on_gaps gap_quiet.
Definition NoNestedMethods : node -> bool := on_meths no_nested.
Definition InheritedSelfOnly : node -> bool := on_meths inh_ok.
Definition NoDupLocals : node -> bool := on_meths (fun m => nodup_locals (body m)).
Definition PurgeAfterDecl : node -> bool := on_meths (fun m => padb (body m)).
Definition PurgeKeyConsistent (keyf : str -> str) : node -> bool := on_meths (fun m => key_consistent keyf (body m)).
Definition CaseConsistentPurge : node -> bool := PurgeKeyConsistent key_exact.
Definition PurgeArgsPlain : node -> bool := on_meths (fun m => args_plain (body m)).

Definition guard_profile (keyf : str -> str) (file : node) : list bool :=
  [RootNotFunction file; QuietOutsideMethods file; NoNestedMethods file;
   InheritedSelfOnly file; NoDupLocals file; PurgeAfterDecl file; PurgeKeyConsistent keyf file;
   PurgeArgsPlain file].

Lemma wf16b_profile keyf file : wf16b keyf file = forallb (fun b => b) (guard_profile keyf file).
Proof.
  unfold wf16b, guard_profile, RootNotFunction, QuietOutsideMethods, NoNestedMethods,
    InheritedSelfOnly, NoDupLocals, PurgeAfterDecl, PurgeKeyConsistent, PurgeArgsPlain, on_meths, on_gaps.
  cbn [forallb]. rewrite andb_true_r. f_equal.
  rewrite <- !forallb_andb. apply forallb_ext'. intros [x|m]; cbn [item_ok].
  - rewrite !andb_true_r. reflexivity.
  - unfold method_ok. cbn [andb]. rewrite !andb_assoc. reflexivity.
Qed.

(* the map keyed by the upper-cased name (the proposed repair): the R1 clause holds outright *)
Lemma upper_ci a b : upper a = upper b -> upper a = upper b.
Proof. exact (fun H => H). Qed.

Lemma exact_ci a b : key_exact a = key_exact b -> upper a = upper b.
Proof. unfold key_exact. intros ->. reflexivity. Qed.

Lemma key_consistent_upper l : key_consistent upper l = true.
Proof.
  unfold key_consistent. apply forallb_forall. intros a _. apply forallb_forall. intros v _.
  unfold ci_eqb. destruct (str_eqb (upper (nident a)) (upper (nident v))); reflexivity.
Qed.

Definition WF16 (file : node) : Prop :=
  forallb (fun b => b) [RootNotFunction file; QuietOutsideMethods file; NoNestedMethods file;
                        InheritedSelfOnly file; NoDupLocals file; PurgeAfterDecl file; PurgeArgsPlain file] = true.

Lemma WF16_upper file : WF16 file -> WF16k upper file.
Proof.
  unfold WF16, WF16k. rewrite wf16b_profile. unfold guard_profile. cbn [forallb].
  replace (PurgeKeyConsistent upper file) with true; [tauto|].
  symmetry. unfold PurgeKeyConsistent, on_meths. apply forallb_forall. intros [x|m] _; [reflexivity|].
  apply key_consistent_upper.
Qed.

Theorem lints_exact_upper file :
  WF16 file -> Permutation (lints_k upper file) (lints_spec file).
Proof. intro H. apply (lints_exact upper upper_ci). apply WF16_upper. exact H. Qed.

Lemma WF16_exact_split file :
  WF16k key_exact file <-> WF16 file /\ CaseConsistentPurge file = true.
Proof.
  unfold WF16k, WF16, CaseConsistentPurge. rewrite wf16b_profile. unfold guard_profile. cbn [forallb].
  rewrite !andb_true_iff. tauto.
Qed.

(* ========================================================================================== *)
(* 10. locality: a top-level declaration contributes a list that depends on it alone          *)
(* ========================================================================================== *)

Lemma perm_flat_map_app {A B} (f g : A -> list B) l :
  Permutation (flat_map f l ++ flat_map g l) (flat_map (fun x => f x ++ g x) l).
Proof.
  induction l as [|x l IH]; [constructor|]. cbn [flat_map]. rewrite <- !app_assoc.
  apply Permutation_app_head.
  eapply Permutation_trans; [apply Permutation_app_swap_app|]. apply Permutation_app_head. exact IH.
Qed.

Lemma flat_map_flat_map {A B C} (f : A -> list B) (g : B -> list C) l :
  flat_map g (flat_map f l) = flat_map (fun x => flat_map g (f x)) l.
Proof. induction l as [|x l IH]; [reflexivity|]. cbn [flat_map]. rewrite flat_map_app, IH. reflexivity. Qed.

Lemma R_nameb_root a r1 r2 d cls :
  is_override r1 = is_override r2 -> R_nameb (a ++ [r1]) d cls = R_nameb (a ++ [r2]) d cls.
Proof.
  intro H. destruct cls; try reflexivity. cbn [R_nameb]. destruct a as [|p [|g a']]; cbn [app]; try reflexivity.
  rewrite H. reflexivity.
Qed.

Lemma name_verdict_root a r1 r2 d :
  is_override r1 = is_override r2 -> name_verdict (a ++ [r1]) d = name_verdict (a ++ [r2]) d.
Proof.
  intro H. unfold name_verdict. apply flat_map_ext_in. intros cls _. rewrite (R_nameb_root a r1 r2 d cls H). reflexivity.
Qed.

Definition names_in (anc : list node) (c : node) : list diag :=
  flat_map (fun p => name_verdict (fst p) (snd p)) (pre anc c).

Lemma names_in_root r1 r2 c : is_override r1 = is_override r2 ->
  forall a, names_in (a ++ [r1]) c = names_in (a ++ [r2]) c.
Proof.
  intro H. induction c as [k i r rg at' ch IH] using node_ind2. intro a. unfold names_in.
  rewrite !pre_eq. cbn [flat_map fst snd nchildren]. f_equal; [apply name_verdict_root; exact H|].
  rewrite !flat_map_flat_map. apply flat_map_ext_in. intros c Hc. rewrite Forall_forall in IH.
  apply (IH c Hc (Node k i r rg at' ch :: a)).
Qed.

Definition root_stub : node := Node KAstRoot [] 0 range0 [] [].

Section Local.
  Context (keyf : str -> str) (keyf_ci : forall a b, keyf a = keyf b -> upper a = upper b).

  (* everything the rules say about one top-level declaration: a function of its subtree alone *)
  Definition decl_verdicts (c : node) : list diag :=
    flat_map ret_verdict (nodes c) ++ flat_map spec_purge (methods c) ++
    names_in [root_stub] c ++ flat_map spec_inh (methods c).

  Lemma root_facts i r rg a ch :
    let root := Node KAstRoot i r rg a ch in
    is_method root = false /\ ret_verdict root = [] /\ name_verdict [] root = [] /\
    is_override root = is_override root_stub /\ gap_quiet root = true /\ is_kind KAstFunction root = false.
  Proof. repeat split; reflexivity. Qed.

  Lemma lints_spec_root i r rg a ch :
    Permutation (lints_spec (Node KAstRoot i r rg a ch)) (flat_map decl_verdicts ch).
  Proof.
    set (root := Node KAstRoot i r rg a ch).
    destruct (root_facts i r rg a ch) as (F1 & F2 & F3 & F4 & _ & _). fold root in F1, F2, F3, F4.
    unfold lints_spec, spec_ret, spec_name, methods.
    rewrite nodes_eq, pre_eq. cbn [filter flat_map fst snd nchildren]. rewrite F1, F2, F3. cbn [app].
    change (nchildren root) with ch. rewrite filter_flat_map, !flat_map_flat_map.
    assert (E : flat_map (fun x => flat_map (fun p => name_verdict (fst p) (snd p)) (pre [root] x)) ch =
                flat_map (names_in [root_stub]) ch).
    { apply flat_map_ext_in. intros c _. apply (names_in_root root root_stub c F4 []). }
    rewrite E. unfold decl_verdicts.
    eapply Permutation_trans; [|apply perm_flat_map_app]. apply Permutation_app_head.
    eapply Permutation_trans; [|apply perm_flat_map_app]. apply Permutation_app_head.
    apply perm_flat_map_app.
  Qed.

  Lemma wf16_root i r rg a ch :
    wf16b keyf (Node KAstRoot i r rg a ch) = forallb (fun c => forallb (item_ok keyf) (items c)) ch.
  Proof.
    unfold wf16b. rewrite items_eq.
    destruct (root_facts i r rg a ch) as (F1 & _ & _ & _ & F5 & F6).
    cbv zeta in F1, F5, F6. rewrite F1, F6. cbn [negb andb forallb item_ok nchildren]. rewrite F5. cbn [andb]. clear F1 F5 F6.
    induction ch as [|c ch IH]; [reflexivity|]. cbn [flat_map forallb]. rewrite forallb_app, IH. reflexivity.
  Qed.

  Lemma forallb_perm {A} (p : A -> bool) l l' : Permutation l l' -> forallb p l = forallb p l'.
  Proof.
    induction 1; cbn [forallb]; try congruence.
    destruct (p x), (p y); reflexivity.
  Qed.

  (* removing (or adding) a top-level declaration m changes the report by decl_verdicts m exactly;
     the verdicts on everything else are unaffected *)
  Theorem lints_local i r rg a p m q :
    WF16k keyf (Node KAstRoot i r rg a (p ++ m :: q)) ->
    Permutation (lints_k keyf (Node KAstRoot i r rg a (p ++ m :: q)))
                (lints_k keyf (Node KAstRoot i r rg a (p ++ q)) ++ decl_verdicts m).
  Proof.
    intro H.
    assert (H' : WF16k keyf (Node KAstRoot i r rg a (p ++ q))).
    { unfold WF16k in *. rewrite wf16_root in *. rewrite forallb_app in *. cbn [forallb] in H.
      rewrite !andb_true_iff in *. tauto. }
    eapply Permutation_trans; [apply (lints_exact keyf keyf_ci _ H)|].
    eapply Permutation_trans; [apply lints_spec_root|].
    eapply Permutation_trans;
      [|apply Permutation_app_tail; apply Permutation_sym; eapply Permutation_trans;
        [apply (lints_exact keyf keyf_ci _ H') | apply lints_spec_root]].
    rewrite !flat_map_app. cbn [flat_map]. rewrite <- app_assoc. apply Permutation_app_head.
    apply Permutation_app_comm.
  Qed.

  (* two files that contain the same top-level declaration m agree on its verdicts *)
  Corollary lints_agree i1 r1 rg1 a1 p1 q1 i2 r2 rg2 a2 p2 q2 m :
    WF16k keyf (Node KAstRoot i1 r1 rg1 a1 (p1 ++ m :: q1)) ->
    WF16k keyf (Node KAstRoot i2 r2 rg2 a2 (p2 ++ m :: q2)) ->
    exists rest1 rest2,
      Permutation (lints_k keyf (Node KAstRoot i1 r1 rg1 a1 (p1 ++ m :: q1))) (rest1 ++ decl_verdicts m) /\
      Permutation (lints_k keyf (Node KAstRoot i2 r2 rg2 a2 (p2 ++ m :: q2))) (rest2 ++ decl_verdicts m) /\
      rest1 = lints_k keyf (Node KAstRoot i1 r1 rg1 a1 (p1 ++ q1)) /\
      rest2 = lints_k keyf (Node KAstRoot i2 r2 rg2 a2 (p2 ++ q2)).
  Proof.
    intros H1 H2. eexists _, _. split; [apply lints_local; exact H1|].
    split; [apply lints_local; exact H2|]. split; reflexivity.
  Qed.

  (* permuting the top-level declarations permutes the report *)
  Theorem lints_permute i r rg a ch ch' :
    Permutation ch ch' -> WF16k keyf (Node KAstRoot i r rg a ch) ->
    WF16k keyf (Node KAstRoot i r rg a ch') /\
    Permutation (lints_k keyf (Node KAstRoot i r rg a ch)) (lints_k keyf (Node KAstRoot i r rg a ch')).
  Proof.
    intros Hp H.
    assert (H' : WF16k keyf (Node KAstRoot i r rg a ch')).
    { unfold WF16k in *. rewrite wf16_root in *. rewrite <- (forallb_perm _ _ _ Hp). exact H. }
    split; [exact H'|].
    eapply Permutation_trans; [apply (lints_exact keyf keyf_ci _ H)|].
    eapply Permutation_trans; [apply lints_spec_root|].
    eapply Permutation_trans; [apply Permutation_flat_map; exact Hp|].
    apply Permutation_sym. eapply Permutation_trans; [apply (lints_exact keyf keyf_ci _ H')|]. apply lints_spec_root.
  Qed.
End Local.

(* ========================================================================================== *)
(* 11. repeating the request                                                                  *)
(* ========================================================================================== *)

Definition doc_ok (d : doc) : Prop :=
  d_cache d = None \/ d_cache d = Some (ret_type_lint (d_ast d)).

Lemma request_ok d :
  doc_ok d ->
  fst (request d) = lints (d_ast d) /\ doc_ok (snd (request d)) /\ d_ast (snd (request d)) = d_ast d.
Proof.
  intros [H|H]; unfold request; rewrite H; cbn [fst snd d_ast d_cache];
    (split; [reflexivity | split; [right; reflexivity | reflexivity]]).
Qed.

Fixpoint requests (n : nat) (d : doc) : list (list diag) :=
  match n with
  | O => []
  | S n' => fst (request d) :: requests n' (snd (request d))
  end.

Theorem lints_idempotent n ast : Forall (fun r => r = lints ast) (requests n (fresh_doc ast)).
Proof.
  assert (G : forall n d, doc_ok d -> Forall (fun r => r = lints (d_ast d)) (requests n d)).
  { clear n. induction n as [|n IH]; intros d Hd; [constructor|]. cbn [requests].
    destruct (request_ok d Hd) as (E1 & E2 & E3). constructor; [exact E1|].
    rewrite <- E3. apply IH. exact E2. }
  apply (G n (fresh_doc ast)). left. reflexivity.
Qed.

(* ========================================================================================== *)
(* 12. lints_spec lists exactly the declarations that satisfy their rule                      *)
(* ========================================================================================== *)

Lemma spec_inh_in m d : In d (spec_inh m) <-> R_inh m /\ d = inh_diag m.
Proof.
  unfold spec_inh. destruct (R_inhb m) eqn:E.
  - apply R_inhb_spec in E. split; [intros [<-|[]]; auto | intros [_ ->]; left; reflexivity].
  - split; [intros [] | intros [H _]]. apply R_inhb_spec in H. congruence.
Qed.

Lemma spec_inh_once m : (length (spec_inh m) <= 1)%nat.
Proof. unfold spec_inh. destruct (R_inhb m); cbn; lia. Qed.

Lemma spec_purge_in m d : In d (spec_purge m) <-> exists v, R_purge m v /\ d = purge_diag v.
Proof.
  unfold spec_purge. rewrite in_flat_map. split.
  - intros (v & Hv & Hd). destruct (purged_in (body m) v) eqn:E; [destruct Hd|]. destruct Hd as [<-|[]].
    exists v. split; [apply R_purge_spec; auto | reflexivity].
  - intros (v & Hv & ->). apply R_purge_spec in Hv as [H1 H2]. exists v. split; [exact H1|]. rewrite H2. left. reflexivity.
Qed.

Lemma name_verdict_in anc d x :
  In x (name_verdict anc d) <-> exists cls, R_name anc d cls /\ x = mkDiag cls WARNING (name_rng d cls) [].
Proof.
  unfold name_verdict. rewrite in_flat_map. split.
  - intros (cls & _ & H). destruct (R_nameb anc d cls) eqn:E; [|destruct H]. destruct H as [<-|[]].
    exists cls. split; [apply R_nameb_spec; exact E | reflexivity].
  - intros (cls & H & ->). exists cls. split.
    + destruct cls; cbn [R_name] in H; try destruct H; unfold name_classes; cbn; tauto.
    + apply R_nameb_spec in H. rewrite H. left. reflexivity.
Qed.
