(* Well-formedness of the parser model: for every parser of the grammar, on every input and every
   context whose cache is well-formed, the outcome is never a panic and never fuel exhaustion,
   the remaining input (or the error position) is no longer than the input -- strictly shorter on
   success for the parsers that loops rely on -- and the cache stays well-formed.
   [W n s p]: the statement for inputs of length <= n, [s] = strict progress on success.
   This file: the combinators. *)
From GoldV Require Import Base Tokens Lexer AstKinds Tree Strings PComb Grammar.
From Coq Require Import Lia.

Arguments exp_token : simpl never.
Arguments exp_ident_with_value : simpl never.
Arguments add_diag : simpl never.
Arguments set_cache : simpl never.
Arguments get_cache : simpl never.
Arguments skip_after_error : simpl never.
Arguments diag_at : simpl never.
Arguments mk_binop : simpl never.
Arguments empty_after_dot : simpl never.

Definition res_ok {A} (s : bool) (n : nat) (r : res A) : Prop :=
  match r with
  | Ok rest _ => if s then (length rest < n)%nat else (length rest <= n)%nat
  | Err e _ => (length e <= n)%nat
  | Panic _ => False
  | NoFuel => False
  end.

(* every stored result is a strict success or an error, relative to the length it is stored under *)
Definition CacheOK (c : ctx) : Prop :=
  forall k n r, cache_find k n (ccache c) = Some r -> res_ok true (N.to_nat n) r.

Definition W (n : nat) (s : bool) {A} (p : P A) : Prop :=
  forall i c, CacheOK c -> (length i <= n)%nat ->
    res_ok s (length i) (fst (p i c)) /\ CacheOK (snd (p i c)).

Lemma res_ok_weaken {A} s n (r : res A) : res_ok s n r -> res_ok false n r.
Proof. destruct r, s; simpl; auto; lia. Qed.

Lemma W_weaken {A} n s (p : P A) : W n s p -> W n false p.
Proof. intros H i c Hc Hi. destruct (H i c Hc Hi) as [H1 H2]. split; [eapply res_ok_weaken; eauto|auto]. Qed.

Lemma W_mono {A} n m s (p : P A) : (m <= n)%nat -> W n s p -> W m s p.
Proof. intros Hm H i c Hc Hi. apply H; auto; lia. Qed.

Lemma W_any {A} n s (p : P A) : W n true p -> W n s p.
Proof. destruct s; [auto|apply W_weaken]. Qed.

(* ---------- context operations ---------- *)

Lemma CacheOK_add_diag d c : CacheOK c -> CacheOK (add_diag d c).
Proof. intros H k n r. unfold add_diag. simpl. apply H. Qed.

Lemma CacheOK_clear c : CacheOK (clear_cache c).
Proof. intros k n r. simpl. discriminate. Qed.

Lemma CacheOK_ctx0 m : CacheOK (ctx0 m).
Proof. intros k n r. simpl. discriminate. Qed.

Lemma CacheOK_set k n r c : CacheOK c -> res_ok true (N.to_nat n) r -> CacheOK (set_cache k n r c).
Proof.
  intros H Hr k' n' r'. unfold set_cache; simpl. destruct (cmemo c); [|apply H].
  simpl. destruct ((k' =? k) && (n' =? n)) eqn:E; [|apply H].
  intro Heq; inversion Heq; subst. apply andb_true_iff in E as [_ E]. apply N.eqb_eq in E. subst. exact Hr.
Qed.

Lemma get_cache_ok k n c r : CacheOK c -> get_cache k n c = Some r -> res_ok true (N.to_nat n) r.
Proof. unfold get_cache. destruct (cmemo c); [|discriminate]. intros H. apply H. Qed.

(* ---------- monad ---------- *)

Lemma W_ret {A} n (a : A) : W n false (ret a).
Proof. intros i c Hc Hi. simpl. auto. Qed.

Lemma W_fail {A} n s m : W n s (@fail A m).
Proof. intros i c Hc Hi. simpl. auto. Qed.

Lemma W_panic_never {A} n s (site : N) : False -> W n s (fun i c => (@Panic A site, c)).
Proof. tauto. Qed.

(* after a strict step the continuation only needs a smaller bound *)
Lemma W_bind_strict {A B} n s2 (p : P A) (k : A -> P B) :
  W n true p -> (forall a m, (m < n)%nat -> W m s2 (k a)) -> W n true (bind p k).
Proof.
  intros Hp Hk i c Hc Hi. unfold bind. destruct (Hp i c Hc Hi) as [H1 H2].
  destruct (p i c) as [[r a|e m|s|] c']; simpl in *; auto; try tauto.
  assert (length r < n)%nat as Hr by lia.
  destruct (Hk a (length r) Hr r c' H2 (le_n _)) as [H3 H4].
  split; [|exact H4].
  destruct (k a r c') as [[r2 b|e2 m2|s2'|] c2]; simpl in *; auto.
  - destruct s2; lia.
  - lia.
Qed.

Lemma W_bind {A B} n s2 (p : P A) (k : A -> P B) :
  W n false p -> (forall a, W n s2 (k a)) -> W n s2 (bind p k).
Proof.
  intros Hp Hk i c Hc Hi. unfold bind. destruct (Hp i c Hc Hi) as [H1 H2].
  destruct (p i c) as [[r a|e m|s|] c']; simpl in *; auto; try tauto.
  - assert (length r <= n)%nat as Hr by lia.
    destruct (Hk a r c' H2 Hr) as [H3 H4]. split; [|exact H4].
    destruct (k a r c') as [[r2 b|e2 m2|s2'|] c2]; simpl in *; auto.
    + destruct s2; lia.
    + lia.
Qed.

(* the same with a postcondition on the value the first parser returns *)
Definition Returns {A} (p : P A) (Post : A -> Prop) : Prop :=
  forall i c r a c', p i c = (Ok r a, c') -> Post a.

Lemma W_bind_strict_post {A B} n s2 (p : P A) (k : A -> P B) (Post : A -> Prop) :
  W n true p -> Returns p Post -> (forall a m, (m < n)%nat -> Post a -> W m s2 (k a)) -> W n true (bind p k).
Proof.
  intros Hp HR Hk i c Hc Hi. unfold bind. destruct (Hp i c Hc Hi) as [H1 H2].
  destruct (p i c) as [[r a|e m|s|] c'] eqn:E; simpl in *; auto; try tauto.
  assert (length r < n)%nat as Hr by lia.
  destruct (Hk a (length r) Hr (HR _ _ _ _ _ E) r c' H2 (le_n _)) as [H3 H4].
  split; [|exact H4].
  destruct (k a r c') as [[r2 b|e2 m2|s2'|] c2]; simpl in *; auto.
  - destruct s2; lia.
  - lia.
Qed.

(* strict continuation after a weak first step *)
Lemma W_bind_then_strict {A B} n (p : P A) (k : A -> P B) :
  W n false p -> (forall a, W n true (k a)) -> W n true (bind p k).
Proof. apply W_bind. Qed.

Lemma W_prepend {A} n s pre (p : P A) : W n s p -> W n s (prepend pre p).
Proof.
  intros H i c Hc Hi. unfold prepend. destruct (H i c Hc Hi) as [H1 H2].
  destruct (p i c) as [[r a|e m|s'|] c']; simpl in *; auto.
Qed.

Lemma W_with_ctx n (f : ctx -> ctx) : (forall c, CacheOK c -> CacheOK (f c)) -> W n false (with_ctx f).
Proof. intros H i c Hc Hi. simpl. auto. Qed.

Lemma W_recover_at_error {A} n s (p : P A) : W n s p -> W n false (recover_at_error p).
Proof.
  intros H i c Hc Hi. unfold recover_at_error. destruct (H i c Hc Hi) as [H1 H2].
  destruct (p i c) as [[r a|e m|s'|] c']; simpl in *; try tauto;
    (split; [try (destruct s); lia|auto]).
Qed.

Lemma W_opt {A} n s (p : P A) : W n s p -> W n false (opt p).
Proof.
  intros H i c Hc Hi. unfold opt. destruct (H i c Hc Hi) as [H1 H2].
  destruct (p i c) as [[r a|e m|s'|] c']; simpl in *; try tauto;
    (split; [try (destruct s); lia|auto]).
Qed.

(* ---------- tokens ---------- *)

Lemma exp_token_go_ok ty orig l :
  match exp_token_go ty orig l with
  | Ok r _ => (length r < length l)%nat | Err e _ => e = orig | Panic _ => False | NoFuel => False end.
Proof.
  induction l as [|t l IH]; simpl; [reflexivity|].
  destruct (tt_eqb (tty t) ty); [simpl; lia|].
  destruct (is_comment t); [|reflexivity].
  destruct (exp_token_go ty orig l); simpl in *; auto; lia.
Qed.

Lemma W_exp_token n ty : W n true (exp_token ty).
Proof.
  intros i c Hc Hi. unfold exp_token. cbn [fst snd]. split; [|exact Hc].
  pose proof (exp_token_go_ok ty i i) as H.
  destruct (exp_token_go ty i i); simpl in *; auto. subst. lia.
Qed.

Lemma exp_ident_val_go_ok v orig l :
  match exp_ident_val_go v orig l with
  | Ok r _ => (length r < length l)%nat | Err e _ => e = orig | Panic _ => False | NoFuel => False end.
Proof.
  induction l as [|t l IH]; simpl; [reflexivity|].
  destruct (tt_eqb (tty t) TIdentifier && str_eqb (upper (tval t)) (upper v)); [simpl; lia|].
  destruct (is_comment t); [|reflexivity].
  destruct (exp_ident_val_go v orig l); simpl in *; auto; lia.
Qed.

Lemma W_exp_ident_with_value n v : W n true (exp_ident_with_value v).
Proof.
  intros i c Hc Hi. unfold exp_ident_with_value. cbn [fst snd]. split; [|exact Hc].
  pose proof (exp_ident_val_go_ok v i i) as H.
  destruct (exp_ident_val_go v i i); simpl in *; auto. subst. lia.
Qed.

Lemma take_until_go_len tys l acc :
  (length (fst (fst (take_until_go tys l acc))) <= length l)%nat.
Proof.
  revert acc; induction l as [|t l IH]; intro acc; simpl; [lia|].
  destruct (existsb (tt_eqb (tty t)) tys); simpl; [lia|]. specialize (IH (t :: acc)). lia.
Qed.

Lemma W_take_until n tys : W n false (take_until tys).
Proof.
  intros i c Hc Hi. unfold take_until. pose proof (take_until_go_len tys i []) as H.
  destruct (take_until_go tys i []) as [[rest body] term]. simpl in *. auto.
Qed.

(* ---------- alternatives ---------- *)

Lemma W_alt_go {A} n s (ps : list (P A)) : Forall (W n s) ps ->
  forall best, (ps <> [] \/ best <> None) ->
  forall i c, CacheOK c -> (length i <= n)%nat ->
    (match best with Some (e, _) => (length e <= length i)%nat | None => True end) ->
    res_ok s (length i) (fst (alt_go ps best i c)) /\ CacheOK (snd (alt_go ps best i c)).
Proof.
  induction 1 as [|p ps Hp Hps IH]; intros best Hne i c Hc Hi Hb; simpl.
  - destruct best as [[e m]|]; simpl; [auto|]. destruct Hne; congruence.
  - destruct (Hp i c Hc Hi) as [H1 H2].
    destruct (p i c) as [[r a|e m|s'|] c']; simpl in *; auto; try tauto.
    apply IH; auto.
    + right. destruct best as [[be bm]|]; [destruct (ilen e <? ilen be)|]; discriminate.
    + destruct best as [[be bm]|]; [destruct (ilen e <? ilen be)|]; auto.
Qed.

Lemma W_alt {A} n s (ps : list (P A)) : ps <> [] -> Forall (W n s) ps -> W n s (alt ps).
Proof. intros Hne H i c Hc Hi. unfold alt. apply (W_alt_go n s ps H None); auto. Qed.

(* ---------- sequences of tokens ---------- *)

Lemma W_seq_tokens_weak n tys : W n false (seq_tokens tys).
Proof.
  revert n. induction tys as [|ty tys IH]; intro n; simpl; [apply W_ret|].
  apply W_weaken with (s := true). apply W_bind_strict with (s2 := false); [apply W_exp_token|].
  intros t m Hm. apply W_bind with (s2 := false); [apply IH|]. intro ts. apply W_ret.
Qed.

Lemma W_seq_tokens n ty tys : W n true (seq_tokens (ty :: tys)).
Proof.
  simpl. apply W_bind_strict with (s2 := false); [apply W_exp_token|].
  intros t m Hm. apply W_bind with (s2 := false); [apply W_seq_tokens_weak|]. intro ts. apply W_ret.
Qed.

Lemma seq_tokens_len tys : Returns (seq_tokens tys) (fun ts => length ts = length tys).
Proof.
  induction tys as [|ty tys IH]; intros i c r ts c' H; simpl in H.
  - unfold ret in H. inversion H; reflexivity.
  - unfold bind in H. destruct (exp_token ty i c) as [[r1 t|e m|s|] c1]; try discriminate.
    destruct (seq_tokens tys r1 c1) as [[r2 ts2|e m|s|] c2] eqn:E; try discriminate.
    unfold ret in H. inversion H; subst. simpl. f_equal. eapply IH. exact E.
Qed.

Lemma W_sep_tokens_go n item sep fuel : forall acc i c, CacheOK c -> (length i <= n)%nat -> (length i < fuel)%nat ->
  res_ok true (length i) (fst (sep_tokens_go fuel item sep acc i c)) /\
  CacheOK (snd (sep_tokens_go fuel item sep acc i c)).
Proof.
  induction fuel as [|f IH]; intros acc i c Hc Hi Hf; [lia|]. cbn [sep_tokens_go sep_list_rec repeat_go until_go until_strict_go until_no_match_go binops_go].
  destruct (W_exp_token n item i c Hc Hi) as [H1 H2].
  destruct (exp_token item i c) as [[r t|e m|s|] c1]; cbn [fst snd res_ok length] in *; auto; try tauto.
  assert (length r <= n)%nat as Hr by lia.
  destruct (W_exp_token n sep r c1 H2 Hr) as [H3 H4].
  destruct (exp_token sep r c1) as [[r2 t2|e2 m2|s2|] c2]; cbn [fst snd res_ok length] in *; auto; try tauto.
  - destruct (IH (t :: acc) r2 c2 H4) as [H5 H6]; try lia. split; [|exact H6].
    destruct (sep_tokens_go f item sep (t :: acc) r2 c2) as [[r3 a3|e3 m3|s3|] c3]; cbn [fst snd res_ok length] in *; auto; lia.
  - split; [lia|auto].
Qed.

Lemma W_sep_tokens n item sep : W n true (sep_tokens item sep).
Proof. intros i c Hc Hi. unfold sep_tokens. apply (W_sep_tokens_go n); auto. Qed.

(* ---------- lists with error recovery ---------- *)

Lemma W_sep_list_rec {A} n s (p : P A) sep : W n s p -> forall fuel prev acc i c,
  CacheOK c -> (length i <= n)%nat -> (length i < fuel)%nat ->
  res_ok false (length i) (fst (sep_list_rec fuel p sep prev acc i c)) /\
  CacheOK (snd (sep_list_rec fuel p sep prev acc i c)).
Proof.
  intros Hp. induction fuel as [|f IH]; intros prev acc i c Hc Hi Hf; [lia|]. cbn [sep_tokens_go sep_list_rec repeat_go until_go until_strict_go until_no_match_go binops_go].
  destruct (Hp i c Hc Hi) as [H1 H2].
  destruct (p i c) as [[r a|e m|s'|] c1]; cbn [fst snd res_ok length] in *; auto; try tauto.
  - assert (length r <= length i)%nat as Hr by (destruct s; lia).
    destruct (W_exp_token n sep r c1 H2) as [H3 H4]; [lia|].
    destruct (exp_token sep r c1) as [[r2 t2|e2 m2|s2|] c2]; cbn [fst snd res_ok length] in *; auto; try tauto.
    + destruct (IH t2 (a :: acc) r2 c2 H4) as [H5 H6]; try lia. split; [|exact H6].
      destruct (sep_list_rec f p sep t2 (a :: acc) r2 c2) as [[r3 a3|e3 m3|s3|] c3]; cbn [fst snd res_ok length] in *; auto; lia.
    + split; [lia|auto].
  - pose proof (CacheOK_add_diag (mkDiag (new_range (range_or i (trange prev)) (range_or e (range_or i (trange prev)))) m) c1 H2) as H2'.
    destruct (W_exp_token n sep e _ H2') as [H3 H4]; [lia|].
    destruct (exp_token sep e _) as [[r2 t2|e2 m2|s2|] c2]; cbn [fst snd res_ok length] in *; auto; try tauto.
    + destruct (IH t2 acc r2 c2 H4) as [H5 H6]; try lia. split; [|exact H6].
      destruct (sep_list_rec f p sep t2 acc r2 c2) as [[r3 a3|e3 m3|s3|] c3]; cbn [fst snd res_ok length] in *; auto; lia.
    + split; [lia|auto].
Qed.

Lemma W_sep_list {A} n s (p : P A) sep : W n s p -> W n false (sep_list p sep).
Proof.
  intros Hp i c Hc Hi. unfold sep_list.
  destruct (Hp i c Hc Hi) as [H1 H2].
  destruct (p i c) as [[r a|e m|s'|] c1]; cbn [fst snd res_ok length] in *; auto; try tauto.
  assert (length r <= length i)%nat as Hr by (destruct s; lia).
  destruct (W_exp_token n sep r c1 H2) as [H3 H4]; [lia|].
  destruct (exp_token sep r c1) as [[r2 t2|e2 m2|s2|] c2]; cbn [fst snd res_ok length] in *; auto; try tauto.
  - destruct (W_sep_list_rec n s p sep Hp (S (length r2)) t2 [a] r2 c2 H4) as [H5 H6]; try lia.
    split; [|exact H6].
    destruct (sep_list_rec (S (length r2)) p sep t2 [a] r2 c2) as [[r3 a3|e3 m3|s3|] c3]; cbn [fst snd res_ok length] in *; auto; lia.
  - split; [lia|auto].
Qed.

(* ---------- loops ---------- *)

Lemma skip_after_error_len i e :
  i <> [] -> (length e <= length i)%nat -> (length (skip_after_error i e) < length i)%nat.
Proof.
  intros Hne He. unfold skip_after_error, ilen.
  destruct (N.of_nat (length e) =? N.of_nat (length i)) eqn:E.
  - apply N.eqb_eq in E. apply Nnat.Nat2N.inj in E. destruct e as [|t e']; simpl in *; [destruct i; [congruence|simpl in *; lia]|lia].
  - apply N.eqb_neq in E. assert (length e <> length i) by congruence. lia.
Qed.

Lemma W_repeat_go {A} n (p : P A) : W n true p -> forall fuel acc i c,
  CacheOK c -> (length i <= n)%nat -> (length i < fuel)%nat ->
  res_ok false (length i) (fst (repeat_go fuel p acc i c)) /\ CacheOK (snd (repeat_go fuel p acc i c)) /\
  match fst (repeat_go fuel p acc i c) with Ok r _ => r = [] | _ => True end.
Proof.
  intros Hp. induction fuel as [|f IH]; intros acc i c Hc Hi Hf; [lia|]. cbn [sep_tokens_go sep_list_rec repeat_go until_go until_strict_go until_no_match_go binops_go].
  destruct i as [|t i']; [cbn [fst snd res_ok length]; auto|].
  destruct (Hp (t :: i') c Hc Hi) as [H1 H2].
  destruct (p (t :: i') c) as [[r a|e m|s'|] c1]; cbn [fst snd res_ok length] in *; auto; try tauto.
  - destruct (IH (a :: acc) r c1 H2) as (H5 & H6 & H7); try lia. split; [|split; [exact H6|exact H7]].
    destruct (repeat_go f p (a :: acc) r c1) as [[r3 a3|e3 m3|s3|] c3]; cbn [fst snd res_ok length] in *; auto; lia.
  - pose proof (skip_after_error_len (t :: i') e ltac:(discriminate) H1) as Hs. simpl in Hs.
    destruct (IH acc (skip_after_error (t :: i') e) _ (CacheOK_add_diag (diag_at (t :: i') e m) c1 H2)) as (H5 & H6 & H7); try lia.
    split; [|split; [exact H6|exact H7]].
    destruct (repeat_go f p acc (skip_after_error (t :: i') e) (add_diag (diag_at (t :: i') e m) c1)) as [[r3 a3|e3 m3|s3|] c3];
      cbn [fst snd res_ok length] in *; auto; lia.
Qed.

Lemma W_repeat {A} n (p : P A) : W n true p -> W n false (repeat_w_ctx p).
Proof.
  intros Hp i c Hc Hi. unfold repeat_w_ctx.
  destruct (W_repeat_go n p Hp (S (length i)) [] i c Hc Hi) as (H1 & H2 & _); auto.
Qed.

(* repeat consumes everything and never fails *)
Lemma repeat_consumes_all {A} n (p : P A) : W n true p -> forall i c, CacheOK c -> (length i <= n)%nat ->
  exists a, fst (repeat_w_ctx p i c) = Ok [] a.
Proof.
  intros Hp i c Hc Hi. unfold repeat_w_ctx.
  destruct (W_repeat_go n p Hp (S (length i)) [] i c Hc Hi) as (H1 & H2 & H3); auto.
  assert (forall fuel acc i c, match fst (repeat_go fuel p acc i c) with Err _ _ => False | _ => True end) as NoErr.
  { clear. induction fuel as [|f IH]; intros acc i c; [simpl; auto|].
    cbn [repeat_go]. destruct i as [|t i']; [simpl; auto|].
    destruct (p (t :: i') c) as [[r a|e m|s'|] c1]; try apply IH; simpl; auto. }
  specialize (NoErr (S (length i)) [] i c).
  destruct (fst (repeat_go (S (length i)) p [] i c)) as [r a|e m|s|]; cbn [fst snd res_ok length] in *; try tauto.
  subst. eauto.
Qed.

Definition until_post {A} (n : nat) (r : res (list A * option tok)) : Prop :=
  match r with
  | Ok rest (_, Some _) => (length rest < n)%nat      (* a stop token was consumed *)
  | Ok rest (_, None) => rest = []                     (* ran to the end of the input *)
  | _ => True
  end.

Lemma W_until_go {A} n (stop : P tok) (p : P A) : W n true stop -> W n true p -> forall fuel acc i c,
  CacheOK c -> (length i <= n)%nat -> (length i < fuel)%nat ->
  res_ok false (length i) (fst (until_go fuel stop p acc i c)) /\ CacheOK (snd (until_go fuel stop p acc i c)) /\
  until_post (length i) (fst (until_go fuel stop p acc i c)).
Proof.
  intros Hs Hp. induction fuel as [|f IH]; intros acc i c Hc Hi Hf; [lia|].
  cbn [until_go].
  destruct i as [|t i']; [cbn [fst snd res_ok length until_post]; auto|].
  destruct (Hs (t :: i') c Hc Hi) as [S1 S2].
  destruct (stop (t :: i') c) as [[r0 t0|e0 m0|s0|] c0]; cbn [fst snd res_ok length until_post] in *; auto; try tauto.
  - split; [lia|auto].
  - destruct (Hp (t :: i') c0 S2 Hi) as [H1 H2].
    destruct (p (t :: i') c0) as [[r a|e m|s'|] c1]; cbn [fst snd res_ok length] in *; auto; try tauto.
    + destruct (IH (a :: acc) r c1 H2) as (H5 & H6 & H7); try lia. split; [|split; [exact H6|]].
      * destruct (until_go f stop p (a :: acc) r c1) as [[r3 a3|e3 m3|s3|] c3]; cbn [fst snd res_ok length] in *; auto; lia.
      * destruct (until_go f stop p (a :: acc) r c1) as [[r3 [l3 [t3|]]|e3 m3|s3|] c3]; cbn [fst snd until_post length] in *; auto; lia.
    + pose proof (skip_after_error_len (t :: i') e ltac:(discriminate) H1) as Hsk. cbn [length] in Hsk.
      destruct (IH acc (skip_after_error (t :: i') e) _ (CacheOK_add_diag (diag_at (t :: i') e m) c1 H2)) as (H5 & H6 & H7); try lia.
      split; [|split; [exact H6|]].
      * destruct (until_go f stop p acc (skip_after_error (t :: i') e) (add_diag (diag_at (t :: i') e m) c1)) as [[r3 a3|e3 m3|s3|] c3];
          cbn [fst snd res_ok length] in *; auto; lia.
      * destruct (until_go f stop p acc (skip_after_error (t :: i') e) (add_diag (diag_at (t :: i') e m) c1)) as [[r3 [l3 [t3|]]|e3 m3|s3|] c3];
          cbn [fst snd until_post length] in *; auto; lia.
Qed.

Lemma W_until {A} n (stop : P tok) (p : P A) : W n true stop -> W n true p -> W n false (until_w_ctx stop p).
Proof.
  intros Hs Hp i c Hc Hi. unfold until_w_ctx.
  destruct (W_until_go n stop p Hs Hp (S (length i)) [] i c Hc Hi) as (H1 & H2 & _); auto.
Qed.

Lemma until_w_ctx_post {A} n (stop : P tok) (p : P A) : W n true stop -> W n true p ->
  forall i c, CacheOK c -> (length i <= n)%nat -> until_post (length i) (fst (until_w_ctx stop p i c)).
Proof.
  intros Hs Hp i c Hc Hi. unfold until_w_ctx.
  destruct (W_until_go n stop p Hs Hp (S (length i)) [] i c Hc Hi) as (_ & _ & H3); auto.
Qed.

Lemma W_until_strict_go {A} n ss (stop : P tok) (p : P A) : W n ss stop -> W n true p -> forall fuel acc i c,
  CacheOK c -> (length i <= n)%nat -> (length i < fuel)%nat ->
  res_ok false (length i) (fst (until_strict_go fuel stop p acc i c)) /\ CacheOK (snd (until_strict_go fuel stop p acc i c)).
Proof.
  intros Hs Hp. induction fuel as [|f IH]; intros acc i c Hc Hi Hf; [lia|]. cbn [sep_tokens_go sep_list_rec repeat_go until_go until_strict_go until_no_match_go binops_go].
  destruct i as [|t i']; [cbn [fst snd res_ok length]; auto|].
  destruct (Hs (t :: i') c Hc Hi) as [S1 S2].
  destruct (stop (t :: i') c) as [[r0 t0|e0 m0|s0|] c0]; cbn [fst snd res_ok length] in *; auto; try tauto.
  - split; [destruct ss; lia|auto].
  - destruct (Hp (t :: i') c0 S2 Hi) as [H1 H2].
    destruct (p (t :: i') c0) as [[r a|e m|s'|] c1]; cbn [fst snd res_ok length] in *; auto; try tauto.
    destruct (IH (a :: acc) r c1 H2) as (H5 & H6); try lia. split; [|exact H6].
    destruct (until_strict_go f stop p (a :: acc) r c1) as [[r3 a3|e3 m3|s3|] c3]; cbn [fst snd res_ok length] in *; auto; lia.
Qed.

Lemma W_until_strict {A} n ss (stop : P tok) (p : P A) : W n ss stop -> W n true p -> W n false (until_strict stop p).
Proof. intros Hs Hp i c Hc Hi. unfold until_strict. eapply W_until_strict_go; eauto. Qed.

Lemma W_until_no_match_go {A} n (p : P A) : W n true p -> forall fuel acc i c,
  CacheOK c -> (length i <= n)%nat -> (length i < fuel)%nat ->
  res_ok false (length i) (fst (until_no_match_go fuel p acc i c)) /\ CacheOK (snd (until_no_match_go fuel p acc i c)).
Proof.
  intros Hp. induction fuel as [|f IH]; intros acc i c Hc Hi Hf; [lia|]. cbn [sep_tokens_go sep_list_rec repeat_go until_go until_strict_go until_no_match_go binops_go].
  destruct i as [|t i']; [cbn [fst snd res_ok length]; auto|].
  destruct (Hp (t :: i') c Hc Hi) as [H1 H2].
  destruct (p (t :: i') c) as [[r a|e m|s'|] c1]; cbn [fst snd res_ok length] in *; auto; try tauto.
  destruct (IH (a :: acc) r c1 H2) as (H5 & H6); try lia. split; [|exact H6].
  destruct (until_no_match_go f p (a :: acc) r c1) as [[r3 a3|e3 m3|s3|] c3]; cbn [fst snd res_ok length] in *; auto; lia.
Qed.

Lemma W_until_no_match {A} n (p : P A) : W n true p -> W n false (until_no_match p).
Proof. intros Hp i c Hc Hi. unfold until_no_match. eapply W_until_no_match_go; eauto. Qed.

(* ---------- memoisation ---------- *)

Lemma ilen_nat i : N.to_nat (ilen i) = length i.
Proof. unfold ilen. apply Nnat.Nat2N.id. Qed.

Lemma W_memo n k (p : P node) : W n true p -> W n true (memo k p).
Proof.
  intros Hp i c Hc Hi. unfold memo.
  destruct (get_cache k (ilen i) c) as [r|] eqn:E.
  - simpl. split; [|exact Hc]. pose proof (get_cache_ok _ _ _ _ Hc E) as H. rewrite ilen_nat in H. exact H.
  - destruct (Hp i c Hc Hi) as [H1 H2]. destruct (p i c) as [r c1]. cbn [fst snd res_ok length] in *.
    destruct r as [r a|e m|s|]; cbn [fst snd res_ok length] in *; try tauto.
    + split; [exact H1|]. apply CacheOK_set; [exact H2|]. rewrite ilen_nat. exact H1.
    + split; [exact H1|]. apply CacheOK_set; [exact H2|]. rewrite ilen_nat. exact H1.
Qed.

Lemma W_memo_ok_only n k (p : P node) : W n true p -> W n true (memo_ok_only k p).
Proof.
  intros Hp i c Hc Hi. unfold memo_ok_only.
  destruct (get_cache k (ilen i) c) as [r|] eqn:E.
  - simpl. split; [|exact Hc]. pose proof (get_cache_ok _ _ _ _ Hc E) as H. rewrite ilen_nat in H. exact H.
  - destruct (Hp i c Hc Hi) as [H1 H2]. destruct (p i c) as [r c1]. cbn [fst snd res_ok length] in *.
    destruct r as [r a|e m|s|]; cbn [fst snd res_ok length] in *; try tauto.
    split; [exact H1|]. apply CacheOK_set; [exact H2|]. rewrite ilen_nat. exact H1.
Qed.

(* ---------- binary operator chains ---------- *)

Lemma W_binops_go n (opp : P tok) (ep : P node) : W n true opp -> W n true ep ->
  forall fuel left i c, CacheOK c -> (length i <= n)%nat -> (length i < fuel)%nat ->
  res_ok false (length i) (fst (binops_go fuel opp ep left i c)) /\ CacheOK (snd (binops_go fuel opp ep left i c)).
Proof.
  intros Ho He. induction fuel as [|f IH]; intros left i c Hc Hi Hf; [lia|]. cbn [sep_tokens_go sep_list_rec repeat_go until_go until_strict_go until_no_match_go binops_go].
  destruct (Ho i c Hc Hi) as [O1 O2].
  destruct (opp i c) as [[r op|e0 m0|s0|] c1] eqn:Eo; cbn [fst snd res_ok length] in *; auto; try tauto.
  assert (length r <= n)%nat as Hr by lia.
  destruct (He r c1 O2 Hr) as [E1 E2].
  destruct (ep r c1) as [[r2 rn|e m|s'|] c2] eqn:Ee; cbn [fst snd res_ok length] in *; auto; try tauto.
  - destruct (IH (mk_binop op left rn) r2 c2 E2) as [H5 H6]; try lia. split; [|exact H6].
    destruct (binops_go f opp ep (mk_binop op left rn) r2 c2) as [[r3 a3|e3 m3|s3|] c3]; cbn [fst snd res_ok length] in *; auto; lia.
  - destruct (tt_eqb (tty op) TDot); [|cbn [fst snd res_ok length]; auto].
    destruct (IH (mk_binop op left (empty_after_dot op e)) r c2 E2) as [H5 H6]; try lia. split; [|exact H6].
    destruct (binops_go f opp ep (mk_binop op left (empty_after_dot op e)) r c2) as [[r3 a3|e3 m3|s3|] c3]; cbn [fst snd res_ok length] in *; auto; lia.
Qed.

Lemma W_binops n (opp : P tok) (ep : P node) : W n true opp -> W n true ep -> W n true (binops opp ep).
Proof.
  intros Ho He i c Hc Hi. unfold binops.
  destruct (He i c Hc Hi) as [E1 E2].
  destruct (ep i c) as [[r ln|e m|s'|] c1]; cbn [fst snd res_ok length] in *; auto; try tauto.
  destruct (W_binops_go n opp ep Ho He (S (length r)) ln r c1 E2) as [H5 H6]; try lia. split; [|exact H6].
  destruct (binops_go (S (length r)) opp ep ln r c1) as [[r3 a3|e3 m3|s3|] c3]; cbn [fst snd res_ok length] in *; auto; lia.
Qed.

(* a parser run on a separate slice: it must not fail (its error position would be meaningless
   for the caller); the caller's position is kept *)
Definition NoErr {A} (p : P A) : Prop := forall i c, match fst (p i c) with Err _ _ => False | _ => True end.

Lemma W_on_slice {A} n m s (slice : input) (p : P A) :
  (length slice <= m)%nat -> W m s p -> NoErr p -> W n false (on_slice slice p).
Proof.
  intros Hs Hp Hn i c Hc Hi. unfold on_slice.
  destruct (Hp slice c Hc Hs) as [H1 H2]. specialize (Hn slice c).
  destruct (p slice c) as [[r a|e m'|s'|] c1]; cbn [fst snd res_ok length] in *; auto; tauto.
Qed.

(* ---------- value postconditions relative to the input bound ---------- *)
Definition ReturnsN {A} (n : nat) (p : P A) (Post : A -> Prop) : Prop :=
  forall i c r a c', (length i <= n)%nat -> p i c = (Ok r a, c') -> Post a.

Lemma W_bind_postN {A B} n s2 (p : P A) (k : A -> P B) (Post : A -> Prop) :
  W n false p -> ReturnsN n p Post -> (forall a, Post a -> W n s2 (k a)) -> W n s2 (bind p k).
Proof.
  intros Hp HR Hk i c Hc Hi. unfold bind. destruct (Hp i c Hc Hi) as [H1 H2].
  destruct (p i c) as [[r a|e m|s|] c'] eqn:E; simpl in *; auto; try tauto.
  assert (length r <= n)%nat as Hr by lia.
  destruct (Hk a (HR _ _ _ _ _ Hi E) r c' H2 Hr) as [H3 H4]. split; [|exact H4].
  destruct (k a r c') as [[r2 b|e2 m2|s2'|] c2]; simpl in *; auto.
  - destruct s2; lia.
  - lia.
Qed.

Lemma take_until_go_body_len tys l acc :
  (length (snd (fst (take_until_go tys l acc))) <= length l + length acc)%nat.
Proof.
  revert acc; induction l as [|t l IH]; intro acc; simpl.
  - rewrite rev_length. lia.
  - destruct (existsb (tt_eqb (tty t)) tys); simpl.
    + rewrite rev_length. lia.
    + specialize (IH (t :: acc)). simpl in IH. lia.
Qed.

Lemma take_until_body_len n tys : ReturnsN n (take_until tys) (fun a => (length (fst a) <= n)%nat).
Proof.
  intros i c r a c' Hi H. unfold take_until in H.
  pose proof (take_until_go_body_len tys i []) as Hl.
  destruct (take_until_go tys i []) as [[rest body] term]. inversion H; subst. simpl in *. lia.
Qed.

(* ---------- parsers that cannot fail ---------- *)
Lemma NoErr_ret {A} (a : A) : NoErr (ret a).
Proof. intros i c. exact I. Qed.
Lemma NoErr_with_ctx f : NoErr (with_ctx f).
Proof. intros i c. exact I. Qed.
Lemma NoErr_bind {A B} (p : P A) (k : A -> P B) : NoErr p -> (forall a, NoErr (k a)) -> NoErr (bind p k).
Proof.
  intros Hp Hk i c. unfold bind. specialize (Hp i c).
  destruct (p i c) as [[r a|e m|s|] c']; simpl in *; auto. apply Hk.
Qed.
Lemma NoErr_repeat {A} (p : P A) : NoErr (repeat_w_ctx p).
Proof.
  intros i c. unfold repeat_w_ctx. generalize (S (length i)) as fuel. generalize (@nil A) as acc.
  intros acc fuel. revert acc i c. induction fuel as [|f IH]; intros acc i c; [exact I|].
  cbn [repeat_go]. destruct i as [|t i']; [exact I|].
  destruct (p (t :: i') c) as [[r a|e m|s'|] c1]; try apply IH; exact I.
Qed.
