(* C15 / C16, assembled response: a syntax tree of the REAL parser (dump of harness/src/eng_report.rs through
   tools/dump2coq.py) and the parser diagnostics of the same document, used by the non-vacuity examples of
   Properties/C15.v and Properties/C16.v.  Definitions only.
   source text (aCase.god):
     class aCase(aRoot)
     const Bad = 1
     type Bad2 : int4
     fld : int4
     func init(bad : int4) return Text
       var Vx : tVarByteArray
       var y : int4
       var y : int4
       var z : int4
     endfunc
     proc Work
       var k : int4
       var v : tVarByteArray
       Purge(v)
     endproc
     proc P(
   real response (harness engine `report`; sev, tags, range, message):
     1 - 15:0-15:7  Failed to parse param list decl: Unexpected EOF
     1 1 7:6-7:7  Var name already declared
     2 1 5:6-5:8  Unused var: Vx
     2 1 6:6-6:7  Unused var: y
     2 1 8:6-8:7  Unused var: z
     2 1 11:6-11:7  Unused var: k
     2 - 4:29-4:33  Text type should not be returned by functions, pass it as inout/var param instead
     2 - 1:6-1:9  Constant names should start with c, e.g. cSomeConstant
     2 - 2:5-2:9  Type names should start with t, e.g. tSomeType
     2 - 3:0-3:3  Field names should have capital first letter
     2 - 5:6-5:8  Local tVarByteArray 'Vx' is not purged
     2 - 4:5-4:9  Function names should have capital first letter
     2 - 4:5-4:9  Method 'init' should call its inherited implem.
     2 - 4:10-4:13  Parameter names should have capital first letter
     2 - 5:6-5:8  Local variable names should have lowercase first letter
*)
From GoldV Require Import Base Tokens Lexer AstKinds Tree Report.

(* real parser, text: 'class aCase(aRoot)\nconst Bad = 1\ntype Bad2 : int4\nfld : int4\nfunc init(bad : int4) return Text\n  var Vx : tVarByteArray\n  var y : int4\n  var y : int4\n  var z : int4\nendfunc\nproc Work\n  var k : int4\n  var v : tVarByteArray\n  Purge(v)\nendproc\nproc P(\n' *)
Definition w_resp_0 : node :=
  Node KAstClass [97;67;97;115;101] 0 (mkRange (mkPos 0 0) (mkPos 0 18)) [(1, AT (mkTok 6 (mkRange (mkPos 0 6) (mkPos 0 11)) TIdentifier [97;67;97;115;101])); (2, AL [(mkTok 12 (mkRange (mkPos 0 12) (mkPos 0 17)) TIdentifier [97;82;111;111;116])])] [].

Definition w_resp_1 : node :=
  Node KAstConstantDeclaration [66;97;100] 19 (mkRange (mkPos 1 0) (mkPos 1 13)) [(1, AT (mkTok 25 (mkRange (mkPos 1 6) (mkPos 1 9)) TIdentifier [66;97;100])); (6, AN 0); (7, AL [(mkTok 31 (mkRange (mkPos 1 12) (mkPos 1 13)) TNumericLiteral [49])])] [].

Definition w_resp_2 : node :=
  Node KAstTypeDeclaration [66;97;100;50] 33 (mkRange (mkPos 2 0) (mkPos 2 16)) [(1, AT (mkTok 38 (mkRange (mkPos 2 5) (mkPos 2 9)) TIdentifier [66;97;100;50]))] [
    Node KAstTypeBasic [105;110;116;52] 45 (mkRange (mkPos 2 12) (mkPos 2 16)) [(0, AT (mkTok 45 (mkRange (mkPos 2 12) (mkPos 2 16)) TIdentifier [105;110;116;52]))] []].

Definition w_resp_3 : node :=
  Node KAstGlobalVariableDeclaration [102;108;100] 50 (mkRange (mkPos 3 0) (mkPos 3 10)) [(1, AT (mkTok 50 (mkRange (mkPos 3 0) (mkPos 3 3)) TIdentifier [102;108;100])); (6, AN 0)] [
    Node KAstTypeBasic [105;110;116;52] 56 (mkRange (mkPos 3 6) (mkPos 3 10)) [(0, AT (mkTok 56 (mkRange (mkPos 3 6) (mkPos 3 10)) TIdentifier [105;110;116;52]))] []].

Definition w_resp_4 : node :=
  Node KAstFunction [105;110;105;116] 61 (mkRange (mkPos 4 0) (mkPos 9 7)) [(5, AL [(mkTok 165 (mkRange (mkPos 9 0) (mkPos 9 7)) TEndFunc [101;110;100;102;117;110;99])]); (6, AN 0)] [
    Node KAstTerminal [105;110;105;116] 66 (mkRange (mkPos 4 5) (mkPos 4 9)) [(0, AT (mkTok 66 (mkRange (mkPos 4 5) (mkPos 4 9)) TIdentifier [105;110;105;116]))] [];
    Node KAstTypeBasic [84;101;120;116] 90 (mkRange (mkPos 4 29) (mkPos 4 33)) [(0, AT (mkTok 90 (mkRange (mkPos 4 29) (mkPos 4 33)) TIdentifier [84;101;120;116]))] [];
    Node KAstParameterDeclarationList [112;97;114;97;109;95;100;101;99;108;115] 70 (mkRange (mkPos 4 9) (mkPos 4 21)) [] [
      Node KAstParameterDeclaration [98;97;100] 71 (mkRange (mkPos 4 10) (mkPos 4 20)) [(1, AT (mkTok 71 (mkRange (mkPos 4 10) (mkPos 4 13)) TIdentifier [98;97;100])); (7, AL [])] [
        Node KAstTypeBasic [105;110;116;52] 77 (mkRange (mkPos 4 16) (mkPos 4 20)) [(0, AT (mkTok 77 (mkRange (mkPos 4 16) (mkPos 4 20)) TIdentifier [105;110;116;52]))] []]];
    Node KAstMethodBody [109;101;116;104;111;100;95;98;111;100;121] 97 (mkRange (mkPos 5 2) (mkPos 8 14)) [] [
      Node KAstLocalVariableDeclaration [86;120] 97 (mkRange (mkPos 5 2) (mkPos 5 24)) [(1, AT (mkTok 101 (mkRange (mkPos 5 6) (mkPos 5 8)) TIdentifier [86;120]))] [
        Node KAstTypeBasic [116;86;97;114;66;121;116;101;65;114;114;97;121] 106 (mkRange (mkPos 5 11) (mkPos 5 24)) [(0, AT (mkTok 106 (mkRange (mkPos 5 11) (mkPos 5 24)) TIdentifier [116;86;97;114;66;121;116;101;65;114;114;97;121]))] []];
      Node KAstLocalVariableDeclaration [121] 122 (mkRange (mkPos 6 2) (mkPos 6 14)) [(1, AT (mkTok 126 (mkRange (mkPos 6 6) (mkPos 6 7)) TIdentifier [121]))] [
        Node KAstTypeBasic [105;110;116;52] 130 (mkRange (mkPos 6 10) (mkPos 6 14)) [(0, AT (mkTok 130 (mkRange (mkPos 6 10) (mkPos 6 14)) TIdentifier [105;110;116;52]))] []];
      Node KAstLocalVariableDeclaration [121] 137 (mkRange (mkPos 7 2) (mkPos 7 14)) [(1, AT (mkTok 141 (mkRange (mkPos 7 6) (mkPos 7 7)) TIdentifier [121]))] [
        Node KAstTypeBasic [105;110;116;52] 145 (mkRange (mkPos 7 10) (mkPos 7 14)) [(0, AT (mkTok 145 (mkRange (mkPos 7 10) (mkPos 7 14)) TIdentifier [105;110;116;52]))] []];
      Node KAstLocalVariableDeclaration [122] 152 (mkRange (mkPos 8 2) (mkPos 8 14)) [(1, AT (mkTok 156 (mkRange (mkPos 8 6) (mkPos 8 7)) TIdentifier [122]))] [
        Node KAstTypeBasic [105;110;116;52] 160 (mkRange (mkPos 8 10) (mkPos 8 14)) [(0, AT (mkTok 160 (mkRange (mkPos 8 10) (mkPos 8 14)) TIdentifier [105;110;116;52]))] []]]].

Definition w_resp_5 : node :=
  Node KAstProcedure [87;111;114;107] 173 (mkRange (mkPos 10 0) (mkPos 14 7)) [(5, AL [(mkTok 233 (mkRange (mkPos 14 0) (mkPos 14 7)) TEndProc [101;110;100;112;114;111;99])]); (6, AN 0)] [
    Node KAstTerminal [87;111;114;107] 178 (mkRange (mkPos 10 5) (mkPos 10 9)) [(0, AT (mkTok 178 (mkRange (mkPos 10 5) (mkPos 10 9)) TIdentifier [87;111;114;107]))] [];
    Node KAstMethodBody [109;101;116;104;111;100;95;98;111;100;121] 185 (mkRange (mkPos 11 2) (mkPos 13 10)) [] [
      Node KAstLocalVariableDeclaration [107] 185 (mkRange (mkPos 11 2) (mkPos 11 14)) [(1, AT (mkTok 189 (mkRange (mkPos 11 6) (mkPos 11 7)) TIdentifier [107]))] [
        Node KAstTypeBasic [105;110;116;52] 193 (mkRange (mkPos 11 10) (mkPos 11 14)) [(0, AT (mkTok 193 (mkRange (mkPos 11 10) (mkPos 11 14)) TIdentifier [105;110;116;52]))] []];
      Node KAstLocalVariableDeclaration [118] 200 (mkRange (mkPos 12 2) (mkPos 12 23)) [(1, AT (mkTok 204 (mkRange (mkPos 12 6) (mkPos 12 7)) TIdentifier [118]))] [
        Node KAstTypeBasic [116;86;97;114;66;121;116;101;65;114;114;97;121] 208 (mkRange (mkPos 12 10) (mkPos 12 23)) [(0, AT (mkTok 208 (mkRange (mkPos 12 10) (mkPos 12 23)) TIdentifier [116;86;97;114;66;121;116;101;65;114;114;97;121]))] []];
      Node KAstMethodCall [80;117;114;103;101] 224 (mkRange (mkPos 13 2) (mkPos 13 10)) [] [
        Node KAstTerminal [118] 230 (mkRange (mkPos 13 8) (mkPos 13 9)) [(0, AT (mkTok 230 (mkRange (mkPos 13 8) (mkPos 13 9)) TIdentifier [118]))] []]]].

Definition w_resp : node :=
  Node KAstRoot [] 0 (mkRange (mkPos 0 0) (mkPos 0 0)) [] [
    w_resp_0;
    w_resp_1;
    w_resp_2;
    w_resp_3;
    w_resp_4;
    w_resp_5].

(* the document's parser diagnostics: "Failed to parse param list decl: Unexpected EOF" *)
Definition w_resp_pd : list pdiag :=
  [mkPD (mkRange (mkPos 15 0) (mkPos 15 7)) [70;97;105;108;101;100;32;116;111;32;112;97;114;115;101;32;112;97;114;97;109;32;108;105;115;116;32;100;101;99;108;58;32;85;110;101;120;112;101;99;116;101;100;32;69;79;70]].
