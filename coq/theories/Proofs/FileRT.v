(* C06: the file round trip for the entry point the code runs.
   DeclRT.file_roundtrip is about the un-memoised parser at a fuel above the derivation level;
   FuelIndep.parse_gold_fuel_indep (the memo simulation of C07 at two fuel levels) removes both
   restrictions: any fuel above the number of tokens, memoisation on or off -- in particular
   parse_gold itself. *)
From GoldV Require Import Base Tokens Lexer AstKinds Tree Strings PComb Grammar RTComb ExprRT StmtRT DeclRT FuelIndep.
From Coq Require Import Lia.

Theorem file_roundtrip_any f ts ns : Decls f ts ns ->
  forall memo fuel, (length ts < fuel)%nat ->
    fst (parse_gold_with memo fuel ts) = Ok [] (mk_root ns) /\ cdiags (snd (parse_gold_with memo fuel ts)) = [].
Proof.
  intros H memo fuel Hf.
  destruct (file_roundtrip f (S (Nat.max f (length ts))) ts ns H ltac:(lia)) as (c & E & Hd).
  apply (parse_gold_clean_indep false memo (S (Nat.max f (length ts))) fuel ts); [lia|exact Hf| |].
  - rewrite E. reflexivity.
  - rewrite E. exact Hd.
Qed.

Theorem file_roundtrip_parse_gold f ts ns : Decls f ts ns ->
  fst (parse_gold ts) = Ok [] (mk_root ns) /\ cdiags (snd (parse_gold ts)) = [].
Proof.
  intro H. unfold parse_gold. apply (file_roundtrip_any f ts ns H). unfold default_fuel. lia.
Qed.
